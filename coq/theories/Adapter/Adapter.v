(* Model of golem/core/adapter/{adapter,nx_adapter,adapt_registry}.py.  Definitions only
   (proofs: AdapterProofs.v, statements: Properties/C18.v).

   Part 1  plain Python values with identities on the mutable containers, attribute dicts
   Part 2  NetworkX digraph and internal (opt) graph, the generic _adapt / _restore of
           BaseNetworkxAdapter (parameterised by _node_adapt / _node_restore), its two
           instances (BaseNetworkxAdapter, DumbNetworkxAdapter), DirectAdapter, IdentityAdapter
   Part 3  the values that flow through wrapped functions, adapt / restore type dispatch,
           _transform, adapt_func / restore_func
   Part 4  AdaptRegistry: _get_underlying_func, is_native, register / unregister
   Part 5  executable oracles used by the harness : agree_xxx and holds_xxx

   Identities.  Every mutable Python object the property talks about carries a natural number
   (its identity).  Objects allocated during a call get identities in regions beyond a bound
   n0 that exceeds every live identity: copy.deepcopy maps identity i to n0 + i ("allocation of
   an isomorphic fresh sub-heap"), node objects created for a cell i get 2*n0 + i, parent lists
   3*n0 + i, attribute dicts created by nx add_node 2*n0 + i.  uuid4 is a counter u0. *)
From Coq Require Import List String Ascii ZArith Bool Arith Lia DecimalString.
Import ListNotations.

(* ------------------------------------------------------------------------------------ *)
(* Part 1: values                                                                        *)
(* ------------------------------------------------------------------------------------ *)
Inductive value :=
| PNone
| PBool (b : bool)
| PInt (z : Z)
| PStr (s : string)
| PList (id : nat) (items : list value)
| PDict (id : nat) (items : list (string * value)).

Definition attrs := list (string * value).

(* Python == on these values (container identities are irrelevant; nested dicts are compared
   in order, which is finer than Python and suffices because deepcopy keeps the order) *)
Fixpoint veqb (a b : value) : bool :=
  match a, b with
  | PNone, PNone => true
  | PBool x, PBool y => Bool.eqb x y
  | PInt x, PInt y => Z.eqb x y
  | PStr x, PStr y => String.eqb x y
  | PList _ l, PList _ r =>
      (fix go (l r : list value) := match l, r with
        | [], [] => true
        | x :: l', y :: r' => veqb x y && go l' r'
        | _, _ => false end) l r
  | PDict _ l, PDict _ r =>
      (fix go (l r : list (string * value)) := match l, r with
        | [], [] => true
        | (k, x) :: l', (k', y) :: r' => String.eqb k k' && veqb x y && go l' r'
        | _, _ => false end) l r
  | _, _ => false
  end.

(* copy.deepcopy: same structure, every container identity moved into the fresh region *)
Fixpoint shift (n : nat) (v : value) : value :=
  match v with
  | PList i l => PList (n + i) (map (shift n) l)
  | PDict i l => PDict (n + i) (map (fun kv => (fst kv, shift n (snd kv))) l)
  | _ => v
  end.

Definition shift_attrs (n : nat) (a : attrs) : attrs := map (fun kv => (fst kv, shift n (snd kv))) a.

(* identities of all mutable containers inside a value *)
Fixpoint vids (v : value) : list nat :=
  match v with
  | PList i l => i :: flat_map vids l
  | PDict i l => i :: flat_map (fun kv => vids (snd kv)) l
  | _ => []
  end.

Definition attrs_ids (a : attrs) : list nat := flat_map (fun kv => vids (snd kv)) a.

Fixpoint lookup (k : string) (a : attrs) : option value :=
  match a with
  | [] => None
  | (k', v) :: r => if String.eqb k k' then Some v else lookup k r
  end.

(* dict.pop(k) *)
Fixpoint remove_key (k : string) (a : attrs) : attrs :=
  match a with
  | [] => []
  | (k', v) :: r => if String.eqb k k' then r else (k', v) :: remove_key k r
  end.

(* d[k] = v : in place when the key exists, appended otherwise *)
Fixpoint set_key (k : string) (v : value) (a : attrs) : attrs :=
  match a with
  | [] => [(k, v)]
  | (k', v') :: r => if String.eqb k k' then (k, v) :: r else (k', v') :: set_key k v r
  end.

Definition oveqb (a b : option value) : bool :=
  match a, b with
  | None, None => true
  | Some x, Some y => veqb x y
  | _, _ => false
  end.

(* Python == on (top-level) attribute dicts: same keys, equal values, order irrelevant *)
Definition attrs_equiv (a b : attrs) : Prop := forall k, oveqb (lookup k a) (lookup k b) = true.

Definition attrs_eqb (a b : attrs) : bool :=
  Nat.eqb (List.length a) (List.length b) &&
  forallb (fun kv => oveqb (Some (snd kv)) (lookup (fst kv) b)) a &&
  forallb (fun kv => oveqb (lookup (fst kv) a) (Some (snd kv))) b.

Definition name_key : string := "name"%string.

(* str(x) for the values used as node names.  Containers never occur as names in the
   correspondence; their rendering is a placeholder. *)
Definition pystr (v : value) : string :=
  match v with
  | PNone => "None"%string
  | PBool true => "True"%string
  | PBool false => "False"%string
  | PInt z => NilEmpty.string_of_int (Z.to_int z)
  | PStr s => s
  | PList _ _ => "<list>"%string
  | PDict _ _ => "<dict>"%string
  end.

Definition str_nonempty (s : string) : bool := match s with EmptyString => false | _ => true end.

(* ------------------------------------------------------------------------------------ *)
(* Part 2: graphs                                                                        *)
(* ------------------------------------------------------------------------------------ *)
(* NetworkX node keys: user strings, or the uid strings produced by _restore (a uid is
   identified with the number of the uuid4 call that produced it) *)
Inductive key := KStr (s : string) | KUid (u : nat).

Definition key_eqb (a b : key) : bool :=
  match a, b with
  | KStr x, KStr y => String.eqb x y
  | KUid x, KUid y => Nat.eqb x y
  | _, _ => false
  end.

(* internal node (LinkedGraphNode):
   oid   identity of the node object (and of its content dict)
   ouid  node.uid
   ocls  class tag (0 = OptNode; DirectAdapter rewrites it)
   oname content.get('name')  (PNone when absent)
   oparams content.get('params') : absent, or a dict with its identity
   olid  identity of the _nodes_from UniqueList;  opar = uids of the parents, in list order *)
Record onode := mkN {
  oid : nat; ouid : nat; ocls : nat;
  oname : value; oparams : option (nat * attrs);
  olid : nat; opar : list nat }.

Definition optg := list onode.        (* graph.nodes, in order *)

(* node.name and node.parameters as the properties of LinkedGraphNode compute them *)
Definition node_name (nd : onode) : string :=
  match oname nd with PNone => EmptyString | v => pystr v end.
Definition node_params (nd : onode) : attrs :=
  match oparams nd with Some (_, a) => a | None => [] end.

Definition with_parents (lid : nat) (ps : list nat) (nd : onode) : onode :=
  mkN (oid nd) (ouid nd) (ocls nd) (oname nd) (oparams nd) lid ps.

Fixpoint memb (u : nat) (l : list nat) : bool :=
  match l with [] => false | x :: r => Nat.eqb u x || memb u r end.

(* UniqueList(iterable): first occurrences, in order *)
Fixpoint uniq_acc (seen l : list nat) : list nat :=
  match l with
  | [] => []
  | x :: r => if memb x seen then uniq_acc seen r else x :: uniq_acc (x :: seen) r
  end.
Definition uniq (l : list nat) : list nat := uniq_acc [] l.

Fixpoint find_node (ns : list onode) (u : nat) : option onode :=
  match ns with
  | [] => None
  | nd :: r => if Nat.eqb (ouid nd) u then Some nd else find_node r u
  end.

(* LinkedGraph.add_node: append the node unless present, then (recursively) its parents.
   fuel bounds the recursion depth; S (List.length ns) is always enough because every level of
   the recursion appends a node that was absent. *)
Fixpoint add_node (fuel : nat) (ns : list onode) (u : nat) (acc : list nat) : list nat :=
  match fuel with
  | O => acc
  | S f =>
      if memb u acc then acc
      else match find_node ns u with
           | None => acc
           | Some nd => fold_left (fun acc p => add_node f ns p acc) (opar nd) (acc ++ [u])
           end
  end.

(* LinkedGraph.__init__(nodes): add_node for each given node; result = uids in graph order *)
Definition graph_order (ns : list onode) : list nat :=
  fold_left (fun acc nd => add_node (S (List.length ns)) ns (ouid nd) acc) ns [].

Fixpoint filter_map {X Y} (f : X -> option Y) (l : list X) : list Y :=
  match l with
  | [] => []
  | x :: r => match f x with Some y => y :: filter_map f r | None => filter_map f r end
  end.

Definition mk_graph (ns : list onode) : optg := filter_map (find_node ns) (graph_order ns).

Fixpoint mapi_from {X Y} (i : nat) (f : nat -> X -> Y) (l : list X) : list Y :=
  match l with [] => [] | x :: r => f i x :: mapi_from (S i) f r end.

Section NxGeneric.
  (* A = what a NetworkX node carries (its attribute dict) *)
  Context {A : Type}.

  Record nxg := mkG { nodes : list (key * A); edges : list (key * key) }.

  Definition keys (G : nxg) : list key := map fst (nodes G).

  (* adaptee.predecessors(k): sources of the edges into k, in insertion order *)
  Definition preds (es : list (key * key)) (k : key) : list key :=
    map fst (filter (fun e => key_eqb (snd e) k) es).

  Fixpoint assoc {Y} (k : key) (m : list (key * Y)) : option Y :=
    match m with
    | [] => None
    | (k', y) :: r => if key_eqb k k' then Some y else assoc k r
    end.

  Definition uid_of_key (m : list (key * onode)) (k : key) : option nat :=
    match assoc k m with Some nd => Some (ouid nd) | None => None end.

  (* n0: bound of live identities (fresh parent lists are 3*n0 + oid) *)
  Definition set_parents (n0 : nat) (m : list (key * onode)) (es : list (key * key))
             (kn : key * onode) : onode :=
    with_parents (3 * n0 + oid (snd kn))
                 (uniq (filter_map (uid_of_key m) (preds es (fst kn)))) (snd kn).

  (* second half of BaseNetworkxAdapter._adapt, from the dict mapped_nodes on *)
  Definition build_graph (n0 : nat) (m : list (key * onode)) (es : list (key * key)) : optg :=
    mk_graph (map (set_parents n0 m es) m).

  (* mk i a = self._node_adapt(attribute dict of the i-th node) *)
  Definition mapped (mk : nat -> A -> onode) (G : nxg) : list (key * onode) :=
    mapi_from 0 (fun i ka => (fst ka, mk i (snd ka))) (nodes G).

  Definition adapt_gen (n0 : nat) (mk : nat -> A -> onode) (G : nxg) : optg :=
    build_graph n0 (mapped mk G) (edges G).

  (* BaseNetworkxAdapter._restore with nr = self._node_restore: keys are the uids, nodes in
     graph order, edges parent -> child node by node.  (Graphs are closed under parents and
     have distinct uids - the LinkedGraph invariant - so add_edge never creates a node and
     no edge is repeated.) *)
  Definition restore_gen (nr : onode -> A) (g : optg) : nxg :=
    mkG (map (fun nd => (KUid (ouid nd), nr nd)) g)
        (flat_map (fun nd => map (fun p => (KUid p, KUid (ouid nd))) (opar nd)) g).
End NxGeneric.
Arguments nxg A : clear implicits.

(* ---- BaseNetworkxAdapter: attribute dict = (identity, items) ---- *)
Definition nxattrs : Type := nat * attrs.

(* _node_adapt: deepcopy, pop 'name', OptNode(content={'name': name, 'params': data}) *)
Definition node_adapt (n0 u0 : nat) (i : nat) (d : nxattrs) : onode :=
  let data := shift_attrs n0 (snd d) in
  let name := match lookup name_key data with Some v => v | None => PNone end in
  mkN (2 * n0 + fst d) (u0 + i) 0 name (Some (n0 + fst d, remove_key name_key data))
      (3 * n0 + fst d) [].

(* _node_restore: deepcopy(node.parameters); if node.name: parameters['name'] = node.name.
   The attribute dict itself is the one nx add_node created (identity 2*n1 + oid). *)
Definition node_restore (n1 : nat) (nd : onode) : nxattrs :=
  let p := shift_attrs n1 (node_params nd) in
  (2 * n1 + oid nd,
   if str_nonempty (node_name nd) then set_key name_key (PStr (node_name nd)) p else p).

Definition nx_adapt (n0 u0 : nat) (G : nxg nxattrs) : optg := adapt_gen n0 (node_adapt n0 u0) G.
Definition nx_restore (n1 : nat) (g : optg) : nxg nxattrs := restore_gen (node_restore n1) g.

(* ---- DumbNetworkxAdapter: the attribute dict is {'data': node} ---- *)
Definition dumb_adapt (n0 : nat) (G : nxg onode) : optg := adapt_gen n0 (fun _ nd => nd) G.
Definition dumb_restore (g : optg) : nxg onode := restore_gen (fun nd => nd) g.

(* ---- DirectAdapter: deepcopy, then rewrite __class__ of the graph and of every node ---- *)
(* the postprocess_nodes callback held by the graph (LinkedGraph._postprocess_nodes), fired by
   structural edits: the default static no-op, a plain function (atomic for deepcopy, no state),
   a bound method of an object (normally the domain graph itself: self = its identity), or a
   stateful callable object *)
Inductive post := PostDefault | PostFun (f : nat) | PostBound (self : nat) | PostObj (id : nat).

(* the mutable object an edit of the graph writes to through the callback *)
Definition post_ids (p : post) : list nat :=
  match p with PostBound i => [i] | PostObj i => [i] | _ => [] end.

(* deepcopy of the callback: a bound method is re-bound to the copy of its self (the memo maps the
   graph to its copy), a callable object is copied *)
Definition copy_post (n0 : nat) (p : post) : post :=
  match p with PostBound i => PostBound (n0 + i) | PostObj i => PostObj (n0 + i) | _ => p end.

Record cgraph := mkC { gid : nat; gcls : nat; gpost : post; gnodes : optg }.

Definition copy_node (n0 cls : nat) (nd : onode) : onode :=
  mkN (n0 + oid nd) (ouid nd) cls
      (shift n0 (oname nd))
      (match oparams nd with Some (i, a) => Some (n0 + i, shift_attrs n0 a) | None => None end)
      (n0 + olid nd) (opar nd).

Definition direct_convert (n0 gcls' ncls' : nat) (g : cgraph) : cgraph :=
  mkC (n0 + gid g) gcls' (copy_post n0 (gpost g)) (map (copy_node n0 ncls') (gnodes g)).

(* class tag 0 = OptGraph / OptNode *)
Definition direct_adapt (n0 : nat) (g : cgraph) : cgraph := direct_convert n0 0 0 g.
Definition direct_restore (n0 dom_g dom_n : nat) (g : cgraph) : cgraph := direct_convert n0 dom_g dom_n g.

(* ---- IdentityAdapter ---- *)
Definition identity_adapt (g : cgraph) : cgraph := g.
Definition identity_restore (g : cgraph) : cgraph := g.

(* identities reachable from the two kinds of graph *)
Definition node_ids (nd : onode) : list nat :=
  oid nd :: olid nd :: vids (oname nd) ++
  match oparams nd with Some (i, a) => i :: attrs_ids a | None => [] end.
Definition opt_ids (g : optg) : list nat := flat_map node_ids g.
Definition cgraph_ids (g : cgraph) : list nat := gid g :: post_ids (gpost g) ++ opt_ids (gnodes g).
Definition nx_ids (G : nxg nxattrs) : list nat :=
  flat_map (fun ka => fst (snd ka) :: attrs_ids (snd (snd ka))) (nodes G).

(* ------------------------------------------------------------------------------------ *)
(* Part 3: values flowing through wrapped functions                                      *)
(* ------------------------------------------------------------------------------------ *)
Inductive res (X : Type) := Ok (x : X) | Raise.
Arguments Ok {X} x.
Arguments Raise {X}.

Definition bind {X Y} (r : res X) (f : X -> res Y) : res Y :=
  match r with Ok x => f x | Raise => Raise end.

Fixpoint map_res {X Y} (f : X -> res Y) (l : list X) : res (list Y) :=
  match l with
  | [] => Ok []
  | x :: r => bind (f x) (fun y => bind (map_res f r) (fun ys => Ok (y :: ys)))
  end.

(* class of a graph object relative to the adapter at hand:
   KOpt  type(x) is OptGraph
   KDom  type(x) is the adapter's domain class (a class different from OptGraph); for the
         adapters without such a class (default DirectAdapter, IdentityAdapter) a KDom value
         is a graph of some foreign class (e.g. nx.DiGraph)
   KSub  an instance of a strict subclass of OptGraph that is not the domain class *)
Inductive gcl := KOpt | KDom | KSub.

Inductive akind :=
| ANx             (* BaseNetworkxAdapter: domain class nx.DiGraph *)
| ADumb           (* DumbNetworkxAdapter *)
| ADirectSub      (* DirectAdapter(MyGraph, MyNode), MyGraph a subclass of OptGraph *)
| ADirectDefault  (* DirectAdapter(): domain class is OptGraph itself *)
| AIdentity.      (* IdentityAdapter: domain class is the abstract Graph *)

Section Calls.
  (* G: what identifies the structure of a graph (kept abstract), M: individual metadata,
     cvA / cvR: effect of _adapt / _restore on the structure *)
  Context {G M : Type}.
  Variable cvA : G -> G.
  Variable cvR : G -> option M -> G.
  (* the graph has no nodes (the NetworkX adapters' _restore walks opt_graph.nodes and reads node.uid:
     on a NetworkX digraph that raises as soon as there is a node - and does nothing on an empty one) *)
  Variable g_empty : G -> bool.

  Inductive val :=
  | VGraph (c : gcl) (g : G)
  | VInd (c : gcl) (g : G) (m : M)       (* Individual(graph, metadata) *)
  | VSeq (l : list val)                  (* list *)
  | VTuple (l : list val)                (* tuple *)
  | VUserSeq (kind : nat) (l : list val) (* any other collections.abc.Sequence that is not a str: UserList,
                                            GOLEM's Generation, deque, a user-defined Sequence (kind tells which) *)
  | VNone
  | VScalar (s : string).                (* anything else (repr), strings included *)

  Definition is_graph (v : val) : bool := match v with VGraph _ _ => true | _ => false end.

  (* type(item) is self.opt_graph_class *)
  Definition is_opt_exact (v : val) : bool :=
    match v with VGraph KOpt _ => true | _ => false end.

  (* type(item) is self.domain_graph_class *)
  Definition is_dom_exact (k : akind) (v : val) : bool :=
    match v, k with
    | VGraph KDom _, (ANx | ADumb | ADirectSub) => true
    | VGraph KOpt _, ADirectDefault => true
    | _, _ => false
    end.

  (* instances of OptGraph: OptGraph itself, its subclasses, the domain class of
     DirectAdapter(MyGraph, ..) *)
  Definition optlike (k : akind) (c : gcl) : bool :=
    match c with
    | KDom => match k with ADirectSub => true | _ => false end
    | _ => true
    end.

  (* isinstance(item, self.opt_graph_class) *)
  Definition is_opt_inst (k : akind) (v : val) : bool :=
    match v with VGraph c _ => optlike k c | _ => false end.

  Definition is_ind (v : val) : bool := match v with VInd _ _ _ => true | _ => false end.

  Definition dom_tag (k : akind) : gcl := match k with ADirectDefault => KOpt | _ => KDom end.

  (* graph classes self._restore / self._adapt can process without an AttributeError: the
     NetworkX adapters read adaptee.nodes.items() resp. opt_graph.nodes / node.uid, the direct
     adapter reads .nodes after rewriting __class__ *)
  Definition can_restore (k : akind) (c : gcl) (g : G) : bool :=
    match k with
    | AIdentity => true
    | ANx | ADumb => optlike k c || g_empty g      (* an EMPTY foreign digraph comes back as an empty digraph *)
    | _ => optlike k c
    end.
  Definition can_adapt (k : akind) (c : gcl) : bool :=
    match k with
    | AIdentity => true
    | ANx | ADumb => match c with KDom => true | _ => false end
    | _ => optlike k c
    end.

  (* self._adapt(x) on an arbitrary object *)
  Definition adapt1 (k : akind) (v : val) : res val :=
    match k with
    | AIdentity => Ok v
    | _ => match v with
           | VGraph c g => if can_adapt k c then Ok (VGraph KOpt (cvA g)) else Raise
           | _ => Raise
           end
    end.

  (* self._restore(x, metadata) on an arbitrary object *)
  Definition restore1 (k : akind) (v : val) (m : option M) : res val :=
    match k with
    | AIdentity => Ok v
    | _ => match v with
           | VGraph c g => if can_restore k c g then Ok (VGraph (dom_tag k) (cvR g m)) else Raise
           | _ => Raise
           end
    end.

  (* ind.graph, ind.metadata of a sequence element (AttributeError on anything else) *)
  Definition restore_ind (k : akind) (v : val) : res val :=
    match v with VInd c g m => restore1 k (VGraph c g) (Some m) | _ => Raise end.

  Definition seq_items (v : val) : option (list val) :=
    match v with VSeq l => Some l | VTuple l => Some l | VUserSeq _ l => Some l | _ => None end.

  (* BaseOptimizationAdapter.adapt *)
  Definition adapt (k : akind) (v : val) : res val :=
    if is_dom_exact k v then adapt1 k v
    else match seq_items v with
         | Some (h :: t) =>
             if is_dom_exact k h then bind (map_res (adapt1 k) (h :: t)) (fun l => Ok (VSeq l))
             else Ok v
         | _ => Ok v
         end.

  (* BaseOptimizationAdapter.restore *)
  Definition restore (k : akind) (v : val) : res val :=
    if is_opt_exact v then restore1 k v None
    else if is_ind v then restore_ind k v
    else match seq_items v with
         | Some (h :: t) =>
             if is_ind h then bind (map_res (restore_ind k) (h :: t)) (fun l => Ok (VSeq l))
             else if is_opt_inst k h
                  then bind (map_res (fun x => restore1 k x None) (h :: t)) (fun l => Ok (VSeq l))
                  else Ok v
         | _ => Ok v
         end.

  Definition kwargs := list (string * val).
  Definition pyfun := list val -> kwargs -> res val.

  Definition map_kw (f : val -> res val) (kw : kwargs) : res kwargs :=
    map_res (fun kv => bind (f (snd kv)) (fun v => Ok (fst kv, v))) kw.

  (* result part of _transform.adapted_fun *)
  Definition transform_result (f_ret : val -> res val) (r : val) : res val :=
    match r with
    | VNone => Ok VNone
    | VTuple l => bind (map_res f_ret l) (fun l' => Ok (VTuple l'))
    | _ => f_ret r
    end.

  (* _transform(fun, f_args, f_ret) *)
  Definition transform (f_args f_ret : val -> res val) (fn : pyfun) : pyfun :=
    fun args kw =>
      bind (map_kw f_args kw) (fun kw' =>
      bind (map_res f_args args) (fun args' =>
      bind (fn args' kw') (transform_result f_ret))).

  Definition restore_func (k : akind) (fn : pyfun) : pyfun := transform (adapt k) (restore k) fn.
  Definition adapt_wrap (k : akind) (fn : pyfun) : pyfun := transform (restore k) (adapt k) fn.

  (* ---- total, element-wise specification of the conversions (what the documentation
     promises for the documented argument shapes) ---- *)
  (* one graph (of class c, possibly taken out of an individual) restored *)
  Definition conv_r (k : akind) (c : gcl) (g : G) (m : option M) : val :=
    match k with AIdentity => VGraph c g | _ => VGraph (dom_tag k) (cvR g m) end.
  Definition conv_a (k : akind) (c : gcl) (g : G) : val :=
    match k with AIdentity => VGraph c g | _ => VGraph KOpt (cvA g) end.

  Definition restore_elem (k : akind) (v : val) : val :=
    match v with
    | VGraph c g => conv_r k c g None
    | VInd c g m => conv_r k c g (Some m)
    | _ => v
    end.
  Definition adapt_elem (k : akind) (v : val) : val :=
    match v with VGraph c g => conv_a k c g | _ => v end.

  Definition restore_total (k : akind) (v : val) : val :=
    match v with
    | VGraph KOpt g => conv_r k KOpt g None
    | VInd c g m => conv_r k c g (Some m)
    | VSeq (h :: t) | VTuple (h :: t) | VUserSeq _ (h :: t) =>
        if is_ind h || is_opt_inst k h then VSeq (map (restore_elem k) (h :: t)) else v
    | _ => v
    end.

  Definition adapt_total (k : akind) (v : val) : val :=
    if is_dom_exact k v then adapt_elem k v
    else match v with
         | VSeq (h :: t) | VTuple (h :: t) | VUserSeq _ (h :: t) =>
             if is_dom_exact k h then VSeq (map (adapt_elem k) (h :: t)) else v
         | _ => v
         end.

  Definition result_total (f : val -> val) (r : val) : val :=
    match r with VNone => VNone | VTuple l => VTuple (map f l) | _ => f r end.

  (* the documented argument shapes: a sequence led by an individual holds individuals only,
     one led by a graph holds graphs only, and every graph that will be converted is of a
     class the adapter can read *)
  Definition elem_restorable (k : akind) (v : val) : bool :=
    match v with VGraph c g => can_restore k c g | VInd c g _ => can_restore k c g | _ => false end.

  Definition restorable (k : akind) (v : val) : bool :=
    match v with
    | VInd c g _ => can_restore k c g
    | VSeq (h :: t) | VTuple (h :: t) | VUserSeq _ (h :: t) =>
        if is_ind h then forallb (fun x => is_ind x && elem_restorable k x) (h :: t)
        else if is_opt_inst k h then forallb (fun x => is_graph x && elem_restorable k x) (h :: t)
        else true
    | _ => true
    end.

  Definition adaptable (k : akind) (v : val) : bool :=
    match v with
    | VSeq (h :: t) | VTuple (h :: t) | VUserSeq _ (h :: t) =>
        if is_dom_exact k h
        then forallb (fun x => match x with VGraph c _ => can_adapt k c | _ => false end) (h :: t)
        else true
    | _ => true
    end.

  Definition result_ok (p : val -> bool) (r : val) : bool :=
    match r with VTuple l => forallb p l | _ => p r end.

  (* decidable equality of observed values *)
  Variable g_eqb : G -> G -> bool.
  Variable m_eqb : M -> M -> bool.

  Definition gcl_eqb (a b : gcl) : bool :=
    match a, b with KOpt, KOpt | KDom, KDom | KSub, KSub => true | _, _ => false end.

  Fixpoint val_eqb (a b : val) : bool :=
    match a, b with
    | VGraph c g, VGraph c' g' => gcl_eqb c c' && g_eqb g g'
    | VInd c g m, VInd c' g' m' => gcl_eqb c c' && g_eqb g g' && m_eqb m m'
    | VUserSeq k l, VUserSeq k' r =>
        Nat.eqb k k' &&
        (fix go (l r : list val) := match l, r with
          | [], [] => true
          | x :: l', y :: r' => val_eqb x y && go l' r'
          | _, _ => false end) l r
    | VSeq l, VSeq r | VTuple l, VTuple r =>
        (fix go (l r : list val) := match l, r with
          | [], [] => true
          | x :: l', y :: r' => val_eqb x y && go l' r'
          | _, _ => false end) l r
    | VNone, VNone => true
    | VScalar s, VScalar t => String.eqb s t
    | _, _ => false
    end.

  Fixpoint list_eqb {X} (e : X -> X -> bool) (l r : list X) : bool :=
    match l, r with
    | [], [] => true
    | x :: l', y :: r' => e x y && list_eqb e l' r'
    | _, _ => false
    end.

  Definition res_eqb {X} (e : X -> X -> bool) (a b : res X) : bool :=
    match a, b with Ok x, Ok y => e x y | Raise, Raise => true | _, _ => false end.

  Definition kw_eqb (a b : kwargs) : bool :=
    list_eqb (fun x y => String.eqb (fst x) (fst y) && val_eqb (snd x) (snd y)) a b.
End Calls.

(* ------------------------------------------------------------------------------------ *)
(* Part 4: AdaptRegistry                                                                 *)
(* ------------------------------------------------------------------------------------ *)
(* callables: a plain function or callable object (identified by a number), a
   functools.partial of a callable, a bound method whose __func__ is a callable, and the closure
   `adapted_fun` that _transform built around a callable (id: the number of this new function
   object; adapting = true for adapt_func's wrapper, false for restore_func's).  The closure is an
   ordinary new function: it has no __func__, is no partial and starts without the native mark. *)
Inductive callable :=
| CFun (f : nat)
| CPartial (c : callable)
| CMethod (c : callable)
| CWrap (id : nat) (adapting : bool) (c : callable)
| CInst (own : nat) (bases : list nat).
(* CInst: an object whose attributes are looked up along a chain - a callable instance (own) of a
   class / subclass (bases = the classes of its MRO), or a class itself (own) with its base classes.
   It has no __func__ and is no partial, so it is its own underlying callable; the native mark set by
   register_native on a class is an ordinary class attribute and getattr finds it from instances. *)

(* _get_underlying_func: the `while True` loop peels one wrapper per iteration *)
Fixpoint underlying (c : callable) : nat :=
  match c with
  | CFun f => f
  | CPartial c' => underlying c'
  | CMethod c' => underlying c'
  | CWrap id _ _ => id
  | CInst own _ => own
  end.

(* the objects getattr(underlying, flag) consults: the object itself, then the classes of its MRO *)
Fixpoint lookup_chain (c : callable) : list nat :=
  match c with
  | CFun f => [f]
  | CPartial c' => lookup_chain c'
  | CMethod c' => lookup_chain c'
  | CWrap id _ _ => [id]
  | CInst own bases => own :: bases
  end.

(* the flag attribute of the function objects *)
Definition flags := nat -> bool.

Definition is_native (fl : flags) (c : callable) : bool := existsb fl (lookup_chain c).
Definition register_native (fl : flags) (c : callable) : flags :=
  fun f => if Nat.eqb f (underlying c) then true else fl f.
Definition unregister_native (fl : flags) (c : callable) : flags :=
  fun f => if Nat.eqb f (underlying c) then false else fl f.

(* what adapt_func returns: the very same object, or the closure built by _transform *)
Inductive adapted := Same (c : callable) | Wrapped (c : callable).

Definition adapt_func (fl : flags) (c : callable) : adapted :=
  if is_native fl c then Same c else Wrapped c.

(* calling the outcome, given the meaning of the callables *)
Definition call_adapted {G M} (cvA : G -> G) (cvR : G -> option M -> G) (g_empty : G -> bool) (k : akind)
           (den : callable -> @pyfun G M) (a : adapted) : @pyfun G M :=
  match a with
  | Same c => den c
  | Wrapped c => adapt_wrap cvA cvR g_empty k (den c)
  end.

(* ------------------------------------------------------------------------------------ *)
(* Part 5: oracles evaluated by the harness                                              *)
(* ------------------------------------------------------------------------------------ *)
Fixpoint key_mem (k : key) (l : list key) : bool :=
  match l with [] => false | x :: r => key_eqb k x || key_mem k r end.
Definition edge_eqb (a b : key * key) : bool := key_eqb (fst a) (fst b) && key_eqb (snd a) (snd b).
Fixpoint edge_mem (e : key * key) (l : list (key * key)) : bool :=
  match l with [] => false | x :: r => edge_eqb e x || edge_mem e r end.
Fixpoint key_nodup (l : list key) : bool :=
  match l with [] => true | x :: r => negb (key_mem x r) && key_nodup r end.
Fixpoint edge_nodup (l : list (key * key)) : bool :=
  match l with [] => true | x :: r => negb (edge_mem x r) && edge_nodup r end.

Definition apply_phi (phi : list (key * key)) (k : key) : key :=
  match assoc k phi with Some k' => k' | None => k end.

(* checker of an isomorphism witness phi between G and G' (aeq = attribute equality) *)
Definition nx_iso_b {A B} (aeq : A -> B -> bool) (phi : list (key * key)) (G : nxg A) (G' : nxg B) : bool :=
  let f := apply_phi phi in
  key_nodup (keys G) && key_nodup (keys G') && edge_nodup (edges G') &&
  key_nodup (map f (keys G)) &&
  Nat.eqb (List.length (keys G)) (List.length (keys G')) &&
  forallb (fun k => key_mem (f k) (keys G')) (keys G) &&
  forallb (fun ka => match assoc (f (fst ka)) (nodes G') with
                     | Some b => aeq (snd ka) b | None => false end) (nodes G) &&
  forallb (fun u => forallb (fun v => Bool.eqb (edge_mem (u, v) (edges G))
                                               (edge_mem (f u, f v) (edges G'))) (keys G)) (keys G) &&
  forallb (fun e => key_mem (fst e) (keys G') && key_mem (snd e) (keys G')) (edges G').

(* guard of the NetworkX round trip: 'name' absent, or a non-empty string *)
Definition name_ok (a : attrs) : bool :=
  match lookup name_key a with
  | None => true
  | Some (PStr s) => str_nonempty s
  | Some _ => false
  end.

Fixpoint str_nodup (l : list string) : bool :=
  match l with [] => true | x :: r => negb (existsb (String.eqb x) r) && str_nodup r end.
Definition attrs_wf (a : attrs) : bool := str_nodup (map fst a).

Definition nx_guard (G : nxg nxattrs) : bool :=
  forallb (fun ka => name_ok (snd (snd ka)) && attrs_wf (snd (snd ka))) (nodes G).

(* well-formed NetworkX digraph: distinct keys, distinct edges, edges between nodes *)
Definition nx_wf_b {A} (G : nxg A) : bool :=
  key_nodup (keys G) && edge_nodup (edges G) &&
  forallb (fun e => key_mem (fst e) (keys G) && key_mem (snd e) (keys G)) (edges G).

(* guard of the internal round trip: the parameters do not use the key 'name' *)
Definition params_ok (nd : onode) : bool :=
  match lookup name_key (node_params nd) with None => true | Some _ => false end
  && attrs_wf (node_params nd).

Fixpoint nat_nodup (l : list nat) : bool :=
  match l with [] => true | x :: r => negb (memb x r) && nat_nodup r end.

(* LinkedGraph invariant: distinct uids, duplicate-free parent lists, closed under parents *)
Definition opt_wf_b (g : optg) : bool :=
  nat_nodup (map ouid g) &&
  forallb (fun nd => nat_nodup (opar nd) && forallb (fun p => memb p (map ouid g)) (opar nd)) g.

(* -- comparison of internal graphs up to a renaming of the uids and of fresh identities -- *)
Definition assoc_nat (u : nat) (m : list (nat * nat)) : nat :=
  match find (fun p => Nat.eqb (fst p) u) m with Some p => snd p | None => u end.

(* identities: everything allocated during the call (>= n0) is collapsed to n0 *)
Definition cap (n0 i : nat) : nat := if Nat.leb n0 i then n0 else i.
Fixpoint cap_value (n0 : nat) (v : value) : value :=
  match v with
  | PList i l => PList (cap n0 i) (map (cap_value n0) l)
  | PDict i l => PDict (cap n0 i) (map (fun kv => (fst kv, cap_value n0 (snd kv))) l)
  | _ => v
  end.
Definition cap_attrs (n0 : nat) (a : attrs) : attrs := map (fun kv => (fst kv, cap_value n0 (snd kv))) a.

(* exact equality (identities included) *)
Fixpoint vsame (a b : value) : bool :=
  match a, b with
  | PNone, PNone => true
  | PBool x, PBool y => Bool.eqb x y
  | PInt x, PInt y => Z.eqb x y
  | PStr x, PStr y => String.eqb x y
  | PList i l, PList j r =>
      Nat.eqb i j &&
      (fix go (l r : list value) := match l, r with
        | [], [] => true
        | x :: l', y :: r' => vsame x y && go l' r'
        | _, _ => false end) l r
  | PDict i l, PDict j r =>
      Nat.eqb i j &&
      (fix go (l r : list (string * value)) := match l, r with
        | [], [] => true
        | (k, x) :: l', (k', y) :: r' => String.eqb k k' && vsame x y && go l' r'
        | _, _ => false end) l r
  | _, _ => false
  end.
Definition attrs_same (a b : attrs) : bool :=
  list_eqb (fun x y => String.eqb (fst x) (fst y) && vsame (snd x) (snd y)) a b.

(* canonical form of an internal graph: uids renamed to positions, fresh identities capped *)
Definition canon_node (n0 : nat) (ren : list (nat * nat)) (nd : onode) : onode :=
  mkN (cap n0 (oid nd)) (assoc_nat (ouid nd) ren) (ocls nd) (cap_value n0 (oname nd))
      (match oparams nd with Some (i, a) => Some (cap n0 i, cap_attrs n0 a) | None => None end)
      (cap n0 (olid nd)) (map (fun p => assoc_nat p ren) (opar nd)).
Definition positions (g : optg) : list (nat * nat) := combine (map ouid g) (seq 0 (List.length g)).
Definition canon_opt (n0 : nat) (g : optg) : optg := map (canon_node n0 (positions g)) g.

Definition onode_same (a b : onode) : bool :=
  Nat.eqb (oid a) (oid b) && Nat.eqb (ouid a) (ouid b) && Nat.eqb (ocls a) (ocls b) &&
  vsame (oname a) (oname b) &&
  match oparams a, oparams b with
  | Some (i, x), Some (j, y) => Nat.eqb i j && attrs_same x y
  | None, None => true
  | _, _ => false
  end &&
  Nat.eqb (olid a) (olid b) && list_eqb Nat.eqb (opar a) (opar b).
Definition optg_same (a b : optg) : bool := list_eqb onode_same a b.

(* canonical form of a restored NetworkX graph: uid keys renamed by ren, identities capped *)
Definition canon_key (ren : list (nat * nat)) (k : key) : key :=
  match k with KUid u => KUid (assoc_nat u ren) | _ => k end.
Definition canon_nx (n0 : nat) (ren : list (nat * nat)) (G : nxg nxattrs) : nxg nxattrs :=
  mkG (map (fun ka => (canon_key ren (fst ka), (cap n0 (fst (snd ka)), cap_attrs n0 (snd (snd ka))))) (nodes G))
      (map (fun e => (canon_key ren (fst e), canon_key ren (snd e))) (edges G)).
Definition nx_same (a b : nxg nxattrs) : bool :=
  list_eqb (fun x y => key_eqb (fst x) (fst y) && Nat.eqb (fst (snd x)) (fst (snd y))
                       && attrs_same (snd (snd x)) (snd (snd y))) (nodes a) (nodes b) &&
  list_eqb edge_eqb (edges a) (edges b).

(* ---- conversions ----
   The harness numbers the live identities of the INPUT of every single conversion below n0
   (uids of internal graphs = positions in graph.nodes) and reports the OUTPUT with: shared
   objects under their input identity, new objects as n0, uids as positions in graph.nodes,
   uid keys as the position of the node in the internal graph. *)
Definition all_fresh (n0 : nat) (ids : list nat) : bool := forallb (fun i => Nat.leb n0 i) ids.

(* BaseNetworkxAdapter.adapt on G, observed internal graph go *)
Definition agree_nx_adapt (n0 : nat) (G : nxg nxattrs) (go : optg) : bool :=
  optg_same (canon_opt n0 (nx_adapt n0 n0 G)) go.
(* BaseNetworkxAdapter.restore on g, observed digraph Go *)
Definition agree_nx_restore (n0 : nat) (g : optg) (Go : nxg nxattrs) : bool :=
  nx_same (canon_nx n0 [] (nx_restore n0 g)) Go.
(* copying adapters: nothing reachable from the output is an input object *)
Definition fresh_opt (n0 : nat) (go : optg) : bool := all_fresh n0 (opt_ids go).
Definition fresh_nx (n0 : nat) (Go : nxg nxattrs) : bool := all_fresh n0 (nx_ids Go).

Definition nx_attr_eqb (a b : nxattrs) : bool := attrs_eqb (snd a) (snd b).

(* NetworkX round trip on the observed Go = restore(adapt(G)): under the guard the witness phi
   (found by the harness with a graph matcher, not by the model) is an isomorphism with equal
   attributes *)
Definition holds_nx_rt (G Go : nxg nxattrs) (phi : list (key * key)) : bool :=
  if nx_wf_b G && nx_guard G then nx_iso_b nx_attr_eqb phi G Go else true.

(* internal round trip on the observed go = adapt(restore(g)); psi = (old uid, new uid):
   same names, parameters and parents *)
Definition perm_nat_b (l r : list nat) : bool :=
  Nat.eqb (List.length l) (List.length r) && nat_nodup l && forallb (fun x => memb x r) l.

Definition opt_iso_b (psi : list (nat * nat)) (g g' : optg) : bool :=
  let f := fun u => assoc_nat u psi in
  nat_nodup (map ouid g') && nat_nodup (map f (map ouid g)) &&
  Nat.eqb (List.length g) (List.length g') &&
  forallb (fun nd => match find_node g' (f (ouid nd)) with
                     | Some nd' => String.eqb (node_name nd) (node_name nd') &&
                                   attrs_eqb (node_params nd) (node_params nd') &&
                                   perm_nat_b (map f (opar nd)) (opar nd')
                     | None => false end) g.

Definition opt_guard (g : optg) : bool := opt_wf_b g && forallb params_ok g.

Definition holds_opt_rt (g go : optg) (psi : list (nat * nat)) : bool :=
  if opt_guard g then opt_iso_b psi g go else true.

(* ---- DumbNetworkxAdapter: out and back; node objects are kept (not a copying adapter) ---- *)
Definition canon_dumb (n0 : nat) (G : nxg onode) : nxg onode :=
  mkG (map (fun ka => (fst ka, canon_node n0 [] (snd ka))) (nodes G)) (edges G).
Definition dumb_same (a b : nxg onode) : bool :=
  list_eqb (fun x y => key_eqb (fst x) (fst y) && onode_same (snd x) (snd y)) (nodes a) (nodes b) &&
  list_eqb edge_eqb (edges a) (edges b).

Definition agree_opt_dumb (n0 : nat) (g : optg) (Go : nxg onode) (go : optg) : bool :=
  let Gm := dumb_restore g in
  dumb_same (canon_dumb n0 Gm) Go &&
  optg_same (map (canon_node n0 []) (dumb_adapt n0 Gm)) go.

Definition ident_psi (g : optg) : list (nat * nat) := map (fun nd => (ouid nd, ouid nd)) g.

Definition holds_opt_dumb (g : optg) (go : optg) : bool :=
  if opt_wf_b g then opt_iso_b (ident_psi g) g go else true.

(* ---- DirectAdapter (one conversion step) / IdentityAdapter ---- *)
Definition canon_cgraph (n0 : nat) (g : cgraph) : cgraph :=
  mkC (cap n0 (gid g)) (gcls g)
      (match gpost g with PostBound i => PostBound (cap n0 i) | PostObj i => PostObj (cap n0 i) | p => p end)
      (map (canon_node n0 []) (gnodes g)).
Definition post_same (a b : post) : bool :=
  match a, b with
  | PostDefault, PostDefault => true
  | PostFun f, PostFun f' => Nat.eqb f f'
  | PostBound i, PostBound j => Nat.eqb i j
  | PostObj i, PostObj j => Nat.eqb i j
  | _, _ => false
  end.
Definition cgraph_same (a b : cgraph) : bool :=
  Nat.eqb (gid a) (gid b) && Nat.eqb (gcls a) (gcls b) && post_same (gpost a) (gpost b) &&
  optg_same (gnodes a) (gnodes b).

(* gc / nc: class tags the conversion writes (0 0 for adapt, the domain classes for restore) *)
Definition agree_direct (n0 gc nc : nat) (x y : cgraph) : bool :=
  cgraph_same (canon_cgraph n0 (direct_convert n0 gc nc x)) y.

(* same structure, names, parameters, uids *)
Definition same_content (g g' : optg) : bool :=
  list_eqb (fun a b => Nat.eqb (ouid a) (ouid b) && veqb (oname a) (oname b) &&
                       match oparams a, oparams b with
                       | Some (_, x), Some (_, y) => attrs_eqb x y
                       | None, None => true
                       | _, _ => false end &&
                       list_eqb Nat.eqb (opar a) (opar b)) g g'.

(* ... classes as requested; nothing shared *)
Definition holds_direct (n0 gc nc : nat) (x y : cgraph) : bool :=
  same_content (gnodes x) (gnodes y) &&
  Nat.eqb (gcls y) gc && forallb (fun nd => Nat.eqb (ocls nd) nc) (gnodes y) &&
  all_fresh n0 (cgraph_ids y).

(* ... and behaviourally: a structural edit of the output (which fires its postprocess_nodes
   callback) left every observable of the input as it was, and an edit of the input left the
   output as it was (both observed by the harness as before / after snapshots incl. the state the
   callbacks write to) *)
Definition holds_direct_edits (n0 gc nc : nat) (x y : cgraph) (input_intact output_intact : bool) : bool :=
  holds_direct n0 gc nc x y && input_intact && output_intact.

Definition agree_identity (g a r : cgraph) : bool :=
  cgraph_same (identity_adapt g) a && cgraph_same (identity_restore g) r.

(* ---- wrapped calls ---- *)
(* in the harness the structure of a graph is a number and conversions keep it *)
Definition tval := @val nat nat.
Definition tid (g : nat) : nat := g.
Definition tidR (g : nat) (_ : option nat) : nat := g.
(* the harness gives the empty graph the token 99 *)
Definition tempty (g : nat) : bool := Nat.eqb g 99.

Record call_obs := mkCall {
  c_kind : akind;
  c_adapting : bool;                  (* true: adapt_func-style wrapper, false: restore_func *)
  c_args : list tval; c_kwargs : list (string * tval);     (* what the wrapper was called with *)
  c_inner : res (list tval * list (string * tval));        (* what the function recorded *)
  c_raw : tval;                        (* what the function returned *)
  c_out : res tval;                    (* what the wrapper returned (Raise: it raised) *)
  c_untouched : bool                   (* every None / scalar argument and result arrived as the same object *)
}.

Definition t_val_eqb := @val_eqb nat nat Nat.eqb Nat.eqb.
Definition t_kw_eqb := @kw_eqb nat nat Nat.eqb Nat.eqb.

Definition inner_eqb (a b : res (list tval * list (string * tval))) : bool :=
  res_eqb (fun x y => list_eqb t_val_eqb (fst x) (fst y) && t_kw_eqb (snd x) (snd y)) a b.

(* the literal model: run the wrapper on a function that returns c_raw and compare *)
Definition agree_call (c : call_obs) : bool :=
  let fa := if c_adapting c then @restore nat nat tidR tempty (c_kind c) else @adapt nat nat tid (c_kind c) in
  let fr := if c_adapting c then @adapt nat nat tid (c_kind c) else @restore nat nat tidR tempty (c_kind c) in
  let inner := bind (map_kw fa (c_kwargs c)) (fun kw' => bind (map_res fa (c_args c)) (fun a' => Ok (a', kw'))) in
  inner_eqb inner (c_inner c) &&
  res_eqb t_val_eqb (transform fa fr (fun _ _ => Ok (c_raw c)) (c_args c) (c_kwargs c)) (c_out c).

(* the property on the observed call, through the total element-wise specification (only for
   the documented, homogeneous shapes): the function received the converted arguments, the
   wrapper returned the converted result *)
Definition holds_call (c : call_obs) : bool :=
  let k := c_kind c in
  let sa := if c_adapting c then @restore_total nat nat tidR k else @adapt_total nat nat tid k in
  let sr := if c_adapting c then @adapt_total nat nat tid k else @restore_total nat nat tidR k in
  let pa := if c_adapting c then @restorable nat nat tempty k else @adaptable nat nat k in
  let pr := if c_adapting c then @adaptable nat nat k else @restorable nat nat tempty k in
  if forallb pa (c_args c) && forallb (fun kv => pa (snd kv)) (c_kwargs c) && result_ok pr (c_raw c)
  then
    inner_eqb (Ok (map sa (c_args c), map (fun kv => (fst kv, sa (snd kv))) (c_kwargs c))) (c_inner c) &&
    res_eqb t_val_eqb (Ok (result_total sr (c_raw c))) (c_out c) &&
    c_untouched c
  else true.

(* ---- registry ---- *)
(* a history of register / unregister calls, then a query *)
Inductive reg_op := RegOp (c : callable) | UnregOp (c : callable).
Definition run_ops (ops : list reg_op) : flags :=
  fold_left (fun fl op => match op with RegOp c => register_native fl c | UnregOp c => unregister_native fl c end)
            ops (fun _ => false).

Definition adapted_is_same (a : adapted) : bool := match a with Same _ => true | Wrapped _ => false end.

(* observed: is_native(c), adapt_func(c) is c *)
Definition agree_registry (ops : list reg_op) (c : callable) (obs_native obs_same : bool) : bool :=
  Bool.eqb (is_native (run_ops ops) c) obs_native &&
  Bool.eqb (adapted_is_same (adapt_func (run_ops ops) c)) obs_same.

(* property: a callable whose underlying function was registered (and not unregistered
   afterwards) is native and returned as is - formulated over the history, not the flags *)
Fixpoint last_op_on (f : nat) (ops : list reg_op) (cur : option bool) : option bool :=
  match ops with
  | [] => cur
  | RegOp c :: r => last_op_on f r (if Nat.eqb (underlying c) f then Some true else cur)
  | UnregOp c :: r => last_op_on f r (if Nat.eqb (underlying c) f then Some false else cur)
  end.

(* registered by the history: the last operation on the object was a registration *)
Definition reg_hist (ops : list reg_op) (f : nat) : bool :=
  match last_op_on f ops None with Some true => true | _ => false end.

(* ... on the callable itself or on a class it is an instance / subclass of *)
Definition registered (ops : list reg_op) (c : callable) : bool := existsb (reg_hist ops) (lookup_chain c).

Definition holds_registry (ops : list reg_op) (c : callable) (obs_native obs_same : bool) : bool :=
  if registered ops c then obs_native && obs_same else negb obs_native && negb obs_same.

(* ---- sessions on ONE adapter instance ----
   After the history ops (register / unregister calls made so far in the session), adapt_func
   (adapting = true) or restore_func (adapting = false) of q was taken from the same adapter and
   the outcome was called with one graph: an internal graph for adapt_func, a domain graph for
   restore_func.  Observed: is_native(q), "the outcome is q itself", "the function saw a domain
   graph".  Nothing may be remembered from earlier steps of the session. *)
(* class of the graph the innermost function receives when the callable is called with one graph
   of class x (BaseNetworkxAdapter; partials / methods only prepend arguments; a _transform closure
   converts the argument and calls what it wraps) *)
Definition through (adapting : bool) (x : gcl) : gcl :=
  match (if adapting then @restore nat nat tidR tempty ANx (VGraph x 0) else @adapt nat nat tid ANx (VGraph x 0)) with
  | Ok (VGraph c _) => c
  | _ => x
  end.

Fixpoint sees (c : callable) (x : gcl) : gcl :=
  match c with
  | CFun _ => x
  | CPartial c' => sees c' x
  | CMethod c' => sees c' x
  | CWrap _ ad c' => sees c' (through ad x)
  | CInst _ _ => x
  end.

Definition is_kdom (c : gcl) : bool := match c with KDom => true | _ => false end.

(* the object adapt_func / restore_func hands out, as a term (fresh: number of the new closure) *)
Definition session_result (native adapting : bool) (fresh : nat) (q : callable) : callable :=
  if adapting then (if native then q else CWrap fresh true q) else CWrap fresh false q.

Definition expect_recv_dom (fl : flags) (adapting : bool) (q : callable) : bool :=
  is_kdom (sees (session_result (is_native fl q) adapting 0 q) (if adapting then KOpt else KDom)).

Definition agree_session (ops : list reg_op) (adapting : bool) (q : callable) (n s recv_dom : bool) : bool :=
  Bool.eqb (is_native (run_ops ops) q) n &&
  Bool.eqb (if adapting then adapted_is_same (adapt_func (run_ops ops) q) else false) s &&
  Bool.eqb (expect_recv_dom (run_ops ops) adapting q) recv_dom.

(* by the history alone: registered (last operation on the underlying function object is a
   registration; the closures handed out by adapt_func / restore_func are function objects of
   their own and never inherit a registration) -> native, returned as is, called with the graph
   untouched; otherwise wrapped, so that what it wraps is called with the restored domain graph;
   restore_func always wraps *)
Definition holds_session (ops : list reg_op) (adapting : bool) (q : callable) (n s recv_dom : bool) : bool :=
  let reg := registered ops q in
  Bool.eqb reg n &&
  Bool.eqb (adapting && reg) s &&
  Bool.eqb (is_kdom (sees (session_result reg adapting 0 q) (if adapting then KOpt else KDom))) recv_dom.

