(* Proofs about the adapter model (Adapter.v).  Statements are collected in Properties/C18.v. *)
From Coq Require Import List String Ascii ZArith Bool Arith Lia Permutation.
From GolemV Require Import Adapter.Adapter.
Import ListNotations.

(* ==================================================================================== *)
(* 1. values                                                                             *)
(* ==================================================================================== *)
Section ValueInd.
  Variable P : value -> Prop.
  Hypothesis HNone : P PNone.
  Hypothesis HBool : forall b, P (PBool b).
  Hypothesis HInt : forall z, P (PInt z).
  Hypothesis HStr : forall s, P (PStr s).
  Hypothesis HList : forall i l, Forall P l -> P (PList i l).
  Hypothesis HDict : forall i l, Forall (fun kv => P (snd kv)) l -> P (PDict i l).

  Fixpoint value_ind' (v : value) : P v :=
    match v with
    | PNone => HNone
    | PBool b => HBool b
    | PInt z => HInt z
    | PStr s => HStr s
    | PList i l =>
        HList i l ((fix go (l : list value) : Forall P l :=
                      match l with
                      | [] => Forall_nil _
                      | x :: r => Forall_cons _ (value_ind' x) (go r)
                      end) l)
    | PDict i l =>
        HDict i l ((fix go (l : list (string * value)) : Forall (fun kv => P (snd kv)) l :=
                      match l with
                      | [] => Forall_nil _
                      | (k, x) :: r => Forall_cons (k, x) (value_ind' x) (go r)
                      end) l)
    end.
End ValueInd.

Definition kv_eqb (x y : string * value) : bool := String.eqb (fst x) (fst y) && veqb (snd x) (snd y).

Lemma veqb_list : forall i j l r, veqb (PList i l) (PList j r) = list_eqb veqb l r.
Proof.
  intros i j l. cbn [veqb]. induction l as [|x l IH]; intros [|y r]; cbn [list_eqb]; try reflexivity.
  rewrite <- IH. reflexivity.
Qed.

Lemma veqb_dict : forall i j l r, veqb (PDict i l) (PDict j r) = list_eqb kv_eqb l r.
Proof.
  intros i j l. cbn [veqb]. induction l as [|[k x] l IH]; intros [|[k' y] r]; cbn [list_eqb]; try reflexivity.
  rewrite <- IH. reflexivity.
Qed.

Lemma veqb_shift_r : forall a b n, veqb a b = true -> veqb a (shift n b) = true.
Proof.
  induction a as [| | | |i l IH|i l IH] using value_ind'; intros w n H; destruct w; try discriminate H;
    cbn [shift]; try exact H.
  - rewrite veqb_list in *. revert items H. induction IH as [|x l Hx _ IHl]; intros [|y r] H; cbn in *; try discriminate; auto.
    apply andb_true_iff in H as [H1 H2]. rewrite (Hx _ _ H1), (IHl _ H2). reflexivity.
  - rewrite veqb_dict in *. revert items H. induction IH as [|x l Hx _ IHl]; intros [|y r] H; cbn in *; try discriminate; auto.
    apply andb_true_iff in H as [H1 H2]. unfold kv_eqb in *. cbn [fst snd].
    apply andb_true_iff in H1 as [H0 H1]. rewrite H0, (Hx _ _ H1), (IHl _ H2). reflexivity.
Qed.

Lemma veqb_refl : forall a, veqb a a = true.
Proof.
  induction a as [|b|z|s|i l IH|i l IH] using value_ind'.
  - reflexivity.
  - destruct b; reflexivity.
  - apply Z.eqb_refl.
  - apply String.eqb_refl.
  - rewrite veqb_list. induction IH as [|x l Hx _ IHl]; cbn; auto. rewrite Hx, IHl. reflexivity.
  - rewrite veqb_dict. induction IH as [|x l Hx _ IHl]; cbn; auto.
    unfold kv_eqb at 1. rewrite String.eqb_refl, Hx, IHl. reflexivity.
Qed.

Lemma veqb_shift2 : forall v n m, veqb v (shift n (shift m v)) = true.
Proof. intros. apply veqb_shift_r, veqb_shift_r, veqb_refl. Qed.

Lemma vids_shift : forall v n, Forall (fun i => n <= i) (vids (shift n v)).
Proof.
  induction v as [| | | |i l IH|i l IH] using value_ind'; intros n; cbn [shift vids]; auto.
  - constructor; [lia|]. induction IH; cbn; auto. apply Forall_app; auto.
  - constructor; [lia|]. induction IH; cbn; auto. apply Forall_app; auto.
Qed.

Lemma attrs_ids_shift : forall a n, Forall (fun i => n <= i) (attrs_ids (shift_attrs n a)).
Proof.
  induction a as [|[k v] a IH]; intros n; cbn; auto. apply Forall_app; split; auto using vids_shift.
  apply IH.
Qed.

(* ---- attribute dicts ---- *)
Lemma lookup_shift : forall k a n, lookup k (shift_attrs n a) = option_map (shift n) (lookup k a).
Proof.
  induction a as [|[k' v] a IH]; intros n; cbn; auto. destruct (String.eqb k k'); auto. apply IH.
Qed.

Lemma lookup_remove_neq : forall k k' a, k <> k' -> lookup k (remove_key k' a) = lookup k a.
Proof.
  induction a as [|[k2 v] a IH]; intros Hne; cbn; auto.
  destruct (String.eqb k' k2) eqn:E.
  - apply String.eqb_eq in E. subst k2. destruct (String.eqb k k') eqn:E2; auto.
    apply String.eqb_eq in E2. contradiction.
  - cbn. destruct (String.eqb k k2); auto.
Qed.

Lemma remove_absent : forall k a, lookup k a = None -> remove_key k a = a.
Proof.
  induction a as [|[k2 v] a IH]; cbn; auto. destruct (String.eqb k k2); [discriminate|].
  intros H. rewrite IH; auto.
Qed.

Lemma lookup_set_key : forall k k' v a,
  lookup k (set_key k' v a) = if String.eqb k k' then Some v else lookup k a.
Proof.
  induction a as [|[k2 w] a IH]; cbn.
  - destruct (String.eqb k k'); reflexivity.
  - destruct (String.eqb k' k2) eqn:E; cbn.
    + apply String.eqb_eq in E. subst k2. destruct (String.eqb k k'); reflexivity.
    + destruct (String.eqb k k2) eqn:E2.
      * apply String.eqb_eq in E2. subst k2. rewrite String.eqb_sym, E. reflexivity.
      * apply IH.
Qed.

Lemma attrs_ids_remove : forall k a i, In i (attrs_ids (remove_key k a)) -> In i (attrs_ids a).
Proof.
  induction a as [|[k2 v] a IH]; cbn; auto. intros i. destruct (String.eqb k k2); cbn; intros H.
  - apply in_or_app. auto.
  - apply in_app_or in H as [H|H]; apply in_or_app; auto.
Qed.

Lemma attrs_ids_set_str : forall k s a i, In i (attrs_ids (set_key k (PStr s) a)) -> In i (attrs_ids a).
Proof.
  induction a as [|[k2 v] a IH]; cbn; auto. intros i. destruct (String.eqb k k2); cbn; intros H.
  - apply in_or_app. auto.
  - apply in_app_or in H as [H|H]; apply in_or_app; auto.
Qed.

Lemma lookup_in_ids : forall k a v i, lookup k a = Some v -> In i (vids v) -> In i (attrs_ids a).
Proof.
  induction a as [|[k2 w] a IH]; cbn; [discriminate|]. intros v i. destruct (String.eqb k k2).
  - intros [= ->] H. apply in_or_app. auto.
  - intros H1 H2. apply in_or_app. right. eauto.
Qed.

(* ==================================================================================== *)
(* 2. LinkedGraph.__init__ : add_node / graph_order / mk_graph                           *)
(* ==================================================================================== *)
Definition uids (ns : list onode) : list nat := map ouid ns.

Lemma memb_In : forall u l, memb u l = true <-> In u l.
Proof.
  induction l as [|x l IH]; cbn; [split; [discriminate|tauto]|].
  rewrite orb_true_iff, IH, Nat.eqb_eq. split; intros [H|H]; auto.
Qed.

Lemma memb_false : forall u l, memb u l = false <-> ~ In u l.
Proof. intros. rewrite <- memb_In. destruct (memb u l); split; congruence. Qed.

Lemma find_node_some : forall ns u nd, find_node ns u = Some nd -> In nd ns /\ ouid nd = u.
Proof.
  induction ns as [|x ns IH]; cbn; [discriminate|]. intros u nd. destruct (Nat.eqb (ouid x) u) eqn:E.
  - intros [= <-]. apply Nat.eqb_eq in E. auto.
  - intros H. apply IH in H. tauto.
Qed.

Lemma find_node_in : forall ns u, In u (uids ns) -> exists nd, find_node ns u = Some nd.
Proof.
  induction ns as [|x ns IH]; cbn; [tauto|]. intros u [H|H].
  - subst u. rewrite Nat.eqb_refl. eauto.
  - destruct (Nat.eqb (ouid x) u); eauto.
Qed.

Lemma find_node_self : forall ns nd, NoDup (uids ns) -> In nd ns -> find_node ns (ouid nd) = Some nd.
Proof.
  induction ns as [|x ns IH]; cbn; [tauto|]. intros nd Hnd [H|H].
  - subst x. rewrite Nat.eqb_refl. reflexivity.
  - inversion Hnd as [|? ? Hx Hns]; subst. destruct (Nat.eqb (ouid x) (ouid nd)) eqn:E.
    + apply Nat.eqb_eq in E. exfalso. apply Hx. rewrite E. apply in_map. exact H.
    + apply IH; assumption.
Qed.

Lemma NoDup_snoc {X} : forall (l : list X) x, NoDup l -> ~ In x l -> NoDup (l ++ [x]).
Proof.
  intros l x H1 H2. eapply Permutation_NoDup; [apply Permutation_cons_append|]. constructor; assumption.
Qed.

Definition order_inv (ns : list onode) (acc : list nat) : Prop := NoDup acc /\ incl acc (uids ns).

Lemma fold_inv {X} (I : list nat -> Prop) (step : list nat -> X -> list nat) :
  (forall acc x, I acc -> I (step acc x) /\ incl acc (step acc x)) ->
  forall l acc, I acc -> I (fold_left step l acc) /\ incl acc (fold_left step l acc).
Proof.
  intros Hstep. induction l as [|x l IH]; intros acc HI; cbn.
  - split; [assumption|apply incl_refl].
  - destruct (Hstep acc x HI) as [H1 H2]. destruct (IH _ H1) as [H3 H4].
    split; [assumption|]. eapply incl_tran; eassumption.
Qed.

Lemma add_node_inv : forall fuel ns u acc,
  order_inv ns acc -> order_inv ns (add_node fuel ns u acc) /\ incl acc (add_node fuel ns u acc).
Proof.
  induction fuel as [|f IH]; intros ns u acc HI; cbn [add_node].
  - split; [assumption|apply incl_refl].
  - destruct (memb u acc) eqn:Em; [split; [assumption|apply incl_refl]|].
    destruct (find_node ns u) as [nd|] eqn:Ef; [|split; [assumption|apply incl_refl]].
    apply find_node_some in Ef as [Hin Hu].
    assert (HI' : order_inv ns (acc ++ [u])).
    { destruct HI as [Hnd Hincl]. split.
      - apply NoDup_snoc; [assumption|]. apply memb_false. exact Em.
      - apply incl_app; [assumption|]. intros x [<-|[]]. subst u. apply in_map. exact Hin. }
    destruct (fold_inv (order_inv ns) (fun acc p => add_node f ns p acc)
                (fun a x Ha => IH ns x a Ha) (opar nd) _ HI') as [H1 H2].
    split; [assumption|]. eapply incl_tran; [|exact H2]. apply incl_appl, incl_refl.
Qed.

Lemma add_node_top : forall f ns u acc,
  order_inv ns acc -> In u (uids ns) -> In u (add_node (S f) ns u acc).
Proof.
  intros f ns u acc HI Hu. cbn [add_node]. destruct (memb u acc) eqn:Em.
  - apply memb_In. exact Em.
  - destruct (find_node_in ns u Hu) as [nd Ef]. rewrite Ef.
    assert (HI' : order_inv ns (acc ++ [u])).
    { apply find_node_some in Ef as [Hin Hu']. destruct HI as [Hnd Hincl]. split.
      - apply NoDup_snoc; [assumption|]. apply memb_false. exact Em.
      - apply incl_app; [assumption|]. intros x [<-|[]]. exact Hu. }
    destruct (fold_inv (order_inv ns) (fun acc p => add_node f ns p acc)
                (fun a x Ha => add_node_inv f ns x a Ha) (opar nd) _ HI') as [_ H2].
    apply H2. apply in_or_app. right. left. reflexivity.
Qed.

Lemma graph_order_fold : forall ns fuel l acc,
  order_inv ns acc -> incl l ns ->
  let r := fold_left (fun acc nd => add_node (S fuel) ns (ouid nd) acc) l acc in
  order_inv ns r /\ incl acc r /\ (forall nd, In nd l -> In (ouid nd) r).
Proof.
  intros ns fuel. induction l as [|x l IH]; intros acc HI Hl; cbn.
  - split; [assumption|]. split; [apply incl_refl|]. intros nd [].
  - assert (Hx : In (ouid x) (uids ns)) by (apply in_map, Hl; left; reflexivity).
    destruct (add_node_inv (S fuel) ns (ouid x) acc HI) as [H1 H2].
    pose proof (add_node_top fuel ns (ouid x) acc HI Hx) as H3.
    assert (Hl' : incl l ns) by (intros y Hy; apply Hl; right; exact Hy).
    destruct (IH _ H1 Hl') as [H4 [H5 H6]].
    split; [assumption|]. split; [eapply incl_tran; eassumption|].
    intros nd [<-|Hnd]; [apply H5; exact H3|apply H6; exact Hnd].
Qed.

Lemma graph_order_perm : forall ns, NoDup (uids ns) -> Permutation (graph_order ns) (uids ns).
Proof.
  intros ns Hnd. unfold graph_order.
  destruct (graph_order_fold ns (List.length ns) ns [] (conj (NoDup_nil _) (incl_nil_l _)) (incl_refl _))
    as [[H1 H2] [_ H3]].
  apply NoDup_Permutation; try assumption.
  intros u. split; [apply H2|]. intros Hu. apply in_map_iff in Hu as [nd [<- Hin]]. apply H3. exact Hin.
Qed.

Lemma filter_map_perm {X Y} (f : X -> option Y) : forall l l',
  Permutation l l' -> Permutation (filter_map f l) (filter_map f l').
Proof.
  induction 1; cbn.
  - constructor.
  - destruct (f x); auto.
  - destruct (f x), (f y); auto. constructor.
  - eapply Permutation_trans; eassumption.
Qed.

Lemma filter_map_find_self : forall ns l, NoDup (uids ns) -> incl l ns ->
  filter_map (find_node ns) (map ouid l) = l.
Proof.
  intros ns l Hnd. induction l as [|x l IH]; intros Hl; cbn; auto.
  rewrite (find_node_self ns x Hnd) by (apply Hl; left; reflexivity).
  rewrite IH; auto. intros y Hy. apply Hl. right. exact Hy.
Qed.

Lemma mk_graph_perm : forall ns, NoDup (uids ns) -> Permutation (mk_graph ns) ns.
Proof.
  intros ns Hnd. unfold mk_graph.
  eapply Permutation_trans; [apply filter_map_perm, graph_order_perm; assumption|].
  fold (uids ns). unfold uids. rewrite filter_map_find_self; auto using incl_refl.
Qed.

Lemma mk_graph_in : forall ns nd, In nd (mk_graph ns) -> In nd ns.
Proof.
  intros ns nd. unfold mk_graph. generalize (graph_order ns). induction l as [|u l IH]; cbn; [tauto|].
  destruct (find_node ns u) eqn:E; [|exact IH]. intros [<-|H]; auto. apply find_node_some in E. tauto.
Qed.

(* ==================================================================================== *)
(* 3. small list facts                                                                   *)
(* ==================================================================================== *)
Lemma key_eqb_eq : forall a b, key_eqb a b = true <-> a = b.
Proof.
  intros [s|u] [t|w]; cbn; try (split; [discriminate|intros [=]]).
  - rewrite String.eqb_eq. split; [intros ->; reflexivity|intros [= ->]; reflexivity].
  - rewrite Nat.eqb_eq. split; [intros ->; reflexivity|intros [= ->]; reflexivity].
Qed.

Lemma key_eqb_refl : forall a, key_eqb a a = true.
Proof. intros a. apply key_eqb_eq. reflexivity. Qed.

Lemma assoc_in {Y} : forall (m : list (key * Y)) k y, assoc k m = Some y -> In (k, y) m.
Proof.
  induction m as [|[k' y'] m IH]; cbn; [discriminate|]. intros k y. destruct (key_eqb k k') eqn:E.
  - apply key_eqb_eq in E. subst k'. intros [= ->]. auto.
  - intros H. right. apply IH. exact H.
Qed.

Lemma assoc_self {Y} : forall (m : list (key * Y)) k y,
  NoDup (map fst m) -> In (k, y) m -> assoc k m = Some y.
Proof.
  induction m as [|[k' y'] m IH]; cbn; [tauto|]. intros k y Hnd [H|H].
  - injection H as -> ->. rewrite key_eqb_refl. reflexivity.
  - inversion Hnd as [|? ? Hx Hm]; subst. destruct (key_eqb k k') eqn:E.
    + apply key_eqb_eq in E. subst k'. exfalso. apply Hx. change k with (fst (k, y)). apply in_map. exact H.
    + apply IH; assumption.
Qed.

Lemma assoc_key_in {Y} : forall (m : list (key * Y)) k, In k (map fst m) -> exists y, assoc k m = Some y.
Proof.
  induction m as [|[k' y'] m IH]; cbn; [tauto|]. intros k [H|H].
  - subst k'. rewrite key_eqb_refl. eauto.
  - destruct (key_eqb k k'); eauto.
Qed.

Lemma NoDup_map_inj {X Y} (f : X -> Y) : forall l x y,
  NoDup (map f l) -> In x l -> In y l -> f x = f y -> x = y.
Proof.
  induction l as [|a l IH]; cbn; [tauto|]. intros x y Hnd Hx Hy E. inversion Hnd as [|? ? Ha Hl]; subst.
  destruct Hx as [<-|Hx], Hy as [<-|Hy]; auto.
  - exfalso. apply Ha. rewrite E. apply in_map. exact Hy.
  - exfalso. apply Ha. rewrite <- E. apply in_map. exact Hx.
Qed.

Lemma NoDup_app_intro {X} : forall (l r : list X),
  NoDup l -> NoDup r -> (forall x, In x l -> ~ In x r) -> NoDup (l ++ r).
Proof.
  induction l as [|a l IH]; cbn; auto. intros r Hl Hr Hd. inversion Hl as [|? ? Ha Hl']; subst.
  constructor.
  - intros H. apply in_app_or in H as [H|H]; [auto|]. apply (Hd a); auto.
  - apply IH; auto.
Qed.

Lemma filter_map_In {X Y} (f : X -> option Y) : forall l y,
  In y (filter_map f l) <-> exists x, In x l /\ f x = Some y.
Proof.
  induction l as [|a l IH]; cbn; intros y.
  - split; [tauto|intros [x [[] _]]].
  - destruct (f a) eqn:E; cbn; rewrite IH; split.
    + intros [<-|[x [H1 H2]]]; eauto.
    + intros [x [[<-|H1] H2]]; [left; congruence|eauto].
    + intros [x [H1 H2]]; eauto.
    + intros [x [[<-|H1] H2]]; [congruence|eauto].
Qed.

Lemma uniq_acc_spec : forall l seen,
  (forall x, In x (uniq_acc seen l) <-> In x l /\ ~ In x seen) /\
  NoDup (uniq_acc seen l).
Proof.
  induction l as [|a l IH]; intros seen; cbn.
  - split; [intros x; tauto|constructor].
  - destruct (memb a seen) eqn:E.
    + destruct (IH seen) as [H1 H2]. split; [|assumption]. intros x. rewrite H1.
      apply memb_In in E. split; [tauto|]. intros [[<-|H] Hn]; tauto.
    + destruct (IH (a :: seen)) as [H1 H2]. apply memb_false in E. split.
      * intros x. cbn. rewrite H1. cbn. split.
        -- intros [<-|[Hx Hn]]; [tauto|]. split; [tauto|]. intros Hs. apply Hn. right. exact Hs.
        -- intros [[<-|Hx] Hn]; [tauto|]. destruct (Nat.eq_dec a x) as [->|Hne]; [tauto|].
           right. split; [assumption|]. intros [Hs|Hs]; tauto.
      * constructor; [|assumption]. rewrite H1. cbn. tauto.
Qed.

Lemma uniq_In : forall l x, In x (uniq l) <-> In x l.
Proof. intros l x. unfold uniq. destruct (uniq_acc_spec l []) as [H _]. rewrite H. cbn. tauto. Qed.

Lemma uniq_NoDup : forall l, NoDup (uniq l).
Proof. intros l. apply (uniq_acc_spec l []). Qed.

Lemma uniq_acc_id : forall l seen, NoDup l -> (forall x, In x l -> ~ In x seen) -> uniq_acc seen l = l.
Proof.
  induction l as [|a l IH]; intros seen Hnd Hs; cbn; auto. inversion Hnd as [|? ? Ha Hl]; subst.
  assert (E : memb a seen = false) by (apply memb_false, Hs; left; reflexivity).
  rewrite E. f_equal. apply IH; auto. intros x Hx [<-|H]; [tauto|]. apply (Hs x); [right; exact Hx|exact H].
Qed.

Lemma uniq_id : forall l, NoDup l -> uniq l = l.
Proof. intros l H. apply uniq_acc_id; auto. Qed.

Lemma preds_In : forall (es : list (key * key)) k w, In w (preds es k) <-> In (w, k) es.
Proof.
  intros es k w. unfold preds. rewrite in_map_iff. split.
  - intros [[a b] [<- H]]. apply filter_In in H as [H E]. cbn in *. apply key_eqb_eq in E. subst b. exact H.
  - intros H. exists (w, k). split; [reflexivity|]. apply filter_In. split; [exact H|]. cbn. apply key_eqb_refl.
Qed.

(* ==================================================================================== *)
(* 4. specification predicates                                                           *)
(* ==================================================================================== *)
(* well-formed NetworkX digraph *)
Definition nx_wf {A} (G : nxg A) : Prop :=
  NoDup (keys G) /\ NoDup (edges G) /\
  forall u v, In (u, v) (edges G) -> In u (keys G) /\ In v (keys G).

(* f is an isomorphism of digraphs from G onto G' under which the attributes are R-related *)
Definition nx_iso {A B} (R : A -> B -> Prop) (f : key -> key) (G : nxg A) (G' : nxg B) : Prop :=
  (forall k1 k2, In k1 (keys G) -> In k2 (keys G) -> f k1 = f k2 -> k1 = k2) /\
  Permutation (map f (keys G)) (keys G') /\
  (forall k a, In (k, a) (nodes G) -> exists b, In (f k, b) (nodes G') /\ R a b) /\
  (forall u v, In u (keys G) -> In v (keys G) -> (In (u, v) (edges G) <-> In (f u, f v) (edges G'))) /\
  nx_wf G'.

(* LinkedGraph invariant *)
Definition opt_wf (g : optg) : Prop :=
  NoDup (uids g) /\ forall nd, In nd g -> NoDup (opar nd) /\ incl (opar nd) (uids g).

(* ==================================================================================== *)
(* 5. NetworkX -> internal -> NetworkX, generic in _node_adapt / _node_restore            *)
(* ==================================================================================== *)
Section BuildRestore.
  Context {A : Type}.
  Variable n0 : nat.
  Variable m : list (key * onode).
  Variable es : list (key * key).
  Variable nr : onode -> A.
  Hypothesis Hkeys : NoDup (map fst m).
  Hypothesis Huids : NoDup (map (fun kn => ouid (snd kn)) m).
  Hypothesis Hes : NoDup es.
  Hypothesis Hends : forall u v, In (u, v) es -> In u (map fst m) /\ In v (map fst m).

  Let ns := map (set_parents n0 m es) m.
  Let g := build_graph n0 m es.
  Let G' := restore_gen nr g.
  Definition phi_of (k : key) : key :=
    match uid_of_key m k with Some u => KUid u | None => k end.

  Lemma ns_uids : uids ns = map (fun kn => ouid (snd kn)) m.
  Proof. unfold ns, uids. rewrite map_map. reflexivity. Qed.

  Lemma g_perm : Permutation g ns.
  Proof. apply mk_graph_perm. rewrite ns_uids. exact Huids. Qed.

  Lemma uid_of_key_in : forall k nd, In (k, nd) m -> uid_of_key m k = Some (ouid nd).
  Proof. intros k nd H. unfold uid_of_key. rewrite (assoc_self m k nd Hkeys H). reflexivity. Qed.

  Lemma uid_of_key_some : forall k u, uid_of_key m k = Some u -> exists nd, In (k, nd) m /\ ouid nd = u.
  Proof.
    intros k u. unfold uid_of_key. destruct (assoc k m) as [nd|] eqn:E; [|discriminate].
    intros [= <-]. exists nd. split; [apply assoc_in; exact E|reflexivity].
  Qed.

  Lemma entry_inj : forall k1 nd1 k2 nd2,
    In (k1, nd1) m -> In (k2, nd2) m -> ouid nd1 = ouid nd2 -> k1 = k2 /\ nd1 = nd2.
  Proof.
    intros k1 nd1 k2 nd2 H1 H2 E.
    pose proof (NoDup_map_inj (fun kn : key * onode => ouid (snd kn)) m (k1, nd1) (k2, nd2) Huids H1 H2 E) as H.
    injection H as -> ->. auto.
  Qed.

  Lemma key_entry : forall k, In k (map fst m) -> exists nd, In (k, nd) m.
  Proof. intros k H. apply in_map_iff in H as [[k' nd] [<- H]]. eauto. Qed.

  Lemma phi_of_in : forall k nd, In (k, nd) m -> phi_of k = KUid (ouid nd).
  Proof. intros k nd H. unfold phi_of. rewrite (uid_of_key_in k nd H). reflexivity. Qed.

  Lemma phi_inj : forall k1 k2, In k1 (map fst m) -> In k2 (map fst m) -> phi_of k1 = phi_of k2 -> k1 = k2.
  Proof.
    intros k1 k2 H1 H2 E. destruct (key_entry k1 H1) as [nd1 E1], (key_entry k2 H2) as [nd2 E2].
    rewrite (phi_of_in _ _ E1), (phi_of_in _ _ E2) in E. injection E as E.
    apply (entry_inj k1 nd1 k2 nd2 E1 E2 E).
  Qed.

  Lemma keys_G' : keys G' = map KUid (uids g).
  Proof. unfold keys, G', restore_gen, uids. cbn. rewrite !map_map. reflexivity. Qed.

  Lemma keys_perm : Permutation (map phi_of (map fst m)) (keys G').
  Proof.
    rewrite keys_G'. apply Permutation_sym. eapply Permutation_trans.
    - apply Permutation_map. unfold uids. apply Permutation_map. exact g_perm.
    - fold (uids ns). rewrite ns_uids, !map_map. apply Permutation_refl'. apply map_ext_in.
      intros [k nd] H. cbn. symmetry. apply phi_of_in. exact H.
  Qed.

  Lemma node_in_g : forall k nd, In (k, nd) m -> In (set_parents n0 m es (k, nd)) g.
  Proof.
    intros k nd H. eapply Permutation_in; [apply Permutation_sym, g_perm|].
    unfold ns. apply in_map. exact H.
  Qed.

  Lemma in_g : forall nd', In nd' g -> exists k nd, In (k, nd) m /\ nd' = set_parents n0 m es (k, nd).
  Proof.
    intros nd' H. apply (Permutation_in _ g_perm) in H. unfold ns in H.
    apply in_map_iff in H as [[k nd] [<- H]]. eauto.
  Qed.

  (* edges of the restored digraph *)
  Lemma edges_G' : forall x y,
    In (x, y) (edges G') <->
    exists k nd w p, In (k, nd) m /\ In (w, k) es /\ uid_of_key m w = Some p /\
                     x = KUid p /\ y = KUid (ouid nd).
  Proof.
    intros x y. unfold G', restore_gen. cbn [edges]. rewrite in_flat_map. split.
    - intros [nd' [Hg H]]. apply in_map_iff in H as [p [E Hp]]. injection E as <- <-.
      destruct (in_g nd' Hg) as [k [nd [Hm ->]]]. cbn in Hp. apply uniq_In in Hp.
      apply filter_map_In in Hp as [w [Hw Hu]]. apply preds_In in Hw.
      exists k, nd, w, p. cbn. auto.
    - intros [k [nd [w [p [Hm [Hw [Hu [-> ->]]]]]]]]. exists (set_parents n0 m es (k, nd)).
      split; [apply node_in_g; exact Hm|]. apply in_map_iff. exists p. split; [reflexivity|].
      cbn. apply uniq_In. apply filter_map_In. exists w. split; [apply preds_In; exact Hw|exact Hu].
  Qed.

  Lemma edges_iff : forall u v, In u (map fst m) -> In v (map fst m) ->
    (In (u, v) es <-> In (phi_of u, phi_of v) (edges G')).
  Proof.
    intros u v Hu Hv. destruct (key_entry u Hu) as [ndu Eu], (key_entry v Hv) as [ndv Ev].
    rewrite edges_G', (phi_of_in _ _ Eu), (phi_of_in _ _ Ev). split.
    - intros H. exists v, ndv, u, (ouid ndu). repeat split; auto. apply uid_of_key_in. exact Eu.
    - intros [k [nd [w [p [Hm [Hw [Hp [E1 E2]]]]]]]]. injection E1 as E1. injection E2 as E2.
      destruct (entry_inj _ _ _ _ Ev Hm E2) as [-> _].
      apply uid_of_key_some in Hp as [ndw [Hmw Ew]].
      destruct (entry_inj u ndu w ndw Eu Hmw) as [-> _]; [congruence|]. exact Hw.
  Qed.

  Lemma G'_wf : nx_wf G'.
  Proof.
    assert (Hg : NoDup (uids g)).
    { eapply Permutation_NoDup; [apply Permutation_sym, Permutation_map, g_perm|].
      fold (uids ns). rewrite ns_uids. exact Huids. }
    split; [|split].
    - rewrite keys_G'. apply FinFun.Injective_map_NoDup; [|exact Hg]. intros a b [=]. assumption.
    - unfold G', restore_gen. cbn [edges]. revert Hg. generalize g as l.
      induction l as [|nd l IH]; cbn; [constructor|]. intros Hnd. inversion Hnd as [|? ? Hx Hl]; subst.
      apply NoDup_app_intro.
      + apply FinFun.Injective_map_NoDup; [intros a b [=]; assumption|].
        destruct (in_g nd) as [k [nd0 [_ ->]]]; [|cbn; apply uniq_NoDup].
        (* nd is a member of g only in the original list; handled below *)
        fail.
      + apply IH. exact Hl.
      + intros [x y] H1 H2. apply in_map_iff in H1 as [p [E _]]. injection E as <- <-.
        apply in_flat_map in H2 as [nd' [Hin H2]]. apply in_map_iff in H2 as [q [E _]].
        injection E as _ E. apply Hx. rewrite <- E. apply in_map. exact Hin.
    - intros x y H. apply edges_G' in H as [k [nd [w [p [Hm [Hw [Hp [-> ->]]]]]]]].
      rewrite keys_G'. apply uid_of_key_some in Hp as [ndw [Hmw <-]].
      split; apply in_map; change (ouid ?n) with (ouid (set_parents n0 m es (w, n))) at 1.
      + change (ouid ndw) with (ouid (set_parents n0 m es (w, ndw))). apply in_map, node_in_g. exact Hmw.
      + change (ouid nd) with (ouid (set_parents n0 m es (k, nd))). apply in_map, node_in_g. exact Hm.
  Qed.
End BuildRestore.
