(* Proofs about the adapter model (Adapter.v).  Statements are collected in Properties/C18.v. *)
From Coq Require Import List String Ascii ZArith Bool Arith Lia Permutation.
From GolemV Require Import Adapter.Adapter.
Import ListNotations.

(* ==================================================================================== *)
(* 1. values                                                                             *)
(* ==================================================================================== *)
Section ValueInd.
  Variable P : value -> Prop.
  Hypothesis HNone : P PNone.
  Hypothesis HBool : forall b, P (PBool b).
  Hypothesis HInt : forall z, P (PInt z).
  Hypothesis HStr : forall s, P (PStr s).
  Hypothesis HList : forall i l, Forall P l -> P (PList i l).
  Hypothesis HDict : forall i l, Forall (fun kv => P (snd kv)) l -> P (PDict i l).

  Fixpoint value_ind' (v : value) : P v :=
    match v with
    | PNone => HNone
    | PBool b => HBool b
    | PInt z => HInt z
    | PStr s => HStr s
    | PList i l =>
        HList i l ((fix go (l : list value) : Forall P l :=
                      match l with
                      | [] => Forall_nil _
                      | x :: r => Forall_cons _ (value_ind' x) (go r)
                      end) l)
    | PDict i l =>
        HDict i l ((fix go (l : list (string * value)) : Forall (fun kv => P (snd kv)) l :=
                      match l with
                      | [] => Forall_nil _
                      | (k, x) :: r => Forall_cons (k, x) (value_ind' x) (go r)
                      end) l)
    end.
End ValueInd.

Definition kv_eqb (x y : string * value) : bool := String.eqb (fst x) (fst y) && veqb (snd x) (snd y).

Lemma veqb_list : forall i j l r, veqb (PList i l) (PList j r) = list_eqb veqb l r.
Proof.
  intros i j l. cbn [veqb]. induction l as [|x l IH]; intros [|y r]; cbn [list_eqb]; try reflexivity.
  rewrite <- IH. reflexivity.
Qed.

Lemma veqb_dict : forall i j l r, veqb (PDict i l) (PDict j r) = list_eqb kv_eqb l r.
Proof.
  intros i j l. cbn [veqb]. induction l as [|[k x] l IH]; intros [|[k' y] r]; cbn [list_eqb]; try reflexivity.
  rewrite <- IH. reflexivity.
Qed.

Lemma veqb_shift_r : forall a b n, veqb a b = true -> veqb a (shift n b) = true.
Proof.
  induction a as [| | | |i l IH|i l IH] using value_ind'; intros w n H; destruct w; try discriminate H;
    cbn [shift]; try exact H.
  - rewrite veqb_list in *. revert items H. induction IH as [|x l Hx _ IHl]; intros [|y r] H; cbn in *; try discriminate; auto.
    apply andb_true_iff in H as [H1 H2]. rewrite (Hx _ _ H1), (IHl _ H2). reflexivity.
  - rewrite veqb_dict in *. revert items H. induction IH as [|x l Hx _ IHl]; intros [|y r] H; cbn in *; try discriminate; auto.
    apply andb_true_iff in H as [H1 H2]. unfold kv_eqb in *. cbn [fst snd].
    apply andb_true_iff in H1 as [H0 H1]. rewrite H0, (Hx _ _ H1), (IHl _ H2). reflexivity.
Qed.

Lemma veqb_refl : forall a, veqb a a = true.
Proof.
  induction a as [|b|z|s|i l IH|i l IH] using value_ind'.
  - reflexivity.
  - destruct b; reflexivity.
  - apply Z.eqb_refl.
  - apply String.eqb_refl.
  - rewrite veqb_list. induction IH as [|x l Hx _ IHl]; cbn; auto. rewrite Hx, IHl. reflexivity.
  - rewrite veqb_dict. induction IH as [|x l Hx _ IHl]; cbn; auto.
    unfold kv_eqb at 1. rewrite String.eqb_refl, Hx, IHl. reflexivity.
Qed.

Lemma veqb_shift2 : forall v n m, veqb v (shift n (shift m v)) = true.
Proof. intros. apply veqb_shift_r, veqb_shift_r, veqb_refl. Qed.

Lemma vids_shift : forall v n, Forall (fun i => n <= i) (vids (shift n v)).
Proof.
  induction v as [| | | |i l IH|i l IH] using value_ind'; intros n; cbn [shift vids]; auto.
  - constructor; [lia|]. induction IH; cbn; auto. apply Forall_app; auto.
  - constructor; [lia|]. induction IH; cbn; auto. apply Forall_app; auto.
Qed.

Lemma attrs_ids_shift : forall a n, Forall (fun i => n <= i) (attrs_ids (shift_attrs n a)).
Proof.
  induction a as [|[k v] a IH]; intros n; cbn; auto. apply Forall_app; split; auto using vids_shift.
  apply IH.
Qed.

(* ---- attribute dicts ---- *)
Lemma lookup_shift : forall k a n, lookup k (shift_attrs n a) = option_map (shift n) (lookup k a).
Proof.
  induction a as [|[k' v] a IH]; intros n; cbn; auto. destruct (String.eqb k k'); auto. apply IH.
Qed.

Lemma lookup_remove_neq : forall k k' a, k <> k' -> lookup k (remove_key k' a) = lookup k a.
Proof.
  induction a as [|[k2 v] a IH]; intros Hne; cbn; auto.
  destruct (String.eqb k' k2) eqn:E.
  - apply String.eqb_eq in E. subst k2. destruct (String.eqb k k') eqn:E2; auto.
    apply String.eqb_eq in E2. contradiction.
  - cbn. destruct (String.eqb k k2); auto.
Qed.

Lemma remove_absent : forall k a, lookup k a = None -> remove_key k a = a.
Proof.
  induction a as [|[k2 v] a IH]; cbn; auto. destruct (String.eqb k k2); [discriminate|].
  intros H. rewrite IH; auto.
Qed.

Lemma lookup_set_key : forall k k' v a,
  lookup k (set_key k' v a) = if String.eqb k k' then Some v else lookup k a.
Proof.
  induction a as [|[k2 w] a IH]; cbn.
  - destruct (String.eqb k k'); reflexivity.
  - destruct (String.eqb k' k2) eqn:E; cbn.
    + apply String.eqb_eq in E. subst k2. destruct (String.eqb k k'); reflexivity.
    + destruct (String.eqb k k2) eqn:E2.
      * apply String.eqb_eq in E2. subst k2. rewrite String.eqb_sym, E. reflexivity.
      * apply IH.
Qed.

Lemma attrs_ids_remove : forall k a i, In i (attrs_ids (remove_key k a)) -> In i (attrs_ids a).
Proof.
  induction a as [|[k2 v] a IH]; cbn; auto. intros i. destruct (String.eqb k k2); cbn; intros H.
  - apply in_or_app. auto.
  - apply in_app_or in H as [H|H]; apply in_or_app; auto.
Qed.

Lemma attrs_ids_set_str : forall k s a i, In i (attrs_ids (set_key k (PStr s) a)) -> In i (attrs_ids a).
Proof.
  induction a as [|[k2 v] a IH]; cbn; auto. intros i. destruct (String.eqb k k2); cbn; intros H.
  - apply in_or_app. auto.
  - apply in_app_or in H as [H|H]; apply in_or_app; auto.
Qed.

Lemma lookup_in_ids : forall k a v i, lookup k a = Some v -> In i (vids v) -> In i (attrs_ids a).
Proof.
  induction a as [|[k2 w] a IH]; cbn; [discriminate|]. intros v i. destruct (String.eqb k k2).
  - intros [= ->] H. apply in_or_app. auto.
  - intros H1 H2. apply in_or_app. right. eauto.
Qed.

(* ==================================================================================== *)
(* 2. LinkedGraph.__init__ : add_node / graph_order / mk_graph                           *)
(* ==================================================================================== *)
Definition uids (ns : list onode) : list nat := map ouid ns.

Lemma memb_In : forall u l, memb u l = true <-> In u l.
Proof.
  induction l as [|x l IH]; cbn; [split; [discriminate|tauto]|].
  rewrite orb_true_iff, IH, Nat.eqb_eq. split; intros [H|H]; auto.
Qed.

Lemma memb_false : forall u l, memb u l = false <-> ~ In u l.
Proof. intros. rewrite <- memb_In. destruct (memb u l); split; congruence. Qed.

Lemma find_node_some : forall ns u nd, find_node ns u = Some nd -> In nd ns /\ ouid nd = u.
Proof.
  induction ns as [|x ns IH]; cbn; [discriminate|]. intros u nd. destruct (Nat.eqb (ouid x) u) eqn:E.
  - intros [= <-]. apply Nat.eqb_eq in E. auto.
  - intros H. apply IH in H. tauto.
Qed.

Lemma find_node_in : forall ns u, In u (uids ns) -> exists nd, find_node ns u = Some nd.
Proof.
  induction ns as [|x ns IH]; cbn; [tauto|]. intros u [H|H].
  - subst u. rewrite Nat.eqb_refl. eauto.
  - destruct (Nat.eqb (ouid x) u); eauto.
Qed.

Lemma find_node_self : forall ns nd, NoDup (uids ns) -> In nd ns -> find_node ns (ouid nd) = Some nd.
Proof.
  induction ns as [|x ns IH]; cbn; [tauto|]. intros nd Hnd [H|H].
  - subst x. rewrite Nat.eqb_refl. reflexivity.
  - inversion Hnd as [|? ? Hx Hns]; subst. destruct (Nat.eqb (ouid x) (ouid nd)) eqn:E.
    + apply Nat.eqb_eq in E. exfalso. apply Hx. rewrite E. apply in_map. exact H.
    + apply IH; assumption.
Qed.

Lemma NoDup_snoc {X} : forall (l : list X) x, NoDup l -> ~ In x l -> NoDup (l ++ [x]).
Proof.
  intros l x H1 H2. eapply Permutation_NoDup; [apply Permutation_cons_append|]. constructor; assumption.
Qed.

Definition order_inv (ns : list onode) (acc : list nat) : Prop := NoDup acc /\ incl acc (uids ns).

Lemma fold_inv {X} (I : list nat -> Prop) (step : list nat -> X -> list nat) :
  (forall acc x, I acc -> I (step acc x) /\ incl acc (step acc x)) ->
  forall l acc, I acc -> I (fold_left step l acc) /\ incl acc (fold_left step l acc).
Proof.
  intros Hstep. induction l as [|x l IH]; intros acc HI; cbn.
  - split; [assumption|apply incl_refl].
  - destruct (Hstep acc x HI) as [H1 H2]. destruct (IH _ H1) as [H3 H4].
    split; [assumption|]. eapply incl_tran; eassumption.
Qed.

Lemma add_node_inv : forall fuel ns u acc,
  order_inv ns acc -> order_inv ns (add_node fuel ns u acc) /\ incl acc (add_node fuel ns u acc).
Proof.
  induction fuel as [|f IH]; intros ns u acc HI; cbn [add_node].
  - split; [assumption|apply incl_refl].
  - destruct (memb u acc) eqn:Em; [split; [assumption|apply incl_refl]|].
    destruct (find_node ns u) as [nd|] eqn:Ef; [|split; [assumption|apply incl_refl]].
    apply find_node_some in Ef as [Hin Hu].
    assert (HI' : order_inv ns (acc ++ [u])).
    { destruct HI as [Hnd Hincl]. split.
      - apply NoDup_snoc; [assumption|]. apply memb_false. exact Em.
      - apply incl_app; [assumption|]. intros x [<-|[]]. subst u. apply in_map. exact Hin. }
    destruct (fold_inv (order_inv ns) (fun acc p => add_node f ns p acc)
                (fun a x Ha => IH ns x a Ha) (opar nd) _ HI') as [H1 H2].
    split; [assumption|]. eapply incl_tran; [|exact H2]. apply incl_appl, incl_refl.
Qed.

Lemma add_node_top : forall f ns u acc,
  order_inv ns acc -> In u (uids ns) -> In u (add_node (S f) ns u acc).
Proof.
  intros f ns u acc HI Hu. cbn [add_node]. destruct (memb u acc) eqn:Em.
  - apply memb_In. exact Em.
  - destruct (find_node_in ns u Hu) as [nd Ef]. rewrite Ef.
    assert (HI' : order_inv ns (acc ++ [u])).
    { apply find_node_some in Ef as [Hin Hu']. destruct HI as [Hnd Hincl]. split.
      - apply NoDup_snoc; [assumption|]. apply memb_false. exact Em.
      - apply incl_app; [assumption|]. intros x [<-|[]]. exact Hu. }
    destruct (fold_inv (order_inv ns) (fun acc p => add_node f ns p acc)
                (fun a x Ha => add_node_inv f ns x a Ha) (opar nd) _ HI') as [_ H2].
    apply H2. apply in_or_app. right. left. reflexivity.
Qed.

Lemma graph_order_fold : forall ns fuel l acc,
  order_inv ns acc -> incl l ns ->
  let r := fold_left (fun acc nd => add_node (S fuel) ns (ouid nd) acc) l acc in
  order_inv ns r /\ incl acc r /\ (forall nd, In nd l -> In (ouid nd) r).
Proof.
  intros ns fuel. induction l as [|x l IH]; intros acc HI Hl; cbn.
  - split; [assumption|]. split; [apply incl_refl|]. intros nd [].
  - assert (Hx : In (ouid x) (uids ns)) by (apply in_map, Hl; left; reflexivity).
    destruct (add_node_inv (S fuel) ns (ouid x) acc HI) as [H1 H2].
    pose proof (add_node_top fuel ns (ouid x) acc HI Hx) as H3.
    assert (Hl' : incl l ns) by (intros y Hy; apply Hl; right; exact Hy).
    destruct (IH _ H1 Hl') as [H4 [H5 H6]].
    split; [assumption|]. split; [eapply incl_tran; eassumption|].
    intros nd [<-|Hnd]; [apply H5; exact H3|apply H6; exact Hnd].
Qed.

Lemma graph_order_perm : forall ns, NoDup (uids ns) -> Permutation (graph_order ns) (uids ns).
Proof.
  intros ns Hnd. unfold graph_order.
  destruct (graph_order_fold ns (List.length ns) ns [] (conj (NoDup_nil _) (incl_nil_l _)) (incl_refl _))
    as [[H1 H2] [_ H3]].
  apply NoDup_Permutation; try assumption.
  intros u. split; [apply H2|]. intros Hu. apply in_map_iff in Hu as [nd [<- Hin]]. apply H3. exact Hin.
Qed.

Lemma filter_map_perm {X Y} (f : X -> option Y) : forall l l',
  Permutation l l' -> Permutation (filter_map f l) (filter_map f l').
Proof.
  induction 1; cbn.
  - constructor.
  - destruct (f x); auto.
  - destruct (f x), (f y); auto. constructor.
  - eapply Permutation_trans; eassumption.
Qed.

Lemma filter_map_find_self : forall ns l, NoDup (uids ns) -> incl l ns ->
  filter_map (find_node ns) (map ouid l) = l.
Proof.
  intros ns l Hnd. induction l as [|x l IH]; intros Hl; cbn; auto.
  rewrite (find_node_self ns x Hnd) by (apply Hl; left; reflexivity).
  rewrite IH; auto. intros y Hy. apply Hl. right. exact Hy.
Qed.

Lemma mk_graph_perm : forall ns, NoDup (uids ns) -> Permutation (mk_graph ns) ns.
Proof.
  intros ns Hnd. unfold mk_graph.
  eapply Permutation_trans; [apply filter_map_perm, graph_order_perm; assumption|].
  fold (uids ns). unfold uids. rewrite filter_map_find_self; auto using incl_refl.
Qed.

Lemma mk_graph_in : forall ns nd, In nd (mk_graph ns) -> In nd ns.
Proof.
  intros ns nd. unfold mk_graph. generalize (graph_order ns). induction l as [|u l IH]; cbn; [tauto|].
  destruct (find_node ns u) eqn:E; [|exact IH]. intros [<-|H]; auto. apply find_node_some in E. tauto.
Qed.

(* ==================================================================================== *)
(* 3. small list facts                                                                   *)
(* ==================================================================================== *)
Lemma key_eqb_eq : forall a b, key_eqb a b = true <-> a = b.
Proof.
  intros [s|u] [t|w]; cbn; try (split; [discriminate|intros [=]]).
  - rewrite String.eqb_eq. split; [intros ->; reflexivity|intros [= ->]; reflexivity].
  - rewrite Nat.eqb_eq. split; [intros ->; reflexivity|intros [= ->]; reflexivity].
Qed.

Lemma key_eqb_refl : forall a, key_eqb a a = true.
Proof. intros a. apply key_eqb_eq. reflexivity. Qed.

Lemma assoc_in {Y} : forall (m : list (key * Y)) k y, assoc k m = Some y -> In (k, y) m.
Proof.
  induction m as [|[k' y'] m IH]; cbn; [discriminate|]. intros k y. destruct (key_eqb k k') eqn:E.
  - apply key_eqb_eq in E. subst k'. intros [= ->]. auto.
  - intros H. right. apply IH. exact H.
Qed.

Lemma assoc_self {Y} : forall (m : list (key * Y)) k y,
  NoDup (map fst m) -> In (k, y) m -> assoc k m = Some y.
Proof.
  induction m as [|[k' y'] m IH]; cbn; [tauto|]. intros k y Hnd [H|H].
  - injection H as -> ->. rewrite key_eqb_refl. reflexivity.
  - inversion Hnd as [|? ? Hx Hm]; subst. destruct (key_eqb k k') eqn:E.
    + apply key_eqb_eq in E. subst k'. exfalso. apply Hx. change k with (fst (k, y)). apply in_map. exact H.
    + apply IH; assumption.
Qed.

Lemma assoc_key_in {Y} : forall (m : list (key * Y)) k, In k (map fst m) -> exists y, assoc k m = Some y.
Proof.
  induction m as [|[k' y'] m IH]; cbn; [tauto|]. intros k [H|H].
  - subst k'. rewrite key_eqb_refl. eauto.
  - destruct (key_eqb k k'); eauto.
Qed.

Lemma NoDup_map_inj {X Y} (f : X -> Y) : forall l x y,
  NoDup (map f l) -> In x l -> In y l -> f x = f y -> x = y.
Proof.
  induction l as [|a l IH]; cbn; [tauto|]. intros x y Hnd Hx Hy E. inversion Hnd as [|? ? Ha Hl]; subst.
  destruct Hx as [<-|Hx], Hy as [<-|Hy]; auto.
  - exfalso. apply Ha. rewrite E. apply in_map. exact Hy.
  - exfalso. apply Ha. rewrite <- E. apply in_map. exact Hx.
Qed.

Lemma NoDup_map_in {X Y} (f : X -> Y) : forall l,
  (forall a b, In a l -> In b l -> f a = f b -> a = b) -> NoDup l -> NoDup (map f l).
Proof.
  induction l as [|x l IH]; cbn; intros Hinj Hnd; [constructor|]. inversion Hnd as [|? ? Hx Hl]; subst.
  constructor.
  - intros H. apply in_map_iff in H as [y [E Hy]]. apply Hx.
    rewrite <- (Hinj y x); auto.
  - apply IH; auto.
Qed.

Lemma NoDup_app_intro {X} : forall (l r : list X),
  NoDup l -> NoDup r -> (forall x, In x l -> ~ In x r) -> NoDup (l ++ r).
Proof.
  induction l as [|a l IH]; cbn; auto. intros r Hl Hr Hd. inversion Hl as [|? ? Ha Hl']; subst.
  constructor.
  - intros H. apply in_app_or in H as [H|H]; [auto|]. apply (Hd a); auto.
  - apply IH; auto.
Qed.

Lemma filter_map_In {X Y} (f : X -> option Y) : forall l y,
  In y (filter_map f l) <-> exists x, In x l /\ f x = Some y.
Proof.
  induction l as [|a l IH]; cbn; intros y.
  - split; [tauto|intros [x [[] _]]].
  - destruct (f a) eqn:E; cbn; rewrite IH; split.
    + intros [<-|[x [H1 H2]]]; eauto.
    + intros [x [[<-|H1] H2]]; [left; congruence|eauto].
    + intros [x [H1 H2]]; eauto.
    + intros [x [[<-|H1] H2]]; [congruence|eauto].
Qed.

Lemma uniq_acc_spec : forall l seen,
  (forall x, In x (uniq_acc seen l) <-> In x l /\ ~ In x seen) /\
  NoDup (uniq_acc seen l).
Proof.
  induction l as [|a l IH]; intros seen; cbn.
  - split; [intros x; tauto|constructor].
  - destruct (memb a seen) eqn:E.
    + destruct (IH seen) as [H1 H2]. split; [|assumption]. intros x. rewrite H1.
      apply memb_In in E. split; [tauto|]. intros [[<-|H] Hn]; tauto.
    + destruct (IH (a :: seen)) as [H1 H2]. apply memb_false in E. split.
      * intros x. cbn. rewrite H1. cbn. split.
        -- intros [<-|[Hx Hn]]; [tauto|]. split; [tauto|]. intros Hs. apply Hn. right. exact Hs.
        -- intros [[<-|Hx] Hn]; [tauto|]. destruct (Nat.eq_dec a x) as [->|Hne]; [tauto|].
           right. split; [assumption|]. intros [Hs|Hs]; tauto.
      * constructor; [|assumption]. rewrite H1. cbn. tauto.
Qed.

Lemma uniq_In : forall l x, In x (uniq l) <-> In x l.
Proof. intros l x. unfold uniq. destruct (uniq_acc_spec l []) as [H _]. rewrite H. cbn. tauto. Qed.

Lemma uniq_NoDup : forall l, NoDup (uniq l).
Proof. intros l. apply (uniq_acc_spec l []). Qed.

Lemma uniq_acc_id : forall l seen, NoDup l -> (forall x, In x l -> ~ In x seen) -> uniq_acc seen l = l.
Proof.
  induction l as [|a l IH]; intros seen Hnd Hs; cbn; auto. inversion Hnd as [|? ? Ha Hl]; subst.
  assert (E : memb a seen = false) by (apply memb_false, Hs; left; reflexivity).
  rewrite E. f_equal. apply IH; auto. intros x Hx [<-|H]; [tauto|]. apply (Hs x); [right; exact Hx|exact H].
Qed.

Lemma uniq_id : forall l, NoDup l -> uniq l = l.
Proof. intros l H. apply uniq_acc_id; auto. Qed.

Lemma preds_In : forall (es : list (key * key)) k w, In w (preds es k) <-> In (w, k) es.
Proof.
  intros es k w. unfold preds. rewrite in_map_iff. split.
  - intros [[a b] [<- H]]. apply filter_In in H as [H E]. cbn in *. apply key_eqb_eq in E. subst b. exact H.
  - intros H. exists (w, k). split; [reflexivity|]. apply filter_In. split; [exact H|]. cbn. apply key_eqb_refl.
Qed.

(* ==================================================================================== *)
(* 4. specification predicates                                                           *)
(* ==================================================================================== *)
(* well-formed NetworkX digraph *)
Definition nx_wf {A} (G : nxg A) : Prop :=
  NoDup (keys G) /\ NoDup (edges G) /\
  forall u v, In (u, v) (edges G) -> In u (keys G) /\ In v (keys G).

(* f is an isomorphism of digraphs from G onto G' under which the attributes are R-related *)
Definition nx_iso {A B} (R : A -> B -> Prop) (f : key -> key) (G : nxg A) (G' : nxg B) : Prop :=
  (forall k1 k2, In k1 (keys G) -> In k2 (keys G) -> f k1 = f k2 -> k1 = k2) /\
  Permutation (map f (keys G)) (keys G') /\
  (forall k a, In (k, a) (nodes G) -> exists b, In (f k, b) (nodes G') /\ R a b) /\
  (forall u v, In u (keys G) -> In v (keys G) -> (In (u, v) (edges G) <-> In (f u, f v) (edges G'))) /\
  nx_wf G'.

(* LinkedGraph invariant *)
Definition opt_wf (g : optg) : Prop :=
  NoDup (uids g) /\ forall nd, In nd g -> NoDup (opar nd) /\ incl (opar nd) (uids g).

(* ==================================================================================== *)
(* 5. NetworkX -> internal -> NetworkX, generic in _node_adapt / _node_restore            *)
(* ==================================================================================== *)
Section BuildRestore.
  Context {A : Type}.
  Variable n0 : nat.
  Variable m : list (key * onode).
  Variable es : list (key * key).
  Variable nr : onode -> A.
  Hypothesis Hkeys : NoDup (map fst m).
  Hypothesis Huids : NoDup (map (fun kn => ouid (snd kn)) m).
  Hypothesis Hes : NoDup es.
  Hypothesis Hends : forall u v, In (u, v) es -> In u (map fst m) /\ In v (map fst m).

  Let ns := map (set_parents n0 m es) m.
  Let g := build_graph n0 m es.
  Let G' := restore_gen nr g.
  Definition phi_of (k : key) : key :=
    match uid_of_key m k with Some u => KUid u | None => k end.

  Lemma ns_uids : uids ns = map (fun kn => ouid (snd kn)) m.
  Proof. unfold ns, uids. rewrite map_map. reflexivity. Qed.

  Lemma g_perm : Permutation g ns.
  Proof. apply mk_graph_perm. rewrite ns_uids. exact Huids. Qed.

  Lemma uid_of_key_in : forall k nd, In (k, nd) m -> uid_of_key m k = Some (ouid nd).
  Proof. intros k nd H. unfold uid_of_key. rewrite (assoc_self m k nd Hkeys H). reflexivity. Qed.

  Lemma uid_of_key_some : forall k u, uid_of_key m k = Some u -> exists nd, In (k, nd) m /\ ouid nd = u.
  Proof.
    intros k u. unfold uid_of_key. destruct (assoc k m) as [nd|] eqn:E; [|discriminate].
    intros [= <-]. exists nd. split; [apply assoc_in; exact E|reflexivity].
  Qed.

  Lemma entry_inj : forall k1 nd1 k2 nd2,
    In (k1, nd1) m -> In (k2, nd2) m -> ouid nd1 = ouid nd2 -> k1 = k2 /\ nd1 = nd2.
  Proof.
    intros k1 nd1 k2 nd2 H1 H2 E.
    pose proof (NoDup_map_inj (fun kn : key * onode => ouid (snd kn)) m (k1, nd1) (k2, nd2) Huids H1 H2 E) as H.
    injection H as -> ->. auto.
  Qed.

  Lemma key_entry : forall k, In k (map fst m) -> exists nd, In (k, nd) m.
  Proof. intros k H. apply in_map_iff in H as [[k' nd] [<- H]]. eauto. Qed.

  Lemma phi_of_in : forall k nd, In (k, nd) m -> phi_of k = KUid (ouid nd).
  Proof. intros k nd H. unfold phi_of. rewrite (uid_of_key_in k nd H). reflexivity. Qed.

  Lemma phi_inj : forall k1 k2, In k1 (map fst m) -> In k2 (map fst m) -> phi_of k1 = phi_of k2 -> k1 = k2.
  Proof.
    intros k1 k2 H1 H2 E. destruct (key_entry k1 H1) as [nd1 E1], (key_entry k2 H2) as [nd2 E2].
    rewrite (phi_of_in _ _ E1), (phi_of_in _ _ E2) in E. injection E as E.
    apply (entry_inj k1 nd1 k2 nd2 E1 E2 E).
  Qed.

  Lemma keys_G' : keys G' = map KUid (uids g).
  Proof. unfold keys, G', restore_gen, uids. cbn. rewrite !map_map. reflexivity. Qed.

  Lemma keys_perm : Permutation (map phi_of (map fst m)) (keys G').
  Proof.
    rewrite keys_G'. apply Permutation_sym. eapply Permutation_trans.
    - apply Permutation_map. unfold uids. apply Permutation_map. exact g_perm.
    - fold (uids ns). rewrite ns_uids, !map_map. apply Permutation_refl'. apply map_ext_in.
      intros [k nd] H. cbn. symmetry. apply phi_of_in. exact H.
  Qed.

  Lemma node_in_g : forall k nd, In (k, nd) m -> In (set_parents n0 m es (k, nd)) g.
  Proof.
    intros k nd H. eapply Permutation_in; [apply Permutation_sym, g_perm|].
    unfold ns. apply in_map. exact H.
  Qed.

  Lemma in_g : forall nd', In nd' g -> exists k nd, In (k, nd) m /\ nd' = set_parents n0 m es (k, nd).
  Proof.
    intros nd' H. apply (Permutation_in _ g_perm) in H. unfold ns in H.
    apply in_map_iff in H as [[k nd] [<- H]]. eauto.
  Qed.

  (* edges of the restored digraph *)
  Lemma edges_G' : forall x y,
    In (x, y) (edges G') <->
    exists k nd w p, In (k, nd) m /\ In (w, k) es /\ uid_of_key m w = Some p /\
                     x = KUid p /\ y = KUid (ouid nd).
  Proof.
    intros x y. unfold G', restore_gen. cbn [edges]. rewrite in_flat_map. split.
    - intros [nd' [Hg H]]. apply in_map_iff in H as [p [E Hp]]. injection E as <- <-.
      destruct (in_g nd' Hg) as [k [nd [Hm ->]]]. cbn in Hp. apply -> uniq_In in Hp.
      apply (proj1 (filter_map_In _ _ _)) in Hp. destruct Hp as [w [Hw Hu]]. apply (proj1 (preds_In _ _ _)) in Hw.
      exists k, nd, w, p. cbn. auto.
    - intros [k [nd [w [p [Hm [Hw [Hu [-> ->]]]]]]]]. exists (set_parents n0 m es (k, nd)).
      split; [apply node_in_g; exact Hm|]. apply in_map_iff. exists p. split; [reflexivity|].
      cbn. apply uniq_In. apply filter_map_In. exists w. split; [apply preds_In; exact Hw|exact Hu].
  Qed.

  Lemma edges_iff : forall u v, In u (map fst m) -> In v (map fst m) ->
    (In (u, v) es <-> In (phi_of u, phi_of v) (edges G')).
  Proof.
    intros u v Hu Hv. destruct (key_entry u Hu) as [ndu Eu], (key_entry v Hv) as [ndv Ev].
    rewrite edges_G', (phi_of_in _ _ Eu), (phi_of_in _ _ Ev). split.
    - intros H. exists v, ndv, u, (ouid ndu). repeat split; auto. apply uid_of_key_in. exact Eu.
    - intros [k [nd [w [p [Hm [Hw [Hp [E1 E2]]]]]]]]. injection E1 as E1. injection E2 as E2.
      destruct (entry_inj _ _ _ _ Ev Hm E2) as [-> _].
      apply uid_of_key_some in Hp as [ndw [Hmw Ew]].
      destruct (entry_inj u ndu w ndw Eu Hmw) as [-> _]; [congruence|]. exact Hw.
  Qed.

  Lemma G'_wf : nx_wf G'.
  Proof.
    assert (Hg : NoDup (uids g)).
    { eapply Permutation_NoDup; [apply Permutation_sym, Permutation_map, g_perm|].
      fold (uids ns). rewrite ns_uids. exact Huids. }
    split; [|split].
    - rewrite keys_G'. apply FinFun.Injective_map_NoDup; [|exact Hg]. intros a b [=]. assumption.
    - unfold G', restore_gen. cbn [edges].
      assert (Hgen : forall l, incl l g -> NoDup (uids l) ->
                NoDup (flat_map (fun nd => map (fun p => (KUid p, KUid (ouid nd))) (opar nd)) l)).
      { induction l as [|nd l IH]; cbn; [constructor|]. intros Hl Hnd. inversion Hnd as [|? ? Hx Hl']; subst.
        apply NoDup_app_intro.
        + apply FinFun.Injective_map_NoDup; [intros a b [=]; assumption|].
          destruct (in_g nd) as [k [nd0 [_ ->]]]; [apply Hl; left; reflexivity|]. cbn. apply uniq_NoDup.
        + apply IH; [|exact Hl']. intros z Hz. apply Hl. right. exact Hz.
        + intros [x y] H1 H2. apply in_map_iff in H1 as [p [E _]]. injection E as <- <-.
          apply in_flat_map in H2 as [nd' [Hin H2]]. apply in_map_iff in H2 as [q [E _]].
          injection E as _ E. apply Hx. rewrite <- E. apply in_map. exact Hin. }
      apply Hgen; [apply incl_refl|exact Hg].
    - intros x y H. apply edges_G' in H as [k [nd [w [p [Hm [Hw [Hp [-> ->]]]]]]]].
      rewrite keys_G'. apply uid_of_key_some in Hp as [ndw [Hmw <-]].
      split; apply in_map; unfold uids.
      + change (ouid ndw) with (ouid (set_parents n0 m es (w, ndw))). apply in_map, node_in_g. exact Hmw.
      + change (ouid nd) with (ouid (set_parents n0 m es (k, nd))). apply in_map, node_in_g. exact Hm.
  Qed.
  (* the graph built by _adapt satisfies the LinkedGraph invariant *)
  Lemma g_wf : opt_wf g.
  Proof.
    split.
    - eapply Permutation_NoDup; [apply Permutation_sym, Permutation_map, g_perm|].
      fold (uids ns). rewrite ns_uids. exact Huids.
    - intros nd' Hin. destruct (in_g nd' Hin) as [k [nd [Hm ->]]]. cbn [set_parents with_parents opar].
      split; [apply uniq_NoDup|]. intros p Hp. apply (proj1 (uniq_In _ _)) in Hp.
      apply (proj1 (filter_map_In _ _ _)) in Hp. destruct Hp as [w [_ Hu]].
      apply uid_of_key_some in Hu as [ndw [Hmw <-]].
      change (ouid ndw) with (ouid (set_parents n0 m es (w, ndw))). unfold uids. apply in_map, node_in_g. exact Hmw.
  Qed.
End BuildRestore.

Lemma mapi_from_fst {X} : forall (f : nat -> X -> onode) (l : list (key * X)) s,
  map fst (mapi_from s (fun i ka => (fst ka, f i (snd ka))) l) = map fst l.
Proof. induction l as [|x l IH]; intros s; cbn; auto. rewrite IH. reflexivity. Qed.

Lemma mapi_from_in {X Y} : forall (f : nat -> X -> Y) (l : list X) s x,
  In x l -> exists i, s <= i /\ In (f i x) (mapi_from s f l).
Proof.
  induction l as [|a l IH]; intros s x; cbn; [tauto|]. intros [<-|H].
  - exists s. split; [lia|left; reflexivity].
  - destruct (IH (S s) x H) as [i [Hi Hin]]. exists i. split; [lia|right; exact Hin].
Qed.

Lemma mapi_from_inv {X Y} : forall (f : nat -> X -> Y) (l : list X) s y,
  In y (mapi_from s f l) -> exists i x, s <= i /\ nth_error l (i - s) = Some x /\ y = f i x.
Proof.
  induction l as [|a l IH]; intros s y; cbn; [tauto|]. intros [<-|H].
  - exists s, a. rewrite Nat.sub_diag. repeat split; auto.
  - destruct (IH (S s) y H) as [i [x [Hi [Hn ->]]]]. exists i, x. split; [lia|]. split; [|reflexivity].
    replace (i - s) with (S (i - S s)) by lia. exact Hn.
Qed.

Theorem nx_roundtrip_gen {A} (mk : nat -> A -> onode) (nr : onode -> A) (R : A -> A -> Prop)
        (n0 : nat) (G : nxg A) :
  nx_wf G ->
  NoDup (map (fun kn => ouid (snd kn)) (mapped mk G)) ->
  (forall k a, In (k, a) (nodes G) -> forall i lid ps, R a (nr (with_parents lid ps (mk i a)))) ->
  nx_iso R (phi_of (mapped mk G)) G (restore_gen nr (adapt_gen n0 mk G)).
Proof.
  intros [Hk [He Hends]] Hu HR.
  assert (Hfst : map fst (mapped mk G) = keys G) by apply mapi_from_fst.
  assert (Hk' : NoDup (map fst (mapped mk G))) by (rewrite Hfst; exact Hk).
  unfold adapt_gen. split; [|split; [|split; [|split]]].
  - rewrite <- Hfst. apply phi_inj; assumption.
  - rewrite <- Hfst. apply keys_perm; assumption.
  - intros k a Hin.
    destruct (mapi_from_in (fun i ka => (fst ka, mk i (snd ka))) (nodes G) 0 (k, a) Hin) as [i [_ Hm]].
    cbn [fst snd] in Hm. fold (mapped mk G) in Hm.
    exists (nr (set_parents n0 (mapped mk G) (edges G) (k, mk i a))). split.
    + rewrite (phi_of_in (mapped mk G) Hk' k (mk i a) Hm).
      change (KUid (ouid (mk i a))) with (KUid (ouid (set_parents n0 (mapped mk G) (edges G) (k, mk i a)))).
      unfold restore_gen. cbn [nodes].
      apply (in_map (fun nd => (KUid (ouid nd), nr nd))). apply node_in_g; assumption.
    + unfold set_parents. cbn [fst snd]. eapply HR. exact Hin.
  - rewrite <- Hfst. intros u v. apply edges_iff; assumption.
  - apply G'_wf; assumption.
Qed.

(* ==================================================================================== *)
(* 6. BaseNetworkxAdapter: restore (adapt G) is isomorphic to G                          *)
(* ==================================================================================== *)
Lemma oveqb_shift2 : forall o n m, oveqb o (option_map (shift n) (option_map (shift m) o)) = true.
Proof. intros [v|] n m; cbn; auto using veqb_shift2. Qed.

Lemma base_attrs_roundtrip : forall n0 u0 n1 i d lid ps,
  name_ok (snd d) = true ->
  attrs_equiv (snd d) (snd (node_restore n1 (with_parents lid ps (node_adapt n0 u0 i d)))).
Proof.
  intros n0 u0 n1 i [aid a] lid ps Hok k. cbn [snd] in *.
  unfold node_restore, node_name, node_params, with_parents, node_adapt. cbn [oname oparams snd fst].
  rewrite lookup_shift. unfold name_ok in Hok.
  destruct (lookup name_key a) as [v|] eqn:El; cbn [option_map].
  - destruct v as [| | |s| |]; try discriminate Hok. cbn [shift pystr]. rewrite Hok.
    rewrite lookup_set_key. destruct (String.eqb k name_key) eqn:Ek.
    + apply String.eqb_eq in Ek. subst k. rewrite El. cbn. apply String.eqb_refl.
    + rewrite lookup_shift, lookup_remove_neq, lookup_shift.
      * apply oveqb_shift2.
      * intros ->. rewrite String.eqb_refl in Ek. discriminate.
  - cbn [str_nonempty]. rewrite remove_absent by (rewrite lookup_shift, El; reflexivity).
    rewrite !lookup_shift. apply oveqb_shift2.
Qed.

Lemma base_mapped_uids : forall n0 u0 (l : list (key * nxattrs)) s,
  map (fun kn : key * onode => ouid (snd kn))
      (mapi_from s (fun i ka => (fst ka, node_adapt n0 u0 i (snd ka))) l) = seq (u0 + s) (List.length l).
Proof.
  induction l as [|x l IH]; intros s; cbn [mapi_from map List.length seq]; auto.
  f_equal. rewrite IH. f_equal. lia.
Qed.

Definition nx_name_guard (G : nxg nxattrs) : Prop :=
  forall k d, In (k, d) (nodes G) -> name_ok (snd d) = true.

Definition nx_attrs_equal (a b : nxattrs) : Prop := attrs_equiv (snd a) (snd b).

(* the isomorphism: key |-> uid of the node created for it *)
Definition key_to_uid (n0 u0 : nat) (G : nxg nxattrs) : key -> key := phi_of (mapped (node_adapt n0 u0) G).

Theorem nx_roundtrip : forall n0 u0 n1 (G : nxg nxattrs),
  nx_wf G -> nx_name_guard G ->
  nx_iso nx_attrs_equal (key_to_uid n0 u0 G) G (nx_restore n1 (nx_adapt n0 u0 G)).
Proof.
  intros n0 u0 n1 G Hwf Hg. unfold nx_restore, nx_adapt, key_to_uid.
  apply nx_roundtrip_gen; [exact Hwf| |].
  - unfold mapped. rewrite base_mapped_uids. apply seq_NoDup.
  - intros k d Hin i lid ps. apply base_attrs_roundtrip. eapply Hg. exact Hin.
Qed.

Lemma mapi_from_nth {X Y} : forall (f : nat -> X -> Y) (l : list X) s j x,
  nth_error l j = Some x -> In (f (s + j) x) (mapi_from s f l).
Proof.
  induction l as [|a l IH]; intros s [|j] x H; cbn in *; try discriminate.
  - injection H as ->. left. rewrite Nat.add_0_r. reflexivity.
  - right. replace (s + S j) with (S s + j) by lia. apply IH. exact H.
Qed.

(* key_to_uid really is key |-> KUid (u0 + position of the key) *)
Lemma key_to_uid_spec : forall n0 u0 (G : nxg nxattrs) i k d,
  NoDup (keys G) -> nth_error (nodes G) i = Some (k, d) -> key_to_uid n0 u0 G k = KUid (u0 + i).
Proof.
  intros n0 u0 G i k d Hk Hn. unfold key_to_uid.
  pose proof (mapi_from_nth (fun i ka => (fst ka, node_adapt n0 u0 i (snd ka))) (nodes G) 0 i (k, d) Hn) as Hm.
  cbn [fst snd Nat.add] in Hm.
  assert (Hk' : NoDup (map fst (mapped (node_adapt n0 u0) G))).
  { unfold mapped. rewrite mapi_from_fst. exact Hk. }
  unfold mapped in *. rewrite (phi_of_in _ Hk' _ _ Hm). reflexivity.
Qed.

(* ==================================================================================== *)
(* 7. internal -> NetworkX -> internal, generic                                          *)
(* ==================================================================================== *)
(* f renames the uids of g onto those of g'; the image of every node has the f-image of its
   parent list (same order) and S-related content *)
Definition opt_iso (S : onode -> onode -> Prop) (f : nat -> nat) (g g' : optg) : Prop :=
  (forall u1 u2, In u1 (uids g) -> In u2 (uids g) -> f u1 = f u2 -> u1 = u2) /\
  Permutation (map f (uids g)) (uids g') /\
  (forall nd, In nd g -> exists nd', In nd' g' /\ ouid nd' = f (ouid nd) /\
                                     opar nd' = map f (opar nd) /\ S nd nd') /\
  opt_wf g'.

Definition blk (nd : onode) : list (key * key) := map (fun p => (KUid p, KUid (ouid nd))) (opar nd).

Lemma preds_app : forall l r k, preds (l ++ r) k = preds l k ++ preds r k.
Proof. intros. unfold preds. rewrite filter_app, map_app. reflexivity. Qed.

Lemma preds_blk : forall nd u, preds (blk nd) (KUid u) = if Nat.eqb (ouid nd) u then map KUid (opar nd) else [].
Proof.
  intros nd u. unfold preds, blk. induction (opar nd) as [|p l IH]; cbn.
  - destruct (Nat.eqb (ouid nd) u); reflexivity.
  - destruct (Nat.eqb (ouid nd) u) eqn:E; cbn; rewrite IH; reflexivity.
Qed.

Lemma preds_flat_absent : forall l u, ~ In u (uids l) -> preds (flat_map blk l) (KUid u) = [].
Proof.
  induction l as [|x l IH]; intros u Hu; cbn [flat_map]; auto. rewrite preds_app, preds_blk.
  destruct (Nat.eqb (ouid x) u) eqn:E.
  - apply Nat.eqb_eq in E. exfalso. apply Hu. left. exact E.
  - cbn. apply IH. intros H. apply Hu. right. exact H.
Qed.

Lemma preds_flat : forall l nd, NoDup (uids l) -> In nd l ->
  preds (flat_map blk l) (KUid (ouid nd)) = map KUid (opar nd).
Proof.
  induction l as [|x l IH]; intros nd Hnd Hin; cbn [flat_map]; [destruct Hin|]. inversion Hnd as [|? ? Hx Hl]; subst.
  rewrite preds_app, preds_blk. destruct Hin as [<-|Hin].
  - rewrite Nat.eqb_refl, preds_flat_absent, app_nil_r; auto.
  - destruct (Nat.eqb (ouid x) (ouid nd)) eqn:E.
    + apply Nat.eqb_eq in E. exfalso. apply Hx. rewrite E. apply in_map. exact Hin.
    + cbn. apply IH; assumption.
Qed.

Lemma filter_map_map_some {X Y Z} (f : Y -> option Z) (h : X -> Y) (k : X -> Z) : forall l,
  (forall x, In x l -> f (h x) = Some (k x)) -> filter_map f (map h l) = map k l.
Proof.
  induction l as [|a l IH]; intros H; cbn; auto. rewrite (H a) by (left; reflexivity).
  f_equal. apply IH. intros x Hx. apply H. right. exact Hx.
Qed.

Section RestoreBuild.
  Context {A : Type}.
  Variable n0 : nat.
  Variable mk : nat -> A -> onode.
  Variable nr : onode -> A.
  Variable g : optg.
  Hypothesis Hwf : opt_wf g.
  Let G := restore_gen nr g.
  Let m := mapped mk G.
  Hypothesis Huids : NoDup (map (fun kn : key * onode => ouid (snd kn)) m).

  Definition psi_of (u : nat) : nat :=
    match uid_of_key m (KUid u) with Some u' => u' | None => u end.

  Lemma m_fst : map fst m = map KUid (uids g).
  Proof.
    unfold m, mapped. rewrite mapi_from_fst. unfold G, restore_gen, uids. cbn. rewrite !map_map. reflexivity.
  Qed.

  Lemma m_keys : NoDup (map fst m).
  Proof.
    rewrite m_fst. apply FinFun.Injective_map_NoDup; [intros a b [=]; assumption|apply Hwf].
  Qed.

  Lemma m_entry : forall nd, In nd g -> exists i, In (KUid (ouid nd), mk i (nr nd)) m.
  Proof.
    intros nd Hin.
    assert (H : In (KUid (ouid nd), nr nd) (nodes G)).
    { unfold G, restore_gen. cbn. apply (in_map (fun nd => (KUid (ouid nd), nr nd))). exact Hin. }
    destruct (mapi_from_in (fun i ka => (fst ka, mk i (snd ka))) (nodes G) 0 _ H) as [i [_ Hm]].
    exists i. exact Hm.
  Qed.

  Lemma psi_of_in : forall u x, In (KUid u, x) m -> psi_of u = ouid x.
  Proof. intros u x H. unfold psi_of. rewrite (uid_of_key_in m m_keys _ _ H). reflexivity. Qed.

  Lemma uid_entry : forall u, In u (uids g) -> exists x, In (KUid u, x) m.
  Proof.
    intros u Hu. apply in_map_iff in Hu as [nd [<- Hin]]. destruct (m_entry nd Hin) as [i H]. eauto.
  Qed.

  Lemma psi_inj : forall u1 u2, In u1 (uids g) -> In u2 (uids g) -> psi_of u1 = psi_of u2 -> u1 = u2.
  Proof.
    intros u1 u2 H1 H2 E. destruct (uid_entry u1 H1) as [x1 E1], (uid_entry u2 H2) as [x2 E2].
    rewrite (psi_of_in _ _ E1), (psi_of_in _ _ E2) in E.
    destruct (entry_inj m Huids _ _ _ _ E1 E2 E) as [[= ->] _]. reflexivity.
  Qed.

  Lemma new_parents : forall nd x, In nd g ->
    opar (set_parents n0 m (edges G) (KUid (ouid nd), x)) = map psi_of (opar nd).
  Proof.
    intros nd x Hin. destruct Hwf as [Hnd Hcl]. destruct (Hcl nd Hin) as [Hpn Hpi].
    cbn [set_parents with_parents opar fst].
    unfold G, restore_gen. cbn [edges]. fold blk. change (fun nd0 : onode => blk nd0) with blk.
    rewrite (preds_flat g nd Hnd Hin).
    rewrite (filter_map_map_some (uid_of_key m) KUid psi_of).
    - apply uniq_id. apply NoDup_map_in; [|exact Hpn].
      intros a b Ha Hb. apply psi_inj; apply Hpi; assumption.
    - intros p Hp. destruct (uid_entry p (Hpi p Hp)) as [y Hy].
      rewrite (uid_of_key_in m m_keys _ _ Hy), (psi_of_in _ _ Hy). reflexivity.
  Qed.

  Lemma new_uids : map (fun kn : key * onode => ouid (snd kn)) m = map psi_of (uids g).
  Proof.
    pose (F := fun k => match uid_of_key m k with Some u => u | None => 0 end).
    transitivity (map F (map fst m)).
    - rewrite map_map. apply map_ext_in. intros [k nd] H. unfold F. cbn [fst snd].
      rewrite (uid_of_key_in m m_keys _ _ H). reflexivity.
    - rewrite m_fst, map_map. apply map_ext_in. intros u Hu. destruct (uid_entry u Hu) as [x Hx].
      unfold F. rewrite (uid_of_key_in m m_keys _ _ Hx), (psi_of_in _ _ Hx). reflexivity.
  Qed.

  Variable S : onode -> onode -> Prop.
  Hypothesis HS : forall nd, In nd g -> forall i lid ps, S nd (with_parents lid ps (mk i (nr nd))).

  Theorem opt_roundtrip_gen : opt_iso S psi_of g (adapt_gen n0 mk G).
  Proof.
    unfold adapt_gen. fold m. split; [exact psi_inj|]. split; [|split].
    - eapply Permutation_trans; [|apply Permutation_sym, Permutation_map, (g_perm n0 m (edges G) Huids)].
      fold (uids (map (set_parents n0 m (edges G)) m)). rewrite ns_uids, new_uids. apply Permutation_refl.
    - intros nd Hin. destruct (m_entry nd Hin) as [i Hm].
      exists (set_parents n0 m (edges G) (KUid (ouid nd), mk i (nr nd))). split; [|split; [|split]].
      + apply (node_in_g n0 m (edges G) Huids). exact Hm.
      + cbn. symmetry. apply psi_of_in. exact Hm.
      + apply new_parents. exact Hin.
      + unfold set_parents. cbn [fst snd]. apply HS. exact Hin.
    - apply g_wf. exact Huids.
  Qed.
End RestoreBuild.

(* ==================================================================================== *)
(* 8. BaseNetworkxAdapter: adapt (restore g) preserves structure, names, parameters      *)
(* ==================================================================================== *)
Lemma set_key_absent : forall k v a, lookup k a = None -> set_key k v a = a ++ [(k, v)].
Proof.
  induction a as [|[k2 w] a IH]; cbn; auto. destruct (String.eqb k k2); [discriminate|].
  intros H. rewrite IH; auto.
Qed.

Lemma remove_key_last : forall k v a, lookup k a = None -> remove_key k (a ++ [(k, v)]) = a.
Proof.
  induction a as [|[k2 w] a IH]; cbn.
  - rewrite String.eqb_refl. reflexivity.
  - destruct (String.eqb k k2); [discriminate|]. intros H. rewrite IH; auto.
Qed.

Lemma shift_attrs_app : forall n a b, shift_attrs n (a ++ b) = shift_attrs n a ++ shift_attrs n b.
Proof. intros. unfold shift_attrs. apply map_app. Qed.

Lemma base_node_roundtrip : forall n0 u0 n1 i lid ps nd,
  lookup name_key (node_params nd) = None ->
  let nd' := with_parents lid ps (node_adapt n0 u0 i (node_restore n1 nd)) in
  node_name nd' = node_name nd /\
  node_params nd' = shift_attrs n0 (shift_attrs n1 (node_params nd)).
Proof.
  intros n0 u0 n1 i lid ps nd Hno. cbn zeta.
  assert (Hp : lookup name_key (shift_attrs n1 (node_params nd)) = None) by (rewrite lookup_shift, Hno; reflexivity).
  assert (Hq : lookup name_key (shift_attrs n0 (shift_attrs n1 (node_params nd))) = None)
    by (rewrite lookup_shift, Hp; reflexivity).
  assert (Hn : forall d, node_name (with_parents lid ps (node_adapt n0 u0 i d)) =
                         match lookup name_key (shift_attrs n0 (snd d)) with
                         | Some PNone | None => EmptyString
                         | Some v => pystr v end).
  { intros d. unfold node_name, with_parents, node_adapt. cbn [oname].
    destruct (lookup name_key (shift_attrs n0 (snd d))) as [[]|]; reflexivity. }
  assert (Hpar : forall d, node_params (with_parents lid ps (node_adapt n0 u0 i d)) =
                           remove_key name_key (shift_attrs n0 (snd d))) by reflexivity.
  rewrite Hn, Hpar. unfold node_restore. cbn [snd].
  destruct (str_nonempty (node_name nd)) eqn:Ene.
  - rewrite (set_key_absent _ _ _ Hp), shift_attrs_app.
    change (shift_attrs n0 [(name_key, PStr (node_name nd))]) with [(name_key, PStr (node_name nd))].
    rewrite (remove_key_last _ _ _ Hq). split; [|reflexivity].
    assert (Hl : forall a v, lookup name_key a = None -> lookup name_key (a ++ [(name_key, v)]) = Some v).
    { induction a as [|[k2 w] a IH]; cbn [app lookup]; intros v.
      - intros _. rewrite String.eqb_refl. reflexivity.
      - destruct (String.eqb name_key k2); [discriminate|]. apply IH. }
    rewrite (Hl _ _ Hq). reflexivity.
  - rewrite Hq. rewrite (remove_absent _ _ Hq).
    split; [|reflexivity]. destruct (node_name nd); [reflexivity|discriminate].
Qed.

(* same name (as node.name reports it) and equal parameters (as node.parameters reports them) *)
Definition same_name_params (nd nd' : onode) : Prop :=
  node_name nd' = node_name nd /\ attrs_equiv (node_params nd) (node_params nd').

Definition opt_params_guard (g : optg) : Prop :=
  forall nd, In nd g -> lookup name_key (node_params nd) = None.

Definition uid_renaming (n0 u0 n1 : nat) (g : optg) : nat -> nat :=
  psi_of (node_adapt n0 u0) (node_restore n1) g.

Theorem opt_roundtrip : forall n0 u0 n1 g,
  opt_wf g -> opt_params_guard g ->
  opt_iso same_name_params (uid_renaming n0 u0 n1 g) g (nx_adapt n0 u0 (nx_restore n1 g)).
Proof.
  intros n0 u0 n1 g Hwf Hg. unfold nx_adapt, nx_restore, uid_renaming.
  apply opt_roundtrip_gen; [exact Hwf| |].
  - unfold mapped. rewrite base_mapped_uids. apply seq_NoDup.
  - intros nd Hin i lid ps. destruct (base_node_roundtrip n0 u0 n1 i lid ps nd (Hg nd Hin)) as [H1 H2].
    split; [exact H1|]. rewrite H2. intros k. rewrite !lookup_shift. apply oveqb_shift2.
Qed.

(* ==================================================================================== *)
(* 9. DumbNetworkxAdapter (node objects travel inside the attribute dict)                *)
(* ==================================================================================== *)
Lemma dumb_mapped_uids {X} : forall (f : X -> onode) (l : list (key * X)) s,
  map (fun kn : key * onode => ouid (snd kn)) (mapi_from s (fun _ ka => (fst ka, f (snd ka))) l)
  = map (fun ka => ouid (f (snd ka))) l.
Proof. induction l as [|x l IH]; intros s; cbn; auto. rewrite IH. reflexivity. Qed.

(* the same node object, possibly with a re-assigned parent list *)
Definition same_node_object (nd nd' : onode) : Prop := exists lid ps, nd' = with_parents lid ps nd.

Theorem dumb_nx_roundtrip : forall n0 (G : nxg onode),
  nx_wf G -> NoDup (map (fun ka => ouid (snd ka)) (nodes G)) ->
  nx_iso same_node_object (phi_of (mapped (fun _ nd => nd) G)) G (dumb_restore (dumb_adapt n0 G)).
Proof.
  intros n0 G Hwf Hu. unfold dumb_restore, dumb_adapt. apply nx_roundtrip_gen; [exact Hwf| |].
  - unfold mapped. rewrite (dumb_mapped_uids (fun nd => nd)). exact Hu.
  - intros k a _ i lid ps. exists lid, ps. reflexivity.
Qed.

Theorem dumb_opt_roundtrip : forall n0 g,
  opt_wf g ->
  opt_iso same_node_object (psi_of (fun _ nd => nd) (fun nd => nd) g) g (dumb_adapt n0 (dumb_restore g)).
Proof.
  intros n0 g Hwf. unfold dumb_adapt, dumb_restore. apply opt_roundtrip_gen; [exact Hwf| |].
  - unfold mapped. rewrite (dumb_mapped_uids (fun nd => nd)). unfold restore_gen. cbn [nodes].
    rewrite map_map. cbn [snd]. apply Hwf.
  - intros nd _ i lid ps. exists lid, ps. reflexivity.
Qed.

(* ... and the uids do not change at all *)
Lemma dumb_psi_id : forall g u, opt_wf g -> In u (uids g) ->
  psi_of (fun _ nd => nd) (fun nd => nd) g u = u.
Proof.
  intros g u Hwf Hu. apply in_map_iff in Hu as [nd [<- Hin]].
  assert (Hu' : NoDup (map (fun kn : key * onode => ouid (snd kn))
                           (mapped (fun _ nd => nd) (restore_gen (fun nd => nd) g)))).
  { unfold mapped. rewrite (dumb_mapped_uids (fun nd => nd)). unfold restore_gen. cbn [nodes].
    rewrite map_map. cbn [snd]. apply Hwf. }
  destruct (m_entry (fun _ nd => nd) (fun nd => nd) g nd Hin) as [i Hm].
  rewrite (psi_of_in (fun _ nd => nd) (fun nd => nd) g Hwf _ _ Hm). reflexivity.
Qed.

(* ==================================================================================== *)
(* 10. the copying adapters allocate everything they return                              *)
(* ==================================================================================== *)
Definition fresh (n0 : nat) (ids : list nat) : Prop := Forall (fun i => n0 <= i) ids.

Lemma fresh_app : forall n l r, fresh n l -> fresh n r -> fresh n (l ++ r).
Proof. intros. apply Forall_app. auto. Qed.

Lemma fresh_incl : forall n l r, (forall i, In i l -> In i r) -> fresh n r -> fresh n l.
Proof. intros n l r H Hr. apply Forall_forall. intros i Hi. eapply Forall_forall in Hr; eauto. Qed.

Lemma fresh_flat_map {X} : forall n (f : X -> list nat) l, (forall x, In x l -> fresh n (f x)) -> fresh n (flat_map f l).
Proof.
  induction l as [|a l IH]; cbn; intros H; [constructor|]. apply fresh_app; [apply H; auto|apply IH; auto].
Qed.

Lemma node_adapt_fresh : forall n0 u0 i d lid ps, n0 <= lid ->
  fresh n0 (node_ids (with_parents lid ps (node_adapt n0 u0 i d))).
Proof.
  intros n0 u0 i [aid a] lid ps Hlid. unfold node_ids, with_parents, node_adapt. cbn [oid olid oname oparams fst snd].
  constructor; [lia|]. constructor; [exact Hlid|]. apply fresh_app.
  - destruct (lookup name_key (shift_attrs n0 a)) as [v|] eqn:E; [|constructor].
    apply Forall_forall. intros j Hj.
    pose proof (attrs_ids_shift a n0) as H. eapply Forall_forall in H; [exact H|].
    eapply lookup_in_ids; eassumption.
  - constructor; [lia|]. eapply fresh_incl; [apply attrs_ids_remove|apply attrs_ids_shift].
Qed.

Theorem nx_adapt_fresh : forall n0 u0 G, fresh n0 (opt_ids (nx_adapt n0 u0 G)).
Proof.
  intros n0 u0 G. unfold opt_ids. apply fresh_flat_map. intros nd Hin.
  unfold nx_adapt, adapt_gen, build_graph in Hin. apply mk_graph_in in Hin.
  apply in_map_iff in Hin as [[k x] [<- Hm]]. unfold mapped in Hm.
  apply mapi_from_inv in Hm as [i [[k' d] [_ [_ E]]]]. cbn [fst snd] in E. injection E as -> ->.
  unfold set_parents. cbn [fst snd]. apply node_adapt_fresh. lia.
Qed.

Theorem nx_restore_fresh : forall n1 g, fresh n1 (nx_ids (nx_restore n1 g)).
Proof.
  intros n1 g. unfold nx_ids, nx_restore, restore_gen. cbn [nodes]. apply fresh_flat_map.
  intros [k d] Hin. apply in_map_iff in Hin as [nd [E _]]. injection E as _ <-.
  unfold node_restore. cbn [fst snd]. constructor; [lia|].
  destruct (str_nonempty (node_name nd)).
  - eapply fresh_incl; [apply attrs_ids_set_str|apply attrs_ids_shift].
  - apply attrs_ids_shift.
Qed.

Lemma copy_node_fresh : forall n0 c nd, fresh n0 (node_ids (copy_node n0 c nd)).
Proof.
  intros n0 c nd. unfold node_ids, copy_node. cbn [oid olid oname oparams].
  constructor; [lia|]. constructor; [lia|]. apply fresh_app; [apply vids_shift|].
  destruct (oparams nd) as [[i a]|]; [|constructor]. constructor; [lia|apply attrs_ids_shift].
Qed.

Theorem direct_convert_fresh : forall n0 gc nc g, fresh n0 (cgraph_ids (direct_convert n0 gc nc g)).
Proof.
  intros n0 gc nc g. unfold cgraph_ids, direct_convert. cbn [gid gnodes gpost]. constructor; [lia|].
  apply fresh_app; [destruct (gpost g); cbn; repeat constructor; lia|].
  unfold opt_ids. apply fresh_flat_map. intros nd Hin. apply in_map_iff in Hin as [x [<- _]].
  apply copy_node_fresh.
Qed.

(* hence: nothing that was live before the call (identity < n0) is reachable from the output *)
Lemma fresh_disjoint : forall n0 old new, Forall (fun i => i < n0) old -> fresh n0 new ->
  forall i, In i old -> In i new -> False.
Proof.
  intros n0 old new Ho Hn i H1 H2. eapply Forall_forall in Ho; eauto. eapply Forall_forall in Hn; eauto.
  cbn in *. lia.
Qed.

(* DirectAdapter keeps uids, names, parameters, parents (content is a deep copy) *)
Lemma copy_node_content : forall n0 c nd,
  ouid (copy_node n0 c nd) = ouid nd /\ opar (copy_node n0 c nd) = opar nd /\
  veqb (oname nd) (oname (copy_node n0 c nd)) = true /\
  attrs_equiv (node_params nd) (node_params (copy_node n0 c nd)) /\
  ocls (copy_node n0 c nd) = c.
Proof.
  intros n0 c nd. unfold copy_node, node_params. cbn [ouid opar oname oparams ocls].
  repeat split; auto.
  - apply veqb_shift_r, veqb_refl.
  - destruct (oparams nd) as [[i a]|]; intros k; cbn.
    + rewrite lookup_shift. destruct (lookup k a); cbn; auto. apply veqb_shift_r, veqb_refl.
    + reflexivity.
Qed.

(* ==================================================================================== *)
(* 11. adapt / restore dispatch and _transform                                           *)
(* ==================================================================================== *)
Section CallProofs.
  Context {G M : Type}.
  Variable cvA : G -> G.
  Variable cvR : G -> option M -> G.
  Variable g_empty : G -> bool.
  Notation restorable := (@restorable G M g_empty).
  Notation val := (@val G M).
  Notation adapt := (@adapt G M cvA).
  Notation restore := (@restore G M cvR g_empty).
  Notation adapt_total := (@adapt_total G M cvA).
  Notation restore_total := (@restore_total G M cvR).

  Lemma map_res_ok {X Y} (f : X -> res Y) (h : X -> Y) : forall l,
    (forall x, In x l -> f x = Ok (h x)) -> map_res f l = Ok (map h l).
  Proof.
    induction l as [|a l IH]; intros H; cbn; auto.
    rewrite (H a) by (left; reflexivity). cbn. rewrite IH; auto. intros x Hx. apply H. right. exact Hx.
  Qed.

  Lemma restore1_ok : forall k c g m, can_restore g_empty k c g = true ->
    restore1 cvR g_empty k (VGraph c g) m = Ok (conv_r cvR k c g m).
  Proof. intros k c g m H. unfold restore1, conv_r. destruct k; cbn in *; try rewrite H; reflexivity. Qed.

  Lemma adapt1_ok : forall k c g, can_adapt k c = true ->
    adapt1 cvA k (VGraph c g : val) = Ok (conv_a cvA k c g).
  Proof. intros k c g H. unfold adapt1, conv_a. destruct k; cbn in *; try rewrite H; reflexivity. Qed.

  Theorem restore_total_ok : forall k v, restorable k v = true -> restore k v = Ok (restore_total k v).
  Proof.
    intros k v H. unfold Adapter.restore, Adapter.restore_total.
    destruct v as [c g|c g m|l|l|kd l| |s]; cbn [is_opt_exact is_ind seq_items]; try reflexivity.
    - destruct c; cbn [is_opt_exact]; try reflexivity. apply restore1_ok. destruct k; reflexivity.
    - cbn [restore_ind]. apply restore1_ok. exact H.
    - destruct l as [|h t]; [reflexivity|]. cbn [restorable] in H. destruct (is_ind h) eqn:Ei; cbn [orb].
      + rewrite (map_res_ok (restore_ind cvR g_empty k) (restore_elem cvR k)); [reflexivity|].
        intros x Hx. eapply forallb_forall in H; [|exact Hx]. apply andb_true_iff in H as [H1 H2].
        destruct x; try discriminate H1. cbn. apply restore1_ok. exact H2.
      + destruct (is_opt_inst k h) eqn:Eo; [|reflexivity].
        rewrite (map_res_ok (fun x => restore1 cvR g_empty k x None) (restore_elem cvR k)); [reflexivity|].
        intros x Hx. eapply forallb_forall in H; [|exact Hx]. apply andb_true_iff in H as [H1 H2].
        destruct x; try discriminate H1. cbn. apply restore1_ok. exact H2.
    - destruct l as [|h t]; [reflexivity|]. cbn [restorable] in H. destruct (is_ind h) eqn:Ei; cbn [orb].
      + rewrite (map_res_ok (restore_ind cvR g_empty k) (restore_elem cvR k)); [reflexivity|].
        intros x Hx. eapply forallb_forall in H; [|exact Hx]. apply andb_true_iff in H as [H1 H2].
        destruct x; try discriminate H1. cbn. apply restore1_ok. exact H2.
      + destruct (is_opt_inst k h) eqn:Eo; [|reflexivity].
        rewrite (map_res_ok (fun x => restore1 cvR g_empty k x None) (restore_elem cvR k)); [reflexivity|].
        intros x Hx. eapply forallb_forall in H; [|exact Hx]. apply andb_true_iff in H as [H1 H2].
        destruct x; try discriminate H1. cbn. apply restore1_ok. exact H2.
    - destruct l as [|h t]; [reflexivity|]. cbn [restorable] in H. destruct (is_ind h) eqn:Ei; cbn [orb].
      + rewrite (map_res_ok (restore_ind cvR g_empty k) (restore_elem cvR k)); [reflexivity|].
        intros x Hx. eapply forallb_forall in H; [|exact Hx]. apply andb_true_iff in H as [H1 H2].
        destruct x; try discriminate H1. cbn. apply restore1_ok. exact H2.
      + destruct (is_opt_inst k h) eqn:Eo; [|reflexivity].
        rewrite (map_res_ok (fun x => restore1 cvR g_empty k x None) (restore_elem cvR k)); [reflexivity|].
        intros x Hx. eapply forallb_forall in H; [|exact Hx]. apply andb_true_iff in H as [H1 H2].
        destruct x; try discriminate H1. cbn. apply restore1_ok. exact H2.
  Qed.

  Lemma dom_exact_can_adapt : forall k c g, is_dom_exact k (VGraph c g : val) = true -> can_adapt k c = true.
  Proof. intros [] [] g H; cbn in *; congruence. Qed.

  Theorem adapt_total_ok : forall k v, adaptable k v = true -> adapt k v = Ok (adapt_total k v).
  Proof.
    intros k v H. unfold Adapter.adapt, Adapter.adapt_total.
    destruct (is_dom_exact k v) eqn:Ed.
    - destruct v as [c g|c g m|l|l|kd l| |s]; try (destruct k; discriminate Ed).
      cbn [adapt_elem]. apply adapt1_ok. eapply dom_exact_can_adapt. exact Ed.
    - destruct v as [c g|c g m|l|l|kd l| |s]; cbn [seq_items]; try reflexivity.
      + destruct l as [|h t]; [reflexivity|]. cbn [adaptable] in H. destruct (is_dom_exact k h); [|reflexivity].
        rewrite (map_res_ok (adapt1 cvA k) (adapt_elem cvA k)); [reflexivity|].
        intros x Hx. eapply forallb_forall in H; [|exact Hx]. destruct x; try discriminate H.
        cbn [adapt_elem]. apply adapt1_ok. exact H.
      + destruct l as [|h t]; [reflexivity|]. cbn [adaptable] in H. destruct (is_dom_exact k h); [|reflexivity].
        rewrite (map_res_ok (adapt1 cvA k) (adapt_elem cvA k)); [reflexivity|].
        intros x Hx. eapply forallb_forall in H; [|exact Hx]. destruct x; try discriminate H.
        cbn [adapt_elem]. apply adapt1_ok. exact H.
      + destruct l as [|h t]; [reflexivity|]. cbn [adaptable] in H. destruct (is_dom_exact k h); [|reflexivity].
        rewrite (map_res_ok (adapt1 cvA k) (adapt_elem cvA k)); [reflexivity|].
        intros x Hx. eapply forallb_forall in H; [|exact Hx]. destruct x; try discriminate H.
        cbn [adapt_elem]. apply adapt1_ok. exact H.
  Qed.

  (* _transform: arguments converted one by one (positional and keyword), result converted *)
  Theorem transform_spec : forall (fa fr : val -> res val) (ta : val -> val) (fn : pyfun) args kw,
    (forall a, In a args -> fa a = Ok (ta a)) ->
    (forall kv, In kv kw -> fa (snd kv) = Ok (ta (snd kv))) ->
    transform fa fr fn args kw =
    bind (fn (map ta args) (map (fun kv => (fst kv, ta (snd kv))) kw)) (transform_result fr).
  Proof.
    intros fa fr ta fn args kw Ha Hk. unfold transform, map_kw.
    rewrite (map_res_ok (fun kv => bind (fa (snd kv)) (fun v => Ok (fst kv, v))) (fun kv => (fst kv, ta (snd kv)))).
    - cbn [bind]. rewrite (map_res_ok fa ta _ Ha). reflexivity.
    - intros kv Hin. rewrite (Hk kv Hin). reflexivity.
  Qed.

  Theorem transform_result_spec : forall (fr : val -> res val) (tr : val -> val) (p : val -> bool) r,
    (forall v, p v = true -> fr v = Ok (tr v)) -> result_ok p r = true ->
    transform_result fr r = Ok (result_total tr r).
  Proof.
    intros fr tr p r H Hr. destruct r as [c g|c g m|l|l|kd l| |s]; cbn [transform_result result_total result_ok] in *;
      try (apply H; exact Hr); try reflexivity.
    rewrite (map_res_ok fr tr); [reflexivity|]. intros x Hx. apply H. eapply forallb_forall in Hr; eauto.
  Qed.

  (* adapt_func on a function that is not native *)
  Theorem adapt_wrap_spec : forall k (fn : pyfun) args kw r,
    forallb (restorable k) args = true ->
    forallb (fun kv => restorable k (snd kv)) kw = true ->
    fn (map (restore_total k) args) (map (fun kv => (fst kv, restore_total k (snd kv))) kw) = Ok r ->
    result_ok (adaptable k) r = true ->
    adapt_wrap cvA cvR g_empty k fn args kw = Ok (result_total (adapt_total k) r).
  Proof.
    intros k fn args kw r Ha Hk Hf Hr. unfold adapt_wrap.
    rewrite (transform_spec (restore k) (adapt k) (restore_total k)).
    - rewrite Hf. cbn [bind]. eapply transform_result_spec; [|exact Hr]. apply adapt_total_ok.
    - intros a Hin. apply restore_total_ok. eapply forallb_forall in Ha; eauto.
    - intros kv Hin. apply restore_total_ok. eapply forallb_forall in Hk; eauto.
  Qed.

  Theorem restore_func_spec : forall k (fn : pyfun) args kw r,
    forallb (adaptable k) args = true ->
    forallb (fun kv => adaptable k (snd kv)) kw = true ->
    fn (map (adapt_total k) args) (map (fun kv => (fst kv, adapt_total k (snd kv))) kw) = Ok r ->
    result_ok (restorable k) r = true ->
    restore_func cvA cvR g_empty k fn args kw = Ok (result_total (restore_total k) r).
  Proof.
    intros k fn args kw r Ha Hk Hf Hr. unfold restore_func.
    rewrite (transform_spec (adapt k) (restore k) (adapt_total k)).
    - rewrite Hf. cbn [bind]. eapply transform_result_spec; [|exact Hr]. apply restore_total_ok.
    - intros a Hin. apply adapt_total_ok. eapply forallb_forall in Ha; eauto.
    - intros kv Hin. apply adapt_total_ok. eapply forallb_forall in Hk; eauto.
  Qed.

  (* an exception of the wrapped function propagates *)
  Lemma adapt_wrap_raise : forall k (fn : pyfun) args kw,
    forallb (restorable k) args = true ->
    forallb (fun kv => restorable k (snd kv)) kw = true ->
    fn (map (restore_total k) args) (map (fun kv => (fst kv, restore_total k (snd kv))) kw) = Raise ->
    adapt_wrap cvA cvR g_empty k fn args kw = Raise.
  Proof.
    intros k fn args kw Ha Hk Hf. unfold adapt_wrap.
    rewrite (transform_spec (restore k) (adapt k) (restore_total k)).
    - rewrite Hf. reflexivity.
    - intros a Hin. apply restore_total_ok. eapply forallb_forall in Ha; eauto.
    - intros kv Hin. apply restore_total_ok. eapply forallb_forall in Hk; eauto.
  Qed.
End CallProofs.

(* ==================================================================================== *)
(* 12. AdaptRegistry                                                                     *)
(* ==================================================================================== *)
Inductive wrapper := WPartial | WMethod.

Fixpoint wrap (ws : list wrapper) (c : callable) : callable :=
  match ws with
  | [] => c
  | WPartial :: r => CPartial (wrap r c)
  | WMethod :: r => CMethod (wrap r c)
  end.

Lemma underlying_wrap : forall ws c, underlying (wrap ws c) = underlying c.
Proof. induction ws as [|[] ws IH]; intros c; cbn; auto. Qed.

(* function objects: plain functions / callable objects and the closures built by _transform *)
Definition function_object (c : callable) : Prop :=
  match c with CFun _ | CWrap _ _ _ | CInst _ _ => True | _ => False end.

Lemma callable_is_wrap : forall c, exists ws b, c = wrap ws b /\ function_object b.
Proof.
  induction c as [f|c [ws [b [-> Hb]]]|c [ws [b [-> Hb]]]|id ad c _|own bases].
  - exists [], (CFun f). split; [reflexivity|exact I].
  - exists (WPartial :: ws), b. split; [reflexivity|exact Hb].
  - exists (WMethod :: ws), b. split; [reflexivity|exact Hb].
  - exists [], (CWrap id ad c). split; [reflexivity|exact I].
  - exists [], (CInst own bases). split; [reflexivity|exact I].
Qed.

Lemma chain_head : forall c, exists t, lookup_chain c = underlying c :: t.
Proof. induction c as [f|c IH|c IH|id ad c _|own bases]; cbn; eauto. Qed.

Lemma lookup_chain_wrap : forall ws c, lookup_chain (wrap ws c) = lookup_chain c.
Proof. induction ws as [|[] ws IH]; intros c; cbn; auto. Qed.

(* a closure handed out by adapt_func / restore_func does not inherit the native mark of what it
   wraps: it is native only if it was registered itself *)
Theorem closure_not_native_by_inheritance : forall fl ws ws' id ad c,
  fl id = false -> is_native (register_native fl (wrap ws c)) (wrap ws' (CWrap id ad c)) = Nat.eqb id (underlying c).
Proof.
  intros fl ws ws' id ad c H. unfold is_native, register_native. rewrite lookup_chain_wrap, underlying_wrap.
  cbn [lookup_chain existsb]. rewrite orb_false_r. destruct (Nat.eqb id (underlying c)); [reflexivity|exact H].
Qed.

Theorem native_as_is : forall fl c, is_native fl c = true -> adapt_func fl c = Same c.
Proof. intros fl c H. unfold adapt_func. rewrite H. reflexivity. Qed.

Theorem not_native_wrapped : forall fl c, is_native fl c = false -> adapt_func fl c = Wrapped c.
Proof. intros fl c H. unfold adapt_func. rewrite H. reflexivity. Qed.

Theorem register_same_underlying : forall fl c c', underlying c' = underlying c ->
  is_native (register_native fl c) c' = true.
Proof.
  intros fl c c' H. unfold is_native, register_native. destruct (chain_head c') as [t ->].
  cbn [existsb]. rewrite H, Nat.eqb_refl. reflexivity.
Qed.

Theorem registered_found_through_wrappers : forall fl ws ws' b,
  is_native (register_native fl (wrap ws b)) (wrap ws' b) = true.
Proof. intros. apply register_same_underlying. rewrite !underlying_wrap. reflexivity. Qed.

(* the mark of a class is found from its instances, from instances of its subclasses and from the
   subclasses themselves (attribute lookup), also through partial / method wrappers *)
Theorem class_registration_inherited : forall fl ws ws' cls own bases,
  In (underlying cls) bases ->
  is_native (register_native fl (wrap ws cls)) (wrap ws' (CInst own bases)) = true.
Proof.
  intros fl ws ws' cls own bases Hin. unfold is_native, register_native. rewrite lookup_chain_wrap, underlying_wrap.
  cbn [lookup_chain existsb]. apply orb_true_iff. right. apply existsb_exists. exists (underlying cls).
  split; [exact Hin|]. rewrite Nat.eqb_refl. reflexivity.
Qed.

(* ... but not the other way round: registering an instance marks neither its class nor the
   other instances *)
Theorem instance_registration_local : forall fl own bases own' bases',
  own' <> own -> ~ In own bases' ->
  is_native (register_native fl (CInst own bases)) (CInst own' bases') = is_native fl (CInst own' bases').
Proof.
  intros fl own bases own' bases' Hne Hni. unfold is_native, register_native. cbn [lookup_chain existsb underlying].
  apply Nat.eqb_neq in Hne. rewrite Hne. f_equal. induction bases' as [|b l IH]; cbn; [reflexivity|].
  rewrite IH by (intros H; apply Hni; right; exact H).
  destruct (Nat.eqb b own) eqn:E; [|reflexivity]. apply Nat.eqb_eq in E. exfalso. apply Hni. left. exact E.
Qed.

Theorem register_other : forall fl c c', ~ In (underlying c) (lookup_chain c') ->
  is_native (register_native fl c) c' = is_native fl c'.
Proof.
  intros fl c c' H. unfold is_native, register_native. induction (lookup_chain c') as [|b l IH]; cbn; [reflexivity|].
  rewrite IH by (intros Hin; apply H; right; exact Hin).
  destruct (Nat.eqb b (underlying c)) eqn:E; [|reflexivity]. apply Nat.eqb_eq in E. exfalso. apply H. left. auto.
Qed.

Theorem unregister_other : forall fl c c', ~ In (underlying c) (lookup_chain c') ->
  is_native (unregister_native fl c) c' = is_native fl c'.
Proof.
  intros fl c c' H. unfold is_native, unregister_native. induction (lookup_chain c') as [|b l IH]; cbn; [reflexivity|].
  rewrite IH by (intros Hin; apply H; right; exact Hin).
  destruct (Nat.eqb b (underlying c)) eqn:E; [|reflexivity]. apply Nat.eqb_eq in E. exfalso. apply H. left. auto.
Qed.

(* functions, partials, methods, closures: the chain is the underlying function alone *)
Theorem unregister_same_underlying : forall fl c c', lookup_chain c' = [underlying c] ->
  is_native (unregister_native fl c) c' = false.
Proof. intros fl c c' H. unfold is_native, unregister_native. rewrite H. cbn. rewrite Nat.eqb_refl. reflexivity. Qed.

(* the flags after a history of register / unregister calls are decided by the last call that
   concerned the object *)
Lemma run_ops_last : forall ops fl cur f,
  fl f = match cur with Some true => true | _ => false end ->
  fold_left (fun fl op => match op with RegOp c => register_native fl c | UnregOp c => unregister_native fl c end)
            ops fl f
  = match last_op_on f ops cur with Some true => true | _ => false end.
Proof.
  induction ops as [|[c|c] ops IH]; intros fl cur f H; cbn [fold_left last_op_on]; [exact H| |].
  - apply IH. unfold register_native. rewrite (Nat.eqb_sym f). destruct (Nat.eqb (underlying c) f); [reflexivity|exact H].
  - apply IH. unfold unregister_native. rewrite (Nat.eqb_sym f). destruct (Nat.eqb (underlying c) f); [reflexivity|exact H].
Qed.

Lemma existsb_ext {X} (f g : X -> bool) : forall l, (forall x, f x = g x) -> existsb f l = existsb g l.
Proof. induction l as [|a l IH]; intros H; cbn; [reflexivity|]. rewrite H, IH; auto. Qed.

Theorem registry_history : forall ops c, is_native (run_ops ops) c = registered ops c.
Proof.
  intros ops c. unfold is_native, registered. apply existsb_ext. intros f. unfold run_ops, reg_hist.
  apply run_ops_last. reflexivity.
Qed.

(* the model satisfies the oracle evaluated on observed behaviour *)
Theorem model_holds_registry : forall ops c,
  holds_registry ops c (is_native (run_ops ops) c) (adapted_is_same (adapt_func (run_ops ops) c)) = true.
Proof.
  intros ops c. unfold holds_registry, adapt_func. rewrite (registry_history ops c).
  destruct (registered ops c); reflexivity.
Qed.

(* calling what adapt_func returned *)
Theorem native_called_directly : forall {G M} (cvA : G -> G) (cvR : G -> option M -> G) g_empty k den fl c,
  is_native fl c = true -> call_adapted cvA cvR g_empty k den (adapt_func fl c) = den c.
Proof. intros. rewrite native_as_is by assumption. reflexivity. Qed.

Theorem domain_called_through_wrapper : forall {G M} (cvA : G -> G) (cvR : G -> option M -> G) g_empty k den fl c,
  is_native fl c = false -> call_adapted cvA cvR g_empty k den (adapt_func fl c) = adapt_wrap cvA cvR g_empty k (den c).
Proof. intros. rewrite not_native_wrapped by assumption. reflexivity. Qed.

(* ==================================================================================== *)
(* 13. DirectAdapter content, refutations outside the guards                             *)
(* ==================================================================================== *)
Definition copy_of (cls : nat) (nd nd' : onode) : Prop :=
  ouid nd' = ouid nd /\ opar nd' = opar nd /\ veqb (oname nd) (oname nd') = true /\
  attrs_equiv (node_params nd) (node_params nd') /\ ocls nd' = cls.

Theorem direct_convert_content : forall n0 gc nc g,
  gcls (direct_convert n0 gc nc g) = gc /\
  Forall2 (copy_of nc) (gnodes g) (gnodes (direct_convert n0 gc nc g)).
Proof.
  intros n0 gc nc g. split; [reflexivity|]. unfold direct_convert. cbn [gnodes].
  induction (gnodes g) as [|nd l IH]; cbn; constructor; [|exact IH].
  destruct (copy_node_content n0 nc nd) as [H1 [H2 [H3 [H4 H5]]]]. repeat split; assumption.
Qed.

Lemma veqb_trans_shift : forall v n m, veqb v (shift n (shift m v)) = true.
Proof. exact veqb_shift2. Qed.

(* out (adapt) and back (restore): same uids, parents, names, parameters, original classes *)
Theorem direct_roundtrip : forall n0 n1 g,
  let r := direct_restore n1 (gcls g) 7 (direct_adapt n0 g) in
  gcls r = gcls g /\ List.length (gnodes r) = List.length (gnodes g) /\
  forall i nd, nth_error (gnodes g) i = Some nd ->
    exists nd', nth_error (gnodes r) i = Some nd' /\
      ouid nd' = ouid nd /\ opar nd' = opar nd /\ veqb (oname nd) (oname nd') = true /\
      attrs_equiv (node_params nd) (node_params nd').
Proof.
  intros n0 n1 g. cbn zeta. unfold direct_restore, direct_adapt, direct_convert. cbn [gcls gnodes].
  split; [reflexivity|]. split; [rewrite !map_length; reflexivity|].
  intros i nd Hn. exists (copy_node n1 7 (copy_node n0 0 nd)). split.
  - apply map_nth_error, map_nth_error. exact Hn.
  - unfold copy_node, node_params. cbn [ouid opar oname oparams]. repeat split.
    + apply veqb_shift2.
    + destruct (oparams nd) as [[j a]|]; intros k; cbn; [|reflexivity].
      rewrite !lookup_shift. apply oveqb_shift2.
Qed.

(* the guard of nx_roundtrip is needed: a node whose 'name' is the empty string comes back
   without that attribute, so no bijection can relate equal attributes *)
Definition G_empty_name : nxg nxattrs :=
  mkG [(KStr "a", (0, [(name_key, PStr "")]))] [].

Theorem nx_roundtrip_empty_name_refuted :
  nx_wf G_empty_name /\
  forall n0 u0 n1 f, ~ nx_iso nx_attrs_equal f G_empty_name (nx_restore n1 (nx_adapt n0 u0 G_empty_name)).
Proof.
  split.
  - split; [|split]; cbn; try (repeat constructor; cbn; tauto); try (intros u v []).
  - intros n0 u0 n1 f [_ [_ [H _]]].
    destruct (H (KStr "a") (0, [(name_key, PStr "")]) (or_introl eq_refl)) as [b [Hin Heq]].
    cbn in Hin. rewrite !Nat.eqb_refl in Hin. cbn in Hin. rewrite ?Nat.eqb_refl in Hin. cbn in Hin.
    destruct Hin as [Hin|[]]. injection Hin as _ <-.
    specialize (Heq name_key). cbn in Heq. discriminate Heq.
Qed.

(* likewise a non-string name comes back as its str() *)
Definition G_int_name : nxg nxattrs := mkG [(KStr "a", (0, [(name_key, PInt 5)]))] [].

Theorem nx_roundtrip_int_name_refuted :
  forall n0 u0 n1 f, ~ nx_iso nx_attrs_equal f G_int_name (nx_restore n1 (nx_adapt n0 u0 G_int_name)).
Proof.
  intros n0 u0 n1 f [_ [_ [H _]]].
  destruct (H (KStr "a") (0, [(name_key, PInt 5)]) (or_introl eq_refl)) as [b [Hin Heq]].
  cbn in Hin. rewrite !Nat.eqb_refl in Hin. cbn in Hin. rewrite ?Nat.eqb_refl in Hin. cbn in Hin.
  destruct Hin as [Hin|[]]. injection Hin as _ <-.
  specialize (Heq name_key). cbn in Heq. discriminate Heq.
Qed.

(* the guard of opt_roundtrip is needed: a parameter called 'name' is overwritten by the node
   name and then moved out of the parameters *)
Definition g_param_named_name : optg :=
  [mkN 0 0 0 (PStr "a") (Some (1, [(name_key, PStr "b"); ("k"%string, PInt 1)])) 2 []].

Theorem opt_roundtrip_param_name_refuted :
  opt_wf g_param_named_name /\
  forall n0 u0 n1 f, ~ opt_iso same_name_params f g_param_named_name
                        (nx_adapt n0 u0 (nx_restore n1 g_param_named_name)).
Proof.
  split.
  - split; [repeat constructor; cbn; tauto|]. intros nd [<-|[]]. split; [constructor|intros x []].
  - intros n0 u0 n1 f [_ [_ [H _]]].
    destruct (H _ (or_introl eq_refl)) as [nd' [Hin [_ [_ [_ Hp]]]]].
    cbn in Hin. rewrite !Nat.eqb_refl in Hin. cbn in Hin. rewrite ?Nat.eqb_refl in Hin. cbn in Hin.
    destruct Hin as [<-|[]]. specialize (Hp name_key). cbn in Hp. discriminate Hp.
Qed.

(* ==================================================================================== *)
(* 14. the executable oracles decide the stated properties (soundness of the checkers)    *)
(* ==================================================================================== *)
Lemma key_mem_In : forall k l, key_mem k l = true <-> In k l.
Proof.
  induction l as [|x l IH]; cbn; [split; [discriminate|tauto]|].
  rewrite orb_true_iff, IH, key_eqb_eq. split; intros [H|H]; auto.
Qed.

Lemma edge_eqb_eq : forall a b, edge_eqb a b = true <-> a = b.
Proof.
  intros [a1 a2] [b1 b2]. unfold edge_eqb. cbn. rewrite andb_true_iff, !key_eqb_eq.
  split; [intros [-> ->]; reflexivity|intros [= -> ->]; auto].
Qed.

Lemma edge_mem_In : forall e l, edge_mem e l = true <-> In e l.
Proof.
  induction l as [|x l IH]; cbn; [split; [discriminate|tauto]|].
  rewrite orb_true_iff, IH, edge_eqb_eq. split; intros [H|H]; auto.
Qed.

Lemma key_nodup_NoDup : forall l, key_nodup l = true -> NoDup l.
Proof.
  induction l as [|x l IH]; cbn; [constructor|]. intros H. apply andb_true_iff in H as [H1 H2].
  constructor; [|auto]. intros Hin. apply key_mem_In in Hin. rewrite Hin in H1. discriminate.
Qed.

Lemma edge_nodup_NoDup : forall l, edge_nodup l = true -> NoDup l.
Proof.
  induction l as [|x l IH]; cbn; [constructor|]. intros H. apply andb_true_iff in H as [H1 H2].
  constructor; [|auto]. intros Hin. apply edge_mem_In in Hin. rewrite Hin in H1. discriminate.
Qed.

Lemma nx_wf_b_sound {A} : forall (G : nxg A), nx_wf_b G = true -> nx_wf G.
Proof.
  intros G H. unfold nx_wf_b in H. apply andb_true_iff in H as [H H3]. apply andb_true_iff in H as [H1 H2].
  split; [apply key_nodup_NoDup; exact H1|]. split; [apply edge_nodup_NoDup; exact H2|].
  intros u v Hin. eapply forallb_forall in H3; [|exact Hin]. cbn in H3.
  apply andb_true_iff in H3 as [Ha Hb]. split; apply key_mem_In; assumption.
Qed.

Theorem nx_iso_b_sound {A B} (aeq : A -> B -> bool) : forall phi (G : nxg A) (G' : nxg B),
  nx_iso_b aeq phi G G' = true -> nx_iso (fun a b => aeq a b = true) (apply_phi phi) G G'.
Proof.
  intros phi G G' H. unfold nx_iso_b in H.
  repeat (apply andb_true_iff in H; destruct H as [H ?]).
  rename H into H1, H0 into H9, H1 into H8, H2 into H7, H3 into H6, H4 into H5, H5 into H4, H6 into H3, H7 into H2.
  apply key_nodup_NoDup in H1, H2, H4. apply edge_nodup_NoDup in H3. apply Nat.eqb_eq in H5.
  split; [|split; [|split; [|split]]].
  - intros k1 k2 Hk1 Hk2 E. exact (NoDup_map_inj (apply_phi phi) (keys G) k1 k2 H4 Hk1 Hk2 E).
  - apply NoDup_Permutation_bis; [exact H4| |].
    + rewrite map_length. unfold keys in *. rewrite <- H5. apply le_n.
    + intros x Hx. apply in_map_iff in Hx as [k [<- Hk]]. apply key_mem_In.
      eapply forallb_forall in H6; [exact H6|exact Hk].
  - intros k a Hin. eapply forallb_forall in H7; [|exact Hin]. cbn [fst snd] in H7.
    destruct (assoc (apply_phi phi k) (nodes G')) as [b|] eqn:E; [|discriminate].
    exists b. split; [apply assoc_in; exact E|exact H7].
  - intros u v Hu Hv. eapply forallb_forall in H8; [|exact Hu]. eapply forallb_forall in H8; [|exact Hv].
    apply Bool.eqb_prop in H8. rewrite <- !edge_mem_In, H8. tauto.
  - split; [exact H2|]. split; [exact H3|]. intros u v Hin. eapply forallb_forall in H9; [|exact Hin].
    cbn in H9. apply andb_true_iff in H9 as [Ha Hb]. split; apply key_mem_In; assumption.
Qed.

Lemma lookup_in : forall k a v, lookup k a = Some v -> In (k, v) a.
Proof.
  induction a as [|[k2 w] a IH]; cbn; [discriminate|]. intros v. destruct (String.eqb k k2) eqn:E.
  - apply String.eqb_eq in E. subst k2. intros [= ->]. auto.
  - intros H. right. apply IH. exact H.
Qed.

Theorem attrs_eqb_sound : forall a b, attrs_eqb a b = true -> attrs_equiv a b.
Proof.
  intros a b H k. unfold attrs_eqb in H. apply andb_true_iff in H as [H H3]. apply andb_true_iff in H as [_ H2].
  destruct (lookup k a) as [v|] eqn:Ea.
  - apply lookup_in in Ea. eapply forallb_forall in H2; [|exact Ea]. exact H2.
  - destruct (lookup k b) as [w|] eqn:Eb; [|reflexivity].
    apply lookup_in in Eb. eapply forallb_forall in H3; [|exact Eb]. cbn [fst snd] in H3.
    rewrite Ea in H3. discriminate.
Qed.

Lemma nx_guard_sound : forall G, nx_guard G = true -> nx_name_guard G.
Proof.
  intros G H k d Hin. unfold nx_guard in H. eapply forallb_forall in H; [|exact Hin]. cbn in H.
  apply andb_true_iff in H as [H _]. exact H.
Qed.

(* what the harness evaluates on the observed restore(adapt(G)) is the conclusion of
   C18_nx_roundtrip for the witness it was given *)
Theorem holds_nx_rt_sound : forall G Go phi,
  nx_wf_b G = true -> nx_guard G = true -> holds_nx_rt G Go phi = true ->
  nx_iso nx_attrs_equal (apply_phi phi) G Go.
Proof.
  intros G Go phi Hw Hg H. unfold holds_nx_rt in H. rewrite Hw, Hg in H. cbn in H.
  apply nx_iso_b_sound in H. destruct H as [H1 [H2 [H3 [H4 H5]]]].
  split; [exact H1|]. split; [exact H2|]. split; [|split; [exact H4|exact H5]].
  intros k a Hin. destruct (H3 k a Hin) as [b [Hb He]]. exists b. split; [exact Hb|].
  apply attrs_eqb_sound. exact He.
Qed.

(* and the model passes that check whenever the isomorphism of the theorem is tabulated *)
Lemma nat_nodup_NoDup : forall l, nat_nodup l = true -> NoDup l.
Proof.
  induction l as [|x l IH]; cbn; [constructor|]. intros H. apply andb_true_iff in H as [H1 H2].
  constructor; [|auto]. intros Hin. apply memb_In in Hin. rewrite Hin in H1. discriminate.
Qed.

Lemma perm_nat_b_sound : forall l r, perm_nat_b l r = true -> Permutation l r.
Proof.
  intros l r H. unfold perm_nat_b in H. apply andb_true_iff in H as [H H3]. apply andb_true_iff in H as [H1 H2].
  apply Nat.eqb_eq in H1. apply NoDup_Permutation_bis; [apply nat_nodup_NoDup; exact H2|rewrite H1; apply le_n|].
  intros x Hx. eapply forallb_forall in H3; [|exact Hx]. apply memb_In. exact H3.
Qed.

(* the property as the text states it: structure (parents as a set), names, parameters *)
Definition opt_iso_weak (f : nat -> nat) (g g' : optg) : Prop :=
  (forall u1 u2, In u1 (uids g) -> In u2 (uids g) -> f u1 = f u2 -> u1 = u2) /\
  Permutation (map f (uids g)) (uids g') /\
  (forall nd, In nd g -> exists nd', In nd' g' /\ ouid nd' = f (ouid nd) /\
                                     Permutation (map f (opar nd)) (opar nd') /\ same_name_params nd nd').

Lemma opt_iso_weaken : forall f g g', opt_iso same_name_params f g g' -> opt_iso_weak f g g'.
Proof.
  intros f g g' [H1 [H2 [H3 _]]]. split; [exact H1|]. split; [exact H2|].
  intros nd Hin. destruct (H3 nd Hin) as [nd' [Ha [Hb [Hc Hd]]]]. exists nd'. rewrite Hc. auto.
Qed.

Theorem opt_iso_b_sound : forall psi g g',
  opt_iso_b psi g g' = true -> opt_iso_weak (fun u => assoc_nat u psi) g g'.
Proof.
  intros psi g g' H. unfold opt_iso_b in H.
  apply andb_true_iff in H as [H H4]. apply andb_true_iff in H as [H H3]. apply andb_true_iff in H as [H1 H2].
  apply nat_nodup_NoDup in H1, H2. apply Nat.eqb_eq in H3.
  assert (Hnode : forall nd, In nd g -> exists nd', In nd' g' /\ ouid nd' = assoc_nat (ouid nd) psi /\
             Permutation (map (fun u => assoc_nat u psi) (opar nd)) (opar nd') /\ same_name_params nd nd').
  { intros nd Hin. eapply forallb_forall in H4; [|exact Hin]. cbn beta in H4.
    destruct (find_node g' (assoc_nat (ouid nd) psi)) as [nd'|] eqn:E; [|discriminate].
    apply find_node_some in E as [E1 E2].
    apply andb_true_iff in H4 as [H4 Hc]. apply andb_true_iff in H4 as [Ha Hb].
    exists nd'. split; [exact E1|]. split; [exact E2|]. split; [apply perm_nat_b_sound; exact Hc|].
    split; [symmetry; apply String.eqb_eq; exact Ha|apply attrs_eqb_sound; exact Hb]. }
  split; [|split; [|exact Hnode]].
  - intros u1 u2 Hu1 Hu2 E. exact (NoDup_map_inj (fun u => assoc_nat u psi) (uids g) u1 u2 H2 Hu1 Hu2 E).
  - apply NoDup_Permutation_bis; [exact H2| |].
    + rewrite map_length. unfold uids. rewrite !map_length, H3. apply le_n.
    + intros x Hx. apply in_map_iff in Hx as [u [<- Hu]]. apply in_map_iff in Hu as [nd [<- Hin]].
      destruct (Hnode nd Hin) as [nd' [Ha [Hb _]]]. rewrite <- Hb. apply in_map. exact Ha.
Qed.

Theorem holds_opt_rt_sound : forall g go psi,
  opt_guard g = true -> holds_opt_rt g go psi = true -> opt_iso_weak (fun u => assoc_nat u psi) g go.
Proof.
  intros g go psi Hg H. unfold holds_opt_rt in H. rewrite Hg in H. apply opt_iso_b_sound. exact H.
Qed.

Lemma opt_wf_b_sound : forall g, opt_wf_b g = true -> opt_wf g.
Proof.
  intros g H. unfold opt_wf_b in H. apply andb_true_iff in H as [H1 H2]. split; [apply nat_nodup_NoDup; exact H1|].
  intros nd Hin. eapply forallb_forall in H2; [|exact Hin]. apply andb_true_iff in H2 as [Ha Hb].
  split; [apply nat_nodup_NoDup; exact Ha|]. intros p Hp. eapply forallb_forall in Hb; [|exact Hp].
  apply memb_In. exact Hb.
Qed.

Lemma opt_guard_sound : forall g, opt_guard g = true -> opt_wf g /\ opt_params_guard g.
Proof.
  intros g H. unfold opt_guard in H. apply andb_true_iff in H as [H1 H2]. split; [apply opt_wf_b_sound; exact H1|].
  intros nd Hin. eapply forallb_forall in H2; [|exact Hin]. unfold params_ok in H2.
  apply andb_true_iff in H2 as [H2 _]. destruct (lookup name_key (node_params nd)); [discriminate|reflexivity].
Qed.

(* freshness oracles *)
Lemma all_fresh_sound : forall n ids, all_fresh n ids = true <-> fresh n ids.
Proof.
  intros n ids. unfold all_fresh, fresh. rewrite forallb_forall, Forall_forall.
  split; intros H i Hi; specialize (H i Hi); [apply Nat.leb_le|apply Nat.leb_le]; exact H.
Qed.

(* ==================================================================================== *)
(* 15. the literal model of a wrapped call satisfies the call oracle                     *)
(* ==================================================================================== *)
Section ValInd.
  Context {G M : Type}.
  Variable P : @val G M -> Prop.
  Hypothesis HG : forall c g, P (VGraph c g).
  Hypothesis HI : forall c g m, P (VInd c g m).
  Hypothesis HS : forall l, Forall P l -> P (VSeq l).
  Hypothesis HT : forall l, Forall P l -> P (VTuple l).
  Hypothesis HU : forall k l, Forall P l -> P (VUserSeq k l).
  Hypothesis HN : P VNone.
  Hypothesis HC : forall s, P (VScalar s).
  Fixpoint val_ind' (v : @val G M) : P v :=
    match v with
    | VGraph c g => HG c g
    | VInd c g m => HI c g m
    | VSeq l => HS l ((fix go (l : list val) : Forall P l :=
                         match l with [] => Forall_nil _ | x :: r => Forall_cons _ (val_ind' x) (go r) end) l)
    | VTuple l => HT l ((fix go (l : list val) : Forall P l :=
                           match l with [] => Forall_nil _ | x :: r => Forall_cons _ (val_ind' x) (go r) end) l)
    | VUserSeq k l => HU k l ((fix go (l : list val) : Forall P l :=
                                match l with [] => Forall_nil _ | x :: r => Forall_cons _ (val_ind' x) (go r) end) l)
    | VNone => HN
    | VScalar s => HC s
    end.
End ValInd.

Lemma gcl_eqb_refl : forall c, gcl_eqb c c = true.
Proof. intros []; reflexivity. Qed.

Lemma list_eqb_refl {X} (e : X -> X -> bool) : forall l, Forall (fun x => e x x = true) l -> list_eqb e l l = true.
Proof. induction 1; cbn; auto. rewrite H, IHForall. reflexivity. Qed.

Lemma t_val_eqb_seq : forall l r, t_val_eqb (VSeq l) (VSeq r) = list_eqb t_val_eqb l r.
Proof.
  unfold t_val_eqb. intros l. cbn [val_eqb]. induction l as [|x l IH]; intros [|y r]; cbn [list_eqb]; try reflexivity.
  rewrite <- IH. reflexivity.
Qed.

Lemma t_val_eqb_tuple : forall l r, t_val_eqb (VTuple l) (VTuple r) = list_eqb t_val_eqb l r.
Proof.
  unfold t_val_eqb. intros l. cbn [val_eqb]. induction l as [|x l IH]; intros [|y r]; cbn [list_eqb]; try reflexivity.
  rewrite <- IH. reflexivity.
Qed.

Lemma t_val_eqb_user : forall k k' l r,
  t_val_eqb (VUserSeq k l) (VUserSeq k' r) = Nat.eqb k k' && list_eqb t_val_eqb l r.
Proof.
  unfold t_val_eqb. intros k k' l r. cbn [val_eqb]. f_equal. revert r.
  induction l as [|x l IH]; intros [|y r]; cbn [list_eqb]; try reflexivity.
  rewrite <- IH. reflexivity.
Qed.

Lemma t_val_eqb_refl : forall v : tval, t_val_eqb v v = true.
Proof.
  induction v as [c g|c g m|l IH|l IH|k l IH| |s] using val_ind'.
  - unfold t_val_eqb. cbn. rewrite gcl_eqb_refl, Nat.eqb_refl. reflexivity.
  - unfold t_val_eqb. cbn. rewrite gcl_eqb_refl, !Nat.eqb_refl. reflexivity.
  - rewrite t_val_eqb_seq. apply list_eqb_refl. exact IH.
  - rewrite t_val_eqb_tuple. apply list_eqb_refl. exact IH.
  - rewrite t_val_eqb_user, Nat.eqb_refl. apply list_eqb_refl. exact IH.
  - reflexivity.
  - unfold t_val_eqb. cbn. apply String.eqb_refl.
Qed.

Lemma t_vals_eqb_refl : forall l : list tval, list_eqb t_val_eqb l l = true.
Proof. intros l. apply list_eqb_refl. apply Forall_forall. intros x _. apply t_val_eqb_refl. Qed.

Lemma t_kw_eqb_refl : forall kw : list (string * tval), t_kw_eqb kw kw = true.
Proof.
  intros kw. unfold t_kw_eqb, kw_eqb. apply list_eqb_refl. apply Forall_forall. intros [k v] _. cbn.
  rewrite String.eqb_refl. apply t_val_eqb_refl.
Qed.

Lemma map_kw_ok {G M} (f : @val G M -> res val) (h : val -> val) : forall kw,
  (forall kv, In kv kw -> f (snd kv) = Ok (h (snd kv))) ->
  map_kw f kw = Ok (map (fun kv => (fst kv, h (snd kv))) kw).
Proof.
  intros kw H. unfold map_kw. apply (map_res_ok (fun kv => bind (f (snd kv)) (fun v => Ok (fst kv, v)))).
  intros kv Hin. rewrite (H kv Hin). reflexivity.
Qed.

(* whatever the wrapped function returns (raw), the model of the wrapper passes holds_call *)
Theorem model_holds_call : forall k (ad : bool) args kw raw,
  let fa := if ad then @restore nat nat tidR tempty k else @adapt nat nat tid k in
  let fr := if ad then @adapt nat nat tid k else @restore nat nat tidR tempty k in
  holds_call (mkCall k ad args kw
                (bind (map_kw fa kw) (fun kw' => bind (map_res fa args) (fun a' => Ok (a', kw'))))
                raw
                (transform fa fr (fun _ _ => Ok raw) args kw)
                true) = true.
Proof.
  intros k ad args kw raw. cbn zeta. unfold holds_call.
  cbn [c_kind c_adapting c_args c_kwargs c_inner c_raw c_out c_untouched].
  match goal with |- (if ?c then _ else _) = true => destruct c eqn:Hc end; [|reflexivity].
  apply andb_true_iff in Hc as [Hc Hr]. apply andb_true_iff in Hc as [Ha Hk].
  destruct ad.
  - assert (Hargs : forall a, In a args -> restore tidR tempty k a = Ok (restore_total tidR k a)).
    { intros a Hin. apply restore_total_ok. eapply forallb_forall in Ha; eauto. }
    assert (Hkw : forall kv, In kv kw -> restore tidR tempty k (snd kv) = Ok (restore_total tidR k (snd kv))).
    { intros kv Hin. apply restore_total_ok. eapply forallb_forall in Hk; eauto. }
    rewrite (transform_spec (restore tidR tempty k) (adapt tid k) (restore_total tidR k) _ _ _ Hargs Hkw).
    rewrite (map_kw_ok _ _ _ Hkw). cbn [bind]. rewrite (map_res_ok (restore tidR tempty k) (restore_total tidR k) args Hargs). cbn [bind].
    rewrite (transform_result_spec (adapt tid k) (adapt_total tid k) (adaptable k) raw (adapt_total_ok tid k) Hr).
    unfold inner_eqb. cbn [res_eqb fst snd]. rewrite t_vals_eqb_refl, t_kw_eqb_refl, t_val_eqb_refl. reflexivity.
  - assert (Hargs : forall a, In a args -> adapt tid k a = Ok (adapt_total tid k a)).
    { intros a Hin. apply adapt_total_ok. eapply forallb_forall in Ha; eauto. }
    assert (Hkw : forall kv, In kv kw -> adapt tid k (snd kv) = Ok (adapt_total tid k (snd kv))).
    { intros kv Hin. apply adapt_total_ok. eapply forallb_forall in Hk; eauto. }
    rewrite (transform_spec (adapt tid k) (restore tidR tempty k) (adapt_total tid k) _ _ _ Hargs Hkw).
    rewrite (map_kw_ok _ _ _ Hkw). cbn [bind]. rewrite (map_res_ok (adapt tid k) (adapt_total tid k) args Hargs). cbn [bind].
    rewrite (transform_result_spec (restore tidR tempty k) (restore_total tidR k) (restorable tempty k) raw (restore_total_ok tidR tempty k) Hr).
    unfold inner_eqb. cbn [res_eqb fst snd]. rewrite t_vals_eqb_refl, t_kw_eqb_refl, t_val_eqb_refl. reflexivity.
Qed.
(* 16. the fuel of add_node is sufficient: the model computes the recursion of           *)
(*     LinkedGraph.add_node (stated as a big-step relation without fuel)                 *)
(* ==================================================================================== *)
Inductive AddNode (ns : list onode) : nat -> list nat -> list nat -> Prop :=
| AN_present : forall u acc, In u acc -> AddNode ns u acc acc
| AN_unknown : forall u acc, ~ In u acc -> find_node ns u = None -> AddNode ns u acc acc
| AN_new : forall u acc nd acc', ~ In u acc -> find_node ns u = Some nd ->
    AddParents ns (opar nd) (acc ++ [u]) acc' -> AddNode ns u acc acc'
with AddParents (ns : list onode) : list nat -> list nat -> list nat -> Prop :=
| AP_nil : forall acc, AddParents ns [] acc acc
| AP_cons : forall p ps acc acc1 acc2,
    AddNode ns p acc acc1 -> AddParents ns ps acc1 acc2 -> AddParents ns (p :: ps) acc acc2.

Lemma order_inv_length : forall ns acc, order_inv ns acc -> List.length acc <= List.length (uids ns).
Proof. intros ns acc [H1 H2]. apply NoDup_incl_length; assumption. Qed.

Theorem add_node_fuel_sufficient : forall fuel ns u acc,
  order_inv ns acc -> List.length (uids ns) - List.length acc < fuel ->
  AddNode ns u acc (add_node fuel ns u acc).
Proof.
  induction fuel as [|f IH]; intros ns u acc HI Hf; [lia|]. cbn [add_node].
  destruct (memb u acc) eqn:Em; [apply AN_present, memb_In; exact Em|].
  apply memb_false in Em.
  destruct (find_node ns u) as [nd|] eqn:Ef; [|apply AN_unknown; assumption].
  apply (AN_new ns u acc nd); try assumption.
  assert (HI' : order_inv ns (acc ++ [u])).
  { destruct HI as [Hnd Hincl]. split; [apply NoDup_snoc; assumption|].
    apply incl_app; [assumption|]. intros x [<-|[]]. apply find_node_some in Ef as [Hin <-].
    apply in_map. exact Hin. }
  assert (Hf' : List.length (uids ns) - List.length (acc ++ [u]) < f).
  { pose proof (order_inv_length _ _ HI') as Hl. rewrite app_length in *. cbn [List.length] in *. lia. }
  clear Ef. revert HI' Hf'. generalize (acc ++ [u]) as a. induction (opar nd) as [|p ps IHp]; intros a Ha Hfa; cbn [fold_left].
  - constructor.
  - destruct (add_node_inv f ns p a Ha) as [H1 H2].
    apply (AP_cons ns p ps a (add_node f ns p a)); [apply IH; assumption|].
    apply IHp; [exact H1|].
    assert (List.length a <= List.length (add_node f ns p a)) by (apply NoDup_incl_length; [apply Ha|exact H2]).
    lia.
Qed.

(* LinkedGraph.__init__: the fuel S (length ns) used by graph_order always suffices *)
Theorem graph_order_fuel : forall ns u acc, order_inv ns acc ->
  AddNode ns u acc (add_node (S (List.length ns)) ns u acc).
Proof.
  intros ns u acc HI. apply add_node_fuel_sufficient; [exact HI|]. unfold uids. rewrite map_length. lia.
Qed.

(* ==================================================================================== *)
(* 17. sessions on one adapter instance                                                  *)
(* ==================================================================================== *)
Theorem model_holds_session : forall ops adapting q,
  holds_session ops adapting q (is_native (run_ops ops) q)
                (if adapting then adapted_is_same (adapt_func (run_ops ops) q) else false)
                (expect_recv_dom (run_ops ops) adapting q) = true.
Proof.
  intros ops adapting q. unfold holds_session, expect_recv_dom, adapt_func. rewrite (registry_history ops q).
  destruct (registered ops q); destruct adapting; cbn [andb adapted_is_same];
    rewrite ?Bool.eqb_reflx; reflexivity.
Qed.

(* what the function sees when the outcome of adapt_func is called with one internal graph
   (BaseNetworkxAdapter): the graph itself if native, the restored domain graph otherwise *)
Theorem session_call_model : forall {G M} (cvA : G -> G) (cvR : G -> option M -> G) g_empty den fl q g,
  (is_native fl q = true ->
     call_adapted cvA cvR g_empty ANx den (adapt_func fl q) [VGraph KOpt g] [] = den q [VGraph KOpt g] []) /\
  (is_native fl q = false ->
     call_adapted cvA cvR g_empty ANx den (adapt_func fl q) [VGraph KOpt g] [] =
     bind (den q [VGraph KDom (cvR g None)] []) (transform_result (adapt cvA ANx))).
Proof.
  intros. split; intros H.
  - rewrite native_as_is by exact H. reflexivity.
  - rewrite not_native_wrapped by exact H. reflexivity.
Qed.

