(* The comparisons the archives perform, on a set of pairwise separated valid fitness values
   (the hypothesis of C09): a strict weak order (better-than = lexicographic minimisation) and
   Pareto dominance compatible with it.  Uses the theorems of Fitness/FitnessProofs.v. *)
From Coq Require Import List Bool QArith Lia Lqa.
From GolemV Require Import Fitness.Fitness Fitness.FitnessProofs Archive.Hof.
Import ListNotations.

(* ---------- more on the lexicographic order ---------- *)
Lemma lex_negtrans l m r :
  length l = length m -> length m = length r ->
  lex_lt_b l m = false -> lex_lt_b m r = false -> lex_lt_b l r = false.
Proof.
  revert m r. induction l as [|a l IH]; intros [|b m] [|c r]; simpl; intros L1 L2 H1 H2;
    try discriminate; try reflexivity.
  destruct (Qeq_bool a b) eqn:Eab; destruct (Qeq_bool b c) eqn:Ebc.
  - apply Qeq_bool_iff in Eab. apply Qeq_bool_iff in Ebc.
    assert (Qeq_bool a c = true) as -> by (apply Qeq_bool_iff; rewrite Eab; exact Ebc).
    apply (IH m r); auto.
  - apply Qeq_bool_iff in Eab. apply Qeq_bool_false_neq in Ebc. apply Qlt_b_false_iff in H2.
    destruct (Qeq_bool a c) eqn:Eac.
    + apply Qeq_bool_iff in Eac. exfalso. apply Ebc. rewrite <- Eab. exact Eac.
    + apply Qlt_b_false_iff. rewrite Eab. exact H2.
  - apply Qeq_bool_iff in Ebc. apply Qlt_b_false_iff in H1.
    destruct (Qeq_bool a c) eqn:Eac.
    + apply Qeq_bool_iff in Eac. apply Qeq_bool_false_neq in Eab. exfalso. apply Eab. rewrite Ebc. exact Eac.
    + apply Qlt_b_false_iff. rewrite <- Ebc. exact H1.
  - apply Qlt_b_false_iff in H1. apply Qlt_b_false_iff in H2.
    apply Qeq_bool_false_neq in Eab. apply Qeq_bool_false_neq in Ebc.
    assert (c < a).
    { destruct (Qlt_le_dec c a) as [L|L]; [exact L|]. exfalso. apply Eab.
      apply Qle_antisym; [|exact H1]. eapply Qle_trans; eassumption. }
    destruct (Qeq_bool a c) eqn:Eac.
    + apply Qeq_bool_iff in Eac. exfalso. rewrite Eac in H. apply (Qlt_irrefl _ H).
    + apply Qlt_b_false_iff. apply Qlt_le_weak. exact H.
Qed.

(* ---------- Pareto dominance: compatibility with identical vectors, and with the order ---------- *)
Lemma identical_Forall2 l r : identical l r = true -> Forall2 Qeq l r.
Proof.
  unfold identical. revert r. induction l as [|a l IH]; intros [|b r]; simpl; intros H; try discriminate; constructor.
  - apply andb_true_iff in H as [H _]. apply Qeq_bool_iff, H.
  - apply andb_true_iff in H as [_ H]. apply IH, H.
Qed.

Lemma pareto_compat_l l l' r : Forall2 Qeq l l' -> pareto l r -> pareto l' r.
Proof.
  intros E [F X]. split.
  - clear X. revert r F. induction E as [|a a' l l' Ea _ IH]; intros r F; inversion F; subst; constructor.
    + rewrite <- Ea. assumption.
    + apply IH. assumption.
  - clear F. revert r X. induction E as [|a a' l l' Ea _ IH]; intros r X; inversion X; subst.
    + apply Ex2_here. rewrite <- Ea. assumption.
    + apply Ex2_next. apply IH. assumption.
Qed.

Lemma pareto_compat_r l r r' : Forall2 Qeq r r' -> pareto l r -> pareto l r'.
Proof.
  intros E [F X]. split.
  - clear X. revert l F. induction E as [|a a' r r' Ea _ IH]; intros l F; inversion F; subst; constructor.
    + rewrite <- Ea. assumption.
    + apply IH. assumption.
  - clear F. revert l X. induction E as [|a a' r r' Ea _ IH]; intros l X; inversion X; subst.
    + apply Ex2_here. rewrite <- Ea. assumption.
    + apply Ex2_next. apply IH. assumption.
Qed.

(* dominating means lexicographically better *)
Lemma pareto_lex l r : pareto l r -> lex_lt_b l r = true.
Proof.
  intros [F X]. induction F as [|a b l r L F IH]; [inversion X|]. simpl.
  destruct (Qeq_bool a b) eqn:E.
  - apply Qeq_bool_iff in E. inversion X as [? ? ? ? Lt|]; subst.
    + exfalso. rewrite E in Lt. apply (Qlt_irrefl _ Lt).
    + apply IH. assumption.
  - apply Qeq_bool_false_neq in E. apply Qlt_b_iff.
    destruct (Qlt_le_dec a b) as [Lt|Le]; [exact Lt|]. exfalso. apply E. apply Qle_antisym; assumption.
Qed.

(* ---------- a universe of separated fitness values ---------- *)
Definition SepU (u : list fit) : Prop :=
  forall f g, In f u -> In g u ->
    same_class f g = true /\ valid f = true /\ valid g = true /\ sep_b (vals f) (vals g) = true.

Section OnUniverse.
  Variable u : list fit.
  Hypothesis HU : SepU u.
  Definition inU (f : fit) : Prop := In f u.

  Lemma u_length f g : inU f -> inU g -> length (vals f) = length (vals g).
  Proof. intros Hf Hg. destruct (HU f g Hf Hg) as (_ & _ & _ & S). apply sep_length, S. Qed.

  (* no comparison raises, and each is the exact relation on the value vectors *)
  Lemma u_gt f g : inU f -> inU g -> gt f g = Ok (lex_lt_b (vals f) (vals g)).
  Proof. intros Hf Hg. destruct (HU f g Hf Hg) as (C & Vf & Vg & S). apply sep_gt; assumption. Qed.

  Lemma u_eq f g : inU f -> inU g -> eq f g = Ok (identical (vals f) (vals g)).
  Proof. intros Hf Hg. destruct (HU f g Hf Hg) as (C & Vf & Vg & S). apply sep_eq; assumption. Qed.

  Lemma u_better f g : inU f -> inU g -> f_better f g = lex_lt_b (vals f) (vals g).
  Proof. intros Hf Hg. unfold f_better. rewrite u_gt by assumption. reflexivity. Qed.

  Lemma u_feq f g : inU f -> inU g -> f_eq f g = identical (vals f) (vals g).
  Proof. intros Hf Hg. unfold f_eq. rewrite u_eq by assumption. reflexivity. Qed.

  Lemma u_worse f g : inU f -> inU g -> f_worse f g = f_better g f.
  Proof.
    intros Hf Hg. rewrite u_better by assumption. unfold f_worse, lt.
    destruct (HU f g Hf Hg) as (_ & Vf & Vg & _). rewrite Vf, Vg. simpl.
    apply tuple_gt_lex. apply u_length; assumption.
  Qed.

  Lemma u_better_irrefl f : inU f -> f_better f f = false.
  Proof. intros Hf. rewrite u_better by assumption. apply lex_irrefl. Qed.

  Lemma u_better_trans f g h : inU f -> inU g -> inU h ->
    f_better f g = true -> f_better g h = true -> f_better f h = true.
  Proof. intros Hf Hg Hh. rewrite !u_better by assumption. apply lex_trans. Qed.

  Lemma u_better_negtrans f g h : inU f -> inU g -> inU h ->
    f_better f g = false -> f_better g h = false -> f_better f h = false.
  Proof. intros Hf Hg Hh. rewrite !u_better by assumption. apply lex_negtrans; apply u_length; assumption. Qed.

  (* ... Pareto dominance, for multi-objective fitness values *)
  Hypothesis HM : forall f, inU f -> exists vs ws, f = Multi vs ws.

  Lemma u_dom f g : inU f -> inU g -> dominates f g = Ok (dominates_loop false (vals f) (vals g)).
  Proof.
    intros Hf Hg. destruct (HM f Hf) as (vs & ws & ->). destruct (HM g Hg) as (vs' & ws' & ->). reflexivity.
  Qed.

  Lemma u_fdom f g : inU f -> inU g -> (f_dom f g = true <-> pareto (vals f) (vals g)).
  Proof.
    intros Hf Hg. unfold f_dom. rewrite u_dom by assumption. simpl.
    apply dominates_loop_false, u_length; assumption.
  Qed.

  Lemma u_dom_irrefl f : inU f -> f_dom f f = false.
  Proof.
    intros Hf. destruct (f_dom f f) eqn:E; [|reflexivity].
    apply u_fdom in E; auto. exfalso. apply (pareto_irrefl _ E).
  Qed.

  Lemma u_dom_trans f g h : inU f -> inU g -> inU h ->
    f_dom f g = true -> f_dom g h = true -> f_dom f h = true.
  Proof.
    intros Hf Hg Hh H1 H2. apply u_fdom in H1; auto. apply u_fdom in H2; auto.
    apply u_fdom; auto. eapply pareto_trans; eassumption.
  Qed.

  Lemma u_dom_compat_l f f' g : inU f -> inU f' -> inU g ->
    f_eq f f' = true -> f_dom f g = true -> f_dom f' g = true.
  Proof.
    intros Hf Hf' Hg E D. rewrite u_feq in E by assumption. apply u_fdom in D; auto.
    apply u_fdom; auto. eapply pareto_compat_l; [apply identical_Forall2, E|exact D].
  Qed.

  Lemma u_dom_compat_r f g g' : inU f -> inU g -> inU g' ->
    f_eq g g' = true -> f_dom f g = true -> f_dom f g' = true.
  Proof.
    intros Hf Hg Hg' E D. rewrite u_feq in E by assumption. apply u_fdom in D; auto.
    apply u_fdom; auto. eapply pareto_compat_r; [apply identical_Forall2, E|exact D].
  Qed.

  Lemma u_dom_better f g : inU f -> inU g -> f_dom f g = true -> f_better f g = true.
  Proof.
    intros Hf Hg D. apply u_fdom in D; auto. rewrite u_better by assumption. apply pareto_lex, D.
  Qed.

  Lemma u_feq_refl f : inU f -> f_eq f f = true.
  Proof. intros Hf. rewrite u_feq by assumption. apply identical_refl. Qed.

  Lemma u_feq_sym f g : inU f -> inU g -> f_eq f g = f_eq g f.
  Proof. intros Hf Hg. rewrite !u_feq by assumption. apply identical_sym. Qed.
End OnUniverse.

(* decidable form of SepU, to exhibit concrete universes *)
Definition sepu_b (u : list fit) : bool :=
  forallb (fun f => forallb (fun g => same_class f g && valid f && valid g && sep_b (vals f) (vals g)) u) u.

Lemma sepu_b_correct u : sepu_b u = true -> SepU u.
Proof.
  unfold sepu_b, SepU. intros H f g Hf Hg. rewrite forallb_forall in H. specialize (H f Hf).
  rewrite forallb_forall in H. specialize (H g Hg).
  repeat (apply andb_true_iff in H; destruct H as [H ?]). repeat split; assumption.
Qed.

(* on such a universe no comparison the archives perform raises *)
Lemma sep_no_raise u f g :
  SepU u -> In f u -> In g u ->
  gt f g = Ok (f_better f g) /\ eq f g = Ok (f_eq f g) /\
  ((exists vs ws, f = Multi vs ws) -> (exists vs ws, g = Multi vs ws) -> dominates f g = Ok (f_dom f g)).
Proof.
  intros HU Hf Hg. unfold f_better, f_eq, f_dom.
  rewrite (u_gt u HU f g Hf Hg), (u_eq u HU f g Hf Hg). repeat split.
  intros (vs & ws & ->) (vs' & ws' & ->). reflexivity.
Qed.

(* ---------- a universe that may also contain invalid fitness values (failed evaluations) ---------- *)
(* one class; the valid values pairwise identical or separated.  C09: an invalid fitness is never
   better than anything, every valid fitness is better than an invalid one. *)
Definition SepV (u : list fit) : Prop :=
  forall f g, In f u -> In g u ->
    same_class f g = true /\ (valid f = true -> valid g = true -> sep_b (vals f) (vals g) = true).

Lemma SepU_SepV u : SepU u -> SepV u.
Proof. intros H f g Hf Hg. destruct (H f g Hf Hg) as (C & _ & _ & S). split; [exact C|intros _ _; exact S]. Qed.

Definition fbot (f : fit) : bool := negb (valid f).

Lemma better_invalid_l f g : valid f = false -> f_better f g = false.
Proof. intros H. unfold f_better. rewrite (invalid_never_better f g H). reflexivity. Qed.

Lemma better_valid_invalid f g : valid f = true -> valid g = false -> f_better f g = true.
Proof. intros Hf Hg. unfold f_better. rewrite (valid_beats_invalid f g Hf Hg). reflexivity. Qed.

Section OnUniverseV.
  Variable u : list fit.
  Hypothesis HV : SepV u.
  Notation inU := (inU u).

  Lemma v_better_valid f g : inU f -> inU g -> valid f = true -> valid g = true ->
    f_better f g = lex_lt_b (vals f) (vals g).
  Proof.
    intros Hf Hg Vf Vg. destruct (HV f g Hf Hg) as (C & S). unfold f_better.
    rewrite (sep_gt f g C Vf Vg (S Vf Vg)). reflexivity.
  Qed.

  Lemma v_length f g : inU f -> inU g -> valid f = true -> valid g = true -> length (vals f) = length (vals g).
  Proof. intros Hf Hg Vf Vg. destruct (HV f g Hf Hg) as (_ & S). apply sep_length, S; assumption. Qed.

  Lemma v_worse f g : inU f -> inU g ->
    if fbot f then f_worse f g = true /\ f_better f g = false else f_worse f g = f_better g f.
  Proof.
    intros Hf Hg. unfold fbot, f_worse, lt. destruct (valid f) eqn:Vf; simpl.
    - destruct (valid g) eqn:Vg; simpl.
      + rewrite (v_better_valid g f Hg Hf Vg Vf). apply tuple_gt_lex. apply v_length; assumption.
      + symmetry. apply better_invalid_l, Vg.
    - split; [reflexivity|apply better_invalid_l, Vf].
  Qed.

  Lemma v_better_irrefl f : inU f -> f_better f f = false.
  Proof. intros _. unfold f_better. rewrite gt_irrefl. reflexivity. Qed.

  Lemma v_better_trans f g h : inU f -> inU g -> inU h ->
    f_better f g = true -> f_better g h = true -> f_better f h = true.
  Proof.
    intros Hf Hg Hh H1 H2.
    destruct (valid f) eqn:Vf; [|rewrite (better_invalid_l f g Vf) in H1; discriminate].
    destruct (valid g) eqn:Vg; [|rewrite (better_invalid_l g h Vg) in H2; discriminate].
    destruct (valid h) eqn:Vh; [|apply better_valid_invalid; assumption].
    rewrite v_better_valid in * by assumption. eapply lex_trans; eassumption.
  Qed.

  Lemma v_better_negtrans f g h : inU f -> inU g -> inU h ->
    f_better f g = false -> f_better g h = false -> f_better f h = false.
  Proof.
    intros Hf Hg Hh H1 H2.
    destruct (valid f) eqn:Vf; [|apply better_invalid_l, Vf].
    destruct (valid g) eqn:Vg; [|rewrite (better_valid_invalid f g Vf Vg) in H1; discriminate].
    destruct (valid h) eqn:Vh; [|rewrite (better_valid_invalid g h Vg Vh) in H2; discriminate].
    rewrite v_better_valid in * by assumption.
    apply (lex_negtrans _ (vals g)); try assumption; apply v_length; assumption.
  Qed.
End OnUniverseV.

(* the all-valid universe as a special case (no bottom element) *)
Lemma u_worse_nobot u (HU : SepU u) f g : inU u f -> inU u g ->
  if (fun _ : fit => false) f then f_worse f g = true /\ f_better f g = false else f_worse f g = f_better g f.
Proof. intros Hf Hg. simpl. apply (u_worse u HU); assumption. Qed.
