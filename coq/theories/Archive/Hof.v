(* Model of golem/core/optimisers/archive/individuals_containers.py : class HallOfFame
   (update / insert / remove) and the individuals it stores.  Definitions only.

   Data layout is the code's: two parallel python lists, `keys` (fitness objects, ascending =
   worst first) and `items` (individuals, best first).  The list manipulations are literal
   (bisect_right loop, list.insert, del with the code's index arithmetic); the comparisons
   are parameters of the section and are instantiated below with the fitness model of C09. *)
From Coq Require Import List Bool Arith ZArith.
From GolemV Require Import Fitness.Fitness.
Import ListNotations.

(* python list.insert(i, x) for i >= 0 (i > len appends, like python) *)
Definition insert_at {A} (i : nat) (x : A) (l : list A) : list A := firstn i l ++ x :: skipn i l.

(* python  del l[i]  for 0 <= i < len *)
Definition del_at {A} (i : nat) (l : list A) : list A := firstn i l ++ skipn (S i) l.

(* l[-1] *)
Definition last_opt {A} (l : list A) : option A :=
  match l with [] => None | x :: l' => Some (last l' x) end.

Section Containers.
  Variables K I : Type.              (* fitness objects, individuals *)
  Variable key : I -> K.             (* item.fitness *)
  Variable worse : K -> K -> bool.   (* a < b   (Fitness.__lt__ : a is worse than b) *)
  Variable better : K -> K -> bool.  (* a > b   (Comparable.__gt__) *)
  Variable similar : I -> I -> bool. (* self.similar(ind, hofer) *)

  Record arch := { keys : list K; items : list I }.

  Definition empty_arch : arch := {| keys := []; items := [] |}.
  Definition size (a : arch) : nat := length (items a).     (* len(self) = len(self.items) *)

  (* bisect.bisect_right(a, x):  lo, hi = 0, len(a);
     while lo < hi: mid = (lo+hi)//2; if x < a[mid]: hi = mid else: lo = mid+1;  return lo *)
  Fixpoint bisect_loop (fuel : nat) (x : K) (a : list K) (lo hi : nat) : nat :=
    match fuel with
    | O => lo
    | S f =>
        if lo <? hi then
          let mid := (lo + hi) / 2 in
          match nth_error a mid with
          | Some y => if worse x y then bisect_loop f x a lo mid else bisect_loop f x a (S mid) hi
          | None => lo                     (* not reached: mid < hi <= len(a) *)
          end
        else lo
    end.

  Definition bisect_right (x : K) (a : list K) : nat := bisect_loop (S (length a)) x a 0 (length a).

  (* HallOfFame.insert *)
  Definition arch_insert (a : arch) (it : I) : arch :=
    let i := bisect_right (key it) (keys a) in
    {| keys := insert_at i (key it) (keys a);
       items := insert_at (size a - i) it (items a) |}.

  (* HallOfFame.remove(index):  del self.keys[len(self) - (index % len(self) + 1)]; del self.items[index]
     (python index, may be negative; callers only pass -1 or a valid non-negative index) *)
  Definition arch_remove (a : arch) (idx : Z) : arch :=
    let n := Z.of_nat (size a) in
    {| keys := del_at (Z.to_nat (n - (idx mod n + 1))) (keys a);
       items := del_at (Z.to_nat (if (idx <? 0)%Z then n + idx else idx)) (items a) |}.

  (* body of the loop  `for ind in population`  of HallOfFame.update; p0 = population[0] *)
  Definition hof_step (k : nat) (p0 : I) (a : arch) (ind : I) : arch :=
    if (size a =? 0) && negb (k =? 0) then arch_insert a p0
    else
      match last_opt (items a) with
      | None => a                 (* self[-1] on an empty hall of fame raises: see hof_raises *)
      | Some w =>
          if better (key ind) (key w) || (size a <? k) then
            if existsb (similar ind) (items a) then a
            else arch_insert (if k <=? size a then arch_remove a (-1) else a) ind
          else a
      end.

  (* HallOfFame.update *)
  Definition hof_update (k : nat) (a : arch) (pop : list I) : arch :=
    match pop with
    | [] => a
    | p0 :: _ => fold_left (hof_step k p0) pop a
    end.

  (* the only exception of update on comparable fitness values: maxsize = 0 (or None) and an
     empty hall of fame make `self[-1]` raise IndexError on the first individual *)
  Definition hof_raises (k : nat) (a : arch) (pop : list I) : bool :=
    match pop with [] => false | _ :: _ => (k =? 0) && (size a =? 0) end.

  Definition hof_run (k : nat) (a : arch) (pops : list (list I)) : arch :=
    fold_left (hof_update k) pops a.
End Containers.

Arguments keys {K I} _.
Arguments items {K I} _.
Arguments empty_arch {K I}.
Arguments size {K I} _.
Arguments bisect_loop {K} _ _ _ _ _ _.
Arguments bisect_right {K} _ _ _.
Arguments arch_insert {K I} _ _ _ _.
Arguments arch_remove {K I} _ _.
Arguments hof_step {K I} _ _ _ _ _ _ _.
Arguments hof_update {K I} _ _ _ _ _ _.
Arguments hof_raises {K I} _ _ _.
Arguments hof_run {K I} _ _ _ _ _ _.

(* ---------------- individuals and the comparisons the archives really use ---------------- *)

(* what the archive code reads of an Individual: uid (Individual.__eq__), fitness, and for
   _individuals_same the native generation and the graph (graph equality is the subject of
   C13: here a graph is the identifier of its equality class) *)
Record indiv := { uid : nat; fitness : fit; gclass : nat; ngen : option nat }.

(* A comparison that raises aborts the update in python.  The archive models are claimed only
   for inputs on which no fitness comparison raises (one fitness class, equal lengths): see
   ArchiveOrder.sep_no_raise.  Such a comparison is read as false here. *)
Definition getb (r : res bool) : bool := match r with Ok b => b | RaiseValueError => false end.

Definition f_worse (f g : fit) : bool := lt f g.
Definition f_better (f g : fit) : bool := getb (gt f g).
Definition f_eq (f g : fit) : bool := getb (eq f g).
Definition f_dom (f g : fit) : bool := getb (dominates f g).

(* operator.eq on Individuals: uid equality *)
Definition sim_uid (a b : indiv) : bool := uid a =? uid b.

Definition hof := arch fit indiv.
Definition hof_upd (k : nat) : hof -> list indiv -> hof := hof_update fitness f_worse f_better sim_uid k.
Definition hof_runs (k : nat) : hof -> list (list indiv) -> hof := hof_run fitness f_worse f_better sim_uid k.
