(* Proofs about the hall-of-fame model (property C08): list surgery, bisect_right, the
   invariant of HallOfFame.update and the "k best distinct individuals" characterisation. *)
From Coq Require Import List Bool Arith ZArith Lia Permutation Sorted.
From GolemV Require Import Fitness.Fitness Archive.Hof.
Import ListNotations.

(* ====================== list surgery: insert_at / del_at ====================== *)
Section ListSurgery.
  Context {A : Type}.

  Lemma insert_at_app (l1 l2 : list A) x : insert_at (length l1) x (l1 ++ l2) = l1 ++ x :: l2.
  Proof.
    unfold insert_at. rewrite firstn_app, skipn_app, Nat.sub_diag, firstn_all, skipn_all.
    simpl. rewrite app_nil_r. reflexivity.
  Qed.

  Lemma del_at_app (l1 l2 : list A) y : del_at (length l1) (l1 ++ y :: l2) = l1 ++ l2.
  Proof.
    unfold del_at. rewrite firstn_app, skipn_app, Nat.sub_diag, firstn_all.
    replace (S (length l1) - length l1) with 1 by lia.
    rewrite skipn_all2 by lia. simpl. rewrite app_nil_r. reflexivity.
  Qed.

  Lemma insert_at_perm i (x : A) l : Permutation (insert_at i x l) (x :: l).
  Proof.
    unfold insert_at. rewrite <- (firstn_skipn i l) at 3.
    symmetry. apply Permutation_middle.
  Qed.

  Lemma insert_at_length i (x : A) l : length (insert_at i x l) = S (length l).
  Proof. apply (Permutation_length (insert_at_perm i x l)). Qed.

  Lemma insert_at_in i (x y : A) l : In y (insert_at i x l) <-> y = x \/ In y l.
  Proof.
    split; intros H.
    - apply (Permutation_in _ (insert_at_perm i x l)) in H. destruct H; auto.
    - apply (Permutation_in _ (Permutation_sym (insert_at_perm i x l))). destruct H; [left|right]; auto.
  Qed.

  (* split of a list at a valid index *)
  Lemma nth_split_at (l : list A) i y :
    nth_error l i = Some y -> exists l1 l2, l = l1 ++ y :: l2 /\ length l1 = i.
  Proof. intros H. destruct (nth_error_split l i H) as (l1 & l2 & E & L). eauto. Qed.

  Lemma del_at_perm (l : list A) i y : nth_error l i = Some y -> Permutation l (y :: del_at i l).
  Proof.
    intros H. destruct (nth_split_at l i y H) as (l1 & l2 & -> & <-).
    rewrite del_at_app. symmetry. apply Permutation_middle.
  Qed.

  Lemma del_at_in (l : list A) i x : In x (del_at i l) -> In x l.
  Proof.
    unfold del_at. intros H. apply in_app_or in H.
    rewrite <- (firstn_skipn i l). apply in_or_app. destruct H as [H|H]; [left; exact H|right].
    clear -H. revert i H. induction l as [|a l IH]; intros [|i] H; simpl in *; auto.
  Qed.

  Lemma del_at_length (l : list A) i : i < length l -> length (del_at i l) = length l - 1.
  Proof.
    intros H. destruct (nth_error l i) eqn:E.
    - pose proof (Permutation_length (del_at_perm l i a E)) as P. simpl in P. lia.
    - apply nth_error_None in E. lia.
  Qed.

  Lemma rev_insert_at i (x : A) l :
    i <= length l -> rev (insert_at i x l) = insert_at (length l - i) x (rev l).
  Proof.
    intros H. rewrite <- (firstn_skipn i l).
    assert (L : length (firstn i l) = i) by (rewrite firstn_length; lia).
    remember (firstn i l) as l1. remember (skipn i l) as l2. clear Heql1 Heql2.
    rewrite <- L, insert_at_app, !rev_app_distr. simpl. rewrite <- app_assoc. simpl.
    replace (length (l1 ++ l2) - length l1) with (length (rev l2))
      by (rewrite rev_length, app_length; lia).
    rewrite insert_at_app. reflexivity.
  Qed.

  Lemma rev_del_at i (l : list A) :
    i < length l -> rev (del_at i l) = del_at (length l - 1 - i) (rev l).
  Proof.
    intros H. destruct (nth_error l i) eqn:E; [|apply nth_error_None in E; lia].
    destruct (nth_split_at l i a E) as (l1 & l2 & -> & <-).
    rewrite del_at_app, !rev_app_distr. simpl. rewrite <- app_assoc. simpl.
    replace (length (l1 ++ a :: l2) - 1 - length l1) with (length (rev l2)).
    - rewrite del_at_app. reflexivity.
    - rewrite rev_length, app_length. simpl. lia.
  Qed.

  Lemma del_at_cons (a : A) l i : del_at (S i) (a :: l) = a :: del_at i l.
  Proof. reflexivity. Qed.

  Lemma del_at_nil i : del_at i (@nil A) = [].
  Proof. unfold del_at. rewrite firstn_nil, skipn_nil. reflexivity. Qed.

  Lemma del_at_nth_lt (l : list A) i j : j < i -> nth_error (del_at i l) j = nth_error l j.
  Proof.
    revert i j. induction l as [|a l IH]; intros i j H.
    - rewrite del_at_nil. reflexivity.
    - destruct i as [|i]; [lia|]. rewrite del_at_cons. destruct j as [|j]; simpl; [reflexivity|].
      apply IH. lia.
  Qed.

  Lemma del_at_nth_ge (l : list A) i j : i <= j -> nth_error (del_at i l) j = nth_error l (S j).
  Proof.
    revert i j. induction l as [|a l IH]; intros i j H.
    - rewrite del_at_nil. destruct j; reflexivity.
    - destruct i as [|i]; [reflexivity|]. rewrite del_at_cons. destruct j as [|j]; [lia|]. simpl.
      apply IH. lia.
  Qed.
End ListSurgery.

Lemma map_insert_at {A B} (f : A -> B) i x l : map f (insert_at i x l) = insert_at i (f x) (map f l).
Proof. unfold insert_at. rewrite map_app, firstn_map. simpl. rewrite skipn_map. reflexivity. Qed.

Lemma map_del_at {A B} (f : A -> B) i l : map f (del_at i l) = del_at i (map f l).
Proof. unfold del_at. rewrite map_app, firstn_map, skipn_map. reflexivity. Qed.

Lemma last_opt_app {A} (l : list A) w : last_opt (l ++ [w]) = Some w.
Proof.
  unfold last_opt. destruct l as [|x l]; simpl; [reflexivity|].
  f_equal. apply last_last.
Qed.

Lemma last_opt_split {A} (l : list A) w : last_opt l = Some w -> exists l', l = l' ++ [w].
Proof.
  intros H. destruct l as [|x l]; [discriminate|].
  destruct (exists_last (l := x :: l)) as (l' & w' & E); [discriminate|].
  rewrite E in H. rewrite last_opt_app in H. injection H as <-. eauto.
Qed.

Lemma last_opt_none {A} (l : list A) : last_opt l = None -> l = [].
Proof. destruct l; [reflexivity|discriminate]. Qed.

(* ====================== sortedness ====================== *)
Section SortedAux.
  Context {A : Type} (R : A -> A -> Prop).

  Lemma ssorted_app_inv l1 l2 :
    StronglySorted R (l1 ++ l2) ->
    StronglySorted R l1 /\ StronglySorted R l2 /\ (forall a b, In a l1 -> In b l2 -> R a b).
  Proof.
    induction l1 as [|x l1 IH]; simpl; intros H.
    - repeat split; [constructor|exact H|intros a b []].
    - inversion H as [|? ? S F]; subst. destruct (IH S) as (S1 & S2 & C).
      rewrite Forall_app in F. destruct F as [F1 F2].
      repeat split; [constructor; assumption|exact S2|].
      intros a b [<-|Ha] Hb; [|apply C; assumption].
      rewrite Forall_forall in F2. apply F2, Hb.
  Qed.

  Lemma ssorted_app l1 l2 :
    StronglySorted R l1 -> StronglySorted R l2 -> (forall a b, In a l1 -> In b l2 -> R a b) ->
    StronglySorted R (l1 ++ l2).
  Proof.
    induction l1 as [|x l1 IH]; simpl; intros S1 S2 C; [exact S2|].
    inversion S1 as [|? ? S F]; subst. constructor.
    - apply IH; [exact S|exact S2|]. intros a b Ha Hb. apply C; [right; exact Ha|exact Hb].
    - rewrite Forall_app. split; [exact F|]. rewrite Forall_forall. intros b Hb. apply C; [left; reflexivity|exact Hb].
  Qed.

  Lemma ssorted_del_at l i : StronglySorted R l -> StronglySorted R (del_at i l).
  Proof.
    intros S. destruct (nth_error l i) eqn:E.
    - destruct (nth_split_at l i a E) as (l1 & l2 & -> & <-). rewrite del_at_app.
      destruct (ssorted_app_inv _ _ S) as (S1 & S2 & C). inversion S2; subst.
      apply ssorted_app; [exact S1|assumption|]. intros x y Hx Hy. apply C; [exact Hx|right; exact Hy].
    - apply nth_error_None in E. unfold del_at. rewrite firstn_all2, skipn_all2 by lia.
      rewrite app_nil_r. exact S.
  Qed.
End SortedAux.

Lemma ssorted_rev {A} (R : A -> A -> Prop) l :
  StronglySorted R l -> StronglySorted (fun a b => R b a) (rev l).
Proof.
  induction 1 as [|x l S IH F]; simpl; [constructor|].
  apply ssorted_app; [exact IH|repeat constructor|].
  intros a b Ha [<-|[]]. rewrite Forall_forall in F. apply F. apply in_rev. exact Ha.
Qed.

Lemma ssorted_map {A B} (f : A -> B) (R : B -> B -> Prop) l :
  StronglySorted R (map f l) -> StronglySorted (fun a b => R (f a) (f b)) l.
Proof.
  induction l as [|x l IH]; simpl; intros H; [constructor|].
  inversion H as [|? ? S F]; subst. constructor; [apply IH, S|].
  rewrite Forall_forall in *. intros y Hy. apply F. apply in_map, Hy.
Qed.

(* ====================== the two parallel lists ====================== *)
Section ContainerProofs.
  Variables K I : Type.
  Variable key : I -> K.
  Variables worse better : K -> K -> bool.

  Notation arch := (arch K I).
  Notation arch_insert := (arch_insert key worse).

  (* keys mirror items: keys = reversed fitness values of items *)
  Definition mirror (a : arch) : Prop := keys a = rev (map key (items a)).

  Lemma mirror_length a : mirror a -> length (keys a) = size a.
  Proof. unfold mirror, size. intros ->. rewrite rev_length, map_length. reflexivity. Qed.

  (* ---------- bisect_right: range ---------- *)
  Lemma bisect_loop_range x a fuel lo hi :
    lo <= hi -> lo <= bisect_loop worse fuel x a lo hi <= hi.
  Proof.
    revert lo hi. induction fuel as [|f IH]; intros lo hi H; cbn [bisect_loop]; [lia|].
    destruct (lo <? hi) eqn:E; [|lia]. apply Nat.ltb_lt in E.
    pose proof (Nat.div_mod (lo + hi) 2 ltac:(lia)) as D.
    pose proof (Nat.mod_upper_bound (lo + hi) 2 ltac:(lia)) as M.
    destruct (nth_error a ((lo + hi) / 2)); [|lia].
    destruct (worse x k).
    - specialize (IH lo ((lo + hi) / 2) ltac:(lia)). lia.
    - specialize (IH (S ((lo + hi) / 2)) hi ltac:(lia)). lia.
  Qed.

  Lemma bisect_right_le x a : bisect_right worse x a <= length a.
  Proof. unfold bisect_right. apply (bisect_loop_range x a (S (length a)) 0 (length a)). lia. Qed.

  (* ---------- bisect_right on a partitioned list ---------- *)
  Lemma bisect_loop_spec x l1 l2 :
    Forall (fun y => worse x y = false) l1 -> Forall (fun y => worse x y = true) l2 ->
    forall fuel lo hi, lo <= length l1 <= hi -> hi <= length (l1 ++ l2) -> hi - lo < fuel ->
    bisect_loop worse fuel x (l1 ++ l2) lo hi = length l1.
  Proof.
    intros F1 F2. induction fuel as [|f IH]; intros lo hi B1 B2 Fu; [lia|]. cbn [bisect_loop].
    destruct (lo <? hi) eqn:E.
    - apply Nat.ltb_lt in E.
      pose proof (Nat.div_mod (lo + hi) 2 ltac:(lia)) as D.
      pose proof (Nat.mod_upper_bound (lo + hi) 2 ltac:(lia)) as M.
      set (mid := (lo + hi) / 2) in *.
      destruct (nth_error (l1 ++ l2) mid) as [y|] eqn:N.
      + destruct (Nat.lt_ge_cases mid (length l1)) as [L|L].
        * rewrite nth_error_app1 in N by exact L.
          rewrite Forall_forall in F1. rewrite (F1 y (nth_error_In _ _ N)).
          apply IH; lia.
        * rewrite nth_error_app2 in N by exact L.
          rewrite Forall_forall in F2. rewrite (F2 y (nth_error_In _ _ N)).
          apply IH; lia.
      + apply nth_error_None in N. lia.
    - apply Nat.ltb_ge in E. lia.
  Qed.

  Lemma bisect_right_spec x l1 l2 :
    Forall (fun y => worse x y = false) l1 -> Forall (fun y => worse x y = true) l2 ->
    bisect_right worse x (l1 ++ l2) = length l1.
  Proof.
    intros F1 F2. unfold bisect_right. apply bisect_loop_spec; try assumption.
    - rewrite app_length. lia.
    - lia.
    - lia.
  Qed.

  (* ---------- insert ---------- *)
  Lemma arch_insert_perm a it : Permutation (items (arch_insert a it)) (it :: items a).
  Proof. apply insert_at_perm. Qed.

  Lemma arch_insert_size a it : size (arch_insert a it) = S (size a).
  Proof. unfold size. apply (Permutation_length (arch_insert_perm a it)). Qed.

  Lemma arch_insert_in a it x : In x (items (arch_insert a it)) <-> x = it \/ In x (items a).
  Proof. apply insert_at_in. Qed.

  Lemma arch_insert_mirror a it : mirror a -> mirror (arch_insert a it).
  Proof.
    intros M. unfold mirror. simpl.
    pose proof (bisect_right_le (key it) (keys a)) as B. rewrite (mirror_length a M) in B.
    set (i := bisect_right worse (key it) (keys a)) in *.
    rewrite map_insert_at, rev_insert_at by (rewrite map_length; unfold size; lia).
    rewrite map_length. fold (size a). replace (size a - (size a - i)) with i by lia.
    rewrite <- M. reflexivity.
  Qed.

  (* ---------- remove ---------- *)
  Definition remove_nat (a : arch) (i : nat) : arch :=
    {| keys := del_at (size a - 1 - i) (keys a); items := del_at i (items a) |}.

  Lemma arch_remove_idx a i : i < size a -> arch_remove a (Z.of_nat i) = remove_nat a i.
  Proof.
    intros H. unfold arch_remove, remove_nat.
    assert (E : (Z.of_nat i <? 0)%Z = false) by (apply Z.ltb_ge; lia). rewrite E.
    rewrite Z.mod_small by lia. f_equal; f_equal; lia.
  Qed.

  Lemma arch_remove_last a : 0 < size a -> arch_remove a (-1) = remove_nat a (size a - 1).
  Proof.
    intros H. unfold arch_remove, remove_nat.
    assert (E : ((-1) mod Z.of_nat (size a) = Z.of_nat (size a) - 1)%Z).
    { symmetry. apply (Z.mod_unique_pos _ _ (-1)%Z); lia. }
    rewrite E. simpl. f_equal; f_equal; lia.
  Qed.

  Lemma remove_nat_mirror a i : i < size a -> mirror a -> mirror (remove_nat a i).
  Proof.
    intros H M. unfold mirror, remove_nat. simpl.
    rewrite map_del_at, rev_del_at by (rewrite map_length; exact H).
    rewrite map_length, <- M. reflexivity.
  Qed.

  Lemma remove_nat_size a i : i < size a -> size (remove_nat a i) = size a - 1.
  Proof. intros H. unfold size, remove_nat. simpl. apply del_at_length, H. Qed.

  Lemma remove_nat_in a i x : In x (items (remove_nat a i)) -> In x (items a).
  Proof. apply del_at_in. Qed.

  Lemma remove_nat_keys_in a i x : In x (keys (remove_nat a i)) -> In x (keys a).
  Proof. apply del_at_in. Qed.

  (* removing the last item: items = front ++ [w] *)
  Lemma remove_last_items a front w :
    items a = front ++ [w] -> items (remove_nat a (size a - 1)) = front.
  Proof.
    intros E. unfold remove_nat, size. simpl. rewrite E, app_length. simpl.
    replace (length front + 1 - 1) with (length front) by lia.
    rewrite del_at_app, app_nil_r. reflexivity.
  Qed.

  Lemma remove_last_keys a front w :
    mirror a -> items a = front ++ [w] -> keys a = key w :: keys (remove_nat a (size a - 1)).
  Proof.
    intros M E. unfold remove_nat. simpl. replace (size a - 1 - (size a - 1)) with 0 by lia.
    unfold mirror in M. rewrite M, E, map_app, rev_app_distr. simpl. reflexivity.
  Qed.

  (* ---------- order ---------- *)
  Variable UK : K -> Prop.                 (* the fitness values that may be compared *)
  Hypothesis worse_better : forall a b, UK a -> UK b -> worse a b = better b a.
  Hypothesis better_irrefl : forall a, UK a -> better a a = false.
  Hypothesis better_trans : forall a b c, UK a -> UK b -> UK c ->
    better a b = true -> better b c = true -> better a c = true.
  Hypothesis better_negtrans : forall a b c, UK a -> UK b -> UK c ->
    better a b = false -> better b c = false -> better a c = false.

  Lemma better_asym a b : UK a -> UK b -> better a b = true -> better b a = false.
  Proof.
    intros Ua Ub H. destruct (better b a) eqn:E; [|reflexivity].
    rewrite <- (better_irrefl a Ua). symmetry. eapply better_trans; eauto.
  Qed.

  (* "a is not better than b" *)
  Definition nb (a b : K) : Prop := better a b = false.
  Definition ksorted (a : arch) : Prop := StronglySorted nb (keys a).   (* worst first *)
  Definition kuniv (a : arch) : Prop := Forall UK (keys a).

  Lemma sorted_partition x ks :
    UK x -> Forall UK ks -> StronglySorted nb ks ->
    exists l1 l2, ks = l1 ++ l2 /\ Forall (fun y => better y x = false) l1 /\
                  Forall (fun y => better y x = true) l2.
  Proof.
    intros Ux. induction ks as [|y r IH]; intros U S.
    - exists [], []. repeat split; constructor.
    - inversion U as [|? ? Uy Ur]; subst. inversion S as [|? ? Sr F]; subst.
      destruct (better y x) eqn:E.
      + exists [], (y :: r). repeat split; [constructor|]. constructor; [exact E|].
        rewrite Forall_forall in *. intros z Hz.
        destruct (better z x) eqn:Ez; [reflexivity|]. exfalso.
        assert (better y x = false) by (apply (better_negtrans y z x); auto; apply F, Hz). congruence.
      + destruct (IH Ur Sr) as (l1 & l2 & -> & F1 & F2).
        exists (y :: l1), l2. repeat split; [constructor; assumption|exact F2].
  Qed.

  Lemma arch_insert_keys a it :
    UK (key it) -> kuniv a -> ksorted a ->
    exists l1 l2, keys a = l1 ++ l2 /\ keys (arch_insert a it) = l1 ++ key it :: l2 /\
                  Forall (fun y => better y (key it) = false) l1 /\
                  Forall (fun y => better y (key it) = true) l2.
  Proof.
    intros Ux U S. destruct (sorted_partition (key it) (keys a) Ux U S) as (l1 & l2 & E & F1 & F2).
    exists l1, l2. repeat split; try assumption.
    unfold Hof.arch_insert. simpl. rewrite E.
    unfold kuniv in U. rewrite E, Forall_app in U. destruct U as [U1 U2].
    rewrite bisect_right_spec.
    - apply insert_at_app.
    - rewrite Forall_forall in *. intros y Hy. rewrite worse_better; auto.
    - rewrite Forall_forall in *. intros y Hy. rewrite worse_better; auto.
  Qed.

  Lemma arch_insert_sorted a it :
    UK (key it) -> kuniv a -> ksorted a -> ksorted (arch_insert a it) /\ kuniv (arch_insert a it).
  Proof.
    intros Ux U S. destruct (arch_insert_keys a it Ux U S) as (l1 & l2 & E & E' & F1 & F2).
    unfold ksorted, kuniv in *. rewrite E'. rewrite E in S, U.
    destruct (ssorted_app_inv _ _ _ S) as (S1 & S2 & C).
    rewrite Forall_app in U. destruct U as [U1 U2]. split.
    - apply ssorted_app; [exact S1| |].
      + constructor; [exact S2|]. rewrite Forall_forall in *. intros y Hy.
        apply better_asym; auto.
      + intros x y Hx [<-|Hy]; [|apply C; assumption].
        rewrite Forall_forall in F1. apply F1, Hx.
    - rewrite Forall_app. split; [exact U1|constructor; assumption].
  Qed.

  Lemma remove_nat_sorted a i : ksorted a -> kuniv a -> ksorted (remove_nat a i) /\ kuniv (remove_nat a i).
  Proof.
    intros S U. split.
    - apply ssorted_del_at, S.
    - unfold kuniv in *. rewrite Forall_forall in *. intros x Hx. apply U. eapply del_at_in, Hx.
  Qed.

  (* in a mirrored sorted archive the last item is the worst, the first the best *)
  Lemma last_is_worst a front w :
    mirror a -> ksorted a -> items a = front ++ [w] ->
    forall m, In m (items a) -> better (key w) (key m) = false \/ m = w.
  Proof.
    intros M S E m Hm. unfold mirror in M. unfold ksorted in S.
    rewrite M, E, map_app, rev_app_distr in S. simpl in S.
    inversion S as [|? ? _ F]; subst. rewrite E in Hm. apply in_app_or in Hm.
    destruct Hm as [Hm|[<-|[]]]; [left|right; reflexivity].
    rewrite Forall_forall in F. apply F. rewrite <- in_rev. apply in_map, Hm.
  Qed.

  Lemma items_sorted a :
    mirror a -> ksorted a ->
    StronglySorted (fun x y => better (key y) (key x) = false) (items a).
  Proof.
    intros M S. unfold mirror in M. unfold ksorted in S. rewrite M in S.
    apply ssorted_rev in S. rewrite rev_involutive in S. apply ssorted_map in S. exact S.
  Qed.
End ContainerProofs.
