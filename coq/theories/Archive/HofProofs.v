(* Proofs about the hall-of-fame model (property C08): list surgery, bisect_right, the
   invariant of HallOfFame.update and the "k best distinct individuals" characterisation. *)
From Coq Require Import List Bool Arith ZArith Lia Permutation Sorted.
From GolemV Require Import Fitness.Fitness Fitness.FitnessProofs Archive.Hof Archive.FitOrder.
Import ListNotations.

(* ====================== list surgery: insert_at / del_at ====================== *)
Section ListSurgery.
  Context {A : Type}.

  Lemma insert_at_app (l1 l2 : list A) x : insert_at (length l1) x (l1 ++ l2) = l1 ++ x :: l2.
  Proof.
    unfold insert_at. rewrite firstn_app, skipn_app, Nat.sub_diag, firstn_all, skipn_all.
    simpl. rewrite app_nil_r. reflexivity.
  Qed.

  Lemma del_at_app (l1 l2 : list A) y : del_at (length l1) (l1 ++ y :: l2) = l1 ++ l2.
  Proof.
    unfold del_at. rewrite firstn_app, skipn_app, Nat.sub_diag, firstn_all.
    replace (S (length l1) - length l1) with 1 by lia.
    rewrite skipn_all2 by lia. simpl. rewrite app_nil_r. reflexivity.
  Qed.

  Lemma insert_at_perm i (x : A) l : Permutation (insert_at i x l) (x :: l).
  Proof.
    unfold insert_at. rewrite <- (firstn_skipn i l) at 3.
    symmetry. apply Permutation_middle.
  Qed.

  Lemma insert_at_length i (x : A) l : length (insert_at i x l) = S (length l).
  Proof. apply (Permutation_length (insert_at_perm i x l)). Qed.

  Lemma insert_at_in i (x y : A) l : In y (insert_at i x l) <-> y = x \/ In y l.
  Proof.
    split; intros H.
    - apply (Permutation_in _ (insert_at_perm i x l)) in H. destruct H; auto.
    - apply (Permutation_in _ (Permutation_sym (insert_at_perm i x l))). destruct H; [left|right]; auto.
  Qed.

  (* split of a list at a valid index *)
  Lemma nth_split_at (l : list A) i y :
    nth_error l i = Some y -> exists l1 l2, l = l1 ++ y :: l2 /\ length l1 = i.
  Proof. intros H. destruct (nth_error_split l i H) as (l1 & l2 & E & L). eauto. Qed.

  Lemma del_at_perm (l : list A) i y : nth_error l i = Some y -> Permutation l (y :: del_at i l).
  Proof.
    intros H. destruct (nth_split_at l i y H) as (l1 & l2 & -> & <-).
    rewrite del_at_app. symmetry. apply Permutation_middle.
  Qed.

  Lemma del_at_in (l : list A) i x : In x (del_at i l) -> In x l.
  Proof.
    unfold del_at. intros H. apply in_app_or in H.
    rewrite <- (firstn_skipn i l). apply in_or_app. destruct H as [H|H]; [left; exact H|right].
    clear -H. revert i H. induction l as [|a l IH]; intros [|i] H; simpl in *; auto.
  Qed.

  Lemma del_at_length (l : list A) i : i < length l -> length (del_at i l) = length l - 1.
  Proof.
    intros H. destruct (nth_error l i) eqn:E.
    - pose proof (Permutation_length (del_at_perm l i a E)) as P. simpl in P. lia.
    - apply nth_error_None in E. lia.
  Qed.

  Lemma rev_insert_at i (x : A) l :
    i <= length l -> rev (insert_at i x l) = insert_at (length l - i) x (rev l).
  Proof.
    intros H. rewrite <- (firstn_skipn i l).
    assert (L : length (firstn i l) = i) by (rewrite firstn_length; lia).
    remember (firstn i l) as l1. remember (skipn i l) as l2. clear Heql1 Heql2.
    rewrite <- L, insert_at_app, !rev_app_distr. simpl. rewrite <- app_assoc. simpl.
    replace (length (l1 ++ l2) - length l1) with (length (rev l2))
      by (rewrite rev_length, app_length; lia).
    rewrite insert_at_app. reflexivity.
  Qed.

  Lemma rev_del_at i (l : list A) :
    i < length l -> rev (del_at i l) = del_at (length l - 1 - i) (rev l).
  Proof.
    intros H. destruct (nth_error l i) eqn:E; [|apply nth_error_None in E; lia].
    destruct (nth_split_at l i a E) as (l1 & l2 & -> & <-).
    rewrite del_at_app, !rev_app_distr. simpl. rewrite <- app_assoc. simpl.
    replace (length (l1 ++ a :: l2) - 1 - length l1) with (length (rev l2)).
    - rewrite del_at_app. reflexivity.
    - rewrite rev_length, app_length. simpl. lia.
  Qed.

  Lemma del_at_cons (a : A) l i : del_at (S i) (a :: l) = a :: del_at i l.
  Proof. reflexivity. Qed.

  Lemma del_at_nil i : del_at i (@nil A) = [].
  Proof. unfold del_at. rewrite firstn_nil, skipn_nil. reflexivity. Qed.

  Lemma del_at_nth_lt (l : list A) i j : j < i -> nth_error (del_at i l) j = nth_error l j.
  Proof.
    revert i j. induction l as [|a l IH]; intros i j H.
    - rewrite del_at_nil. reflexivity.
    - destruct i as [|i]; [lia|]. rewrite del_at_cons. destruct j as [|j]; simpl; [reflexivity|].
      apply IH. lia.
  Qed.

  Lemma del_at_nth_ge (l : list A) i j : i <= j -> nth_error (del_at i l) j = nth_error l (S j).
  Proof.
    revert i j. induction l as [|a l IH]; intros i j H.
    - rewrite del_at_nil. destruct j; reflexivity.
    - destruct i as [|i]; [reflexivity|]. rewrite del_at_cons. destruct j as [|j]; [lia|]. simpl.
      apply IH. lia.
  Qed.
End ListSurgery.

Lemma map_insert_at {A B} (f : A -> B) i x l : map f (insert_at i x l) = insert_at i (f x) (map f l).
Proof. unfold insert_at. rewrite map_app, firstn_map. simpl. rewrite skipn_map. reflexivity. Qed.

Lemma map_del_at {A B} (f : A -> B) i l : map f (del_at i l) = del_at i (map f l).
Proof. unfold del_at. rewrite map_app, firstn_map, skipn_map. reflexivity. Qed.

Lemma last_opt_app {A} (l : list A) w : last_opt (l ++ [w]) = Some w.
Proof.
  unfold last_opt. destruct l as [|x l]; simpl; [reflexivity|].
  f_equal. apply last_last.
Qed.

Lemma last_opt_split {A} (l : list A) w : last_opt l = Some w -> exists l', l = l' ++ [w].
Proof.
  intros H. destruct l as [|x l]; [discriminate|].
  destruct (exists_last (l := x :: l)) as (l' & w' & E); [discriminate|].
  rewrite E in H. rewrite last_opt_app in H. injection H as <-. eauto.
Qed.

Lemma last_opt_none {A} (l : list A) : last_opt l = None -> l = [].
Proof. destruct l; [reflexivity|discriminate]. Qed.

(* ====================== sortedness ====================== *)
Section SortedAux.
  Context {A : Type} (R : A -> A -> Prop).

  Lemma ssorted_app_inv l1 l2 :
    StronglySorted R (l1 ++ l2) ->
    StronglySorted R l1 /\ StronglySorted R l2 /\ (forall a b, In a l1 -> In b l2 -> R a b).
  Proof.
    induction l1 as [|x l1 IH]; simpl; intros H.
    - repeat split; [constructor|exact H|intros a b []].
    - inversion H as [|? ? S F]; subst. destruct (IH S) as (S1 & S2 & C).
      rewrite Forall_app in F. destruct F as [F1 F2].
      repeat split; [constructor; assumption|exact S2|].
      intros a b [<-|Ha] Hb; [|apply C; assumption].
      rewrite Forall_forall in F2. apply F2, Hb.
  Qed.

  Lemma ssorted_app l1 l2 :
    StronglySorted R l1 -> StronglySorted R l2 -> (forall a b, In a l1 -> In b l2 -> R a b) ->
    StronglySorted R (l1 ++ l2).
  Proof.
    induction l1 as [|x l1 IH]; simpl; intros S1 S2 C; [exact S2|].
    inversion S1 as [|? ? S F]; subst. constructor.
    - apply IH; [exact S|exact S2|]. intros a b Ha Hb. apply C; [right; exact Ha|exact Hb].
    - rewrite Forall_app. split; [exact F|]. rewrite Forall_forall. intros b Hb. apply C; [left; reflexivity|exact Hb].
  Qed.

  Lemma ssorted_del_at l i : StronglySorted R l -> StronglySorted R (del_at i l).
  Proof.
    intros S. destruct (nth_error l i) eqn:E.
    - destruct (nth_split_at l i a E) as (l1 & l2 & -> & <-). rewrite del_at_app.
      destruct (ssorted_app_inv _ _ S) as (S1 & S2 & C). inversion S2; subst.
      apply ssorted_app; [exact S1|assumption|]. intros x y Hx Hy. apply C; [exact Hx|right; exact Hy].
    - apply nth_error_None in E. unfold del_at. rewrite firstn_all2, skipn_all2 by lia.
      rewrite app_nil_r. exact S.
  Qed.
End SortedAux.

Lemma ssorted_rev {A} (R : A -> A -> Prop) l :
  StronglySorted R l -> StronglySorted (fun a b => R b a) (rev l).
Proof.
  induction 1 as [|x l S IH F]; simpl; [constructor|].
  apply ssorted_app; [exact IH|repeat constructor|].
  intros a b Ha [<-|[]]. rewrite Forall_forall in F. apply F. apply in_rev. exact Ha.
Qed.

Lemma ssorted_map {A B} (f : A -> B) (R : B -> B -> Prop) l :
  StronglySorted R (map f l) -> StronglySorted (fun a b => R (f a) (f b)) l.
Proof.
  induction l as [|x l IH]; simpl; intros H; [constructor|].
  inversion H as [|? ? S F]; subst. constructor; [apply IH, S|].
  rewrite Forall_forall in *. intros y Hy. apply F. apply in_map, Hy.
Qed.

(* ====================== the two parallel lists ====================== *)
Section ContainerProofs.
  Variables K I : Type.
  Variable key : I -> K.
  Variables worse better : K -> K -> bool.

  Notation arch := (arch K I).
  Notation arch_insert := (arch_insert key worse).

  (* keys mirror items: keys = reversed fitness values of items *)
  Definition mirror (a : arch) : Prop := keys a = rev (map key (items a)).

  Lemma mirror_length a : mirror a -> length (keys a) = size a.
  Proof. unfold mirror, size. intros ->. rewrite rev_length, map_length. reflexivity. Qed.

  (* ---------- bisect_right: range ---------- *)
  Lemma bisect_loop_range x a fuel lo hi :
    lo <= hi -> lo <= bisect_loop worse fuel x a lo hi <= hi.
  Proof.
    revert lo hi. induction fuel as [|f IH]; intros lo hi H; cbn [bisect_loop]; [lia|].
    destruct (lo <? hi) eqn:E; [|lia]. apply Nat.ltb_lt in E.
    pose proof (Nat.div_mod (lo + hi) 2 ltac:(lia)) as D.
    pose proof (Nat.mod_upper_bound (lo + hi) 2 ltac:(lia)) as M.
    destruct (nth_error a ((lo + hi) / 2)); [|lia].
    destruct (worse x k).
    - specialize (IH lo ((lo + hi) / 2) ltac:(lia)). lia.
    - specialize (IH (S ((lo + hi) / 2)) hi ltac:(lia)). lia.
  Qed.

  Lemma bisect_right_le x a : bisect_right worse x a <= length a.
  Proof. unfold bisect_right. apply (bisect_loop_range x a (S (length a)) 0 (length a)). lia. Qed.

  (* ---------- bisect_right on a partitioned list ---------- *)
  Lemma bisect_loop_spec x l1 l2 :
    Forall (fun y => worse x y = false) l1 -> Forall (fun y => worse x y = true) l2 ->
    forall fuel lo hi, lo <= length l1 <= hi -> hi <= length (l1 ++ l2) -> hi - lo < fuel ->
    bisect_loop worse fuel x (l1 ++ l2) lo hi = length l1.
  Proof.
    intros F1 F2. induction fuel as [|f IH]; intros lo hi B1 B2 Fu; [lia|]. cbn [bisect_loop].
    destruct (lo <? hi) eqn:E.
    - apply Nat.ltb_lt in E.
      pose proof (Nat.div_mod (lo + hi) 2 ltac:(lia)) as D.
      pose proof (Nat.mod_upper_bound (lo + hi) 2 ltac:(lia)) as M.
      set (mid := (lo + hi) / 2) in *.
      destruct (nth_error (l1 ++ l2) mid) as [y|] eqn:N.
      + destruct (Nat.lt_ge_cases mid (length l1)) as [L|L].
        * rewrite nth_error_app1 in N by exact L.
          rewrite Forall_forall in F1. rewrite (F1 y (nth_error_In _ _ N)).
          apply IH; lia.
        * rewrite nth_error_app2 in N by exact L.
          rewrite Forall_forall in F2. rewrite (F2 y (nth_error_In _ _ N)).
          apply IH; lia.
      + apply nth_error_None in N. lia.
    - apply Nat.ltb_ge in E. lia.
  Qed.

  Lemma bisect_right_spec x l1 l2 :
    Forall (fun y => worse x y = false) l1 -> Forall (fun y => worse x y = true) l2 ->
    bisect_right worse x (l1 ++ l2) = length l1.
  Proof.
    intros F1 F2. unfold bisect_right. apply bisect_loop_spec; try assumption.
    - rewrite app_length. lia.
    - lia.
    - lia.
  Qed.

  (* ---------- insert ---------- *)
  Lemma arch_insert_perm a it : Permutation (items (arch_insert a it)) (it :: items a).
  Proof. apply insert_at_perm. Qed.

  Lemma arch_insert_size a it : size (arch_insert a it) = S (size a).
  Proof. unfold size. apply (Permutation_length (arch_insert_perm a it)). Qed.

  Lemma arch_insert_in a it x : In x (items (arch_insert a it)) <-> x = it \/ In x (items a).
  Proof. apply insert_at_in. Qed.

  Lemma arch_insert_mirror a it : mirror a -> mirror (arch_insert a it).
  Proof.
    intros M. unfold mirror. simpl.
    pose proof (bisect_right_le (key it) (keys a)) as B. rewrite (mirror_length a M) in B.
    set (i := bisect_right worse (key it) (keys a)) in *.
    rewrite map_insert_at, rev_insert_at by (rewrite map_length; unfold size; lia).
    rewrite map_length. fold (size a). replace (size a - (size a - i)) with i by lia.
    rewrite <- M. reflexivity.
  Qed.

  (* ---------- remove ---------- *)
  Definition remove_nat (a : arch) (i : nat) : arch :=
    {| keys := del_at (size a - 1 - i) (keys a); items := del_at i (items a) |}.

  Lemma arch_remove_idx a i : i < size a -> arch_remove a (Z.of_nat i) = remove_nat a i.
  Proof.
    intros H. unfold arch_remove, remove_nat.
    assert (E : (Z.of_nat i <? 0)%Z = false) by (apply Z.ltb_ge; lia). rewrite E.
    rewrite Z.mod_small by lia. f_equal; f_equal; lia.
  Qed.

  Lemma arch_remove_last a : 0 < size a -> arch_remove a (-1) = remove_nat a (size a - 1).
  Proof.
    intros H. unfold arch_remove, remove_nat.
    assert (E : ((-1) mod Z.of_nat (size a) = Z.of_nat (size a) - 1)%Z).
    { symmetry. apply (Z.mod_unique_pos _ _ (-1)%Z); lia. }
    rewrite E. simpl. f_equal; f_equal; lia.
  Qed.

  Lemma remove_nat_mirror a i : i < size a -> mirror a -> mirror (remove_nat a i).
  Proof.
    intros H M. unfold mirror, remove_nat. simpl.
    rewrite map_del_at, rev_del_at by (rewrite map_length; exact H).
    rewrite map_length, <- M. reflexivity.
  Qed.

  Lemma remove_nat_size a i : i < size a -> size (remove_nat a i) = size a - 1.
  Proof. intros H. unfold size, remove_nat. simpl. apply del_at_length, H. Qed.

  Lemma remove_nat_in a i x : In x (items (remove_nat a i)) -> In x (items a).
  Proof. apply del_at_in. Qed.

  Lemma remove_nat_keys_in a i x : In x (keys (remove_nat a i)) -> In x (keys a).
  Proof. apply del_at_in. Qed.

  (* removing the last item: items = front ++ [w] *)
  Lemma remove_last_items a front w :
    items a = front ++ [w] -> items (remove_nat a (size a - 1)) = front.
  Proof.
    intros E. unfold remove_nat, size. simpl. rewrite E, app_length. simpl.
    replace (length front + 1 - 1) with (length front) by lia.
    rewrite del_at_app, app_nil_r. reflexivity.
  Qed.

  Lemma remove_last_keys a front w :
    mirror a -> items a = front ++ [w] -> keys a = key w :: keys (remove_nat a (size a - 1)).
  Proof.
    intros M E. unfold remove_nat. simpl. replace (size a - 1 - (size a - 1)) with 0 by lia.
    unfold mirror in M. rewrite M, E, map_app, rev_app_distr. simpl. reflexivity.
  Qed.

  (* ---------- order ---------- *)
  Variable UK : K -> Prop.                 (* the fitness values that may be compared *)
  Variable bot : K -> bool.                (* bottom elements: an invalid fitness *)
  (* `<` is the converse of `>` except for a bottom element, which is `<` everything (itself and
     other bottoms included) and `>` nothing *)
  Hypothesis worse_better : forall a b, UK a -> UK b ->
    if bot a then worse a b = true /\ better a b = false else worse a b = better b a.
  Hypothesis better_irrefl : forall a, UK a -> better a a = false.
  Hypothesis better_trans : forall a b c, UK a -> UK b -> UK c ->
    better a b = true -> better b c = true -> better a c = true.
  Hypothesis better_negtrans : forall a b c, UK a -> UK b -> UK c ->
    better a b = false -> better b c = false -> better a c = false.

  Lemma better_asym a b : UK a -> UK b -> better a b = true -> better b a = false.
  Proof.
    intros Ua Ub H. destruct (better b a) eqn:E; [|reflexivity].
    rewrite <- (better_irrefl a Ua). symmetry. eapply better_trans; eauto.
  Qed.

  (* "a is not better than b" *)
  Definition nb (a b : K) : Prop := better a b = false.
  Definition ksorted (a : arch) : Prop := StronglySorted nb (keys a).   (* worst first *)
  Definition kuniv (a : arch) : Prop := Forall UK (keys a).

  Lemma sorted_partition x ks :
    UK x -> Forall UK ks -> StronglySorted nb ks ->
    exists l1 l2, ks = l1 ++ l2 /\ Forall (fun y => better y x = false) l1 /\
                  Forall (fun y => better y x = true) l2.
  Proof.
    intros Ux. induction ks as [|y r IH]; intros U S.
    - exists [], []. repeat split; constructor.
    - inversion U as [|? ? Uy Ur]; subst. inversion S as [|? ? Sr F]; subst.
      destruct (better y x) eqn:E.
      + exists [], (y :: r). repeat split; [constructor|]. constructor; [exact E|].
        rewrite Forall_forall in *. intros z Hz.
        destruct (better z x) eqn:Ez; [reflexivity|]. exfalso.
        assert (better y x = false) by (apply (better_negtrans y z x); auto; apply F, Hz). congruence.
      + destruct (IH Ur Sr) as (l1 & l2 & -> & F1 & F2).
        exists (y :: l1), l2. repeat split; [constructor; assumption|exact F2].
  Qed.

  Lemma arch_insert_keys a it :
    UK (key it) -> kuniv a -> ksorted a ->
    exists l1 l2, keys a = l1 ++ l2 /\ keys (arch_insert a it) = l1 ++ key it :: l2 /\
                  Forall (fun y => better y (key it) = false) l1 /\
                  Forall (fun y => better (key it) y = false) l2.
  Proof.
    intros Ux U S. destruct (bot (key it)) eqn:B.
    - (* a bottom element goes to the very front of the keys (the end of the items) *)
      exists [], (keys a). split; [reflexivity|]. split; [|split; [constructor|]].
      + unfold Hof.arch_insert. simpl.
        assert (B0 : bisect_right worse (key it) (keys a) = 0).
        2:{ rewrite B0. reflexivity. }
        apply (bisect_right_spec (key it) [] (keys a)); [constructor|].
        unfold kuniv in U. rewrite Forall_forall in *. intros y Hy.
        pose proof (worse_better (key it) y Ux (U y Hy)) as W. rewrite B in W. apply W.
      + unfold kuniv in U. rewrite Forall_forall in *. intros y Hy.
        pose proof (worse_better (key it) y Ux (U y Hy)) as W. rewrite B in W. apply W.
    - destruct (sorted_partition (key it) (keys a) Ux U S) as (l1 & l2 & E & F1 & F2).
      unfold kuniv in U. rewrite E, Forall_app in U. destruct U as [U1 U2].
      exists l1, l2. repeat split; try assumption.
      + unfold Hof.arch_insert. simpl. rewrite E.
        rewrite bisect_right_spec.
        * apply insert_at_app.
        * rewrite Forall_forall in *. intros y Hy.
          pose proof (worse_better (key it) y Ux (U1 y Hy)) as W. rewrite B in W. rewrite W. auto.
        * rewrite Forall_forall in *. intros y Hy.
          pose proof (worse_better (key it) y Ux (U2 y Hy)) as W. rewrite B in W. rewrite W. auto.
      + rewrite Forall_forall in *. intros y Hy. apply better_asym; auto.
  Qed.

  Lemma arch_insert_sorted a it :
    UK (key it) -> kuniv a -> ksorted a -> ksorted (arch_insert a it) /\ kuniv (arch_insert a it).
  Proof.
    intros Ux U S. destruct (arch_insert_keys a it Ux U S) as (l1 & l2 & E & E' & F1 & F2).
    unfold ksorted, kuniv in *. rewrite E'. rewrite E in S, U.
    destruct (ssorted_app_inv _ _ _ S) as (S1 & S2 & C).
    rewrite Forall_app in U. destruct U as [U1 U2]. split.
    - apply ssorted_app; [exact S1| |].
      + constructor; [exact S2|exact F2].
      + intros x y Hx [<-|Hy]; [|apply C; assumption].
        rewrite Forall_forall in F1. apply F1, Hx.
    - rewrite Forall_app. split; [exact U1|constructor; assumption].
  Qed.

  Lemma remove_nat_sorted a i : ksorted a -> kuniv a -> ksorted (remove_nat a i) /\ kuniv (remove_nat a i).
  Proof.
    intros S U. split.
    - apply ssorted_del_at, S.
    - unfold kuniv in *. rewrite Forall_forall in *. intros x Hx. apply U. eapply del_at_in, Hx.
  Qed.

  (* in a mirrored sorted archive the last item is the worst, the first the best *)
  Lemma last_is_worst a front w :
    mirror a -> ksorted a -> items a = front ++ [w] ->
    forall m, In m (items a) -> better (key w) (key m) = false \/ m = w.
  Proof.
    intros M S E m Hm. unfold mirror in M. unfold ksorted in S.
    rewrite M, E, map_app, rev_app_distr in S. simpl in S.
    inversion S as [|? ? _ F]; subst. rewrite E in Hm. apply in_app_or in Hm.
    destruct Hm as [Hm|[<-|[]]]; [left|right; reflexivity].
    rewrite Forall_forall in F. apply F. rewrite <- in_rev. apply in_map, Hm.
  Qed.

  Lemma items_sorted a :
    mirror a -> ksorted a ->
    StronglySorted (fun x y => better (key y) (key x) = false) (items a).
  Proof.
    intros M S. unfold mirror in M. unfold ksorted in S. rewrite M in S.
    apply ssorted_rev in S. rewrite rev_involutive in S. apply ssorted_map in S. exact S.
  Qed.
End ContainerProofs.

(* ====================== HallOfFame.update ====================== *)
Section HofInvariant.
  Variables K I : Type.
  Variable key : I -> K.
  Variables worse better : K -> K -> bool.
  Variable uidf : I -> nat.
  Variable UK : K -> Prop.
  Variable bot : K -> bool.
  Hypothesis worse_better : forall a b, UK a -> UK b ->
    if bot a then worse a b = true /\ better a b = false else worse a b = better b a.
  Hypothesis better_irrefl : forall a, UK a -> better a a = false.
  Hypothesis better_trans : forall a b c, UK a -> UK b -> UK c ->
    better a b = true -> better b c = true -> better a c = true.
  Hypothesis better_negtrans : forall a b c, UK a -> UK b -> UK c ->
    better a b = false -> better b c = false -> better a c = false.
  Variable k : nat.
  Hypothesis kpos : 1 <= k.

  Definition similar (a b : I) : bool := uidf a =? uidf b.

  Notation arch := (arch K I).
  Notation ins := (arch_insert key worse).
  Notation mirror := (mirror K I key).
  Notation ksorted := (ksorted K I better).
  Notation kuniv := (kuniv K I UK).
  Notation step := (hof_step key worse better similar k).
  Notation better_asym := (better_asym K better UK better_irrefl better_trans).

  (* the loop body with p0 = ind *)
  Definition step1 (a : arch) (ind : I) : arch := step ind a ind.

  (* what one iteration does *)
  Inductive step_out (a : arch) (ind : I) : arch -> Prop :=
  | so_similar m : In m (items a) -> uidf m = uidf ind -> step_out a ind a
  | so_not_better front w : items a = front ++ [w] -> k <= size a ->
      better (key ind) (key w) = false -> step_out a ind a
  | so_insert : size a < k -> (forall m, In m (items a) -> uidf m <> uidf ind) ->
      step_out a ind (ins a ind)
  | so_replace front w : items a = front ++ [w] -> k <= size a ->
      better (key ind) (key w) = true -> (forall m, In m (items a) -> uidf m <> uidf ind) ->
      step_out a ind (ins (remove_nat K I a (size a - 1)) ind).

  Lemma existsb_similar ind l :
    existsb (similar ind) l = false -> forall m, In m l -> uidf m <> uidf ind.
  Proof.
    intros H m Hm E. assert (existsb (similar ind) l = true); [|congruence].
    apply existsb_exists. exists m. split; [exact Hm|]. unfold similar. rewrite E. apply Nat.eqb_refl.
  Qed.

  Lemma step1_out a ind : step_out a ind (step1 a ind).
  Proof.
    unfold step1, hof_step.
    assert (Hk : (k =? 0) = false) by (apply Nat.eqb_neq; lia). rewrite Hk. simpl negb. rewrite andb_true_r.
    destruct (size a =? 0) eqn:Z.
    - apply Nat.eqb_eq in Z. apply so_insert; [lia|].
      unfold size in Z. apply length_zero_iff_nil in Z. rewrite Z. intros m [].
    - apply Nat.eqb_neq in Z. destruct (last_opt (items a)) as [w|] eqn:L.
      + destruct (last_opt_split _ _ L) as (front & E).
        destruct (better (key ind) (key w)) eqn:B; simpl.
        * destruct (existsb (similar ind) (items a)) eqn:X.
          -- apply existsb_exists in X. destruct X as (m & Hm & S).
             apply Nat.eqb_eq in S. apply (so_similar a ind m Hm). symmetry. exact S.
          -- pose proof (existsb_similar _ _ X) as N. destruct (k <=? size a) eqn:C.
             ++ apply Nat.leb_le in C. rewrite arch_remove_last by lia.
                apply (so_replace a ind front w); assumption.
             ++ apply Nat.leb_gt in C. apply so_insert; assumption.
        * destruct (size a <? k) eqn:C.
          -- apply Nat.ltb_lt in C. destruct (existsb (similar ind) (items a)) eqn:X.
             ++ apply existsb_exists in X. destruct X as (m & Hm & S).
                apply Nat.eqb_eq in S. apply (so_similar a ind m Hm). symmetry. exact S.
             ++ pose proof (existsb_similar _ _ X) as N.
                assert (C' : (k <=? size a) = false) by (apply Nat.leb_gt; exact C). rewrite C'.
                apply so_insert; assumption.
          -- apply Nat.ltb_ge in C. apply (so_not_better a ind front w); assumption.
      + apply last_opt_none in L. unfold size in Z. rewrite L in Z. simpl in Z. lia.
  Qed.

  Lemma step_out_size a ind a' : step_out a ind a' -> 0 < size a' \/ a' = a /\ 0 < size a.
  Proof.
    intros [m Hm _|front w E _ _| |front w E _ _ _].
    - right. split; [reflexivity|]. unfold size. destruct (items a); [destruct Hm|simpl; lia].
    - right. split; [reflexivity|]. unfold size. rewrite E, app_length. simpl. lia.
    - left. rewrite arch_insert_size. lia.
    - left. rewrite arch_insert_size. lia.
  Qed.

  Lemma step1_nonempty a ind : 0 < size (step1 a ind).
  Proof. destruct (step_out_size _ _ _ (step1_out a ind)) as [H|[-> H]]; exact H. Qed.

  (* population[0] matters only for an empty hall of fame, i.e. for the first individual *)
  Lemma step_p0 p0 a ind : 0 < size a -> step p0 a ind = step1 a ind.
  Proof.
    intros H. unfold step1, hof_step.
    assert (E : (size a =? 0) = false) by (apply Nat.eqb_neq; lia). rewrite E. reflexivity.
  Qed.

  Lemma fold_step_p0 p0 l a : 0 < size a -> fold_left (step p0) l a = fold_left step1 l a.
  Proof.
    revert a. induction l as [|x l IH]; intros a H; simpl; [reflexivity|].
    rewrite step_p0 by exact H. apply IH, step1_nonempty.
  Qed.

  Lemma hof_update_fold a pop :
    hof_update key worse better similar k a pop = fold_left step1 pop a.
  Proof.
    destruct pop as [|p0 l]; [reflexivity|]. simpl.
    change (step p0 a p0) with (step1 a p0). apply fold_step_p0, step1_nonempty.
  Qed.

  Lemma hof_run_fold a pops :
    hof_run key worse better similar k a pops = fold_left step1 (concat pops) a.
  Proof.
    unfold hof_run. revert a. induction pops as [|p r IH]; intros a; simpl; [reflexivity|].
    rewrite fold_left_app, <- (hof_update_fold a p). apply IH.
  Qed.

  (* ---------- the invariant ---------- *)
  Definition good_seen (seen : list I) : Prop :=
    (forall s, In s seen -> UK (key s)) /\
    (forall s t, In s seen -> In t seen -> uidf s = uidf t -> key s = key t).

  Record HInv (seen : list I) (a : arch) : Prop := {
    hi_mirror : mirror a;
    hi_sorted : ksorted a;
    hi_size : size a <= k;
    hi_nodup : NoDup (map uidf (items a));
    hi_incl : incl (items a) seen;
    hi_cover : forall s, In s seen ->
      (exists m, In m (items a) /\ uidf m = uidf s) \/
      (size a = k /\ forall m, In m (items a) -> better (key s) (key m) = false) }.

  Lemma inv_kuniv seen a : good_seen seen -> HInv seen a -> kuniv a.
  Proof.
    intros [G _] H. unfold HofProofs.kuniv. rewrite (hi_mirror _ _ H). rewrite Forall_forall. intros x Hx.
    apply in_rev in Hx. apply in_map_iff in Hx. destruct Hx as (m & <- & Hm).
    apply G. apply (hi_incl _ _ H), Hm.
  Qed.

  Lemma HInv_empty : HInv [] empty_arch.
  Proof.
    constructor; simpl.
    - reflexivity.
    - constructor.
    - unfold size. simpl. lia.
    - constructor.
    - intros x [].
    - intros s [].
  Qed.

  Lemma good_seen_app_l s1 s2 : good_seen (s1 ++ s2) -> good_seen s1.
  Proof.
    intros [G1 G2]. split.
    - intros s Hs. apply G1. apply in_or_app. left. exact Hs.
    - intros s t Hs Ht. apply G2; apply in_or_app; left; assumption.
  Qed.

  Lemma HInv_step seen a ind :
    good_seen (seen ++ [ind]) -> HInv seen a -> HInv (seen ++ [ind]) (step1 a ind).
  Proof.
    intros G H. pose proof (inv_kuniv seen a (good_seen_app_l _ _ G) H) as KU.
    destruct G as [GU GC].
    assert (Uind : UK (key ind)) by (apply GU; apply in_or_app; right; left; reflexivity).
    assert (Useen : forall s, In s seen -> UK (key s)) by (intros s Hs; apply GU; apply in_or_app; left; exact Hs).
    assert (Uit : forall m, In m (items a) -> UK (key m)) by (intros m Hm; apply Useen, (hi_incl _ _ H), Hm).
    destruct H as [M S Z N Inc C].
    destruct (step1_out a ind) as [m Hm Eu|front w E Hk B|Hk Nuid|front w E Hk B Nuid].
    - (* an individual with this uid is already archived *)
      constructor; try assumption.
      + apply incl_appl, Inc.
      + intros s Hs. apply in_app_or in Hs. destruct Hs as [Hs|[<-|[]]]; [apply C, Hs|].
        left. exists m. split; assumption.
    - (* full and not better than the worst *)
      constructor; try assumption.
      + apply incl_appl, Inc.
      + intros s Hs. apply in_app_or in Hs. destruct Hs as [Hs|[<-|[]]]; [apply C, Hs|].
        right. split; [lia|]. intros m Hm.
        destruct (last_is_worst K I key better a front w M S E m Hm) as [Wm| ->]; [|exact B].
        apply (better_negtrans _ (key w)); auto. apply Uit. rewrite E. apply in_or_app. right. left. reflexivity.
    - (* room left: insert *)
      destruct (arch_insert_sorted K I key worse better UK bot worse_better better_irrefl better_trans better_negtrans a ind Uind KU S) as [S' _].
      constructor.
      + apply arch_insert_mirror, M.
      + exact S'.
      + rewrite arch_insert_size. lia.
      + apply (Permutation_NoDup (l := map uidf (ind :: items a))).
        * apply Permutation_map. symmetry. apply arch_insert_perm.
        * simpl. constructor; [|exact N]. intros Hin. apply in_map_iff in Hin.
          destruct Hin as (m & Em & Hm). apply (Nuid m Hm Em).
      + intros x Hx. apply arch_insert_in in Hx. destruct Hx as [-> |Hx].
        * apply in_or_app. right. left. reflexivity.
        * apply in_or_app. left. apply Inc, Hx.
      + intros s Hs. apply in_app_or in Hs. destruct Hs as [Hs|[<-|[]]].
        * destruct (C s Hs) as [(m & Hm & Em)|[Hz _]]; [|lia].
          left. exists m. split; [|exact Em]. apply arch_insert_in. right. exact Hm.
        * left. exists ind. split; [|reflexivity]. apply arch_insert_in. left. reflexivity.
    - (* full and strictly better than the worst: the worst leaves, the newcomer enters *)
      set (a1 := remove_nat K I a (size a - 1)).
      assert (Hlast : size a - 1 < size a) by lia.
      assert (M1 : mirror a1) by (apply remove_nat_mirror; assumption).
      destruct (remove_nat_sorted K I better UK a (size a - 1) S KU) as [S1 KU1]. fold a1 in S1, KU1.
      assert (I1 : items a1 = front) by (apply (remove_last_items K I a front w E)).
      assert (Z1 : size a1 = size a - 1) by (apply remove_nat_size; exact Hlast).
      destruct (arch_insert_sorted K I key worse better UK bot worse_better better_irrefl better_trans better_negtrans a1 ind Uind KU1 S1) as [S' _].
      assert (Hw : In w (items a)) by (rewrite E; apply in_or_app; right; left; reflexivity).
      assert (Hfront : forall m, In m front -> In m (items a)) by (intros m Hm; rewrite E; apply in_or_app; left; exact Hm).
      assert (Bw : better (key w) (key ind) = false) by (apply better_asym; auto).
      constructor.
      + apply arch_insert_mirror, M1.
      + exact S'.
      + rewrite arch_insert_size. lia.
      + apply (Permutation_NoDup (l := map uidf (ind :: front))).
        * apply Permutation_map. symmetry. rewrite <- I1. apply arch_insert_perm.
        * rewrite E, map_app in N. simpl in N.
          apply (Permutation_NoDup (Permutation_app_comm _ _)) in N. simpl in N.
          inversion N as [|? ? _ N']; subst.
          simpl. constructor; [|exact N']. intros Hin. apply in_map_iff in Hin.
          destruct Hin as (m & Em & Hm). apply (Nuid m (Hfront m Hm) Em).
      + intros x Hx. apply arch_insert_in in Hx. destruct Hx as [-> |Hx].
        * apply in_or_app. right. left. reflexivity.
        * apply in_or_app. left. apply Inc, Hfront. rewrite <- I1. exact Hx.
      + assert (Full : size (ins a1 ind) = k) by (rewrite arch_insert_size; lia).
        assert (Wworst : forall m', In m' (items (ins a1 ind)) -> better (key w) (key m') = false).
        { intros m' Hm'. apply arch_insert_in in Hm'. destruct Hm' as [-> |Hm']; [exact Bw|].
          rewrite I1 in Hm'. destruct (last_is_worst K I key better a front w M S E m' (Hfront m' Hm')) as [W| ->]; [exact W|].
          apply better_irrefl. auto. }
        intros s Hs. apply in_app_or in Hs. destruct Hs as [Hs|[<-|[]]].
        * destruct (C s Hs) as [(m & Hm & Em)|[_ Hall]].
          -- rewrite E in Hm. apply in_app_or in Hm. destruct Hm as [Hm|[<-|[]]].
             ++ left. exists m. split; [|exact Em]. apply arch_insert_in. right. rewrite I1. exact Hm.
             ++ right. split; [exact Full|].
                assert (Ek : key s = key w).
                { symmetry. apply GC; [apply in_or_app; left; apply Inc, Hw|apply in_or_app; left; exact Hs|exact Em]. }
                rewrite Ek. exact Wworst.
          -- right. split; [exact Full|]. intros m' Hm'.
             apply arch_insert_in in Hm'. destruct Hm' as [-> |Hm'].
             ++ apply (better_negtrans _ (key w)); auto.
             ++ apply Hall, Hfront. rewrite <- I1. exact Hm'.
        * left. exists ind. split; [|reflexivity]. apply arch_insert_in. left. reflexivity.
  Qed.

  (* over any stream of individuals *)
  Lemma HInv_fold inds : forall seen a,
    good_seen (seen ++ inds) -> HInv seen a -> HInv (seen ++ inds) (fold_left step1 inds a).
  Proof.
    induction inds as [|x r IH]; intros seen a G H; simpl.
    - rewrite app_nil_r. exact H.
    - replace (seen ++ x :: r) with ((seen ++ [x]) ++ r) in * by (rewrite <- app_assoc; reflexivity).
      apply IH; [exact G|]. apply HInv_step; [|exact H]. apply (good_seen_app_l _ r), G.
  Qed.

  Theorem hof_inv_run pops :
    good_seen (concat pops) ->
    HInv (concat pops) (hof_run key worse better similar k empty_arch pops).
  Proof.
    intros G. rewrite hof_run_fold. apply (HInv_fold (concat pops) [] empty_arch G HInv_empty).
  Qed.

  (* ---------- consequences: how many, which ---------- *)
  Lemma HInv_count seen a :
    HInv seen a -> size a = Nat.min k (length (nodup Nat.eq_dec (map uidf seen))).
  Proof.
    intros [M S Z N Inc C]. set (d := nodup Nat.eq_dec (map uidf seen)).
    assert (Le : size a <= length d).
    { unfold size. rewrite <- (map_length uidf). apply NoDup_incl_length; [exact N|].
      intros u Hu. apply nodup_In. apply in_map_iff in Hu. destruct Hu as (m & <- & Hm).
      apply in_map, Inc, Hm. }
    destruct (Nat.eq_dec (size a) k) as [E|Ne]; [lia|].
    assert (Ge : length d <= size a).
    { unfold size. rewrite <- (map_length uidf). apply NoDup_incl_length; [apply NoDup_nodup|].
      intros u Hu. apply nodup_In in Hu. apply in_map_iff in Hu. destruct Hu as (s & <- & Hs).
      destruct (C s Hs) as [(m & Hm & Em)|[Hk _]]; [|lia]. rewrite <- Em. apply in_map, Hm. }
    lia.
  Qed.

  (* one iteration never loses ground: every old member is matched by a new member that is at
     least as good *)
  Lemma step1_no_loss seen a ind :
    good_seen (seen ++ [ind]) -> HInv seen a ->
    forall m, In m (items a) -> exists m', In m' (items (step1 a ind)) /\ better (key m) (key m') = false.
  Proof.
    intros G H m Hm. destruct G as [GU _].
    assert (Uind : UK (key ind)) by (apply GU; apply in_or_app; right; left; reflexivity).
    assert (Uit : forall x, In x (items a) -> UK (key x)).
    { intros x Hx. apply GU. apply in_or_app. left. apply (hi_incl _ _ H), Hx. }
    destruct (step1_out a ind) as [m0 _ _|front w _ _ _|_ _|front w E Hk B Nuid].
    - exists m. split; [exact Hm|]. apply better_irrefl. auto.
    - exists m. split; [exact Hm|]. apply better_irrefl. auto.
    - exists m. split; [apply arch_insert_in; right; exact Hm|]. apply better_irrefl. auto.
    - rewrite E in Hm. apply in_app_or in Hm. destruct Hm as [Hm|[<-|[]]].
      + exists m. split.
        * apply arch_insert_in. right. rewrite (remove_last_items K I a front w E). exact Hm.
        * apply better_irrefl. apply Uit. rewrite E. apply in_or_app. left. exact Hm.
      + exists ind. split; [apply arch_insert_in; left; reflexivity|].
        apply better_asym; auto. apply Uit. rewrite E. apply in_or_app. right. left. reflexivity.
  Qed.

  Lemma fold_no_loss inds : forall seen a,
    good_seen (seen ++ inds) -> HInv seen a ->
    forall m, In m (items a) ->
    exists m', In m' (items (fold_left step1 inds a)) /\ better (key m) (key m') = false.
  Proof.
    induction inds as [|x r IH]; intros seen a G H m Hm; simpl.
    - exists m. split; [exact Hm|]. apply better_irrefl. apply (proj1 G). apply in_or_app. left.
      apply (hi_incl _ _ H), Hm.
    - replace (seen ++ x :: r) with ((seen ++ [x]) ++ r) in G by (rewrite <- app_assoc; reflexivity).
      pose proof (good_seen_app_l _ _ G) as G1.
      destruct (step1_no_loss seen a x G1 H m Hm) as (m1 & Hm1 & B1).
      pose proof (HInv_step seen a x G1 H) as H1.
      destruct (IH _ _ G H1 m1 Hm1) as (m2 & Hm2 & B2).
      exists m2. split; [exact Hm2|].
      pose proof (HInv_fold r _ _ G H1) as H2.
      destruct G as [GU _].
      apply (better_negtrans _ (key m1)); auto.
      + apply GU. apply in_or_app. left. apply in_or_app. left. apply (hi_incl _ _ H), Hm.
      + apply GU. apply in_or_app. left. apply (hi_incl _ _ H1), Hm1.
      + apply GU. apply (hi_incl _ _ H2), Hm2.
  Qed.

  (* the head of a mirrored sorted archive is at least as good as every member *)
  Lemma head_is_best seen a h rest :
    good_seen seen -> HInv seen a -> items a = h :: rest ->
    forall m, In m (items a) -> better (key m) (key h) = false.
  Proof.
    intros [GU _] H E m Hm.
    pose proof (items_sorted K I key better a (hi_mirror _ _ H) (hi_sorted _ _ H)) as S.
    rewrite E in S, Hm. inversion S as [|? ? _ F]; subst. destruct Hm as [<-|Hm].
    - apply better_irrefl. apply GU, (hi_incl _ _ H). rewrite E. left. reflexivity.
    - rewrite Forall_forall in F. apply F, Hm.
  Qed.

  (* best never worse, over one whole update *)
  Theorem best_never_worse_update seen a pop h rest :
    good_seen (seen ++ pop) -> HInv seen a -> items a = h :: rest ->
    exists h' rest', items (hof_update key worse better similar k a pop) = h' :: rest' /\
                     better (key h) (key h') = false.
  Proof.
    intros G H E. rewrite hof_update_fold.
    assert (Hh : In h (items a)) by (rewrite E; left; reflexivity).
    destruct (fold_no_loss pop seen a G H h Hh) as (m' & Hm' & B).
    pose proof (HInv_fold pop seen a G H) as H'.
    destruct (items (fold_left step1 pop a)) as [|h' rest'] eqn:E'; [destruct Hm'|].
    exists h', rest'. split; [reflexivity|].
    pose proof (head_is_best _ _ h' rest' G H' E' m') as Bh. rewrite E' in Bh. specialize (Bh Hm').
    destruct G as [GU _].
    apply (better_negtrans _ (key m')); auto.
    - apply GU. apply in_or_app. left. apply (hi_incl _ _ H), Hh.
    - apply GU, (hi_incl _ _ H'). rewrite E'. exact Hm'.
    - apply GU, (hi_incl _ _ H'). rewrite E'. left. reflexivity.
  Qed.
End HofInvariant.

(* ====================== the hall of fame of individuals ====================== *)
(* one fitness per uid: an Individual's fitness is set once *)
Definition uid_consistent (seen : list indiv) : Prop :=
  forall s t, In s seen -> In t seen -> uid s = uid t -> fitness s = fitness t.

(* the hypotheses of C08 on what is shown to the archive: valid fitness values of one class,
   pairwise identical or clearly separated (as in C09), one fitness per uid *)
Definition shown_ok (seen : list indiv) : Prop := SepU (map fitness seen) /\ uid_consistent seen.

(* the same, but individuals whose evaluation failed (invalid fitness) may be shown as well *)
Definition shown_okv (seen : list indiv) : Prop := SepV (map fitness seen) /\ uid_consistent seen.

Lemma shown_ok_okv seen : shown_ok seen -> shown_okv seen.
Proof. intros [S C]. split; [apply SepU_SepV, S|exact C]. Qed.

Section HofConcrete.
  Variable k : nat.
  Hypothesis kpos : 1 <= k.
  Variable seen_all : list indiv.          (* everything ever shown, fixes the universe *)
  Hypothesis HS : SepV (map fitness seen_all).

  Let U := inU (map fitness seen_all).

  Let wb := v_worse _ HS.
  Let bi := v_better_irrefl (map fitness seen_all).
  Let bt := v_better_trans _ HS.
  Let bn := v_better_negtrans _ HS.

  Lemma good_seen_of seen :
    incl seen seen_all -> uid_consistent seen -> good_seen fit indiv fitness uid U seen.
  Proof.
    intros Inc C. split.
    - intros s Hs. apply in_map, Inc, Hs.
    - exact C.
  Qed.

  Lemma sim_uid_similar : sim_uid = similar indiv uid.
  Proof. reflexivity. Qed.

  Lemma hof_HInv pops :
    incl (concat pops) seen_all -> uid_consistent (concat pops) ->
    HInv fit indiv fitness f_better uid k (concat pops) (hof_runs k empty_arch pops).
  Proof.
    intros Inc C. unfold hof_runs. rewrite sim_uid_similar.
    apply (hof_inv_run fit indiv fitness f_worse f_better uid U fbot wb bi bt bn k kpos).
    apply good_seen_of; assumption.
  Qed.

  Lemma hof_best_update pops pop h rest :
    incl (concat pops ++ pop) seen_all -> uid_consistent (concat pops ++ pop) ->
    items (hof_runs k empty_arch pops) = h :: rest ->
    exists h' rest', items (hof_upd k (hof_runs k empty_arch pops) pop) = h' :: rest' /\
                     f_better (fitness h) (fitness h') = false.
  Proof.
    intros Inc C E. unfold hof_upd. rewrite sim_uid_similar.
    apply (best_never_worse_update fit indiv fitness f_worse f_better uid U fbot wb bi bt bn k kpos (concat pops) _ pop h rest).
    - apply good_seen_of; assumption.
    - apply hof_HInv.
      + intros x Hx. apply Inc. apply in_or_app. left. exact Hx.
      + intros s t Hs Ht. apply C; apply in_or_app; left; assumption.
    - exact E.
  Qed.
End HofConcrete.

Lemma shown_ok_prefix (l1 l2 : list indiv) : shown_ok (l1 ++ l2) -> shown_ok l1.
Proof.
  intros [S C]. split.
  - intros f g Hf Hg. apply S; rewrite map_app; apply in_or_app; left; assumption.
  - intros s t Hs Ht. apply C; apply in_or_app; left; assumption.
Qed.

(* (1) the representation invariant, after any sequence of updates (invalid individuals admitted) *)
Theorem hof_inv_v k pops :
  1 <= k -> shown_okv (concat pops) ->
  let a := hof_runs k empty_arch pops in
  length (keys a) = length (items a) /\
  keys a = rev (map fitness (items a)) /\
  StronglySorted (fun x y => f_better x y = false) (keys a) /\
  length (items a) <= k /\
  NoDup (map uid (items a)).
Proof.
  intros kpos [S C] a.
  pose proof (hof_HInv k kpos (concat pops) S pops (incl_refl _) C) as H. fold a in H.
  destruct H as [M So Z N _ _]. repeat split; try assumption.
  apply (mirror_length _ _ _ _ M).
Qed.

(* (2) exactly the k best distinct individuals seen, best first (invalid ones rank last) *)
Theorem hof_k_best_v k pops :
  1 <= k -> shown_okv (concat pops) ->
  let seen := concat pops in
  let a := hof_runs k empty_arch pops in
  incl (items a) seen /\
  length (items a) = Nat.min k (length (nodup Nat.eq_dec (map uid seen))) /\
  StronglySorted (fun x y => f_better (fitness y) (fitness x) = false) (items a) /\
  (forall s, In s seen -> (forall m, In m (items a) -> uid m <> uid s) ->
             forall m, In m (items a) -> f_better (fitness s) (fitness m) = false).
Proof.
  intros kpos [S C] seen a.
  pose proof (hof_HInv k kpos (concat pops) S pops (incl_refl _) C) as H. fold a seen in H.
  pose proof H as Cnt. apply HInv_count in Cnt; [|exact kpos].
  destruct H as [M So Z N Inc Cov].
  repeat split.
  - exact Inc.
  - exact Cnt.
  - apply items_sorted; assumption.
  - intros s Hs Hn m Hm. destruct (Cov s Hs) as [(m0 & Hm0 & E)|[_ Hall]].
    + exfalso. apply (Hn m0 Hm0 E).
    + apply Hall, Hm.
Qed.

(* (3) the best archived fitness never gets worse from one update to the next *)
Theorem hof_best_never_worse_v k pops pop h rest :
  1 <= k -> shown_okv (concat (pops ++ [pop])) ->
  items (hof_runs k empty_arch pops) = h :: rest ->
  exists h' rest', items (hof_runs k empty_arch (pops ++ [pop])) = h' :: rest' /\
                   f_better (fitness h) (fitness h') = false.
Proof.
  intros kpos [S C] E. rewrite concat_app in S, C. simpl in S, C. rewrite app_nil_r in S, C.
  unfold hof_runs, hof_run. rewrite fold_left_app. simpl.
  apply (hof_best_update k kpos (concat pops ++ pop) S pops pop h rest (incl_refl _) C E).
Qed.

(* the all-valid statements (used by C01) are instances *)
Theorem hof_inv k pops :
  1 <= k -> shown_ok (concat pops) ->
  let a := hof_runs k empty_arch pops in
  length (keys a) = length (items a) /\
  keys a = rev (map fitness (items a)) /\
  StronglySorted (fun x y => f_better x y = false) (keys a) /\
  length (items a) <= k /\
  NoDup (map uid (items a)).
Proof. intros kpos H. apply hof_inv_v; [exact kpos|apply shown_ok_okv, H]. Qed.

Theorem hof_k_best k pops :
  1 <= k -> shown_ok (concat pops) ->
  let seen := concat pops in
  let a := hof_runs k empty_arch pops in
  incl (items a) seen /\
  length (items a) = Nat.min k (length (nodup Nat.eq_dec (map uid seen))) /\
  StronglySorted (fun x y => f_better (fitness y) (fitness x) = false) (items a) /\
  (forall s, In s seen -> (forall m, In m (items a) -> uid m <> uid s) ->
             forall m, In m (items a) -> f_better (fitness s) (fitness m) = false).
Proof. intros kpos H. apply hof_k_best_v; [exact kpos|apply shown_ok_okv, H]. Qed.

Theorem hof_best_never_worse k pops pop h rest :
  1 <= k -> shown_ok (concat (pops ++ [pop])) ->
  items (hof_runs k empty_arch pops) = h :: rest ->
  exists h' rest', items (hof_runs k empty_arch (pops ++ [pop])) = h' :: rest' /\
                   f_better (fitness h) (fitness h') = false.
Proof. intros kpos H. apply hof_best_never_worse_v; [exact kpos|apply shown_ok_okv, H]. Qed.

(* what better-than is on a universe with invalid values: invalid is never better, every valid
   value is better than an invalid one, valid values compare lexicographically *)
Theorem better_with_invalid seen s t :
  shown_okv seen -> In s seen -> In t seen ->
  (valid (fitness s) = false -> f_better (fitness s) (fitness t) = false) /\
  (valid (fitness s) = true -> valid (fitness t) = false -> f_better (fitness s) (fitness t) = true) /\
  (valid (fitness s) = true -> valid (fitness t) = true ->
   f_better (fitness s) (fitness t) = lex_lt_b (vals (fitness s)) (vals (fitness t))).
Proof.
  intros [S _] Hs Ht. repeat split.
  - apply better_invalid_l.
  - apply better_valid_invalid.
  - apply (v_better_valid _ S); apply in_map; assumption.
Qed.

(* on the universe shown, better-than is lexicographic minimisation of the value vectors *)
Theorem better_is_lex seen s t :
  shown_ok seen -> In s seen -> In t seen ->
  f_better (fitness s) (fitness t) = lex_lt_b (vals (fitness s)) (vals (fitness t)).
Proof. intros [S _] Hs Ht. apply (u_better _ S); apply in_map; assumption. Qed.
