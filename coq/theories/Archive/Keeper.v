(* Model of golem/core/optimisers/archive/generation_keeper.py : GenerationKeeper
   (append, _archive_fitness, _update_improvements, the improvement flags and counters),
   and the executable predicates of property C08 (`agree`, `holds_b`).  Definitions only. *)
From Coq Require Import List Bool Arith ZArith QArith.
From GolemV Require Import Fitness.Fitness Archive.Hof Archive.Pareto.
Import ListNotations.
Local Open Scope nat_scope.

(* ---------------- which archive ---------------- *)
Inductive akind := AHof (k : nat) | APareto (s : simkind) (cap : nat)
  | AHofSim (s : simkind) (k : nat).       (* HallOfFame(maxsize = k, similar = ...) *)

Definition arch_update (kd : akind) (a : hof) (pop : list indiv) : hof :=
  match kd with
  | AHof k => hof_upd k a pop
  | APareto s cap => pf_upd s cap a pop
  | AHofSim s k => hof_update fitness f_worse f_better (sim_of s) k a pop
  end.

Definition arch_raises (kd : akind) (a : hof) (pop : list indiv) : bool :=
  match kd with AHof k | AHofSim _ k => hof_raises k a pop | APareto _ _ => false end.

(* GenerationKeeper.__init__: ParetoFront(maxsize = keep_n_best * 5, similar = _individuals_same)
   for a multi-objective Objective, else HallOfFame(maxsize = keep_n_best) *)
Definition keeper_kind (multi : bool) (keep_n_best : nat) : akind :=
  if multi then APareto SimSame (keep_n_best * 5) else AHof keep_n_best.

(* ---------------- _archive_fitness ---------------- *)
Definition qmax (a b : Q) : Q := if Qle_bool a b then b else a.

(* column j of the transposed rows (python zip of the rows) : exists when there is a row and every row has a j-th value *)
Fixpoint column (j : nat) (rows : list (list Q)) : option (list Q) :=
  match rows with
  | [] => Some []
  | r :: rows' =>
      match nth_error r j, column j rows' with
      | Some v, Some c => Some (v :: c)
      | _, _ => None
      end
  end.

(* np.max(archive_metrics.get(metric, np.inf)) : None stands for +inf *)
Definition worst_metric (j : nat) (rows : list (list Q)) : option Q :=
  match rows with
  | [] => None
  | _ => match column j rows with
         | Some (v :: c) => Some (fold_left qmax c v)
         | _ => None
         end
  end.

(* is_metric_worse(previous_worst, current_worst) = previous_worst > current_worst *)
Definition improved (prev cur : option Q) : bool :=
  match prev, cur with
  | None, Some _ => true          (* inf > finite *)
  | Some p, Some c => Qlt_b c p
  | _, None => false              (* x > inf *)
  end.

Definition rows_of (a : hof) : list (list Q) := map (fun it => vals (fitness it)) (items a).

Definition metric_flags (n : nat) (prev cur : list (list Q)) : list bool :=
  map (fun j => improved (worst_metric j prev) (worst_metric j cur)) (seq 0 n).

(* ---------------- the keeper ---------------- *)
Record keeper := { k_arch : hof; k_gen : nat; k_stag : nat; k_impr : list bool }.

Definition keeper_init (n : nat) : keeper :=
  {| k_arch := empty_arch; k_gen := 0; k_stag := 0; k_impr := repeat false n |}.

Definition any_improved (st : keeper) : bool := existsb (fun b : bool => b) (k_impr st).
(* any(self._metrics_improvement[m] for m in objective.quality_metrics): the first nq metrics *)
Definition quality_improved (nq : nat) (st : keeper) : bool := existsb (fun b : bool => b) (firstn nq (k_impr st)).

(* GenerationKeeper.append (n = number of metrics of the objective) *)
Definition keeper_append (kd : akind) (n : nat) (st : keeper) (pop : list indiv) : keeper :=
  let prev := rows_of (k_arch st) in
  let a' := arch_update kd (k_arch st) pop in
  let flags := metric_flags n prev (rows_of a') in
  {| k_arch := a';
     k_gen := S (k_gen st);
     k_stag := if existsb (fun b : bool => b) flags then 0 else S (k_stag st);
     k_impr := flags |}.

Definition keeper_run (kd : akind) (n : nat) (st : keeper) (pops : list (list indiv)) : keeper :=
  fold_left (keeper_append kd n) pops st.

(* the states after each append *)
Fixpoint keeper_trace (kd : akind) (n : nat) (st : keeper) (pops : list (list indiv)) : list keeper :=
  match pops with
  | [] => []
  | p :: r => let st' := keeper_append kd n st p in st' :: keeper_trace kd n st' r
  end.

(* length of the longest suffix of `false` *)
Definition trailing_false (l : list bool) : nat :=
  fold_left (fun (c : nat) (b : bool) => if b then 0 else S c) l 0.

(* ======================================================================================= *)
(* correspondence: what the harness drives and observes                                    *)
(* ======================================================================================= *)
Inductive target :=
| THof (k : nat)                         (* HallOfFame(maxsize = k) driven directly *)
| TPareto (s : simkind) (cap : nat)      (* ParetoFront(maxsize = cap, similar = ...) driven directly *)
| TKeeper (multi : bool) (k nq nc : nat) (* GenerationKeeper(Objective(nq quality, nc complexity metrics, multi), keep_n_best = k) *)
| THofSim (s : simkind) (k : nat)        (* HallOfFame(maxsize = k, similar = a user function) *)
| TKeeperSim (s : simkind) (k nq nc : nat) (* multi-objective GenerationKeeper(..., similarity_criteria = a user function) *).

(* observed after one update: did the call raise; uids of archive.items in order; values of
   archive.keys in order; keeper counters and flags (0 / false for the direct targets) *)
Record ostep := { o_raised : bool; o_uids : list nat; o_keys : list (list Q);
                  o_gen : nat; o_stag : nat; o_any : bool; o_qual : bool }.

Definition target_kind (t : target) : akind :=
  match t with
  | THof k => AHof k
  | TPareto s cap => APareto s cap
  | TKeeper multi k _ _ => keeper_kind multi k
  | THofSim s k => AHofSim s k
  | TKeeperSim s k _ _ => APareto s (k * 5)
  end.

Definition target_metrics (t : target) : nat :=
  match t with TKeeper _ _ nq nc | TKeeperSim _ _ nq nc => nq + nc | _ => 0 end.

Definition is_keeper (t : target) : bool :=
  match t with TKeeper _ _ _ _ | TKeeperSim _ _ _ _ => true | _ => false end.

(* the value vector of a fitness object as the harness prints it: none for an invalid fitness *)
Definition rowf (f : fit) : list Q := if valid f then vals f else [].

Definition snapshot (t : target) (raised : bool) (st : keeper) : ostep :=
  {| o_raised := raised;
     o_uids := map uid (items (k_arch st));
     o_keys := map rowf (keys (k_arch st));
     o_gen := if is_keeper t then k_gen st else 0;
     o_stag := if is_keeper t then k_stag st else 0;
     o_any := is_keeper t && any_improved st;
     o_qual := match t with TKeeper _ _ nq _ | TKeeperSim _ _ nq _ => quality_improved nq st | _ => false end |}.

(* model prediction of the observations; an update that raises leaves the state untouched
   (the harness stops a sequence at the first exception) *)
Fixpoint predict (t : target) (st : keeper) (pops : list (list indiv)) : list ostep :=
  match pops with
  | [] => []
  | p :: r =>
      if arch_raises (target_kind t) (k_arch st) p then snapshot t true st :: predict t st r
      else let st' := keeper_append (target_kind t) (target_metrics t) st p in
           snapshot t false st' :: predict t st' r
  end.

Definition nat_list_eqb (a b : list nat) : bool := forallb2 Nat.eqb a b.
Definition qrows_eqb (a b : list (list Q)) : bool := forallb2 identical a b.

Definition ostep_eqb (a b : ostep) : bool :=
  Bool.eqb (o_raised a) (o_raised b) && nat_list_eqb (o_uids a) (o_uids b) &&
  qrows_eqb (o_keys a) (o_keys b) && (o_gen a =? o_gen b) && (o_stag a =? o_stag b) &&
  Bool.eqb (o_any a) (o_any b) && Bool.eqb (o_qual a) (o_qual b).

Definition agree (t : target) (pops : list (list indiv)) (obs : list ostep) : bool :=
  forallb2 ostep_eqb (predict t (keeper_init (target_metrics t)) pops) obs.

(* ======================================================================================= *)
(* holds_b : the clauses of C08 decided on the OBSERVED archive contents, formulated        *)
(* independently of the container model (brute force over the set of individuals seen)      *)
(* ======================================================================================= *)

(* first occurrence of each uid *)
Fixpoint distinct_by_uid (seen : list indiv) (acc : list indiv) : list indiv :=
  match seen with
  | [] => rev acc
  | x :: r => if existsb (fun y => uid y =? uid x) acc then distinct_by_uid r acc
              else distinct_by_uid r (x :: acc)
  end.

Definition find_uid (seen : list indiv) (u : nat) : option indiv := find (fun x => uid x =? u) seen.

(* better-than on value vectors: an invalid fitness (no vector) is never better, every vector is
   better than none, otherwise lexicographic minimisation *)
Definition row_better (v w : list Q) : bool :=
  match v, w with
  | [], _ => false
  | _ :: _, [] => true
  | _ :: _, _ :: _ => lex_lt_b v w
  end.

(* insertion sort of value vectors, best first (invalid ones last) *)
Fixpoint lex_insert (v : list Q) (l : list (list Q)) : list (list Q) :=
  match l with
  | [] => [v]
  | w :: l' => if row_better v w then v :: l else w :: lex_insert v l'
  end.
Definition lex_sort (l : list (list Q)) : list (list Q) := fold_right lex_insert [] l.

Fixpoint nodup_nat (l : list nat) : bool :=
  match l with [] => true | x :: r => negb (existsb (Nat.eqb x) r) && nodup_nat r end.

(* the inputs the property speaks about: fitness values of one class, the valid ones pairwise
   identical or clearly separated, one fitness per uid; invalid fitness values (failed evaluations)
   are admitted where `allow_invalid` says so *)
Definition scope_b (allow_invalid : bool) (seen : list indiv) : bool :=
  (* class / validity / separation: over the distinct individuals (first occurrence of each uid) *)
  let d := distinct_by_uid seen [] in
  forallb (fun x => (allow_invalid || valid (fitness x)) &&
    forallb (fun y => same_class (fitness x) (fitness y) &&
                      implb (valid (fitness x) && valid (fitness y)) (sep_b (vals (fitness x)) (vals (fitness y)))) d) d &&
  (* one fitness per uid: every individual shown carries the fitness of the first one with its uid *)
  forallb (fun x => forallb (fun y =>
    implb (uid x =? uid y) (same_class (fitness x) (fitness y) && Bool.eqb (valid (fitness x)) (valid (fitness y)) &&
                            identical (rowf (fitness x)) (rowf (fitness y)))) d) seen.

(* vectors of the archive members, through the uids observed (None: an archived uid was never shown) *)
Fixpoint member_vals (seen : list indiv) (uids : list nat) : option (list (list Q)) :=
  match uids with
  | [] => Some []
  | u :: r => match find_uid seen u, member_vals seen r with
              | Some x, Some l => Some (rowf (fitness x) :: l)
              | _, _ => None
              end
  end.

Definition head_not_worse (prev cur : list (list Q)) : bool :=
  match prev, cur with
  | [], _ => true
  | _ :: _, [] => false
  | p :: _, c :: _ => negb (row_better p c)
  end.

(* single-objective archive: exactly the k best distinct individuals seen, best first *)
Definition hof_clauses (k : nat) (seen : list indiv) (o : ostep) : bool :=
  match member_vals seen (o_uids o) with
  | None => false
  | Some mv =>
      nodup_nat (o_uids o) && (length (o_uids o) <=? k) &&
      qrows_eqb (o_keys o) (rev mv) &&
      qrows_eqb mv (firstn k (lex_sort (map (fun x => rowf (fitness x)) (distinct_by_uid seen []))))
  end.

Definition subset_rows (a b : list (list Q)) : bool := forallb (fun v => existsb (identical v) b) a.

(* vectors seen that no vector seen dominates *)
Definition nondominated (vs : list (list Q)) : list (list Q) :=
  filter (fun v => negb (existsb (fun w => pareto_b w v) vs)) vs.

Definition pareto_clauses (refl : bool) (cap : nat) (seen : list indiv) (o : ostep) : bool :=
  match member_vals seen (o_uids o) with
  | None => false
  | Some mv =>
      qrows_eqb (o_keys o) (rev mv) &&
      forallb (fun v => negb (existsb (fun w => pareto_b w v) mv)) mv &&
      implb (0 <? cap) (length mv <=? cap) &&
      (* below capacity: no eviction can have happened when no more distinct individuals than
         the capacity were shown *)
      implb ((cap =? 0) || (length (if refl then distinct_by_uid seen [] else seen) <=? cap))
            (let nd := nondominated (map (fun x => vals (fitness x)) seen) in
             subset_rows mv nd && subset_rows nd mv)
  end.

(* improvement of the archive between two observed contents, for metric j: the archive is
   non-empty now and either was empty or every current value is below some previous value *)
Definition metric_improved_b (j : nat) (prev cur : list (list Q)) : bool :=
  match cur with
  | [] => false
  | _ => match prev with
         | [] => forallb (fun r => j <? length r) cur
         | _ => forallb (fun r => j <? length r) prev && forallb (fun r => j <? length r) cur &&
                forallb (fun c => existsb (fun p => Qlt_b (nth j c 0%Q) (nth j p 0%Q)) prev) cur
         end
  end.

Definition any_metric_improved_b (n : nat) (prev cur : list (list Q)) : bool :=
  existsb (fun j => metric_improved_b j prev cur) (seq 0 n).

Definition pareto_kind (t : target) : bool :=
  match t with TPareto _ _ | TKeeperSim _ _ _ _ => true | TKeeper m _ _ _ => m | THof _ | THofSim _ _ => false end.

Definition capacity (t : target) : nat :=
  match t with
  | THof k | THofSim _ k => k
  | TPareto _ c => c
  | TKeeper m k _ _ => if m then k * 5 else k
  | TKeeperSim _ k _ _ => k * 5
  end.

(* the similarity function of a front; a reflexive one keeps one member per uid *)
Definition target_sim (t : target) : simkind :=
  match t with TPareto s _ | TKeeperSim s _ _ _ | THofSim s _ => s | TKeeper _ _ _ _ => SimSame | THof _ => SimUid end.
Definition reflexive_sim (s : simkind) : bool := match s with SimNever => false | _ => true end.

(* clause groups, for diagnosis: which = 0 checks everything, 1 only the archive contents,
   2 only "best never worse", 3 only the keeper's counters and flags *)
Definition sel (which n : nat) (b : bool) : bool := if (which =? 0) || (which =? n) then b else true.

(* walk over the updates: seen = everything shown so far (this update included),
   prev = previous observation, stag = consecutive non-improving updates so far, n = update number *)
Fixpoint clauses_from (which : nat) (t : target) (seen : list indiv) (prev : list (list Q)) (stag n : nat)
         (pops : list (list indiv)) (obs : list ostep) : bool :=
  match pops, obs with
  | [], [] => true
  | p :: pops', o :: obs' =>
      let seen' := seen ++ p in
      let cur := rev (o_keys o) in                       (* best first, like items *)
      let stag' := if o_any o then 0 else S stag in
      sel which 1 (negb (o_raised o) &&
        (if pareto_kind t then pareto_clauses (reflexive_sim (target_sim t)) (capacity t) seen' o
         else hof_clauses (capacity t) seen' o)) &&
      sel which 2 (head_not_worse prev cur) &&
      sel which 3 (if is_keeper t then
         (o_gen o =? S n) && (o_stag o =? stag') &&
         Bool.eqb (o_any o) (any_metric_improved_b (target_metrics t) prev cur) &&
         match t with
         | TKeeper _ _ nq _ | TKeeperSim _ _ nq _ => Bool.eqb (o_qual o) (any_metric_improved_b nq prev cur)
         | _ => true
         end
       else true) &&
      clauses_from which t seen' cur stag' (S n) pops' obs'
  | _, _ => false
  end.

Definition multi_fit (f : fit) : bool := match f with Multi _ _ => true | Single _ _ => false end.

(* the property is stated for k >= 1, separated fitness values; the Pareto archive for valid
   multi-objective fitness, the keeper for valid fitness with as many values as the objective has
   metrics; a hall of fame driven directly may also be shown individuals with an invalid fitness *)
Definition in_scope (t : target) (pops : list (list indiv)) : bool :=
  let seen := concat pops in
  (1 <=? match t with THof k | THofSim _ k | TKeeper _ k _ _ | TKeeperSim _ k _ _ => k | TPareto _ _ => 1 end) &&
  (* a hall of fame with a user similarity keeps the first seen of each similarity class: the
     "k best distinct individuals" clause is only stated for the default (uid) similarity *)
  match t with THofSim SimUid _ => true | THofSim _ _ => false | _ => true end &&
  scope_b (match t with THof _ => true | _ => false end) seen &&
  (if pareto_kind t then forallb (fun x => multi_fit (fitness x)) seen else true) &&
  (if is_keeper t then forallb (fun x => length (vals (fitness x)) =? target_metrics t) seen else true).

Definition holds_b (t : target) (pops : list (list indiv)) (obs : list ostep) : bool :=
  implb (in_scope t pops) (clauses_from 0 t [] [] 0 0 pops obs).

(* ---------------- case format of the harness ---------------- *)
(* a case names its individuals once (pool) and gives the populations as index lists *)
Definition dummy_indiv : indiv := {| uid := 0; fitness := Single None []; gclass := 0; ngen := None |}.

Definition resolve (pool : list indiv) (ipops : list (list nat)) : list (list indiv) :=
  map (map (fun i => nth i pool dummy_indiv)) ipops.

Definition check_case (c : target * list indiv * list (list nat) * list ostep) : list bool :=
  match c with
  | (t, pool, ipops, obs) => let pops := resolve pool ipops in [agree t pops obs; holds_b t pops obs]
  end.

(* which group of clauses fails: [contents; best never worse; counters] *)
Definition diagnose_case (c : target * list indiv * list (list nat) * list ostep) : list bool :=
  match c with
  | (t, pool, ipops, obs) =>
      let pops := resolve pool ipops in
      map (fun w => implb (in_scope t pops) (clauses_from w t [] [] 0 0 pops obs)) [1; 2; 3]
  end.
