(* Proofs about the generation-keeper model (property C08): counters, meaning of the
   improvement flags, and that the oracle used on observed behaviour (Keeper.holds_b) decides
   the same notion of improvement as the model. *)
From Coq Require Import List Bool Arith QArith Lia Lqa Permutation Sorted.
From GolemV Require Import Fitness.Fitness Fitness.FitnessProofs Archive.Hof Archive.Pareto Archive.Keeper
  Archive.FitOrder Archive.HofProofs.
Import ListNotations.
Local Open Scope nat_scope.

(* ---------- counters ---------- *)
Lemma keeper_gen kd n pops : forall st, k_gen (keeper_run kd n st pops) = k_gen st + length pops.
Proof.
  unfold keeper_run. induction pops as [|p r IH]; intros st; simpl; [lia|].
  rewrite IH. simpl. lia.
Qed.

(* (6a) the generation counter equals the number of updates *)
Theorem generation_counts_updates kd n pops :
  k_gen (keeper_run kd n (keeper_init n) pops) = length pops.
Proof. rewrite keeper_gen. reflexivity. Qed.

Definition stag_step (c : nat) (b : bool) : nat := if b then 0 else S c.

Lemma any_improved_append kd n st p :
  k_stag (keeper_append kd n st p) = stag_step (k_stag st) (any_improved (keeper_append kd n st p)).
Proof. reflexivity. Qed.

Lemma keeper_stag kd n pops : forall st,
  k_stag (keeper_run kd n st pops) =
  fold_left stag_step (map any_improved (keeper_trace kd n st pops)) (k_stag st).
Proof.
  unfold keeper_run. induction pops as [|p r IH]; intros st; [reflexivity|].
  cbn [fold_left keeper_trace map]. rewrite IH, any_improved_append. reflexivity.
Qed.

(* (6b) the stagnation counter is the number of consecutive most recent updates that did not
   improve the archive *)
Theorem stagnation_counts_trailing kd n pops :
  k_stag (keeper_run kd n (keeper_init n) pops) =
  trailing_false (map any_improved (keeper_trace kd n (keeper_init n) pops)).
Proof. rewrite keeper_stag. reflexivity. Qed.

(* trailing_false is the length of the longest suffix of `false` *)
Lemma fold_stag_false n : forall c, fold_left stag_step (repeat false n) c = c + n.
Proof. induction n as [|n IH]; intros c; simpl; [lia|]. rewrite IH. unfold stag_step. lia. Qed.

Theorem trailing_false_all n : trailing_false (repeat false n) = n.
Proof. unfold trailing_false. apply (fold_stag_false n 0). Qed.

Theorem trailing_false_after_true l n : trailing_false (l ++ true :: repeat false n) = n.
Proof.
  unfold trailing_false. rewrite fold_left_app. simpl. apply (fold_stag_false n 0).
Qed.

(* the trace ends in the final state *)
Lemma last_indep {A} (l : list A) d d' : l <> [] -> last l d = last l d'.
Proof.
  induction l as [|x l IH]; intros H; [contradiction|]. destruct l as [|y l]; [reflexivity|].
  change (last (y :: l) d = last (y :: l) d'). apply IH. discriminate.
Qed.

Lemma keeper_trace_last kd n pops : forall st,
  last (keeper_trace kd n st pops) st = keeper_run kd n st pops.
Proof.
  unfold keeper_run. induction pops as [|p r IH]; intros st; [reflexivity|].
  cbn [keeper_trace fold_left]. rewrite <- IH.
  destruct (keeper_trace kd n (keeper_append kd n st p) r) as [|k l] eqn:E; [reflexivity|].
  change (last (k :: l) st = last (k :: l) (keeper_append kd n st p)). apply last_indep. discriminate.
Qed.

(* ---------- what "improved" means ---------- *)
Lemma flags_exists n prev cur :
  existsb (fun b : bool => b) (metric_flags n prev cur) = true <->
  exists j, j < n /\ improved (worst_metric j prev) (worst_metric j cur) = true.
Proof.
  unfold metric_flags. rewrite existsb_exists. split.
  - intros (b & Hb & ->). apply in_map_iff in Hb. destruct Hb as (j & E & Hj).
    apply in_seq in Hj. exists j. split; [lia|exact E].
  - intros (j & Hj & E). exists true. split; [|reflexivity].
    apply in_map_iff. exists j. split; [exact E|]. apply in_seq. lia.
Qed.

(* (6c) is_any_improved after an append: for some metric of the objective the worst archived
   value strictly decreased, or the archive became non-empty *)
Theorem any_improved_iff kd n st pop :
  any_improved (keeper_append kd n st pop) = true <->
  exists j, j < n /\
    improved (worst_metric j (rows_of (k_arch st)))
             (worst_metric j (rows_of (arch_update kd (k_arch st) pop))) = true.
Proof. unfold any_improved. simpl. apply flags_exists. Qed.

Theorem improved_iff (p c : option Q) :
  improved p c = true <->
  (p = None /\ exists v, c = Some v) \/ (exists pv cv, p = Some pv /\ c = Some cv /\ (cv < pv)%Q).
Proof.
  destruct p as [pv|], c as [cv|]; simpl; split; intros H; try discriminate.
  - right. exists pv, cv. repeat split. apply Qlt_b_iff, H.
  - destruct H as [[H _]|(pv' & cv' & E1 & E2 & L)]; [discriminate|].
    injection E1 as <-. injection E2 as <-. apply Qlt_b_iff, L.
  - destruct H as [[H _]|(pv' & cv' & _ & E & _)]; discriminate.
  - left. split; [reflexivity|eauto].
  - reflexivity.
  - destruct H as [[_ (v & E)]|(pv' & cv' & E & _)]; discriminate.
Qed.

(* the worst value is a maximum of the metric's column *)
Lemma qmax_le_l a b : (a <= qmax a b)%Q.
Proof.
  unfold qmax. destruct (Qle_bool a b) eqn:E; [apply Qle_bool_iff, E|apply Qle_refl].
Qed.

Lemma qmax_le_r a b : (b <= qmax a b)%Q.
Proof.
  unfold qmax. destruct (Qle_bool a b) eqn:E; [apply Qle_refl|].
  destruct (Qlt_le_dec a b) as [L|L]; [|exact L].
  exfalso. apply Qlt_le_weak in L. apply Qle_bool_iff in L. congruence.
Qed.

Lemma fold_qmax_spec c : forall v,
  let m := fold_left qmax c v in
  (m = v \/ In m c) /\ (v <= m)%Q /\ (forall x, In x c -> (x <= m)%Q).
Proof.
  induction c as [|y c IH]; intros v; simpl.
  - repeat split; [left; reflexivity|apply Qle_refl|intros x []].
  - destruct (IH (qmax v y)) as (H1 & H2 & H3). repeat split.
    + destruct H1 as [H1|H1]; [|right; right; exact H1].
      rewrite H1. unfold qmax. destruct (Qle_bool v y); [right; left; reflexivity|left; reflexivity].
    + eapply Qle_trans; [apply qmax_le_l|exact H2].
    + intros x [<-|Hx]; [|apply H3, Hx]. eapply Qle_trans; [apply qmax_le_r|exact H2].
Qed.

Lemma column_spec j rows : forall col,
  column j rows = Some col <-> Forall2 (fun r v => nth_error r j = Some v) rows col.
Proof.
  induction rows as [|r rows IH]; intros col; simpl.
  - split; [intros E; injection E as <-; constructor|intros H; inversion H; reflexivity].
  - destruct (nth_error r j) as [v|] eqn:N.
    + destruct (column j rows) as [c|] eqn:C.
      * split.
        -- intros E. injection E as <-. constructor; [exact N|apply IH; reflexivity].
        -- intros H. inversion H as [|? ? ? ? Hv Hc]; subst. rewrite N in Hv. injection Hv as <-.
           apply IH in Hc. injection Hc as <-. reflexivity.
      * split; [discriminate|]. intros H. inversion H as [|? ? ? ? _ Hc]; subst.
        apply IH in Hc. discriminate.
    + split; [discriminate|]. intros H. inversion H as [|? ? ? ? Hv _]; subst. congruence.
Qed.

Theorem worst_metric_is_max j rows v :
  worst_metric j rows = Some v ->
  rows <> [] /\ exists col, Forall2 (fun r x => nth_error r j = Some x) rows col /\
                          In v col /\ forall x, In x col -> (x <= v)%Q.
Proof.
  unfold worst_metric. destruct rows as [|r rows]; [discriminate|].
  destruct (column j (r :: rows)) as [[|x c]|] eqn:C; try discriminate.
  intros E. injection E as <-. split; [discriminate|]. exists (x :: c). split; [apply column_spec, C|].
  destruct (fold_qmax_spec c x) as (H1 & H2 & H3). split.
  - destruct H1 as [H1|H1]; [left; symmetry; exact H1|right; exact H1].
  - intros y [<-|Hy]; [exact H2|apply H3, Hy].
Qed.

Theorem worst_metric_none j rows :
  worst_metric j rows = None <-> rows = [] \/ exists r, In r rows /\ nth_error r j = None.
Proof.
  unfold worst_metric. destruct rows as [|r0 rows]; [split; auto|].
  destruct (column j (r0 :: rows)) as [[|x c]|] eqn:C.
  - apply column_spec in C. inversion C.
  - split; [discriminate|]. intros [H|(r & Hr & N)]; [discriminate|].
    apply column_spec in C. exfalso. revert Hr N. generalize (x :: c) C. generalize (r0 :: rows).
    induction 1 as [|a b l l' Hab _ IH]; intros [].
    + subst. congruence.
    + apply IH; assumption.
  - split; [|reflexivity]. intros _. right.
    assert (G : forall rs, column j rs = None -> exists r, In r rs /\ nth_error r j = None).
    { clear. induction rs as [|r rs IH]; simpl; [discriminate|].
      destruct (nth_error r j) eqn:N.
      - destruct (column j rs) eqn:C'; [discriminate|]. intros _.
        destruct (IH eq_refl) as (r' & Hr' & N'). exists r'. split; [right; exact Hr'|exact N'].
      - intros _. exists r. split; [left; reflexivity|exact N]. }
    apply G, C.
Qed.

(* ---------- the keeper's archive is the archive model run on the same populations ---------- *)
Lemma keeper_arch kd n pops : forall st,
  k_arch (keeper_run kd n st pops) = fold_left (arch_update kd) pops (k_arch st).
Proof.
  unfold keeper_run. induction pops as [|p r IH]; intros st; [reflexivity|].
  cbn [fold_left]. rewrite IH. reflexivity.
Qed.

Theorem keeper_archive_hof k n pops :
  k_arch (keeper_run (keeper_kind false k) n (keeper_init n) pops) = hof_runs k empty_arch pops.
Proof. rewrite keeper_arch. reflexivity. Qed.

Theorem keeper_archive_front k n pops :
  k_arch (keeper_run (keeper_kind true k) n (keeper_init n) pops) = pf_runs SimSame (k * 5) empty_arch pops.
Proof. rewrite keeper_arch. reflexivity. Qed.

(* ====================== the oracle decides what it says ====================== *)
Lemma nodup_nat_iff l : nodup_nat l = true <-> NoDup l.
Proof.
  induction l as [|x l IH]; simpl.
  - split; [constructor|reflexivity].
  - rewrite andb_true_iff, negb_true_iff, IH. split.
    + intros [H1 H2]. constructor; [|exact H2]. intros Hin.
      assert (existsb (Nat.eqb x) l = true); [|congruence].
      apply existsb_exists. exists x. split; [exact Hin|apply Nat.eqb_refl].
    + intros H. inversion H as [|? ? Hn Hd]; subst. split; [|exact Hd].
      destruct (existsb (Nat.eqb x) l) eqn:E; [|reflexivity]. exfalso.
      apply existsb_exists in E. destruct E as (y & Hy & Ey). apply Nat.eqb_eq in Ey. subst. contradiction.
Qed.

(* the oracle's order on value vectors: a strict order in which "no vector" (invalid) is last *)
Lemma row_better_asym v w : row_better v w = true -> row_better w v = false.
Proof.
  destruct v as [|a v], w as [|b w]; simpl; intros H; try discriminate; try reflexivity.
  apply (lex_asym (a :: v) (b :: w)), H.
Qed.

Lemma row_better_trans v w x : row_better v w = true -> row_better w x = true -> row_better v x = true.
Proof.
  destruct v as [|a v], w as [|b w], x as [|c x]; simpl; intros H1 H2; try discriminate; try reflexivity.
  apply (lex_trans (a :: v) (b :: w) (c :: x)); assumption.
Qed.

Lemma row_better_invalid_last v : row_better [] v = false /\ (v <> [] -> row_better v [] = true).
Proof. split; [reflexivity|]. destruct v; [intros H; contradiction|reflexivity]. Qed.

(* insertion sort: a permutation, best first *)
Lemma lex_insert_perm v l : Permutation (lex_insert v l) (v :: l).
Proof.
  induction l as [|w l IH]; simpl; [apply Permutation_refl|].
  destruct (row_better v w); [apply Permutation_refl|].
  eapply perm_trans; [apply perm_skip, IH|apply perm_swap].
Qed.

Theorem lex_sort_perm l : Permutation (lex_sort l) l.
Proof.
  induction l as [|v l IH]; simpl; [constructor|].
  eapply perm_trans; [apply lex_insert_perm|apply perm_skip, IH].
Qed.

(* best first: no later vector is strictly better than an earlier one *)
Definition best_first (l : list (list Q)) : Prop :=
  StronglySorted (fun a b => row_better b a = false) l.

Lemma lex_insert_sorted v l : best_first l -> best_first (lex_insert v l).
Proof.
  intros S. induction S as [|w l S IH F]; simpl.
  - repeat constructor.
  - destruct (row_better v w) eqn:E.
    + constructor; [constructor; assumption|]. constructor.
      * apply row_better_asym, E.
      * rewrite Forall_forall in *. intros x Hx.
        destruct (row_better x v) eqn:Ex; [|reflexivity]. exfalso.
        assert (row_better x w = true) by (eapply row_better_trans; eassumption).
        rewrite (F x Hx) in H. discriminate.
    + constructor; [exact IH|].
      rewrite Forall_forall in *. intros x Hx.
      apply (Permutation_in _ (lex_insert_perm v l)) in Hx. destruct Hx as [<-|Hx]; [exact E|].
      apply F, Hx.
Qed.

Theorem lex_sort_sorted l : best_first (lex_sort l).
Proof. induction l as [|v l IH]; simpl; [constructor|]. apply lex_insert_sorted, IH. Qed.

(* the brute-force Pareto filter keeps exactly the vectors no vector dominates *)
Theorem nondominated_iff vs v :
  In v (nondominated vs) <-> In v vs /\ forall w, In w vs -> ~ pareto w v.
Proof.
  unfold nondominated. rewrite filter_In. split.
  - intros [Hv H]. split; [exact Hv|]. intros w Hw P. apply negb_true_iff in H.
    assert (existsb (fun w0 => pareto_b w0 v) vs = true); [|congruence].
    apply existsb_exists. exists w. split; [exact Hw|apply pareto_b_iff, P].
  - intros [Hv H]. split; [exact Hv|]. apply negb_true_iff.
    destruct (existsb (fun w => pareto_b w v) vs) eqn:E; [|reflexivity]. exfalso.
    apply existsb_exists in E. destruct E as (w & Hw & P). apply (H w Hw). apply pareto_b_iff, P.
Qed.

(* the oracle's improvement test is the model's (worst value decreased / archive became
   non-empty) whenever every row has a value for the metric *)
Lemma column_some j rows :
  Forall (fun r => j < length r) rows -> exists col, column j rows = Some col /\ col = map (fun r => nth j r 0%Q) rows.
Proof.
  induction 1 as [|r rows Hr _ IH]; simpl; [eauto|].
  destruct IH as (c & -> & ->). destruct (nth_error r j) eqn:N.
  - exists (q :: map (fun r0 => nth j r0 0%Q) rows). split; [reflexivity|]. simpl. f_equal.
    symmetry. apply nth_error_nth, N.
  - apply nth_error_None in N. lia.
Qed.

Lemma fold_qmax_lt c : forall v p,
  (fold_left qmax c v < p)%Q <-> (v < p)%Q /\ forall x, In x c -> (x < p)%Q.
Proof.
  induction c as [|y c IH]; intros v p; simpl.
  - split; [intros H; split; [exact H|intros x []]|intros [H _]; exact H].
  - rewrite IH. unfold qmax. destruct (Qle_bool v y) eqn:E.
    + apply Qle_bool_iff in E. split.
      * intros [H1 H2]. split; [eapply Qle_lt_trans; eassumption|]. intros x [<-|Hx]; auto.
      * intros [H1 H2]. split; [apply H2; left; reflexivity|]. intros x Hx. apply H2. right. exact Hx.
    + assert (y <= v)%Q.
      { destruct (Qlt_le_dec v y) as [L|L]; [|exact L]. apply Qlt_le_weak in L. apply Qle_bool_iff in L. congruence. }
      split.
      * intros [H1 H2]. split; [exact H1|]. intros x [<-|Hx]; [eapply Qle_lt_trans; eassumption|auto].
      * intros [H1 H2]. split; [exact H1|]. intros x Hx. apply H2. right. exact Hx.
Qed.

Lemma fold_qmax_gt c : forall v q,
  (q < fold_left qmax c v)%Q <-> (q < v)%Q \/ exists x, In x c /\ (q < x)%Q.
Proof.
  induction c as [|y c IH]; intros v q; simpl.
  - split; [intros H; left; exact H|intros [H|(x & [] & _)]; exact H].
  - rewrite IH. unfold qmax. destruct (Qle_bool v y) eqn:E.
    + apply Qle_bool_iff in E. split.
      * intros [H|(x & Hx & L)]; [right; exists y; split; [left; reflexivity|exact H]|right; exists x; split; [right; exact Hx|exact L]].
      * intros [H|(x & [<-|Hx] & L)]; [left; eapply Qlt_le_trans; eassumption|left; exact L|right; exists x; split; assumption].
    + assert (y <= v)%Q.
      { destruct (Qlt_le_dec v y) as [L|L]; [|exact L]. apply Qlt_le_weak in L. apply Qle_bool_iff in L. congruence. }
      split.
      * intros [H1|(x & Hx & L)]; [left; exact H1|right; exists x; split; [right; exact Hx|exact L]].
      * intros [H1|(x & [<-|Hx] & L)]; [left; exact H1|left; eapply Qlt_le_trans; eassumption|right; exists x; split; assumption].
Qed.

Theorem metric_improved_b_correct j prev cur :
  Forall (fun r => j < length r) prev -> Forall (fun r => j < length r) cur ->
  metric_improved_b j prev cur = improved (worst_metric j prev) (worst_metric j cur).
Proof.
  intros Fp Fc. unfold metric_improved_b, worst_metric.
  destruct cur as [|c0 cur'].
  - destruct prev as [|p0 prev']; [reflexivity|].
    destruct (column j (p0 :: prev')) as [[|x c]|]; reflexivity.
  - destruct (column_some j _ Fc) as (cc & Ec & Dc). rewrite Ec. simpl in Dc.
    assert (Hc : forallb (fun r => j <? length r) (c0 :: cur') = true).
    { apply forallb_forall. intros r Hr. apply Nat.ltb_lt. rewrite Forall_forall in Fc. apply Fc, Hr. }
    destruct prev as [|p0 prev'].
    + rewrite Hc. subst cc. reflexivity.
    + destruct (column_some j _ Fp) as (pc & Ep & Dp). rewrite Ep. simpl in Dp.
      assert (Hp : forallb (fun r => j <? length r) (p0 :: prev') = true).
      { apply forallb_forall. intros r Hr. apply Nat.ltb_lt. rewrite Forall_forall in Fp. apply Fp, Hr. }
      rewrite Hp, Hc. subst cc pc. cbn [improved andb].
      set (P := p0 :: prev'). set (C := c0 :: cur').
      change (forallb (fun c => existsb (fun p => Qlt_b (nth j c 0%Q) (nth j p 0%Q)) P) C =
              Qlt_b (fold_left qmax (map (fun r => nth j r 0%Q) cur') (nth j c0 0%Q))
                    (fold_left qmax (map (fun r => nth j r 0%Q) prev') (nth j p0 0%Q))).
      destruct (Qlt_b _ _) eqn:R.
      * apply Qlt_b_iff in R. apply fold_qmax_lt in R. destruct R as [R1 R2].
        apply forallb_forall. intros c Hc'. apply existsb_exists.
        assert (Lc : (nth j c 0 < fold_left qmax (map (fun r => nth j r 0%Q) prev') (nth j p0 0%Q))%Q).
        { destruct Hc' as [<-|Hc']; [exact R1|]. apply R2. apply in_map_iff. exists c. split; [reflexivity|exact Hc']. }
        apply fold_qmax_gt in Lc. destruct Lc as [Lc|(x & Hx & Lc)].
        -- exists p0. split; [left; reflexivity|apply Qlt_b_iff, Lc].
        -- apply in_map_iff in Hx. destruct Hx as (p & <- & Hp'). exists p. split; [right; exact Hp'|apply Qlt_b_iff, Lc].
      * destruct (forallb _ C) eqn:Fa; [|reflexivity]. exfalso.
        assert (Qlt_b (fold_left qmax (map (fun r => nth j r 0%Q) cur') (nth j c0 0%Q))
                      (fold_left qmax (map (fun r => nth j r 0%Q) prev') (nth j p0 0%Q)) = true); [|congruence].
        apply Qlt_b_iff. apply fold_qmax_lt.
        assert (G : forall c, In c C -> (nth j c 0 < fold_left qmax (map (fun r => nth j r 0%Q) prev') (nth j p0 0%Q))%Q).
        { intros c Hc'. rewrite forallb_forall in Fa. specialize (Fa c Hc'). apply existsb_exists in Fa.
          destruct Fa as (p & Hp' & L). apply Qlt_b_iff in L. apply fold_qmax_gt.
          destruct Hp' as [<-|Hp']; [left; exact L|right]. exists (nth j p 0%Q). split; [|exact L].
          apply in_map_iff. exists p. split; [reflexivity|exact Hp']. }
        split; [apply G; left; reflexivity|]. intros x Hx. apply in_map_iff in Hx.
        destruct Hx as (c & <- & Hc'). apply G. right. exact Hc'.
Qed.

(* ====================== k = 1: improved <-> the best individual changed ====================== *)
Lemma lex_witness l r :
  lex_lt_b l r = true -> exists j a b, nth_error l j = Some a /\ nth_error r j = Some b /\ (a < b)%Q.
Proof.
  revert r. induction l as [|x l IH]; intros [|y r]; simpl; intros H; try discriminate.
  destruct (Qeq_bool x y) eqn:E.
  - destruct (IH r H) as (j & a & b & Ha & Hb & L). exists (S j), a, b. repeat split; assumption.
  - exists 0, x, y. repeat split. apply Qlt_b_iff, H.
Qed.

Lemma identical_nth l r j a b :
  identical l r = true -> nth_error l j = Some a -> nth_error r j = Some b -> (a == b)%Q.
Proof.
  unfold identical. revert r j. induction l as [|x l IH]; intros [|y r] [|j]; simpl; intros H Ha Hb; try discriminate.
  - injection Ha as <-. injection Hb as <-. apply andb_true_iff in H as [H _]. apply Qeq_bool_iff, H.
  - apply andb_true_iff in H as [_ H]. eapply IH; eassumption.
Qed.

Lemma worst_single j v : worst_metric j [v] = nth_error v j.
Proof. unfold worst_metric. simpl. destruct (nth_error v j); reflexivity. Qed.

Theorem hof_improved_iff_changed n pops pop :
  1 <= n -> shown_ok (concat (pops ++ [pop])) ->
  (forall s, In s (concat (pops ++ [pop])) -> length (vals (fitness s)) = n) ->
  let st := keeper_run (AHof 1) n (keeper_init n) pops in
  let st' := keeper_append (AHof 1) n st pop in
  any_improved st' = true <->
  match items (k_arch st), items (k_arch st') with
  | [], _ :: _ => True
  | h :: _, h' :: _ => identical (vals (fitness h)) (vals (fitness h')) = false
  | _, [] => False
  end.
Proof.
  intros Hn Hok Hlen st st'.
  assert (EA : k_arch st = hof_runs 1 empty_arch pops) by (unfold st; rewrite keeper_arch; reflexivity).
  assert (EA' : k_arch st' = hof_runs 1 empty_arch (pops ++ [pop])).
  { unfold st'. simpl. rewrite EA. unfold hof_runs, hof_run. rewrite fold_left_app. reflexivity. }
  assert (Hok1 : shown_ok (concat pops)).
  { rewrite concat_app in Hok. apply (shown_ok_prefix _ _ Hok). }
  destruct (hof_inv 1 pops (le_n 1) Hok1) as (_ & _ & _ & Z & _).
  destruct (hof_inv 1 (pops ++ [pop]) (le_n 1) Hok) as (_ & _ & _ & Z' & _).
  destruct (hof_k_best 1 (pops ++ [pop]) (le_n 1) Hok) as (Inc' & _).
  destruct (hof_k_best 1 pops (le_n 1) Hok1) as (Inc & _).
  unfold st'. rewrite any_improved_iff.
  change (arch_update (AHof 1) (k_arch st) pop) with (k_arch (keeper_append (AHof 1) n st pop)).
  fold st'. rewrite EA'. unfold rows_of. rewrite EA.
  set (A := hof_runs 1 empty_arch pops) in *. set (A' := hof_runs 1 empty_arch (pops ++ [pop])) in *.
  destruct (items A) as [|h rest] eqn:EI.
  - (* nothing archived before *)
    destruct (items A') as [|h' rest'] eqn:EI'.
    + split; [|intros []]. intros (j & _ & H). simpl in H. discriminate.
    + split; [intros _; exact I|]. intros _.
      assert (rest' = []) by (destruct rest'; [reflexivity|simpl in Z'; lia]). subst rest'.
      exists 0. split; [lia|]. simpl map. rewrite worst_single.
      assert (L : length (vals (fitness h')) = n) by (apply Hlen, Inc'; left; reflexivity).
      destruct (nth_error (vals (fitness h')) 0) eqn:N; [reflexivity|].
      apply nth_error_None in N. lia.
  - assert (rest = []) by (destruct rest; [reflexivity|simpl in Z; lia]). subst rest.
    destruct (hof_best_never_worse 1 pops pop h [] (le_n 1) Hok EI) as (h' & rest' & EI' & B).
    fold A' in EI'. rewrite EI' in *.
    assert (rest' = []) by (destruct rest'; [reflexivity|simpl in Z'; lia]). subst rest'.
    simpl map. 
    assert (Hh : In h (concat (pops ++ [pop]))).
    { rewrite concat_app. apply in_or_app. left. apply Inc. left. reflexivity. }
    assert (Hh' : In h' (concat (pops ++ [pop]))) by (apply Inc'; left; reflexivity).
    pose proof (Hlen h Hh) as L. pose proof (Hlen h' Hh') as L'.
    rewrite (better_is_lex _ h h' Hok Hh Hh') in B.
    split.
    + intros (j & Hj & H). rewrite !worst_single in H.
      apply improved_iff in H. destruct H as [[H _]|(pv & cv & Ep & Ec & Lt)].
      * apply nth_error_None in H. lia.
      * destruct (identical (vals (fitness h)) (vals (fitness h'))) eqn:Id; [|reflexivity]. exfalso.
        pose proof (identical_nth _ _ j pv cv Id Ep Ec) as Q. rewrite Q in Lt. apply (Qlt_irrefl _ Lt).
    + intros Id.
      destruct (lex_total (vals (fitness h)) (vals (fitness h')) ltac:(lia) Id) as [X|X]; [congruence|].
      destruct (lex_witness _ _ X) as (j & a & b & Ha & Hb & Lt).
      exists j. split.
      * assert (j < length (vals (fitness h'))) by (apply nth_error_Some; congruence). lia.
      * rewrite !worst_single, Ha, Hb. simpl. apply Qlt_b_iff, Lt.
Qed.
