(* Model of golem/core/optimisers/archive/individuals_containers.py : class ParetoFront
   (update; insert / remove are inherited from HallOfFame, see Hof.v).  Definitions only. *)
From Coq Require Import List Bool Arith ZArith.
From GolemV Require Import Fitness.Fitness Archive.Hof.
Import ListNotations.

Section Front.
  Variables K I : Type.
  Variable key : I -> K.
  Variable worse : K -> K -> bool.   (* a < b  (used by insert's bisect) *)
  Variable dom : K -> K -> bool.     (* a.dominates(b) *)
  Variable feq : K -> K -> bool.     (* a == b on fitness objects *)
  Variable similar : I -> I -> bool.

  (* the three flags / the index list the scanning loop leaves behind *)
  Record scan := { s_dominated : bool; s_twin : bool; s_remove : list nat }.

  (* for i, hof_member in enumerate(self):
        if not dominates_one and hof_member.fitness.dominates(ind.fitness): is_dominated = True; break
        elif ind.fitness.dominates(hof_member.fitness): dominates_one = True; to_remove.append(i)
        elif ind.fitness == hof_member.fitness and self.similar(ind, hof_member): has_twin = True; break *)
  Fixpoint pf_scan (ind : I) (ms : list I) (i : nat) (dom_one : bool) (tr : list nat) : scan :=
    match ms with
    | [] => {| s_dominated := false; s_twin := false; s_remove := tr |}
    | m :: ms' =>
        if negb dom_one && dom (key m) (key ind) then
          {| s_dominated := true; s_twin := false; s_remove := tr |}
        else if dom (key ind) (key m) then pf_scan ind ms' (S i) true (tr ++ [i])
        else if feq (key ind) (key m) && similar ind m then
          {| s_dominated := false; s_twin := true; s_remove := tr |}
        else pf_scan ind ms' (S i) dom_one tr
    end.

  (* for i in reversed(to_remove): self.remove(i) *)
  Definition pf_prune (a : arch K I) (tr : list nat) : arch K I :=
    fold_left (fun a i => arch_remove a (Z.of_nat i)) (rev tr) a.

  (* `if len(self) > self.maxsize > 0`  -- evaluated after the newcomer has been inserted *)
  Definition over_capacity (cap : nat) (a : arch K I) : bool := (cap <? size a) && (0 <? cap).

  (* body of  `for ind in population`  of ParetoFront.update *)
  Definition pf_step (cap : nat) (a : arch K I) (ind : I) : arch K I :=
    let s := pf_scan ind (items a) 0 false [] in
    let a1 := pf_prune a (s_remove s) in
    if negb (s_dominated s) && negb (s_twin s) then
      let a2 := arch_insert key worse a1 ind in
      if over_capacity cap a2 then arch_remove a2 (-1) else a2
    else a1.

  Definition pf_update (cap : nat) (a : arch K I) (pop : list I) : arch K I := fold_left (pf_step cap) pop a.
  Definition pf_run (cap : nat) (a : arch K I) (pops : list (list I)) : arch K I := fold_left (pf_update cap) pops a.

  (* ghost: does processing `ind` execute the capacity eviction remove(-1) ? *)
  Definition pf_step_evicts (cap : nat) (a : arch K I) (ind : I) : bool :=
    let s := pf_scan ind (items a) 0 false [] in
    negb (s_dominated s) && negb (s_twin s) &&
    over_capacity cap (arch_insert key worse (pf_prune a (s_remove s)) ind).

  (* ghost: no eviction while the individuals `inds` are processed one after the other *)
  Fixpoint pf_no_evict (cap : nat) (a : arch K I) (inds : list I) : bool :=
    match inds with
    | [] => true
    | x :: r => negb (pf_step_evicts cap a x) && pf_no_evict cap (pf_step cap a x) r
    end.
End Front.

Arguments pf_scan {K I} _ _ _ _ _ _ _ _ _.
Arguments pf_prune {K I} _ _.
Arguments over_capacity {K I} _ _.
Arguments pf_step {K I} _ _ _ _ _ _ _ _.
Arguments pf_update {K I} _ _ _ _ _ _ _ _.
Arguments pf_run {K I} _ _ _ _ _ _ _ _.
Arguments pf_step_evicts {K I} _ _ _ _ _ _ _ _.
Arguments pf_no_evict {K I} _ _ _ _ _ _ _ _.

(* ---------------- instance on individuals ---------------- *)
Definition opt_nat_eqb (a b : option nat) : bool :=
  match a, b with
  | Some x, Some y => x =? y
  | None, None => true
  | _, _ => false
  end.

(* generation_keeper._individuals_same:
   ind1.fitness == ind2.fitness and ind1.native_generation == ind2.native_generation and ind1.graph == ind2.graph *)
Definition sim_same (a b : indiv) : bool :=
  f_eq (fitness a) (fitness b) && opt_nat_eqb (ngen a) (ngen b) && (gclass a =? gclass b).

(* which `similar` the container was built with: operator.eq (uid), _individuals_same, or a
   user-supplied function - "same structure" (graph equality only, no fitness), never, always *)
Inductive simkind := SimUid | SimSame | SimGraph | SimNever | SimAlways.
Definition sim_of (s : simkind) : indiv -> indiv -> bool :=
  match s with
  | SimUid => sim_uid
  | SimSame => sim_same
  | SimGraph => fun a b => gclass a =? gclass b
  | SimNever => fun _ _ => false
  | SimAlways => fun _ _ => true
  end.

Definition pf_upd (s : simkind) (cap : nat) : hof -> list indiv -> hof :=
  pf_update fitness f_worse f_dom f_eq (sim_of s) cap.
Definition pf_runs (s : simkind) (cap : nat) : hof -> list (list indiv) -> hof :=
  pf_run fitness f_worse f_dom f_eq (sim_of s) cap.
