(* Proofs about the Pareto-front model (property C08): the scanning loop, pruning by index,
   mutual non-domination as an invariant, exactness below capacity, head never worse. *)
From Coq Require Import List Bool Arith ZArith Lia Permutation Sorted.
From GolemV Require Import Fitness.Fitness Fitness.FitnessProofs Archive.Hof Archive.Pareto
  Archive.FitOrder Archive.HofProofs.
Import ListNotations.

Section FrontProofs.
  Variables K I : Type.
  Variable key : I -> K.
  Variable worse : K -> K -> bool.
  Variables dom feq : K -> K -> bool.
  Variable sim : I -> I -> bool.

  Notation arch := (arch K I).
  Notation scan_ := (pf_scan key dom feq sim).
  Notation mirror := (mirror K I key).
  Notation remove_nat := (remove_nat K I).

  Definition domi (x y : I) : bool := dom (key x) (key y).

  (* ---------- the scanning loop ---------- *)
  Record scan_ok (ind : I) (ms0 : list I) (npre : nat) (tr : list nat) (s : scan) : Prop := {
    sk_incl : incl tr (s_remove s);
    sk_sorted : StronglySorted Peano.lt (s_remove s);
    sk_range : Forall (fun j => j < length ms0) (s_remove s);
    sk_removed : forall j, In j (s_remove s) -> exists m, nth_error ms0 j = Some m /\ domi ind m = true;
    sk_dominated : s_dominated s = true ->
      s_remove s = [] /\ exists m, In m ms0 /\ domi m ind = true;
    sk_twin : s_twin s = true -> exists m, In m ms0 /\ feq (key ind) (key m) = true;
    sk_rest : s_dominated s = false -> s_twin s = false ->
      forall j m, npre <= j -> nth_error ms0 j = Some m -> ~ In j (s_remove s) ->
        domi ind m = false /\ (domi m ind = false \/ exists m1, In m1 ms0 /\ domi ind m1 = true) /\
        (feq (key ind) (key m) && sim ind m) = false }.

  Lemma scan_spec ind ms0 : forall ms pre dom_one tr,
    ms0 = pre ++ ms ->
    (dom_one = false -> tr = []) ->
    (dom_one = true -> exists m1, In m1 ms0 /\ domi ind m1 = true) ->
    StronglySorted Peano.lt tr -> Forall (fun j => j < length pre) tr ->
    (forall j, In j tr -> exists m, nth_error ms0 j = Some m /\ domi ind m = true) ->
    scan_ok ind ms0 (length pre) tr (scan_ ind ms (length pre) dom_one tr).
  Proof.
    induction ms as [|m ms IH]; intros pre dom_one tr E D0 D1 Srt F R.
    - simpl. constructor; simpl; try discriminate.
      + apply incl_refl.
      + exact Srt.
      + rewrite E, app_nil_r. exact F.
      + exact R.
      + intros _ _ j x Hj N _. rewrite E, app_nil_r in N.
        assert (nth_error pre j = None) by (apply nth_error_None; lia). congruence.
    - assert (Em : nth_error ms0 (length pre) = Some m).
      { rewrite E, nth_error_app2, Nat.sub_diag by lia. reflexivity. }
      assert (Hin : In m ms0) by (rewrite E; apply in_or_app; right; left; reflexivity).
      assert (E' : ms0 = (pre ++ [m]) ++ ms) by (rewrite <- app_assoc; exact E).
      assert (L' : length (pre ++ [m]) = S (length pre)) by (rewrite app_length; simpl; lia).
      cbn [pf_scan].
      destruct (negb dom_one && dom (key m) (key ind)) eqn:C1.
      + (* dominated by a member, nothing flagged before *)
        apply andb_true_iff in C1. destruct C1 as [Cn Cd]. apply negb_true_iff in Cn.
        constructor; simpl; try discriminate.
        * apply incl_refl.
        * exact Srt.
        * rewrite E, app_length. eapply Forall_impl; [|exact F]. simpl. intros; lia.
        * exact R.
        * intros _. split; [apply D0, Cn|]. exists m. split; assumption.
      + destruct (dom (key ind) (key m)) eqn:C2.
        * (* the member is dominated: flag its index *)
          specialize (IH (pre ++ [m]) true (tr ++ [length pre]) E').
          rewrite L' in IH.
          assert (OK : scan_ok ind ms0 (S (length pre)) (tr ++ [length pre])
                         (scan_ ind ms (S (length pre)) true (tr ++ [length pre]))).
          { apply IH.
            - discriminate.
            - intros _. exists m. split; assumption.
            - apply ssorted_app; [exact Srt|repeat constructor|].
              intros a b Ha [<-|[]]. rewrite Forall_forall in F. apply F, Ha.
            - rewrite Forall_app. split.
              + eapply Forall_impl; [|exact F]. simpl. intros; lia.
              + repeat constructor.
            - intros j Hj. apply in_app_or in Hj. destruct Hj as [Hj|[<-|[]]]; [apply R, Hj|].
              exists m. split; assumption. }
          destruct OK as [O1 O2 O3 O4 O5 O6 O7]. constructor; try assumption.
          -- intros j Hj. apply O1. apply in_or_app. left. exact Hj.
          -- intros Hd Ht j x Hj N Nin.
             destruct (Nat.eq_dec j (length pre)) as [->|Ne].
             ++ exfalso. apply Nin. apply O1. apply in_or_app. right. left. reflexivity.
             ++ apply (O7 Hd Ht j x); [lia|exact N|exact Nin].
        * destruct (feq (key ind) (key m) && sim ind m) eqn:C3.
          -- (* a twin *)
             apply andb_true_iff in C3. destruct C3 as [Cf _].
             constructor; simpl; try discriminate.
             ++ apply incl_refl.
             ++ exact Srt.
             ++ rewrite E, app_length. eapply Forall_impl; [|exact F]. simpl. intros; lia.
             ++ exact R.
             ++ intros _. exists m. split; assumption.
          -- (* neither: next member *)
             specialize (IH (pre ++ [m]) dom_one tr E'). rewrite L' in IH.
             assert (OK : scan_ok ind ms0 (S (length pre)) tr (scan_ ind ms (S (length pre)) dom_one tr)).
             { apply IH; try assumption.
               eapply Forall_impl; [|exact F]. simpl. intros; lia. }
             destruct OK as [O1 O2 O3 O4 O5 O6 O7]. constructor; try assumption.
             intros Hd Ht j x Hj N Nin.
             destruct (Nat.eq_dec j (length pre)) as [->|Ne].
             ++ rewrite Em in N. injection N as <-. split; [exact C2|]. split; [|exact C3].
                destruct dom_one.
                ** right. apply D1. reflexivity.
                ** left. simpl in C1. exact C1.
             ++ apply (O7 Hd Ht j x); [lia|exact N|exact Nin].
  Qed.

  Lemma scan_top ind ms : scan_ok ind ms 0 [] (scan_ ind ms 0 false []).
  Proof.
    apply (scan_spec ind ms ms [] false []); try reflexivity.
    - discriminate.
    - constructor.
    - constructor.
    - intros j [].
  Qed.

  (* ---------- pruning: indices removed in descending order ---------- *)
  Definition prune_desc (a : arch) (ds : list nat) : arch := fold_left remove_nat ds a.

  Definition desc_ok (n : nat) (ds : list nat) : Prop :=
    StronglySorted Peano.gt ds /\ Forall (fun j => j < n) ds.

  Lemma desc_ok_tail n d ds : desc_ok n (d :: ds) -> d < n /\ desc_ok (n - 1) ds.
  Proof.
    intros [S F]. inversion S as [|? ? S' G]; subst. inversion F as [|? ? Hd F']; subst.
    split; [exact Hd|]. split; [exact S'|].
    rewrite Forall_forall in *. intros j Hj. specialize (G j Hj). lia.
  Qed.

  Lemma pf_prune_desc a tr :
    desc_ok (size a) (rev tr) -> pf_prune a tr = prune_desc a (rev tr).
  Proof.
    unfold pf_prune, prune_desc. generalize (rev tr). intros ds. revert a.
    induction ds as [|d ds IH]; intros a H; simpl; [reflexivity|].
    destruct (desc_ok_tail _ _ _ H) as [Hd H'].
    rewrite arch_remove_idx by exact Hd. apply IH.
    rewrite remove_nat_size by exact Hd. exact H'.
  Qed.

  Lemma prune_desc_mirror ds : forall a, desc_ok (size a) ds -> mirror a -> mirror (prune_desc a ds).
  Proof.
    induction ds as [|d ds IH]; intros a H M; simpl; [exact M|].
    destruct (desc_ok_tail _ _ _ H) as [Hd H'].
    apply IH; [rewrite remove_nat_size by exact Hd; exact H'|].
    apply remove_nat_mirror; assumption.
  Qed.

  Lemma prune_desc_in ds : forall a x, In x (items (prune_desc a ds)) -> In x (items a).
  Proof.
    induction ds as [|d ds IH]; intros a x H; simpl in H; [exact H|].
    apply IH in H. eapply remove_nat_in, H.
  Qed.

  Lemma prune_desc_keys_in ds : forall a x, In x (keys (prune_desc a ds)) -> In x (keys a).
  Proof.
    induction ds as [|d ds IH]; intros a x H; simpl in H; [exact H|].
    apply IH in H. eapply remove_nat_keys_in, H.
  Qed.

  Lemma prune_desc_size ds : forall a, desc_ok (size a) ds -> size (prune_desc a ds) = size a - length ds.
  Proof.
    induction ds as [|d ds IH]; intros a H; simpl; [lia|].
    destruct (desc_ok_tail _ _ _ H) as [Hd H'].
    rewrite IH by (rewrite remove_nat_size by exact Hd; exact H').
    rewrite remove_nat_size by exact Hd. lia.
  Qed.

  (* members at positions that are not removed survive ... *)
  Lemma prune_desc_keeps ds : forall a j m,
    StronglySorted Peano.gt ds -> nth_error (items a) j = Some m -> ~ In j ds ->
    In m (items (prune_desc a ds)).
  Proof.
    induction ds as [|d ds IH]; intros a j m Sd N Nin; simpl.
    - eapply nth_error_In, N.
    - inversion Sd as [|? ? S' G]; subst.
      destruct (Nat.lt_ge_cases j d) as [L|L].
      + apply (IH _ j m S'); [|intros Hj; apply Nin; right; exact Hj].
        unfold HofProofs.remove_nat. simpl. rewrite del_at_nth_lt by exact L. exact N.
      + assert (j <> d) by (intros ->; apply Nin; left; reflexivity).
        apply (IH _ (j - 1) m S').
        * unfold HofProofs.remove_nat. simpl. rewrite del_at_nth_ge by lia.
          replace (S (j - 1)) with j by lia. exact N.
        * intros Hj. rewrite Forall_forall in G. specialize (G _ Hj). lia.
  Qed.

  (* ... and only those *)
  Lemma prune_desc_only ds : forall a m,
    StronglySorted Peano.gt ds -> In m (items (prune_desc a ds)) ->
    exists j, nth_error (items a) j = Some m /\ ~ In j ds.
  Proof.
    induction ds as [|d ds IH]; intros a m Sd H; simpl in H.
    - apply In_nth_error in H. destruct H as (j & N). exists j. split; [exact N|intros []].
    - inversion Sd as [|? ? S' G]; subst.
      destruct (IH _ m S' H) as (j & N & Nin). unfold HofProofs.remove_nat in N. simpl in N.
      destruct (Nat.lt_ge_cases j d) as [L|L].
      + rewrite del_at_nth_lt in N by exact L. exists j. split; [exact N|].
        intros [->|Hj]; [lia|]. apply Nin, Hj.
      + rewrite del_at_nth_ge in N by exact L. exists (S j). split; [exact N|].
        intros [->|Hj]; [lia|]. rewrite Forall_forall in G. specialize (G _ Hj). lia.
  Qed.

  Lemma desc_of_scan ind ms npre tr s :
    scan_ok ind ms npre tr s -> desc_ok (length ms) (rev (s_remove s)).
  Proof.
    intros O. split.
    - apply (ssorted_rev Peano.lt). apply (sk_sorted _ _ _ _ _ O).
    - rewrite Forall_forall. intros j Hj. apply in_rev in Hj.
      pose proof (sk_range _ _ _ _ _ O) as F. rewrite Forall_forall in F. apply F, Hj.
  Qed.
End FrontProofs.

(* ====================== ParetoFront.update ====================== *)
Section FrontInvariant.
  Variables K I : Type.
  Variable key : I -> K.
  Variable worse : K -> K -> bool.
  Variables dom feq : K -> K -> bool.
  Variable sim : I -> I -> bool.
  Variable UK : K -> Prop.
  Hypothesis dom_irrefl : forall a, UK a -> dom a a = false.
  Hypothesis dom_trans : forall a b c, UK a -> UK b -> UK c ->
    dom a b = true -> dom b c = true -> dom a c = true.
  Hypothesis feq_refl : forall a, UK a -> feq a a = true.
  Hypothesis feq_sym : forall a b, UK a -> UK b -> feq a b = feq b a.
  Hypothesis dom_compat_l : forall a a' c, UK a -> UK a' -> UK c ->
    feq a a' = true -> dom a c = true -> dom a' c = true.
  Hypothesis dom_compat_r : forall a c c', UK a -> UK c -> UK c' ->
    feq c c' = true -> dom a c = true -> dom a c' = true.
  Variable cap : nat.

  Notation arch := (arch K I).
  Notation mirror := (mirror K I key).
  Notation remove_nat := (remove_nat K I).
  Notation ins := (arch_insert key worse).
  Notation pstep := (pf_step key worse dom feq sim cap).
  Notation pevicts := (pf_step_evicts key worse dom feq sim cap).
  Notation domi := (domi K I key dom).

  (* no member dominates another *)
  Definition ND (l : list I) : Prop := forall x y, In x l -> In y l -> domi x y = false.

  Lemma ND_incl l l' : incl l' l -> ND l -> ND l'.
  Proof. intros Inc H x y Hx Hy. apply H; apply Inc; assumption. Qed.

  Definition final (a2 : arch) : arch :=
    if over_capacity cap a2 then remove_nat a2 (size a2 - 1) else a2.

  (* what one iteration does to an archive without internal domination *)
  Lemma pf_step_cases a ind :
    ND (items a) -> mirror a -> (forall x, In x (items a) -> UK (key x)) -> UK (key ind) ->
    (pstep a ind = a /\ pevicts a ind = false /\
     exists m, In m (items a) /\ (domi m ind = true \/ feq (key ind) (key m) = true))
    \/
    (exists ds, let a1 := prune_desc K I a ds in
       desc_ok (size a) ds /\ mirror a1 /\
       (forall x, In x (items a) -> In x (items a1) \/ domi ind x = true) /\
       (forall x, In x (items a1) -> domi ind x = false /\ domi x ind = false /\
                                     (feq (key ind) (key x) && sim ind x) = false) /\
       pstep a ind = final (ins a1 ind) /\ pevicts a ind = over_capacity cap (ins a1 ind)).
  Proof.
    intros Hnd M Uit Uind.
    pose proof (scan_top K I key dom feq sim ind (items a)) as O.
    unfold pf_step, pf_step_evicts.
    set (s := pf_scan key dom feq sim ind (items a) 0 false []) in *.
    pose proof O as D. apply desc_of_scan in D. fold (size a) in D.
    destruct O as [O1 O2 O3 O4 O5 O6 O7].
    destruct (s_dominated s) eqn:Ed.
    - (* dominated *)
      left. destruct (O5 eq_refl) as (Er & m & Hm & Dm).
      rewrite Er. simpl. repeat split. exists m. split; [exact Hm|left; exact Dm].
    - destruct (s_twin s) eqn:Et.
      + (* twin: nothing can have been flagged *)
        left. destruct (O6 eq_refl) as (m & Hm & Fm).
        assert (Er : s_remove s = []).
        { destruct (s_remove s) as [|j r] eqn:Er; [reflexivity|]. exfalso.
          destruct (O4 j) as (m1 & N1 & D1); [try rewrite Er; left; reflexivity|].
          apply nth_error_In in N1.
          assert (domi m m1 = true).
          { apply (dom_compat_l (key ind)); auto. }
          rewrite (Hnd m m1 Hm N1) in H. discriminate. }
        rewrite Er. simpl. repeat split. exists m. split; [exact Hm|right; exact Fm].
      + (* inserted *)
        right. simpl negb. simpl andb.
        rewrite (pf_prune_desc K I a (s_remove s) D).
        exists (rev (s_remove s)). cbv zeta.
        set (a1 := prune_desc K I a (rev (s_remove s))).
        assert (M1 : mirror a1) by (apply prune_desc_mirror; assumption).
        repeat split.
        * apply D.
        * apply D.
        * exact M1.
        * intros x Hx. apply In_nth_error in Hx. destruct Hx as (j & N).
          destruct (in_dec Nat.eq_dec j (s_remove s)) as [Hj|Hj].
          -- right. destruct (O4 j Hj) as (m & N' & Dm).
             rewrite N in N'. injection N' as <-. exact Dm.
          -- left. apply (prune_desc_keeps K I _ a j x (proj1 D) N). rewrite <- in_rev. exact Hj.
        * destruct (prune_desc_only K I _ a x (proj1 D) H) as (j & N & Nin).
          rewrite <- in_rev in Nin.
          apply (O7 eq_refl eq_refl j x (Nat.le_0_l _) N Nin).
        * destruct (prune_desc_only K I _ a x (proj1 D) H) as (j & N & Nin).
          rewrite <- in_rev in Nin.
          destruct (O7 eq_refl eq_refl j x (Nat.le_0_l _) N Nin) as [_ [[Dx|(m1 & Hm1 & D1)] _]]; [exact Dx|].
          destruct (domi x ind) eqn:Dx; [|reflexivity]. exfalso.
          apply nth_error_In in N.
          assert (domi x m1 = true) by (apply (dom_trans _ (key ind)); auto).
          rewrite (Hnd x m1 N Hm1) in H0. discriminate.
        * destruct (prune_desc_only K I _ a x (proj1 D) H) as (j & N & Nin).
          rewrite <- in_rev in Nin.
          apply (O7 eq_refl eq_refl j x (Nat.le_0_l _) N Nin).
        * unfold final. destruct (over_capacity cap (ins a1 ind)) eqn:Ov; [|reflexivity].
          apply arch_remove_last. rewrite arch_insert_size. lia.
  Qed.

  (* ---------- (4) mutual non-domination, mirror, membership: always ---------- *)
  Record PInv (seen : list I) (a : arch) : Prop := {
    pi_mirror : mirror a;
    pi_nd : ND (items a);
    pi_incl : incl (items a) seen;
    pi_cap : 0 < cap -> size a <= cap }.

  Definition useen (seen : list I) : Prop := forall s, In s seen -> UK (key s).

  Lemma final_in a2 x : In x (items (final a2)) -> In x (items a2).
  Proof. unfold final. destruct (over_capacity cap a2); [apply remove_nat_in|auto]. Qed.

  Lemma final_mirror a2 : 0 < size a2 -> mirror a2 -> mirror (final a2).
  Proof.
    intros Z M. unfold final. destruct (over_capacity cap a2); [|exact M].
    apply remove_nat_mirror; [lia|exact M].
  Qed.

  Lemma final_size a2 : 0 < size a2 -> 0 < cap -> size a2 <= S cap -> size (final a2) <= cap.
  Proof.
    intros Z Hc Hs. unfold final, over_capacity.
    destruct (cap <? size a2) eqn:E; simpl.
    - apply Nat.ltb_lt in E. assert (C : (0 <? cap) = true) by (apply Nat.ltb_lt; exact Hc). rewrite C.
      rewrite remove_nat_size by lia. lia.
    - apply Nat.ltb_ge in E. exact E.
  Qed.

  Lemma PInv_step seen a ind :
    useen (seen ++ [ind]) -> PInv seen a -> PInv (seen ++ [ind]) (pstep a ind).
  Proof.
    intros Us [M Hnd Inc Hcap].
    assert (Uind : UK (key ind)) by (apply Us; apply in_or_app; right; left; reflexivity).
    assert (Uit : forall x, In x (items a) -> UK (key x)).
    { intros x Hx. apply Us. apply in_or_app. left. apply Inc, Hx. }
    destruct (pf_step_cases a ind Hnd M Uit Uind) as [(E & _ & _)|(ds & D & M1 & Hkeep & Hfree & E & _)].
    - rewrite E. constructor; try assumption. apply incl_appl, Inc.
    - cbv zeta in *. set (a1 := prune_desc K I a ds) in *. rewrite E.
      assert (Inc1 : forall x, In x (items a1) -> In x (items a)) by (intros x; apply prune_desc_in).
      assert (Z2 : 0 < size (ins a1 ind)) by (rewrite arch_insert_size; lia).
      constructor.
      + apply final_mirror; [exact Z2|]. apply arch_insert_mirror, M1.
      + apply (ND_incl (items (ins a1 ind))); [intros x; apply final_in|].
        intros x y Hx Hy. apply arch_insert_in in Hx. apply arch_insert_in in Hy.
        destruct Hx as [->|Hx]; destruct Hy as [->|Hy].
        * apply dom_irrefl, Uind.
        * apply (Hfree y Hy).
        * apply (Hfree x Hx).
        * apply Hnd; apply Inc1; assumption.
      + intros x Hx. apply final_in in Hx. apply arch_insert_in in Hx. destruct Hx as [->|Hx].
        * apply in_or_app. right. left. reflexivity.
        * apply in_or_app. left. apply Inc, Inc1, Hx.
      + intros Hc. apply final_size; [exact Z2|exact Hc|].
        rewrite arch_insert_size. unfold a1. rewrite (prune_desc_size K I ds a D).
        specialize (Hcap Hc). lia.
  Qed.

  Lemma PInv_empty : PInv [] empty_arch.
  Proof.
    constructor.
    - reflexivity.
    - intros x y [].
    - intros x [].
    - intros _. unfold size. simpl. lia.
  Qed.

  Notation pfold := (fold_left pstep).

  Lemma useen_app_l s1 s2 : useen (s1 ++ s2) -> useen s1.
  Proof. intros H s Hs. apply H. apply in_or_app. left. exact Hs. Qed.

  Lemma PInv_fold inds : forall seen a,
    useen (seen ++ inds) -> PInv seen a -> PInv (seen ++ inds) (pfold inds a).
  Proof.
    induction inds as [|x r IH]; intros seen a Us H; simpl.
    - rewrite app_nil_r. exact H.
    - replace (seen ++ x :: r) with ((seen ++ [x]) ++ r) in * by (rewrite <- app_assoc; reflexivity).
      apply IH; [exact Us|]. apply PInv_step; [|exact H]. apply (useen_app_l _ r), Us.
  Qed.

  Lemma pf_run_fold a pops :
    pf_run key worse dom feq sim cap a pops = pfold (concat pops) a.
  Proof.
    unfold pf_run, pf_update. revert a. induction pops as [|p r IH]; intros a; simpl; [reflexivity|].
    rewrite fold_left_app. apply IH.
  Qed.

  Theorem pareto_inv_run pops :
    useen (concat pops) -> PInv (concat pops) (pf_run key worse dom feq sim cap empty_arch pops).
  Proof. intros Us. rewrite pf_run_fold. apply (PInv_fold (concat pops) [] empty_arch Us PInv_empty). Qed.

  (* ---------- (5) exactness while no capacity eviction happens ---------- *)
  (* every individual seen is dominated by, or has the fitness vector of, some member *)
  Definition Cov (seen : list I) (a : arch) : Prop :=
    forall s, In s seen -> exists m, In m (items a) /\ (domi m s = true \/ feq (key m) (key s) = true).

  Lemma Cov_step seen a ind :
    useen (seen ++ [ind]) -> PInv seen a -> Cov seen a -> pevicts a ind = false ->
    Cov (seen ++ [ind]) (pstep a ind).
  Proof.
    intros Us [M Hnd Inc Hcap] C Ev.
    assert (Uind : UK (key ind)) by (apply Us; apply in_or_app; right; left; reflexivity).
    assert (Useen : forall s, In s seen -> UK (key s)) by (intros s Hs; apply Us; apply in_or_app; left; exact Hs).
    assert (Uit : forall x, In x (items a) -> UK (key x)) by (intros x Hx; apply Useen, Inc, Hx).
    destruct (pf_step_cases a ind Hnd M Uit Uind) as [(E & _ & m & Hm & Hd)|(ds & D & M1 & Hkeep & Hfree & E & Ev')].
    - rewrite E. intros s Hs. apply in_app_or in Hs. destruct Hs as [Hs|[<-|[]]]; [apply C, Hs|].
      exists m. split; [exact Hm|]. destruct Hd as [Hd|Hf]; [left; exact Hd|right].
      rewrite feq_sym; auto.
    - cbv zeta in *. set (a1 := prune_desc K I a ds) in *. rewrite E.
      rewrite Ev' in Ev. unfold final. rewrite Ev.
      intros s Hs. apply in_app_or in Hs. destruct Hs as [Hs|[<-|[]]].
      + destruct (C s Hs) as (m & Hm & Hc). destruct (Hkeep m Hm) as [Hk|Hdom].
        * exists m. split; [apply arch_insert_in; right; exact Hk|exact Hc].
        * exists ind. split; [apply arch_insert_in; left; reflexivity|]. left.
          destruct Hc as [Hc|Hc].
          -- apply (dom_trans _ (key m)); auto.
          -- apply (dom_compat_r _ (key m)); auto.
      + exists ind. split; [apply arch_insert_in; left; reflexivity|]. right. apply feq_refl, Uind.
  Qed.

  Lemma Cov_fold inds : forall seen a,
    useen (seen ++ inds) -> PInv seen a -> Cov seen a ->
    pf_no_evict key worse dom feq sim cap a inds = true ->
    Cov (seen ++ inds) (pfold inds a).
  Proof.
    induction inds as [|x r IH]; intros seen a Us H C Ne; simpl.
    - rewrite app_nil_r. exact C.
    - simpl in Ne. apply andb_true_iff in Ne. destruct Ne as [Ne1 Ne2]. apply negb_true_iff in Ne1.
      replace (seen ++ x :: r) with ((seen ++ [x]) ++ r) in * by (rewrite <- app_assoc; reflexivity).
      pose proof (useen_app_l _ _ Us) as Us1.
      apply IH; [exact Us| | |exact Ne2].
      + apply PInv_step; assumption.
      + apply Cov_step; assumption.
  Qed.

  (* members are exactly the non-dominated ones among everything seen (as fitness vectors) *)
  Theorem exact_of_cov seen a :
    useen seen -> PInv seen a -> Cov seen a ->
    (forall m, In m (items a) -> In m seen /\ forall s, In s seen -> domi s m = false) /\
    (forall s, In s seen -> (forall s', In s' seen -> domi s' s = false) ->
               exists m, In m (items a) /\ feq (key m) (key s) = true).
  Proof.
    intros Us [M Hnd Inc _] C. split.
    - intros m Hm. split; [apply Inc, Hm|]. intros s Hs.
      destruct (domi s m) eqn:Ds; [|reflexivity]. exfalso.
      destruct (C s Hs) as (m' & Hm' & [Hd|Hf]).
      + assert (domi m' m = true) by (apply (dom_trans _ (key s)); auto).
        rewrite (Hnd m' m Hm' Hm) in H. discriminate.
      + assert (domi m' m = true).
        { apply (dom_compat_l (key s)); auto. rewrite feq_sym; auto. }
        rewrite (Hnd m' m Hm' Hm) in H. discriminate.
    - intros s Hs Hfree. destruct (C s Hs) as (m & Hm & [Hd|Hf]).
      + rewrite (Hfree m (Inc m Hm)) in Hd. discriminate.
      + exists m. split; assumption.
  Qed.
End FrontInvariant.

(* ====================== the front stays sorted; its head never gets worse ====================== *)
Section FrontSorted.
  Variables K I : Type.
  Variable key : I -> K.
  Variables worse better : K -> K -> bool.
  Variables dom feq : K -> K -> bool.
  Variable sim : I -> I -> bool.
  Variable UK : K -> Prop.
  Variable bot : K -> bool.
  Hypothesis worse_better : forall a b, UK a -> UK b ->
    if bot a then worse a b = true /\ better a b = false else worse a b = better b a.
  Hypothesis better_irrefl : forall a, UK a -> better a a = false.
  Hypothesis better_trans : forall a b c, UK a -> UK b -> UK c ->
    better a b = true -> better b c = true -> better a c = true.
  Hypothesis better_negtrans : forall a b c, UK a -> UK b -> UK c ->
    better a b = false -> better b c = false -> better a c = false.
  Hypothesis dom_irrefl : forall a, UK a -> dom a a = false.
  Hypothesis dom_trans : forall a b c, UK a -> UK b -> UK c ->
    dom a b = true -> dom b c = true -> dom a c = true.
  Hypothesis feq_refl : forall a, UK a -> feq a a = true.
  Hypothesis feq_sym : forall a b, UK a -> UK b -> feq a b = feq b a.
  Hypothesis dom_compat_l : forall a a' c, UK a -> UK a' -> UK c ->
    feq a a' = true -> dom a c = true -> dom a' c = true.
  Hypothesis dom_compat_r : forall a c c', UK a -> UK c -> UK c' ->
    feq c c' = true -> dom a c = true -> dom a c' = true.
  Hypothesis dom_better : forall a b, UK a -> UK b -> dom a b = true -> better a b = true.
  Variable cap : nat.

  Notation arch := (arch K I).
  Notation mirror := (mirror K I key).
  Notation ksorted := (ksorted K I better).
  Notation kuniv := (kuniv K I UK).
  Notation remove_nat := (remove_nat K I).
  Notation ins := (arch_insert key worse).
  Notation pstep := (pf_step key worse dom feq sim cap).
  Notation domi := (domi K I key dom).
  Notation PInv := (PInv K I key dom cap).
  Notation useen := (useen K I key UK).
  Notation final := (final K I cap).
  Notation better_asym := (better_asym K better UK better_irrefl better_trans).

  Lemma prune_desc_sorted ds : forall a,
    ksorted a -> kuniv a -> ksorted (prune_desc K I a ds) /\ kuniv (prune_desc K I a ds).
  Proof.
    induction ds as [|d ds IH]; intros a S U; simpl; [split; assumption|].
    destruct (remove_nat_sorted K I better UK a d S U) as [S' U']. apply IH; assumption.
  Qed.

  Lemma kuniv_of seen a : useen seen -> PInv seen a -> kuniv a.
  Proof.
    intros Us [M _ Inc _]. unfold HofProofs.kuniv. rewrite M, Forall_forall. intros x Hx.
    apply in_rev in Hx. apply in_map_iff in Hx. destruct Hx as (m & <- & Hm). apply Us, Inc, Hm.
  Qed.

  Lemma final_sorted a2 : ksorted a2 -> kuniv a2 -> ksorted (final a2).
  Proof.
    intros S U. unfold ParetoProofs.final. destruct (over_capacity cap a2); [|exact S].
    apply (remove_nat_sorted K I better UK a2 _ S U).
  Qed.

  Lemma sorted_step seen a ind :
    useen (seen ++ [ind]) -> PInv seen a -> ksorted a -> ksorted (pstep a ind).
  Proof.
    intros Us H S. pose proof (kuniv_of seen a (useen_app_l K I key UK _ _ Us) H) as U.
    destruct H as [M Hnd Inc Hcap].
    assert (Uind : UK (key ind)) by (apply Us; apply in_or_app; right; left; reflexivity).
    assert (Uit : forall x, In x (items a) -> UK (key x)).
    { intros x Hx. apply Us. apply in_or_app. left. apply Inc, Hx. }
    destruct (pf_step_cases K I key worse dom feq sim UK dom_trans dom_compat_l cap a ind Hnd M Uit Uind)
      as [(E & _ & _)|(ds & D & M1 & Hkeep & Hfree & E & _)].
    - rewrite E. exact S.
    - cbv zeta in *. rewrite E. destruct (prune_desc_sorted ds a S U) as [S1 U1].
      destruct (arch_insert_sorted K I key worse better UK bot worse_better better_irrefl better_trans better_negtrans _ ind Uind U1 S1) as [S2 U2].
      apply final_sorted; assumption.
  Qed.

  (* one iteration never loses ground *)
  Lemma pstep_no_loss seen a ind :
    useen (seen ++ [ind]) -> PInv seen a -> ksorted a ->
    forall m, In m (items a) -> exists m', In m' (items (pstep a ind)) /\ better (key m) (key m') = false.
  Proof.
    intros Us H S m Hm. pose proof (kuniv_of seen a (useen_app_l K I key UK _ _ Us) H) as U.
    destruct H as [M Hnd Inc Hcap].
    assert (Uind : UK (key ind)) by (apply Us; apply in_or_app; right; left; reflexivity).
    assert (Uit : forall x, In x (items a) -> UK (key x)).
    { intros x Hx. apply Us. apply in_or_app. left. apply Inc, Hx. }
    destruct (pf_step_cases K I key worse dom feq sim UK dom_trans dom_compat_l cap a ind Hnd M Uit Uind)
      as [(E & _ & _)|(ds & D & M1 & Hkeep & Hfree & E & _)].
    - rewrite E. exists m. split; [exact Hm|]. apply better_irrefl. auto.
    - cbv zeta in *. set (a1 := prune_desc K I a ds) in *. rewrite E.
      destruct (prune_desc_sorted ds a S U) as [S1 U1]. fold a1 in S1, U1.
      destruct (arch_insert_sorted K I key worse better UK bot worse_better better_irrefl better_trans better_negtrans a1 ind Uind U1 S1) as [S2 U2].
      pose proof (arch_insert_mirror K I key worse a1 ind M1) as M2.
      set (a2 := ins a1 ind) in *.
      assert (Ua2 : forall x, In x (items a2) -> UK (key x)).
      { intros x Hx. apply arch_insert_in in Hx. destruct Hx as [->|Hx]; [exact Uind|].
        apply Uit. eapply prune_desc_in, Hx. }
      (* a member of a2 at least as good as m *)
      assert (H2 : exists m2, In m2 (items a2) /\ better (key m) (key m2) = false).
      { destruct (Hkeep m Hm) as [Hk|Hd].
        - exists m. split; [apply arch_insert_in; right; exact Hk|]. apply better_irrefl. auto.
        - exists ind. split; [apply arch_insert_in; left; reflexivity|].
          apply better_asym; auto. }
      destruct H2 as (m2 & Hm2 & B2).
      unfold ParetoProofs.final. destruct (over_capacity cap a2) eqn:Ov; [|exists m2; split; assumption].
      unfold over_capacity in Ov. apply andb_true_iff in Ov. destruct Ov as [Ov1 Ov2].
      apply Nat.ltb_lt in Ov1. apply Nat.ltb_lt in Ov2.
      destruct (last_opt (items a2)) as [w|] eqn:L.
      2:{ apply last_opt_none in L. unfold size in Ov1. rewrite L in Ov1. simpl in Ov1. lia. }
      destruct (last_opt_split _ _ L) as (front & Ef).
      rewrite (remove_last_items K I a2 front w Ef).
      rewrite Ef in Hm2. apply in_app_or in Hm2. destruct Hm2 as [Hm2|[<-|[]]].
      + exists m2. split; assumption.
      + destruct front as [|h front'].
        { unfold size in Ov1. rewrite Ef in Ov1. simpl in Ov1. lia. }
        exists h. split; [left; reflexivity|].
        pose proof (items_sorted K I key better a2 M2 S2) as Si. rewrite Ef in Si. simpl in Si.
        inversion Si as [|? ? _ F]; subst. rewrite Forall_forall in F.
        assert (Bw : better (key w) (key h) = false) by (apply F; apply in_or_app; right; left; reflexivity).
        apply (better_negtrans _ (key w)); auto.
        * apply Ua2. rewrite Ef. apply in_or_app. right. left. reflexivity.
        * apply Ua2. rewrite Ef. left. reflexivity.
  Qed.

  Notation pfold := (fold_left pstep).

  Lemma sorted_fold inds : forall seen a,
    useen (seen ++ inds) -> PInv seen a -> ksorted a -> ksorted (pfold inds a).
  Proof.
    induction inds as [|x r IH]; intros seen a Us H S; simpl; [exact S|].
    replace (seen ++ x :: r) with ((seen ++ [x]) ++ r) in * by (rewrite <- app_assoc; reflexivity).
    pose proof (useen_app_l K I key UK _ _ Us) as Us1.
    apply (IH (seen ++ [x])); [exact Us| |].
    - apply (PInv_step K I key worse dom feq sim UK dom_irrefl dom_trans dom_compat_l cap); assumption.
    - apply (sorted_step seen); assumption.
  Qed.

  Lemma pfold_no_loss inds : forall seen a,
    useen (seen ++ inds) -> PInv seen a -> ksorted a ->
    forall m, In m (items a) -> exists m', In m' (items (pfold inds a)) /\ better (key m) (key m') = false.
  Proof.
    induction inds as [|x r IH]; intros seen a Us H S m Hm; simpl.
    - exists m. split; [exact Hm|]. apply better_irrefl. apply Us. apply in_or_app. left.
      apply (pi_incl _ _ _ _ _ _ _ H), Hm.
    - replace (seen ++ x :: r) with ((seen ++ [x]) ++ r) in Us by (rewrite <- app_assoc; reflexivity).
      pose proof (useen_app_l K I key UK _ _ Us) as Us1.
      destruct (pstep_no_loss seen a x Us1 H S m Hm) as (m1 & Hm1 & B1).
      pose proof (PInv_step K I key worse dom feq sim UK dom_irrefl dom_trans dom_compat_l cap seen a x Us1 H) as H1.
      pose proof (sorted_step seen a x Us1 H S) as S1.
      destruct (IH _ _ Us H1 S1 m1 Hm1) as (m2 & Hm2 & B2).
      exists m2. split; [exact Hm2|].
      pose proof (PInv_fold K I key worse dom feq sim UK dom_irrefl dom_trans dom_compat_l cap r _ _ Us H1) as H2.
      apply (better_negtrans _ (key m1)); auto.
      + apply Us. apply in_or_app. left. apply in_or_app. left. apply (pi_incl _ _ _ _ _ _ _ H), Hm.
      + apply Us. apply in_or_app. left. apply (pi_incl _ _ _ _ _ _ _ H1), Hm1.
      + apply Us. apply (pi_incl _ _ _ _ _ _ _ H2), Hm2.
  Qed.

  Theorem front_best_never_worse seen a pop h rest :
    useen (seen ++ pop) -> PInv seen a -> ksorted a -> items a = h :: rest ->
    exists h' rest', items (pf_update key worse dom feq sim cap a pop) = h' :: rest' /\
                     better (key h) (key h') = false.
  Proof.
    intros Us H S E. unfold pf_update.
    assert (Hh : In h (items a)) by (rewrite E; left; reflexivity).
    destruct (pfold_no_loss pop seen a Us H S h Hh) as (m' & Hm' & B).
    pose proof (PInv_fold K I key worse dom feq sim UK dom_irrefl dom_trans dom_compat_l cap pop _ _ Us H) as H'.
    pose proof (sorted_fold pop seen a Us H S) as S'.
    destruct (items (pfold pop a)) as [|h' rest'] eqn:E'; [destruct Hm'|].
    exists h', rest'. split; [reflexivity|].
    pose proof (items_sorted K I key better _ (pi_mirror _ _ _ _ _ _ _ H') S') as Si.
    rewrite E' in Si. inversion Si as [|? ? _ F]; subst. rewrite Forall_forall in F.
    assert (Uh' : UK (key h')) by (apply Us, (pi_incl _ _ _ _ _ _ _ H'); rewrite E'; left; reflexivity).
    assert (Bh : better (key m') (key h') = false).
    { destruct Hm' as [<-|Hm']; [apply better_irrefl, Uh'|apply F, Hm']. }
    apply (better_negtrans _ (key m')); auto.
    - apply Us. apply in_or_app. left. apply (pi_incl _ _ _ _ _ _ _ H), Hh.
    - apply Us, (pi_incl _ _ _ _ _ _ _ H'). rewrite E'. exact Hm'.
  Qed.
End FrontSorted.

(* ====================== one member per uid; few individuals, no eviction ====================== *)
Lemma NoDup_del_at {A} (l : list A) i : NoDup l -> NoDup (del_at i l).
Proof.
  intros H. destruct (nth_error l i) eqn:E.
  - apply (Permutation_NoDup (del_at_perm l i a E)) in H. inversion H; assumption.
  - apply nth_error_None in E. unfold del_at. rewrite firstn_all2, skipn_all2 by lia.
    rewrite app_nil_r. exact H.
Qed.

Section FrontUids.
  Variables K I : Type.
  Variable key : I -> K.
  Variable worse : K -> K -> bool.
  Variables dom feq : K -> K -> bool.
  Variable sim : I -> I -> bool.
  Variable uidf : I -> nat.
  Variable UK : K -> Prop.
  Hypothesis dom_irrefl : forall a, UK a -> dom a a = false.
  Hypothesis dom_trans : forall a b c, UK a -> UK b -> UK c ->
    dom a b = true -> dom b c = true -> dom a c = true.
  Hypothesis feq_refl : forall a, UK a -> feq a a = true.
  Hypothesis dom_compat_l : forall a a' c, UK a -> UK a' -> UK c ->
    feq a a' = true -> dom a c = true -> dom a' c = true.
  Hypothesis sim_refl : forall x, UK (key x) -> sim x x = true.
  Variable cap : nat.

  Notation arch := (arch K I).
  Notation ins := (arch_insert key worse).
  Notation pstep := (pf_step key worse dom feq sim cap).
  Notation pevicts := (pf_step_evicts key worse dom feq sim cap).
  Notation PInv := (PInv K I key dom cap).
  Notation useen := (useen K I key UK).
  Notation final := (final K I cap).

  (* one individual per uid among everything shown *)
  Definition uid_inj (seen : list I) : Prop :=
    forall s t, In s seen -> In t seen -> uidf s = uidf t -> s = t.

  Definition distinct (seen : list I) : nat := length (nodup Nat.eq_dec (map uidf seen)).

  Lemma distinct_mono s1 s2 : incl s1 s2 -> distinct s1 <= distinct s2.
  Proof.
    intros Inc. unfold distinct. apply NoDup_incl_length; [apply NoDup_nodup|].
    intros u Hu. apply nodup_In. apply nodup_In in Hu. apply in_map_iff in Hu.
    destruct Hu as (x & <- & Hx). apply in_map, Inc, Hx.
  Qed.

  Lemma prune_desc_nodup ds : forall a,
    NoDup (map uidf (items a)) -> NoDup (map uidf (items (prune_desc K I a ds))).
  Proof.
    induction ds as [|d ds IH]; intros a H; simpl; [exact H|].
    apply IH. unfold HofProofs.remove_nat. simpl. rewrite map_del_at. apply NoDup_del_at, H.
  Qed.

  Lemma final_nodup a2 : NoDup (map uidf (items a2)) -> NoDup (map uidf (items (final a2))).
  Proof.
    intros H. unfold ParetoProofs.final. destruct (over_capacity cap a2); [|exact H].
    unfold HofProofs.remove_nat. simpl. rewrite map_del_at. apply NoDup_del_at, H.
  Qed.

  (* inserting: the newcomer's uid is not archived *)
  Lemma uid_step_aux seen a ind :
    useen (seen ++ [ind]) -> uid_inj (seen ++ [ind]) -> PInv seen a -> NoDup (map uidf (items a)) ->
    NoDup (map uidf (items (pstep a ind))) /\
    (pevicts a ind = true -> cap < distinct (seen ++ [ind])).
  Proof.
    intros Us Ui [M Hnd Inc Hcap] Nd.
    assert (Uind : UK (key ind)) by (apply Us; apply in_or_app; right; left; reflexivity).
    assert (Uit : forall x, In x (items a) -> UK (key x)).
    { intros x Hx. apply Us. apply in_or_app. left. apply Inc, Hx. }
    destruct (pf_step_cases K I key worse dom feq sim UK dom_trans dom_compat_l cap a ind Hnd M Uit Uind)
      as [(E & Ev & _)|(ds & D & M1 & Hkeep & Hfree & E & Ev)].
    - rewrite E, Ev. split; [exact Nd|discriminate].
    - cbv zeta in *. set (a1 := prune_desc K I a ds) in *. rewrite E, Ev.
      assert (N2 : NoDup (map uidf (items (ins a1 ind)))).
      { apply (Permutation_NoDup (l := map uidf (ind :: items a1))).
        - apply Permutation_map. symmetry. apply arch_insert_perm.
        - simpl. constructor; [|apply prune_desc_nodup, Nd].
          intros Hin. apply in_map_iff in Hin. destruct Hin as (x & Ex & Hx).
          assert (x = ind).
          { apply Ui; [|apply in_or_app; right; left; reflexivity|exact Ex].
            apply in_or_app. left. apply Inc. eapply prune_desc_in, Hx. }
          subst x. destruct (Hfree ind Hx) as (_ & _ & T).
          rewrite feq_refl, sim_refl in T by exact Uind. discriminate. }
      split; [apply final_nodup, N2|].
      intros Ov. unfold over_capacity in Ov. apply andb_true_iff in Ov. destruct Ov as [Ov _].
      apply Nat.ltb_lt in Ov. eapply Nat.lt_le_trans; [exact Ov|].
      unfold size, distinct. rewrite <- (map_length uidf). apply NoDup_incl_length; [exact N2|].
      intros u Hu. apply nodup_In. apply in_map_iff in Hu. destruct Hu as (x & <- & Hx). apply in_map.
      apply arch_insert_in in Hx. destruct Hx as [->|Hx].
      + apply in_or_app. right. left. reflexivity.
      + apply in_or_app. left. apply Inc. eapply prune_desc_in, Hx.
  Qed.

  Lemma uid_inj_app_l s1 s2 : uid_inj (s1 ++ s2) -> uid_inj s1.
  Proof. intros H s t Hs Ht. apply H; apply in_or_app; left; assumption. Qed.

  (* when no more distinct individuals are shown than the capacity holds, nothing is evicted *)
  Lemma few_no_evict inds : forall seen a,
    useen (seen ++ inds) -> uid_inj (seen ++ inds) -> PInv seen a -> NoDup (map uidf (items a)) ->
    distinct (seen ++ inds) <= cap ->
    pf_no_evict key worse dom feq sim cap a inds = true.
  Proof.
    induction inds as [|x r IH]; intros seen a Us Ui H Nd Few; simpl; [reflexivity|].
    replace (seen ++ x :: r) with ((seen ++ [x]) ++ r) in * by (rewrite <- app_assoc; reflexivity).
    pose proof (useen_app_l K I key UK _ _ Us) as Us1. pose proof (uid_inj_app_l _ _ Ui) as Ui1.
    destruct (uid_step_aux seen a x Us1 Ui1 H Nd) as [Nd1 Ev].
    apply andb_true_iff. split.
    - apply negb_true_iff. destruct (pevicts a x) eqn:E; [|reflexivity]. exfalso.
      specialize (Ev eq_refl).
      assert (distinct (seen ++ [x]) <= distinct ((seen ++ [x]) ++ r)) by (apply distinct_mono, incl_appl, incl_refl).
      lia.
    - apply (IH (seen ++ [x])); try assumption.
      apply (PInv_step K I key worse dom feq sim UK dom_irrefl dom_trans dom_compat_l cap); assumption.
  Qed.
  (* whatever the similarity function: the front never holds more members than individuals were
     shown (counted with repeats), so nothing is evicted while that number stays within the capacity *)
  Lemma size_step seen a ind :
    useen (seen ++ [ind]) -> PInv seen a ->
    size (pstep a ind) <= S (size a) /\ (pevicts a ind = true -> cap < S (size a)).
  Proof.
    intros Us [M Hnd Inc Hcap].
    assert (Uind : UK (key ind)) by (apply Us; apply in_or_app; right; left; reflexivity).
    assert (Uit : forall x, In x (items a) -> UK (key x)).
    { intros x Hx. apply Us. apply in_or_app. left. apply Inc, Hx. }
    destruct (pf_step_cases K I key worse dom feq sim UK dom_trans dom_compat_l cap a ind Hnd M Uit Uind)
      as [(E & Ev & _)|(ds & D & M1 & Hkeep & Hfree & E & Ev)].
    - rewrite E, Ev. split; [lia|discriminate].
    - cbv zeta in *. rewrite E, Ev.
      assert (Z2 : size (ins (prune_desc K I a ds) ind) <= S (size a)).
      { rewrite arch_insert_size, (prune_desc_size K I ds a D). lia. }
      split.
      + unfold ParetoProofs.final. destruct (over_capacity cap _); [|exact Z2].
        rewrite remove_nat_size; [lia|]. rewrite arch_insert_size. lia.
      + intros Ov. unfold over_capacity in Ov. apply andb_true_iff in Ov. destruct Ov as [Ov _].
        apply Nat.ltb_lt in Ov. lia.
  Qed.

  Lemma count_no_evict inds : forall seen a,
    useen (seen ++ inds) -> PInv seen a -> size a <= length seen -> length (seen ++ inds) <= cap ->
    pf_no_evict key worse dom feq sim cap a inds = true.
  Proof.
    induction inds as [|x r IH]; intros seen a Us H Z Few; simpl; [reflexivity|].
    replace (seen ++ x :: r) with ((seen ++ [x]) ++ r) in * by (rewrite <- app_assoc; reflexivity).
    pose proof (useen_app_l K I key UK _ _ Us) as Us1.
    destruct (size_step seen a x Us1 H) as [Z1 Ev].
    assert (L : length (seen ++ [x]) = S (length seen)) by (rewrite app_length; simpl; lia).
    assert (L2 : length (seen ++ [x]) <= length ((seen ++ [x]) ++ r)) by (rewrite (app_length (seen ++ [x]) r); lia).
    apply andb_true_iff. split.
    - apply negb_true_iff. destruct (pevicts a x) eqn:E; [|reflexivity]. specialize (Ev eq_refl). lia.
    - apply (IH (seen ++ [x])); try assumption; [|lia].
      apply (PInv_step K I key worse dom feq sim UK dom_irrefl dom_trans dom_compat_l cap); assumption.
  Qed.
End FrontUids.

(* ====================== the Pareto front of individuals ====================== *)
(* hypotheses of C08 on what is shown to a Pareto archive: valid multi-objective fitness values,
   pairwise identical or clearly separated *)
Definition all_multi (u : list fit) : Prop := forall f, In f u -> exists vs ws, f = Multi vs ws.
Definition shown_multi (seen : list indiv) : Prop :=
  SepU (map fitness seen) /\ all_multi (map fitness seen).

Section FrontConcrete.
  Variable sim : indiv -> indiv -> bool.   (* any user-supplied similarity function *)
  Variable cap : nat.
  Variable seen_all : list indiv.
  Hypothesis HS : SepU (map fitness seen_all).
  Hypothesis HM : all_multi (map fitness seen_all).

  Let U := inU (map fitness seen_all).
  Let nobot := fun _ : fit => false.
  Let wb := u_worse_nobot _ HS.
  Let bi := u_better_irrefl _ HS.
  Let bt := u_better_trans _ HS.
  Let bn := u_better_negtrans _ HS.
  Let di := u_dom_irrefl _ HS HM.
  Let dt := u_dom_trans _ HS HM.
  Let fr := u_feq_refl _ HS.
  Let fs := u_feq_sym _ HS.
  Let cl := u_dom_compat_l _ HS HM.
  Let cr := u_dom_compat_r _ HS HM.
  Let db := u_dom_better _ HS HM.

  Lemma useen_of seen : incl seen seen_all -> useen fit indiv fitness U seen.
  Proof. intros Inc s Hs. apply in_map, Inc, Hs. Qed.

  Lemma front_PInv pops :
    incl (concat pops) seen_all ->
    PInv fit indiv fitness f_dom cap (concat pops) (pf_run fitness f_worse f_dom f_eq sim cap empty_arch pops).
  Proof.
    intros Inc. unfold pf_runs.
    apply (pareto_inv_run fit indiv fitness f_worse f_dom f_eq sim U di dt cl cap).
    apply useen_of, Inc.
  Qed.

  Lemma front_sorted pops :
    incl (concat pops) seen_all -> ksorted fit indiv f_better (pf_run fitness f_worse f_dom f_eq sim cap empty_arch pops).
  Proof.
    intros Inc. rewrite pf_run_fold.
    apply (sorted_fold fit indiv fitness f_worse f_better f_dom f_eq sim U nobot wb bi bt bn di dt cl cap
             (concat pops) [] empty_arch).
    - apply useen_of, Inc.
    - apply PInv_empty.
    - constructor.
  Qed.

  Lemma front_exact pops :
    incl (concat pops) seen_all ->
    pf_no_evict fitness f_worse f_dom f_eq sim cap empty_arch (concat pops) = true ->
    let a := pf_run fitness f_worse f_dom f_eq sim cap empty_arch pops in
    (forall m, In m (items a) -> In m (concat pops) /\
               forall s, In s (concat pops) -> f_dom (fitness s) (fitness m) = false) /\
    (forall s, In s (concat pops) -> (forall s', In s' (concat pops) -> f_dom (fitness s') (fitness s) = false) ->
               exists m, In m (items a) /\ f_eq (fitness m) (fitness s) = true).
  Proof.
    intros Inc Ne a.
    apply (exact_of_cov fit indiv fitness f_dom f_eq U dt fs cl cap).
    - apply useen_of, Inc.
    - apply front_PInv, Inc.
    - unfold a. rewrite pf_run_fold.
      apply (Cov_fold fit indiv fitness f_worse f_dom f_eq sim U di dt fr fs cl cr cap (concat pops) [] empty_arch).
      + apply useen_of, Inc.
      + apply PInv_empty.
      + intros s [].
      + exact Ne.
  Qed.

  Lemma front_best_update pops pop h rest :
    incl (concat pops ++ pop) seen_all ->
    items (pf_run fitness f_worse f_dom f_eq sim cap empty_arch pops) = h :: rest ->
    exists h' rest', items (pf_update fitness f_worse f_dom f_eq sim cap (pf_run fitness f_worse f_dom f_eq sim cap empty_arch pops) pop) = h' :: rest' /\
                     f_better (fitness h) (fitness h') = false.
  Proof.
    intros Inc E. 
    assert (Inc1 : incl (concat pops) seen_all) by (intros x Hx; apply Inc; apply in_or_app; left; exact Hx).
    apply (front_best_never_worse fit indiv fitness f_worse f_better f_dom f_eq sim U nobot wb bi bt bn di dt cl db cap
             (concat pops) _ pop h rest).
    - apply useen_of, Inc.
    - apply front_PInv, Inc1.
    - apply front_sorted, Inc1.
    - exact E.
  Qed.
  Lemma front_few_no_evict pops :
    (forall x, U (fitness x) -> sim x x = true) ->
    incl (concat pops) seen_all -> uid_inj indiv uid (concat pops) ->
    distinct indiv uid (concat pops) <= cap ->
    pf_no_evict fitness f_worse f_dom f_eq sim cap empty_arch (concat pops) = true.
  Proof.
    intros Hrefl Inc Ui Few.
    apply (few_no_evict fit indiv fitness f_worse f_dom f_eq sim uid U di dt fr cl Hrefl cap
             (concat pops) [] empty_arch).
    - apply useen_of, Inc.
    - exact Ui.
    - apply PInv_empty.
    - constructor.
    - exact Few.
  Qed.
  Lemma front_count_no_evict pops :
    incl (concat pops) seen_all -> length (concat pops) <= cap ->
    pf_no_evict fitness f_worse f_dom f_eq sim cap empty_arch (concat pops) = true.
  Proof.
    intros Inc Few.
    apply (count_no_evict fit indiv fitness f_worse f_dom f_eq sim U di dt cl cap (concat pops) [] empty_arch).
    - apply useen_of, Inc.
    - apply PInv_empty.
    - unfold size. simpl. lia.
    - exact Few.
  Qed.
End FrontConcrete.

(* (4) members never dominate one another; keys mirror items; only individuals shown; the
   capacity is respected -- after any sequence of updates, whatever the capacity *)
Theorem pareto_inv_sim sim cap pops :
  shown_multi (concat pops) ->
  let a := pf_run fitness f_worse f_dom f_eq sim cap empty_arch pops in
  keys a = rev (map fitness (items a)) /\
  (forall x y, In x (items a) -> In y (items a) -> f_dom (fitness x) (fitness y) = false) /\
  incl (items a) (concat pops) /\
  (0 < cap -> length (items a) <= cap) /\
  StronglySorted (fun x y => f_better x y = false) (keys a).
Proof.
  intros [S M] a.
  destruct (front_PInv sim cap (concat pops) S M pops (incl_refl _)) as [Mi Nd Inc Cap].
  repeat split; try assumption.
  apply (front_sorted sim cap (concat pops) S M pops (incl_refl _)).
Qed.

(* (5) as long as the capacity eviction never fired, the archived fitness vectors are exactly the
   non-dominated vectors among everything shown *)
Theorem pareto_exact_sim sim cap pops :
  shown_multi (concat pops) ->
  pf_no_evict fitness f_worse f_dom f_eq sim cap empty_arch (concat pops) = true ->
  let seen := concat pops in
  let a := pf_run fitness f_worse f_dom f_eq sim cap empty_arch pops in
  (forall m, In m (items a) -> In m seen /\ forall s, In s seen -> f_dom (fitness s) (fitness m) = false) /\
  (forall s, In s seen -> (forall s', In s' seen -> f_dom (fitness s') (fitness s) = false) ->
             exists m, In m (items a) /\ f_eq (fitness m) (fitness s) = true).
Proof.
  intros [S M] Ne. apply (front_exact sim cap (concat pops) S M pops (incl_refl _) Ne).
Qed.

(* an unbounded front (maxsize None / 0) never evicts *)
Lemma no_evict_unbounded_sim sim inds : forall a,
  pf_no_evict fitness f_worse f_dom f_eq sim 0 a inds = true.
Proof.
  induction inds as [|x r IH]; intros a; simpl; [reflexivity|].
  rewrite IH, andb_true_r. unfold pf_step_evicts, over_capacity. simpl. rewrite !andb_false_r. reflexivity.
Qed.

Theorem pareto_exact_unbounded_sim sim pops :
  shown_multi (concat pops) ->
  let seen := concat pops in
  let a := pf_run fitness f_worse f_dom f_eq sim 0 empty_arch pops in
  (forall m, In m (items a) -> In m seen /\ forall s, In s seen -> f_dom (fitness s) (fitness m) = false) /\
  (forall s, In s seen -> (forall s', In s' seen -> f_dom (fitness s') (fitness s) = false) ->
             exists m, In m (items a) /\ f_eq (fitness m) (fitness s) = true).
Proof. intros H. apply pareto_exact_sim; [exact H|apply no_evict_unbounded_sim]. Qed.

(* ... and for a bounded front as long as no more distinct individuals were shown than it holds
   (the observable condition used by the oracle Keeper.pareto_clauses) *)
Definition uid_injective (seen : list indiv) : Prop :=
  forall s t, In s seen -> In t seen -> uid s = uid t -> s = t.

Theorem pareto_exact_few_sim sim cap pops :
  (forall x, In (fitness x) (map fitness (concat pops)) -> sim x x = true) ->
  shown_multi (concat pops) -> uid_injective (concat pops) ->
  length (nodup Nat.eq_dec (map uid (concat pops))) <= cap ->
  let seen := concat pops in
  let a := pf_run fitness f_worse f_dom f_eq sim cap empty_arch pops in
  (forall m, In m (items a) -> In m seen /\ forall s, In s seen -> f_dom (fitness s) (fitness m) = false) /\
  (forall s, In s seen -> (forall s', In s' seen -> f_dom (fitness s') (fitness s) = false) ->
             exists m, In m (items a) /\ f_eq (fitness m) (fitness s) = true).
Proof.
  intros Hrefl H Ui Few. apply pareto_exact_sim; [exact H|]. destruct H as [S M].
  apply (front_few_no_evict sim cap (concat pops) S M pops); [|apply incl_refl|exact Ui|exact Few].
  exact Hrefl.
Qed.

(* ... and, for ANY similarity function, as long as no more individuals (counted with repeats) were
   shown than the front can hold *)
Theorem pareto_exact_count_sim sim cap pops :
  shown_multi (concat pops) -> length (concat pops) <= cap ->
  let seen := concat pops in
  let a := pf_run fitness f_worse f_dom f_eq sim cap empty_arch pops in
  (forall m, In m (items a) -> In m seen /\ forall s, In s seen -> f_dom (fitness s) (fitness m) = false) /\
  (forall s, In s seen -> (forall s', In s' seen -> f_dom (fitness s') (fitness s) = false) ->
             exists m, In m (items a) /\ f_eq (fitness m) (fitness s) = true).
Proof.
  intros H Few. apply pareto_exact_sim; [exact H|]. destruct H as [S M].
  apply (front_count_no_evict sim cap (concat pops) S M pops (incl_refl _) Few).
Qed.

(* the lexicographically best member never gets worse from one update to the next, whatever
   the capacity *)
Theorem pareto_best_never_worse_sim sim cap pops pop h rest :
  shown_multi (concat (pops ++ [pop])) ->
  items (pf_run fitness f_worse f_dom f_eq sim cap empty_arch pops) = h :: rest ->
  exists h' rest', items (pf_run fitness f_worse f_dom f_eq sim cap empty_arch (pops ++ [pop])) = h' :: rest' /\
                   f_better (fitness h) (fitness h') = false.
Proof.
  intros [S M] E. rewrite concat_app in S, M. simpl in S, M. rewrite app_nil_r in S, M.
  unfold pf_run. rewrite fold_left_app. simpl.
  apply (front_best_update sim cap (concat pops ++ pop) S M pops pop h rest (incl_refl _) E).
Qed.

(* on the universe shown, dominance is Pareto dominance of the (weighted) value vectors and
   == is identity of the vectors *)
Theorem dom_is_pareto seen s t :
  shown_multi seen -> In s seen -> In t seen ->
  (f_dom (fitness s) (fitness t) = true <-> pareto (vals (fitness s)) (vals (fitness t))) /\
  f_eq (fitness s) (fitness t) = identical (vals (fitness s)) (vals (fitness t)).
Proof.
  intros [S M] Hs Ht. split.
  - apply (u_fdom _ S M); apply in_map; assumption.
  - apply (u_feq _ S); apply in_map; assumption.
Qed.

(* ---------- the similarity functions the harness constructs fronts with ---------- *)
Lemma opt_nat_eqb_refl o : opt_nat_eqb o o = true.
Proof. destruct o; simpl; [apply Nat.eqb_refl|reflexivity]. Qed.

Definition sim_reflexive (sk : simkind) : bool := match sk with SimNever => false | _ => true end.

Lemma sim_of_refl sk seen x :
  SepU (map fitness seen) -> sim_reflexive sk = true -> In (fitness x) (map fitness seen) -> sim_of sk x x = true.
Proof.
  intros S R Hx. destruct sk; simpl; try discriminate; try reflexivity.
  - apply Nat.eqb_refl.
  - unfold sim_same. rewrite (u_feq_refl _ S _ Hx), opt_nat_eqb_refl, Nat.eqb_refl. reflexivity.
  - apply Nat.eqb_refl.
Qed.

Theorem pareto_inv sk cap pops :
  shown_multi (concat pops) ->
  let a := pf_runs sk cap empty_arch pops in
  keys a = rev (map fitness (items a)) /\
  (forall x y, In x (items a) -> In y (items a) -> f_dom (fitness x) (fitness y) = false) /\
  incl (items a) (concat pops) /\
  (0 < cap -> length (items a) <= cap) /\
  StronglySorted (fun x y => f_better x y = false) (keys a).
Proof. exact (pareto_inv_sim (sim_of sk) cap pops). Qed.

Theorem pareto_exact sk cap pops :
  shown_multi (concat pops) ->
  pf_no_evict fitness f_worse f_dom f_eq (sim_of sk) cap empty_arch (concat pops) = true ->
  let seen := concat pops in
  let a := pf_runs sk cap empty_arch pops in
  (forall m, In m (items a) -> In m seen /\ forall s, In s seen -> f_dom (fitness s) (fitness m) = false) /\
  (forall s, In s seen -> (forall s', In s' seen -> f_dom (fitness s') (fitness s) = false) ->
             exists m, In m (items a) /\ f_eq (fitness m) (fitness s) = true).
Proof. exact (pareto_exact_sim (sim_of sk) cap pops). Qed.

Theorem pareto_exact_unbounded sk pops :
  shown_multi (concat pops) ->
  let seen := concat pops in
  let a := pf_runs sk 0 empty_arch pops in
  (forall m, In m (items a) -> In m seen /\ forall s, In s seen -> f_dom (fitness s) (fitness m) = false) /\
  (forall s, In s seen -> (forall s', In s' seen -> f_dom (fitness s') (fitness s) = false) ->
             exists m, In m (items a) /\ f_eq (fitness m) (fitness s) = true).
Proof. exact (pareto_exact_unbounded_sim (sim_of sk) pops). Qed.

Theorem pareto_exact_few sk cap pops :
  sim_reflexive sk = true ->
  shown_multi (concat pops) -> uid_injective (concat pops) ->
  length (nodup Nat.eq_dec (map uid (concat pops))) <= cap ->
  let seen := concat pops in
  let a := pf_runs sk cap empty_arch pops in
  (forall m, In m (items a) -> In m seen /\ forall s, In s seen -> f_dom (fitness s) (fitness m) = false) /\
  (forall s, In s seen -> (forall s', In s' seen -> f_dom (fitness s') (fitness s) = false) ->
             exists m, In m (items a) /\ f_eq (fitness m) (fitness s) = true).
Proof.
  intros R H. apply (pareto_exact_few_sim (sim_of sk) cap pops); [|exact H].
  intros x Hx. apply (sim_of_refl sk (concat pops)); [apply H|exact R|exact Hx].
Qed.

Theorem pareto_best_never_worse sk cap pops pop h rest :
  shown_multi (concat (pops ++ [pop])) ->
  items (pf_runs sk cap empty_arch pops) = h :: rest ->
  exists h' rest', items (pf_runs sk cap empty_arch (pops ++ [pop])) = h' :: rest' /\
                   f_better (fitness h) (fitness h') = false.
Proof. exact (pareto_best_never_worse_sim (sim_of sk) cap pops pop h rest). Qed.
