(* Boolean relations on {0..n-1} as matrices, relational composition, exact-length walks and
   the transitive closure by n-fold composition; with the completeness theorem
   ("n-fold composition computes reachability on n nodes").

   Reusable: nothing here knows about graphs of GOLEM.  Used by the independent oracles of
   C12 (Graph/QueriesSpec.v) and meant for C03 as well.

   Main results
     wk_iff        : mget (wk n a k) x y = true  <->  a walk with exactly k edges leads from x to y
     tc_iff        : mget (tc n a) x y = true    <->  a walk with at least one edge leads from x to y
     walk_shorten  : a non-empty walk between vertices of {0..n-1} can be cut down to <= n edges
     long_walk_cycle : a walk with >= n edges passes through a vertex lying on a cycle          *)
From Coq Require Import List Arith Bool Lia.
Import ListNotations.

(* ---------------------------------------------------------------------------------------- *)
(* matrices                                                                                  *)
(* ---------------------------------------------------------------------------------------- *)
Definition bmat := list (list bool).

Definition mget (m : bmat) (x y : nat) : bool := nth y (nth x m []) false.

Definition mk (n : nat) (f : nat -> nat -> bool) : bmat :=
  map (fun x => map (f x) (seq 0 n)) (seq 0 n).

(* relational composition, union, identity *)
Definition mcomp (n : nat) (A B : bmat) : bmat :=
  mk n (fun x y => existsb (fun z => mget A x z && mget B z y) (seq 0 n)).

Definition mor (n : nat) (A B : bmat) : bmat := mk n (fun x y => mget A x y || mget B x y).

Definition mid (n : nat) : bmat := mk n Nat.eqb.

(* walks with exactly k edges *)
Fixpoint wk (n : nat) (a : bmat) (k : nat) : bmat :=
  match k with
  | O => mid n
  | S k' => mcomp n (wk n a k') a
  end.

(* union of the walks with 1 .. k+1 edges *)
Fixpoint tcl (n : nat) (a : bmat) (k : nat) : bmat :=
  match k with
  | O => wk n a 1
  | S k' => let r := tcl n a k' in mor n r (mcomp n r a)
  end.

(* transitive (not reflexive) closure: n-fold composition *)
Definition tc (n : nat) (a : bmat) : bmat := tcl n a n.

(* row x of the matrix has a true entry *)
Definition row_nonempty (n : nat) (m : bmat) (x : nat) : bool := existsb (mget m x) (seq 0 n).

(* ---------------------------------------------------------------------------------------- *)
(* walks as vertex lists                                                                     *)
(* ---------------------------------------------------------------------------------------- *)
Section Walks.
  Variable E : nat -> nat -> Prop.

  (* chain x l : x -> l1 -> l2 -> ... is a walk (l lists the vertices after x) *)
  Fixpoint chain (x : nat) (l : list nat) : Prop :=
    match l with
    | [] => True
    | y :: r => E x y /\ chain y r
    end.

  Definition walk (x : nat) (l : list nat) (y : nat) : Prop := chain x l /\ last l x = y.

  Lemma last_cons_indep : forall (l : list nat) a d d', last (a :: l) d = last (a :: l) d'.
  Proof.
    induction l as [|b l IH]; intros a d d'; [reflexivity|].
    change (last (a :: b :: l) d) with (last (b :: l) d).
    change (last (a :: b :: l) d') with (last (b :: l) d'). apply IH.
  Qed.

  Lemma last_cons : forall (l : list nat) a d, last (a :: l) d = last l a.
  Proof.
    induction l as [|b l IH]; intros a d; [reflexivity|].
    change (last (a :: b :: l) d) with (last (b :: l) d). rewrite IH.
    change (last (b :: l) a) with (last (b :: l) a). symmetry. apply IH.
  Qed.

  Lemma last_app_cons : forall (a : list nat) v c d, last (a ++ v :: c) d = last c v.
  Proof.
    induction a as [|x a IH]; intros v c d.
    - simpl app. apply last_cons.
    - change ((x :: a) ++ v :: c) with (x :: (a ++ v :: c)).
      rewrite last_cons. apply IH.
  Qed.

  Lemma chain_app : forall a x b, chain x (a ++ b) <-> chain x a /\ chain (last a x) b.
  Proof.
    induction a as [|y a IH]; intros x b.
    - simpl. tauto.
    - change ((y :: a) ++ b) with (y :: (a ++ b)). cbn [chain].
      rewrite IH, last_cons. tauto.
  Qed.

  Lemma walk_nil : forall x, walk x [] x.
  Proof. intros x; split; simpl; auto. Qed.

  Lemma walk_snoc : forall x l y z, walk x l y -> E y z -> walk x (l ++ [z]) z.
  Proof.
    intros x l y z [Hc Hl] Hyz. split.
    - apply chain_app. split; [exact Hc|]. rewrite Hl. simpl. auto.
    - apply last_last.
  Qed.

  Lemma walk_snoc_inv : forall x l z y, walk x (l ++ [z]) y -> y = z /\ exists w, walk x l w /\ E w z.
  Proof.
    intros x l z y [Hc Hl]. rewrite last_last in Hl. split; [congruence|].
    apply chain_app in Hc. destruct Hc as [Hc1 Hc2]. simpl in Hc2.
    exists (last l x). split; [split; auto|tauto].
  Qed.

  Lemma walk_cons : forall x y l z, E x y -> walk y l z -> walk x (y :: l) z.
  Proof.
    intros x y l z Hxy [Hc Hl]. split; [simpl; auto|]. rewrite last_cons. exact Hl.
  Qed.

  Lemma walk_cons_inv : forall x y l z, walk x (y :: l) z -> E x y /\ walk y l z.
  Proof.
    intros x y l z [Hc Hl]. simpl in Hc. rewrite last_cons in Hl. destruct Hc; repeat split; auto.
  Qed.

  Lemma walk_app : forall x a y b z, walk x a y -> walk y b z -> walk x (a ++ b) z.
  Proof.
    intros x a y b z [Hc1 Hl1] [Hc2 Hl2]. split.
    - apply chain_app. rewrite Hl1. auto.
    - destruct b as [|v b].
      + rewrite app_nil_r. simpl in Hl2. congruence.
      + rewrite last_app_cons. rewrite last_cons in Hl2. exact Hl2.
  Qed.

  Lemma walk_app_inv : forall x a b z, walk x (a ++ b) z -> exists y, walk x a y /\ walk y b z.
  Proof.
    intros x a b z [Hc Hl]. apply chain_app in Hc. destruct Hc as [H1 H2].
    exists (last a x). split; [split; auto|]. split; [exact H2|].
    destruct b as [|v b].
    - rewrite app_nil_r in Hl. exact Hl.
    - rewrite last_app_cons in Hl. rewrite last_cons. exact Hl.
  Qed.

  (* a list with a repeated element splits around the two occurrences *)
  Lemma dup_split : forall l : list nat, ~ NoDup l -> exists a v b c, l = a ++ v :: b ++ v :: c.
  Proof.
    induction l as [|x l IH]; intros H.
    - exfalso. apply H. constructor.
    - destruct (in_dec Nat.eq_dec x l) as [Hin|Hnin].
      + apply in_split in Hin. destruct Hin as [b [c ->]].
        exists [], x, b, c. reflexivity.
      + destruct IH as [a [v [b [c ->]]]].
        * intros Hnd. apply H. constructor; assumption.
        * exists (x :: a), v, b, c. reflexivity.
  Qed.

  Lemma chain_in_range : forall n, (forall x y, E x y -> x < n /\ y < n) ->
    forall l x, chain x l -> forall v, In v l -> v < n.
  Proof.
    intros n HE. induction l as [|y l IH]; intros x Hc v Hv; [contradiction|].
    simpl in Hc. destruct Hc as [Hxy Hc]. destruct Hv as [<-|Hv].
    - apply (HE _ _ Hxy).
    - eapply IH; eauto.
  Qed.

  (* cut one loop out of a walk that is longer than the number of vertices *)
  Lemma walk_cut : forall n, (forall x y, E x y -> x < n /\ y < n) ->
    forall l x y, walk x l y -> n < length l ->
    exists a v b c, l = a ++ v :: b ++ v :: c /\ walk x (a ++ v :: c) y /\ walk v (b ++ [v]) v.
  Proof.
    intros n HE l x y Hw Hlen.
    assert (Hnd : ~ NoDup l).
    { intros Hnd. assert (length l <= length (seq 0 n)).
      { apply NoDup_incl_length; [exact Hnd|]. intros v Hv. apply in_seq.
        pose proof (chain_in_range n HE l x (proj1 Hw) v Hv). lia. }
      rewrite seq_length in H. lia. }
    destruct (dup_split l Hnd) as [a [v [b [c ->]]]].
    exists a, v, b, c. split; [reflexivity|].
    replace (a ++ v :: b ++ v :: c) with ((a ++ [v]) ++ (b ++ [v]) ++ c) in Hw
      by (repeat (rewrite <- app_assoc; simpl); reflexivity).
    apply walk_app_inv in Hw. destruct Hw as [v1 [Hw1 Hw2]].
    apply walk_app_inv in Hw2. destruct Hw2 as [v2 [Hw2 Hw3]].
    assert (E1 : v1 = v) by (destruct Hw1 as [_ Hl1]; rewrite last_last in Hl1; congruence).
    assert (E2 : v2 = v) by (destruct Hw2 as [_ Hl2]; rewrite last_last in Hl2; congruence).
    subst v1 v2. split; [|exact Hw2].
    replace (a ++ v :: c) with ((a ++ [v]) ++ c) by (rewrite <- app_assoc; reflexivity).
    eapply walk_app; eauto.
  Qed.

  (* completeness of bounded search: every non-empty walk can be cut down to <= n edges *)
  Theorem walk_shorten : forall n, (forall x y, E x y -> x < n /\ y < n) ->
    forall k l x y, length l <= k -> walk x l y -> l <> [] ->
    exists l', walk x l' y /\ l' <> [] /\ length l' <= n.
  Proof.
    intros n HE. induction k as [|k IH]; intros l x y Hk Hw Hne.
    - destruct l; [congruence|simpl in Hk; lia].
    - destruct (le_lt_dec (length l) n) as [Hle|Hgt].
      + exists l. auto.
      + destruct (walk_cut n HE l x y Hw Hgt) as [a [v [b [c [-> [Hw' _]]]]]].
        apply (IH (a ++ v :: c) x y); [|exact Hw'|destruct a; discriminate].
        rewrite !app_length in *. simpl in *. rewrite app_length in Hk. simpl in Hk. lia.
  Qed.

  (* a walk longer than n edges contains a closed non-empty walk *)
  Theorem long_walk_cycle : forall n, (forall x y, E x y -> x < n /\ y < n) ->
    forall l x y, walk x l y -> n < length l ->
    exists v m, In v l /\ m <> [] /\ walk v m v.
  Proof.
    intros n HE l x y Hw Hlen.
    destruct (walk_cut n HE l x y Hw Hlen) as [a [v [b [c [-> [_ Hc]]]]]].
    exists v, (b ++ [v]). split; [apply in_or_app; right; left; reflexivity|].
    split; [destruct b; discriminate|exact Hc].
  Qed.
End Walks.

(* ---------------------------------------------------------------------------------------- *)
(* the matrices compute walks                                                                *)
(* ---------------------------------------------------------------------------------------- *)
Lemma mget_mk : forall n f x y, x < n -> y < n -> mget (mk n f) x y = f x y.
Proof.
  intros n f x y Hx Hy. unfold mget, mk.
  rewrite (nth_indep _ [] (map (f 0) (seq 0 n))) by (rewrite map_length, seq_length; exact Hx).
  rewrite (map_nth (fun x => map (f x) (seq 0 n)) (seq 0 n) 0 x).
  rewrite seq_nth by exact Hx. simpl.
  rewrite (nth_indep _ false (f x 0)) by (rewrite map_length, seq_length; exact Hy).
  rewrite (map_nth (f x) (seq 0 n) 0 y). rewrite seq_nth by exact Hy. reflexivity.
Qed.

Lemma mget_mk_range : forall n f x y, mget (mk n f) x y = true -> x < n /\ y < n.
Proof.
  intros n f x y H. unfold mget, mk in H.
  destruct (lt_dec x n) as [Hx|Hx].
  - split; [exact Hx|]. destruct (lt_dec y n) as [Hy|Hy]; [exact Hy|].
    rewrite (nth_indep _ [] (map (f 0) (seq 0 n))) in H by (rewrite map_length, seq_length; exact Hx).
    rewrite (map_nth (fun x => map (f x) (seq 0 n)) (seq 0 n) 0 x) in H.
    rewrite nth_overflow in H; [discriminate|]. rewrite map_length, seq_length. lia.
  - rewrite (nth_overflow (map _ _)) in H by (rewrite map_length, seq_length; lia).
    destruct y; discriminate.
Qed.

Lemma mget_mk_iff : forall n f x y, mget (mk n f) x y = true <-> x < n /\ y < n /\ f x y = true.
Proof.
  intros n f x y. split.
  - intros H. destruct (mget_mk_range _ _ _ _ H) as [Hx Hy]. rewrite mget_mk in H by assumption. auto.
  - intros [Hx [Hy H]]. rewrite mget_mk by assumption. exact H.
Qed.

Section Matrices.
  Variable n : nat.
  Variable a : bmat.

  (* the edge relation a matrix stands for (restricted to {0..n-1}) *)
  Definition mrel (x y : nat) : Prop := x < n /\ y < n /\ mget a x y = true.

  Lemma mrel_range : forall x y, mrel x y -> x < n /\ y < n.
  Proof. intros x y [H1 [H2 _]]. auto. Qed.

  Lemma mcomp_iff : forall A B x y,
    mget (mcomp n A B) x y = true <-> x < n /\ y < n /\ exists z, z < n /\ mget A x z = true /\ mget B z y = true.
  Proof.
    intros A B x y. unfold mcomp. rewrite mget_mk_iff, existsb_exists. split.
    - intros [Hx [Hy [z [Hz H]]]]. apply in_seq in Hz. apply andb_true_iff in H.
      split; [exact Hx|split; [exact Hy|]]. exists z. split; [lia|exact H].
    - intros [Hx [Hy [z [Hz H]]]]. split; [exact Hx|split; [exact Hy|]].
      exists z. split; [apply in_seq; lia|apply andb_true_iff; exact H].
  Qed.

  Lemma mor_iff : forall A B x y,
    mget (mor n A B) x y = true <-> x < n /\ y < n /\ (mget A x y = true \/ mget B x y = true).
  Proof. intros A B x y. unfold mor. rewrite mget_mk_iff, orb_true_iff. tauto. Qed.

  (* exact-length walks *)
  Theorem wk_iff : forall k x y,
    mget (wk n a k) x y = true <-> x < n /\ exists l, length l = k /\ walk mrel x l y.
  Proof.
    induction k as [|k IH]; intros x y.
    - cbn [wk]. unfold mid. rewrite mget_mk_iff. split.
      + intros [Hx [Hy H]]. apply Nat.eqb_eq in H. subst y. split; [exact Hx|].
        exists []. split; [reflexivity|apply walk_nil].
      + intros [Hx [l [Hl [_ Hw]]]]. destruct l; [|discriminate]. simpl in Hw. subst y.
        split; [exact Hx|split; [exact Hx|apply Nat.eqb_refl]].
    - cbn [wk]. rewrite mcomp_iff. split.
      + intros [Hx [Hy [z [Hz [H1 H2]]]]]. apply IH in H1. destruct H1 as [_ [l [Hl Hw]]].
        split; [exact Hx|]. exists (l ++ [y]). split; [rewrite app_length; simpl; lia|].
        eapply walk_snoc; [exact Hw|]. repeat split; assumption.
      + intros [Hx [l [Hl Hw]]].
        destruct (exists_last (l := l)) as [l0 [z ->]]; [destruct l; discriminate|].
        rewrite app_length in Hl. simpl in Hl.
        apply walk_snoc_inv in Hw. destruct Hw as [-> [w [Hw [Hw1 [Hw2 Hw3]]]]].
        split; [exact Hx|split; [exact Hw2|]]. exists w. split; [exact Hw1|].
        split; [|exact Hw3]. apply IH. split; [exact Hx|]. exists l0. split; [lia|exact Hw].
  Qed.

  Lemma walk_end_range : forall x l y, walk mrel x l y -> l <> [] -> y < n.
  Proof.
    intros x l y Hw Hne. destruct (exists_last Hne) as [l0 [z ->]].
    apply walk_snoc_inv in Hw. destruct Hw as [-> [w [_ [_ [Hz _]]]]]. exact Hz.
  Qed.

  Lemma tcl_iff : forall k x y,
    mget (tcl n a k) x y = true <-> x < n /\ exists l, l <> [] /\ length l <= S k /\ walk mrel x l y.
  Proof.
    induction k as [|k IH]; intros x y.
    - cbn [tcl]. rewrite wk_iff. split.
      + intros [Hx [l [Hl Hw]]]. split; [exact Hx|]. exists l.
        split; [destruct l; discriminate|]. split; [lia|exact Hw].
      + intros [Hx [l [Hne [Hl Hw]]]]. split; [exact Hx|]. exists l. split; [|exact Hw].
        destruct l; [congruence|simpl in *; lia].
    - cbn [tcl]. rewrite mor_iff, mcomp_iff. split.
      + intros [Hx [Hy [H|[_ [_ [z [Hz [H1 H2]]]]]]]].
        * apply IH in H. destruct H as [_ [l [Hne [Hl Hw]]]]. split; [exact Hx|].
          exists l. split; [exact Hne|]. split; [lia|exact Hw].
        * apply IH in H1. destruct H1 as [_ [l [Hne [Hl Hw]]]]. split; [exact Hx|].
          exists (l ++ [y]). split; [destruct l; discriminate|].
          split; [rewrite app_length; simpl; lia|].
          eapply walk_snoc; [exact Hw|]. repeat split; assumption.
      + intros [Hx [l [Hne [Hl Hw]]]].
        pose proof (walk_end_range _ _ _ Hw Hne) as Hy.
        split; [exact Hx|split; [exact Hy|]].
        destruct (le_lt_dec (length l) (S k)) as [Hs|Hs].
        * left. apply IH. split; [exact Hx|]. exists l. auto.
        * right. split; [exact Hx|split; [exact Hy|]].
          destruct (exists_last Hne) as [l0 [z ->]].
          rewrite app_length in Hl, Hs. simpl in Hl, Hs.
          apply walk_snoc_inv in Hw. destruct Hw as [-> [w [Hw [Hw1 [Hw2 Hw3]]]]].
          exists w. split; [exact Hw1|]. split; [|exact Hw3].
          apply IH. split; [exact Hx|]. exists l0.
          split; [destruct l0; [simpl in Hs; lia|discriminate]|]. split; [lia|exact Hw].
  Qed.

  (* closure completeness: n-fold composition computes reachability on n nodes *)
  Theorem tc_iff : forall x y,
    mget (tc n a) x y = true <-> x < n /\ exists l, l <> [] /\ walk mrel x l y.
  Proof.
    intros x y. unfold tc. rewrite tcl_iff. split.
    - intros [Hx [l [Hne [_ Hw]]]]. split; [exact Hx|]. exists l. auto.
    - intros [Hx [l [Hne Hw]]]. split; [exact Hx|].
      destruct (walk_shorten mrel n mrel_range (length l) l x y (le_n _) Hw Hne) as [l' [Hw' [Hne' Hl']]].
      exists l'. split; [exact Hne'|]. split; [lia|exact Hw'].
  Qed.

  Lemma row_nonempty_iff : forall m x,
    row_nonempty n m x = true <-> exists y, y < n /\ mget m x y = true.
  Proof.
    intros m x. unfold row_nonempty. rewrite existsb_exists. split.
    - intros [y [Hy H]]. apply in_seq in Hy. exists y. split; [lia|exact H].
    - intros [y [Hy H]]. exists y. split; [apply in_seq; lia|exact H].
  Qed.
End Matrices.
