(* Composition layer for property C06: the populational loop body of GOLEM as it is written
   (PopulationalOptimizer.optimise / _update_population / _log_to_history,
   EvoGraphOptimizer._initial_population / _extend_population / _evolve_population,
   get_structure_unique_population), as an executable function that PRODUCES the list of
   add_to_history calls consumed by History.run_history.  Definitions only.

   Part 1 (Section Loop) is generic: the operators are functions given to the loop, their
   contracts are stated in ComposeProofs.v in the form in which the operator properties prove them
   (C16: inheritance / elitism / reproduction, C05: evaluation, C02: variation, C08: archives).
   Part 2 instantiates the operators with the model functions of Evo/Inheritance.v, Evo/Elitism.v,
   Evo/Reproduction.v and the archives of Archive/Hof.v, Archive/Pareto.v (through Evo/Loop.arch_upd).
   Part 3 is the executable relation `step_admits` evaluated on observed transitions of real runs.

   Individuals are heap cells; the uid of an individual is its creation index (as in Evo/History.v:
   an Individual can only be built after its parents).  Populations are lists of uids.  The flag
   `valid` of a cell is the outcome of the only evaluation the individual ever gets (C05: an
   individual with a valid fitness is passed through, never evaluated again); it is false for an
   individual that is never evaluated or whose evaluations all fail. *)
From Coq Require Import List Bool Arith QArith.
From GolemV Require Import Fitness.Fitness Evo.History.
From GolemV Require Evo.Selection Evo.Elitism Evo.Inheritance Evo.Reproduction Archive.Hof Archive.Pareto Evo.Loop.
Import ListNotations.
Local Open Scope nat_scope.

(* MIN_POP_SIZE of golem/core/constants.py *)
Definition MIN_POP : nat := 5.

Section Loop.
  Variable C : Type.                         (* Individual objects *)
  Variable A : Type.                         (* state of the archive (GenerationKeeper.archive) *)
  Variable X : Type.                         (* state operators keep between steps (success-rate window) *)
  Variable a_items : A -> list nat.          (* generations.best_individuals *)
  Variable a_empty : A.

  Record cstate := {
    cs_heap : list C;                        (* every Individual created so far, by uid *)
    cs_pop : list nat;                       (* self.population *)
    cs_arch : A;
    cs_aux : X;
    cs_calls : list (label * list nat);      (* the add_to_history calls, in order *)
    cs_snaps : list (list nat) }.            (* the add_to_archive_history calls, in order *)

  (* ---- the operators ---- *)
  Variable evaluate : nat -> nat -> list C -> list nat -> list nat.     (* evaluator(pop): step, call site *)
  Variable arch_update : list C -> list (label * list nat) -> A -> list nat -> A.   (* generations.append(pop) *)
  Variable init_cells : list C.              (* Individual(graph) for the verified initial graphs *)
  Variable init_size : nat.                  (* graph_optimizer_params.pop_size at the start *)
  Variable extend : list C -> list nat -> nat -> list C * list nat.     (* _extend_population: objects created, those accepted *)
  Variable regularize : nat -> list C -> list nat -> list C * list nat.
  Variable reproduce : nat -> list C -> X -> list nat -> option (list C * list nat) * X.   (* None: EvaluationAttemptsError *)
  Variable inherit : nat -> list C -> list nat -> list nat -> list nat.
  Variable elitism : nat -> list C -> list nat -> list nat -> list nat.
  Variable div_freq : nat.                   (* structural_diversity_frequency_check; 0 stands for -1 (off) *)
  Variable div_min : nat.                    (* min(MIN_POP_SIZE, max_pop_size) *)
  Variable div_unique : nat -> list C -> list nat -> list nat.          (* values of the dict keyed by descriptive_id *)
  Variable div_refill : nat -> list C -> list nat -> nat -> list C.     (* self._extend_population(unique, min_pop_size): mutants (evo) / copies (base class) of members *)
  Variable stop : nat -> cstate -> bool.     (* self.stop_optimization() *)

  Definition fresh_ids (h cells : list C) : list nat := seq (length h) (length cells).

  (* PopulationalOptimizer._update_population + _log_to_history:
       self.generations.append(pop); history.add_to_history(pop, label);
       history.add_to_archive_history(self.generations.best_individuals); self.population = pop *)
  Definition update_population (s : cstate) (lab : label) (pop : list nat) : cstate :=
    let a := arch_update (cs_heap s) (cs_calls s) (cs_arch s) pop in
    {| cs_heap := cs_heap s; cs_pop := pop; cs_arch := a; cs_aux := cs_aux s;
       cs_calls := cs_calls s ++ [(lab, pop)]; cs_snaps := cs_snaps s ++ [a_items a] |}.

  Definition with_heap (s : cstate) (h : list C) (x : X) : cstate :=
    {| cs_heap := h; cs_pop := cs_pop s; cs_arch := cs_arch s; cs_aux := x;
       cs_calls := cs_calls s; cs_snaps := cs_snaps s |}.

  Definition s_init (x0 : X) : cstate :=
    {| cs_heap := init_cells; cs_pop := []; cs_arch := a_empty; cs_aux := x0;
       cs_calls := []; cs_snaps := [] |}.

  (* EvoGraphOptimizer._initial_population (PopulationalRandomMutationOptimizer: the same text) *)
  Definition initial_population (x0 : X) : cstate :=
    let ids := seq 0 (length init_cells) in
    let s1 := update_population (s_init x0) LInitial (evaluate 0 0 init_cells ids) in
    if length init_cells <? init_size then
      let '(cells, acc) := extend init_cells ids init_size in
      let h := init_cells ++ cells in
      update_population (with_heap s1 h x0) LExtended (evaluate 0 1 h (ids ++ acc))
    else s1.

  (* generation_num = number of keeper updates = number of recorded populations *)
  Definition div_due (s : cstate) : bool :=
    let n := length (cs_calls s) in
    negb (div_freq =? 0) && (n mod div_freq =? 0) && negb (n =? 0).

  (* EvoGraphOptimizer._evolve_population followed by the structural diversity step of optimise:
       regularization -> reproducer.reproduce -> inheritance -> elitism [-> get_structure_unique_population] *)
  Definition evolve (k : nat) (s : cstate) : option (cstate * list nat) :=
    let h0 := cs_heap s in
    let '(c1, sel) := regularize k h0 (cs_pop s) in
    let h1 := h0 ++ c1 in
    match reproduce k h1 (cs_aux s) sel with
    | (None, _) => None
    | (Some (c2, new), x') =>
        let h2 := h1 ++ c2 in
        let inh := inherit k h2 (cs_pop s) new in
        let eli := elitism k h2 (a_items (cs_arch s)) inh in
        if div_due s then
          let u := div_unique k h2 eli in
          let n := if (negb (length u =? 0)) && (length u <? div_min) then div_min - length u else 0 in
          let c3 := div_refill k h2 u n in
          let h3 := h2 ++ c3 in
          Some (with_heap s h3 x', evaluate k 2 h3 (u ++ fresh_ids h2 c3))
        else
          Some (with_heap s h2 x', eli)
    end.

  (* while not self.stop_optimization(): try: new = evolve ... except EvaluationAttemptsError: break;
     self._update_population(new) *)
  Fixpoint loop (fuel k : nat) (s : cstate) : cstate :=
    match fuel with
    | 0 => s
    | S f =>
        if stop k s then s
        else match evolve k s with
             | None => s
             | Some (s', newpop) => loop f (S k) (update_population s' LNone newpop)
             end
    end.

  (* optimise: ...; self._update_population(self.best_individuals, 'final_choices') *)
  Definition optimise (fuel : nat) (x0 : X) : cstate :=
    let s := loop fuel 0 (initial_population x0) in
    update_population s LFinal (a_items (cs_arch s)).
End Loop.

Arguments cs_heap {C A X} _.
Arguments cs_pop {C A X} _.
Arguments cs_arch {C A X} _.
Arguments cs_aux {C A X} _.
Arguments cs_calls {C A X} _.
Arguments cs_snaps {C A X} _.

(* ================================================================================================ *)
(* Part 2: the operators of the evolutionary optimiser, from the operator models                      *)
(* ================================================================================================ *)
Record ccell := {
  cc_fit : fit;                  (* fitness the individual ends up with (C09 model) *)
  cc_gclass : nat;               (* equality class of its graph (for _individuals_same) *)
  cc_verified : bool;            (* verdict of the configured verifier on its graph *)
  cc_op : option opkind;
  cc_parents : list nat }.

Definition cc_valid (c : ccell) : bool := valid (cc_fit c).

Definition flag {C} (f : C -> bool) (h : list C) (u : nat) : bool :=
  match nth_error h u with Some c => f c | None => false end.

Definition fit_at (h : list ccell) (u : nat) : fit :=
  match nth_error h u with Some c => cc_fit c | None => Single None [] end.
Definition gclass_at (h : list ccell) (u : nat) : nat :=
  match nth_error h u with Some c => cc_gclass c | None => 0 end.

(* the views the operator models work on *)
Definition ind_of (h : list ccell) (u : nat) : Selection.ind :=
  {| Selection.uid := u; Selection.fitness := fit_at h u |}.
Definition indiv_of (h : list ccell) (u : nat) : Hof.indiv :=
  {| Hof.uid := u; Hof.fitness := fit_at h u; Hof.gclass := gclass_at h u; Hof.ngen := None |}.

Definition to_hind (c : ccell) : hind :=
  {| h_valid := cc_valid c; h_verified := cc_verified c; h_op := cc_op c; h_parents := cc_parents c |}.

(* per-step configuration and random choices of the evolutionary operators *)
Record evo_step := {
  es_scheme : Inheritance.scheme;           (* genetic_scheme_type *)
  es_sel : Selection.sel_type;              (* the selection type drawn for the inheritance call *)
  es_sel_oracle : Selection.sel_oracle;     (* its random choices *)
  es_pop_size : nat;                        (* graph_optimizer_params.pop_size after _update_requirements *)
  es_eparams : Elitism.eparams;             (* elitism type, multi_objective, pop_size, min_pop_size_with_elitism *)
  es_shuffle : list nat;                    (* shuffle choices of keep_n_best *)
  es_rparams : Reproduction.rparams;        (* target, required_valid_ratio, MIN_POP_SIZE, attempts *)
  es_under : nat -> nat -> bool }.          (* float rounding of the size estimate *)

Section Evo.
  Variable multi : bool.                    (* is_multi_objective *)
  Variable keep : nat.                      (* keep_n_best *)
  Variable steps : nat -> evo_step.
  (* what remains an oracle: the objects created by the variation operators during the attempts of
     one reproduce call, and what reproduce_uncontrolled (selection -> crossover -> mutation ->
     evaluator) returns at attempt i when asked for s individuals *)
  Variable rep_cells : nat -> list ccell -> list nat -> list ccell.
  Variable rep_partial : nat -> list ccell -> list nat -> nat -> nat -> list nat.

  Definition c_arch_update (h : list ccell) (calls : list (label * list nat)) (a : Hof.hof) (pop : list nat) : Hof.hof :=
    Loop.arch_upd multi keep (ngs (run_history calls)) a (map (indiv_of h) pop).

  Definition c_a_items (a : Hof.hof) : list nat := map Hof.uid (Hof.items a).

  (* Inheritance.__call__ as it is after the repair 7eb3405 (Evo/Inheritance.v): generational =
     new[:pop_size]; steady-state / parameter-free = the pool new ++ [prev not in new] itself when it
     has at most one member, otherwise selection(pool, pop_size) *)
  Definition c_inherit (k : nat) (h : list ccell) (prev new : list nat) : list nat :=
    let e := steps k in
    match Inheritance.inherit (es_scheme e) (es_sel e) (es_sel_oracle e) (es_pop_size e)
                              (map (ind_of h) prev) (map (ind_of h) new) with
    | Some out => map Selection.uid out
    | None => []                              (* never: C16_inheritance_contract *)
    end.

  Definition c_elitism (k : nat) (h : list ccell) (best new : list nat) : list nat :=
    let e := steps k in
    map Selection.uid (Elitism.elitism (es_eparams e) (es_shuffle e) (map (ind_of h) best) (map (ind_of h) new)).

  Definition c_reproduce (k : nat) (h : list ccell) (w : list Q) (sel : list nat)
    : option (list ccell * list nat) * list Q :=
    let e := steps k in
    let cells := rep_cells k h sel in
    let h' := h ++ cells in
    match Reproduction.reproduce (es_rparams e) (length sel)
            (fun i s => map (ind_of h') (rep_partial k h sel i s)) (es_under e) w with
    | (Reproduction.RetOk l, w', _) => (Some (cells, map Selection.uid l), w')
    | (Reproduction.RaiseAttempts, w', _) => (None, w')
    end.

  Definition evo_optimise evaluate init_cells init_size extend regularize div_freq div_min div_unique div_refill stop
             (fuel : nat) (w0 : list Q) : cstate ccell Hof.hof (list Q) :=
    optimise ccell Hof.hof (list Q) c_a_items Hof.empty_arch evaluate c_arch_update init_cells init_size extend
             regularize c_reproduce c_inherit c_elitism div_freq div_min div_unique div_refill stop fuel w0.
End Evo.

(* ================================================================================================ *)
(* Part 3: the relation evaluated on observed transitions of real runs                               *)
(* ================================================================================================ *)
Inductive step_kind :=
| KInitial      (* nothing -> initial_assumptions *)
| KExtended     (* initial_assumptions -> extended_initial_assumptions *)
| KEvolve       (* one pass of the loop body, no structural diversity step *)
| KEvolveDiv    (* one pass of the loop body ending with get_structure_unique_population *)
| KMutateAll    (* PopulationalRandomMutationOptimizer: evaluator(mutation(population)) *)
| KSearch       (* RandomSearchOptimizer / RandomMutationOptimizer: one evaluated newcomer *)
| KFinal.       (* -> final_choices *)

Record ostep := {
  os_kind : step_kind;
  os_heap : heap;                  (* every exported individual, parents before children *)
  os_seen : list nat;              (* members of all generations recorded before this step *)
  os_prev : list nat;              (* previous recorded generation (= self.population) *)
  os_arch_prev : list nat;         (* archive snapshot recorded with it *)
  os_next : list nat;              (* the generation this step records *)
  os_arch_next : list nat;         (* archive snapshot recorded with it *)
  os_max : nat;                    (* size the step may reach: pop_size in force / len(prev) / 1 *)
  os_must : list nat }.            (* the archive head when keep_n_best elitism applies (C16: it is kept), else nothing *)

Definition hflag (f : hind -> bool) (h : heap) (u : nat) : bool :=
  match nth_error h u with Some c => f c | None => false end.

(* follow parent links through individuals that were never recorded; every path must end in `roots`
   (previous generation [+ archive]) or, where the code creates parentless individuals, in a
   parentless individual; a parent recorded earlier but outside `roots` is not admitted *)
Fixpoint lineage_to (h : heap) (seen roots : list nat) (orphans_ok : bool) (fuel : nat) (u : nat) : bool :=
  match fuel with
  | 0 => false
  | S f =>
      match parents_of h u with
      | [] => orphans_ok
      | ps => forallb (fun p => mem p roots || (negb (mem p seen) && Nat.ltb p u && lineage_to h seen roots orphans_ok f p)) ps
      end
  end.

Definition subset_nat (l r : list nat) : bool := forallb (fun x => mem x r) l.

Definition step_admits (o : ostep) : bool :=
  let h := os_heap o in
  let fuel := S (length h) in
  let is_fresh u := negb (mem u (os_seen o)) in
  let members_ok :=
    nodup_b (os_next o) &&
    forallb (fun u => hflag h_valid h u && hflag h_verified h u) (os_next o) in
  (* the archive is updated with the recorded population, before it is logged *)
  let arch_ok :=
    nodup_b (os_arch_next o) && subset_nat (os_arch_next o) (os_arch_prev o ++ os_next o) &&
    implb (negb (length (os_next o) =? 0) || negb (length (os_arch_prev o) =? 0))
          (negb (length (os_arch_next o) =? 0)) in
  (* members seen before come from `keep`; fresh ones descend from `roots` *)
  let drawn keep roots orphans_ok :=
    forallb (fun u => if is_fresh u then lineage_to h (os_seen o) roots orphans_ok fuel u
                      else mem u keep) (os_next o) in
  members_ok && arch_ok &&
  (* next = elitism(archive, inherited): a non-empty one contains the archive head when keep_n_best applies *)
  ((length (os_next o) =? 0) || subset_nat (os_must o) (os_next o)) &&
  match os_kind o with
  | KInitial =>
      (length (os_prev o) =? 0) && (length (os_seen o) =? 0) &&
      forallb (fun u => length (parents_of h u) =? 0) (os_next o)
  | KExtended =>
      (* survivors of generation 0 and fresh individuals: mutants of initial individuals (evo), copies
         (random mutation optimiser), initial individuals evaluated only now *)
      drawn (os_prev o) (os_prev o) true && (length (os_next o) <=? Nat.max (os_max o) (length (os_prev o)))
  | KEvolve =>
      (* inheritance keeps members of the previous population, elitism brings archive members in,
         offspring descend from the previous population *)
      drawn (os_prev o ++ os_arch_prev o) (os_prev o) false && (length (os_next o) <=? os_max o)
  | KEvolveDiv =>
      (* the refill of get_structure_unique_population goes through self._extend_population: verified
         mutants of members of the de-duplicated population (EvoGraphOptimizer; these members may be
         archive members brought in by elitism) or parentless copies (base class) *)
      drawn (os_prev o ++ os_arch_prev o) (os_prev o ++ os_arch_prev o) true &&
      (length (os_next o) <=? Nat.max (os_max o) MIN_POP)
  | KMutateAll =>
      drawn (os_prev o) (os_prev o) false && (length (os_next o) <=? length (os_prev o))
  | KSearch =>
      (* the newcomer: a fresh random graph, a mutant of the best archived individual, or that
         individual itself returned unchanged *)
      drawn (os_arch_prev o) (os_arch_prev o) true && (length (os_next o) <=? 1)
  | KFinal =>
      list_nat_eqb (os_next o) (os_arch_prev o) && list_nat_eqb (os_arch_next o) (os_arch_prev o)
  end.

(* one exported run: the heap once, then its transitions *)
Record otrans := {
  ot_kind : step_kind; ot_seen : list nat; ot_prev : list nat; ot_arch_prev : list nat;
  ot_next : list nat; ot_arch_next : list nat; ot_max : nat; ot_must : list nat }.

Definition mk_ostep (h : heap) (t : otrans) : ostep :=
  {| os_kind := ot_kind t; os_heap := h; os_seen := ot_seen t; os_prev := ot_prev t;
     os_arch_prev := ot_arch_prev t; os_next := ot_next t; os_arch_next := ot_arch_next t; os_max := ot_max t; os_must := ot_must t |}.

Definition run_admits (h : heap) (ts : list otrans) : bool := forallb (fun t => step_admits (mk_ostep h t)) ts.
Definition run_admits_each (h : heap) (ts : list otrans) : list bool := map (fun t => step_admits (mk_ostep h t)) ts.
