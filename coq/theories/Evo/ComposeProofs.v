(* Proofs about the composed loop (Evo/Compose.v): the per-individual clauses of C06 for every
   number of generations, from the operators' contracts. *)
From Coq Require Import List Bool Arith Lia QArith Permutation.
From GolemV Require Import Fitness.Fitness Evo.History Evo.HistoryProofs Evo.Compose.
Import ListNotations.
Local Open Scope nat_scope.

(* ---------- small list facts ---------- *)
Lemma flag_app {C} (f : C -> bool) h c u : flag f h u = true -> flag f (h ++ c) u = true.
Proof.
  unfold flag. destruct (nth_error h u) as [x|] eqn:E; [|discriminate].
  rewrite nth_error_app1 by (apply nth_error_Some; congruence). rewrite E. auto.
Qed.

Lemma flag_lt {C} (f : C -> bool) h u : flag f h u = true -> u < length h.
Proof.
  unfold flag. destruct (nth_error h u) eqn:E; [|discriminate]. intros _. apply nth_error_Some. congruence.
Qed.

Lemma NoDup_app_disj {T} (a b : list T) :
  NoDup a -> NoDup b -> (forall x, In x a -> In x b -> False) -> NoDup (a ++ b).
Proof.
  induction a as [|x a IH]; simpl; intros Na Nb D; [exact Nb|].
  inversion Na; subst. constructor.
  - intros Hin. apply in_app_or in Hin as [Hin|Hin]; [contradiction|]. apply (D x); auto.
  - apply IH; auto. intros y Hy. apply D. right. exact Hy.
Qed.

Lemma firstn_app_le {T} n (a b : list T) : n <= length a -> firstn n (a ++ b) = firstn n a.
Proof. intros L. rewrite firstn_app. replace (n - length a) with 0 by lia. simpl. apply app_nil_r. Qed.

Lemma firstn_all_app {T} (a b : list T) : firstn (length a + length b) (a ++ b) = a ++ b.
Proof. rewrite <- app_length. apply firstn_all. Qed.

Section LoopProofs.
  Variables C A X : Type.
  Variables cvalid cverified : C -> bool.
  Variable a_items : A -> list nat.
  Variable a_empty : A.
  Variable a_inv : list C -> A -> Prop.            (* representation invariant of the archive *)
  Variable evaluate : nat -> nat -> list C -> list nat -> list nat.
  Variable arch_update : list C -> list (label * list nat) -> A -> list nat -> A.
  Variable init_cells : list C.
  Variable init_size : nat.
  Variable extend : list C -> list nat -> nat -> list C * list nat.
  Variable regularize : nat -> list C -> list nat -> list C * list nat.
  Variable reproduce : nat -> list C -> X -> list nat -> option (list C * list nat) * X.
  Variable inherit : nat -> list C -> list nat -> list nat -> list nat.
  Variable elitism : nat -> list C -> list nat -> list nat -> list nat.
  Variable div_freq div_min : nat.
  Variable div_unique : nat -> list C -> list nat -> list nat.
  Variable div_refill : nat -> list C -> list nat -> nat -> list C.
  Variable stop : nat -> cstate C A X -> bool.

  Definition good (h : list C) (l : list nat) : Prop :=
    forall u, In u l -> flag cvalid h u = true /\ flag cverified h u = true.
  Definition ver (h : list C) (l : list nat) : Prop := forall u, In u l -> flag cverified h u = true.

  (* ---- the operators' contracts ---- *)
  (* GraphOptimizer.__init__ keeps the initial graphs the verifier accepts *)
  Hypothesis H_init : forall c, In c init_cells -> cverified c = true.
  (* C05 (eval_sound_parallel / _sequential): the evaluator returns input individuals only, each once, all with a valid fitness *)
  Hypothesis H_eval : forall k j h l,
    incl (evaluate k j h l) l /\ (NoDup l -> NoDup (evaluate k j h l)) /\
    forall u, In u (evaluate k j h l) -> flag cvalid h u = true.
  (* _extend_population: the accepted newcomers are new distinct objects whose graphs the verifier accepted *)
  Hypothesis H_extend : forall h ids n cells acc, extend h ids n = (cells, acc) ->
    incl acc (fresh_ids C h cells) /\ NoDup acc /\ ver (h ++ cells) acc.
  (* regularization: members of the population and new verified sub-graphs *)
  Hypothesis H_reg : forall k h pop c1 sel, regularize k h pop = (c1, sel) ->
    forall u, In u sel -> In u pop \/ (In u (fresh_ids C h c1) /\ flag cverified (h ++ c1) u = true).
  (* C16 (reproduce_contract, reproduce_evaluated) over C02 (outputs classified) and C05: distinct
     evaluated individuals, each a member of the population it was given or a new verified one *)
  Hypothesis H_rep : forall k h x sel c2 new x', reproduce k h x sel = (Some (c2, new), x') ->
    NoDup new /\
    forall u, In u new -> flag cvalid (h ++ c2) u = true /\
                          (In u sel \/ (In u (fresh_ids C h c2) /\ flag cverified (h ++ c2) u = true)).
  (* C16 (inheritance_contract) *)
  Hypothesis H_inh_incl : forall k h prev new, incl (inherit k h prev new) (prev ++ new).
  Hypothesis H_inh_nodup : forall k h prev new, NoDup prev -> NoDup new -> NoDup (inherit k h prev new).
  (* C16 (elitism_contract) *)
  Hypothesis H_eli_incl : forall k h best new, incl (elitism k h best new) (best ++ new).
  Hypothesis H_eli_nodup : forall k h best new, NoDup best -> NoDup new -> NoDup (elitism k h best new).
  (* get_structure_unique_population: one individual per descriptive_id; copies of members' graphs *)
  Hypothesis H_uniq : forall k h l, incl (div_unique k h l) l /\ NoDup (div_unique k h l).
  Hypothesis H_refill : forall k h l n, ver h l -> forall c, In c (div_refill k h l n) -> cverified c = true.
  (* C08: archive members were shown to it; no individual twice *)
  Hypothesis H_arch_empty : a_items a_empty = [] /\ forall h, a_inv h a_empty.
  Hypothesis H_ainv_app : forall h c a, a_inv h a -> a_inv (h ++ c) a.
  Hypothesis H_arch : forall h calls a pop, a_inv h a -> good h pop ->
    incl (a_items (arch_update h calls a pop)) (a_items a ++ pop) /\
    (NoDup (a_items a) -> NoDup (a_items (arch_update h calls a pop))) /\
    a_inv h (arch_update h calls a pop).

  Notation cstate := (cstate C A X).
  Notation update_population := (update_population C A X a_items arch_update).
  Notation evolve := (evolve C A X a_items evaluate regularize reproduce inherit elitism div_freq div_min div_unique div_refill).
  Notation loop := (loop C A X a_items evaluate arch_update regularize reproduce inherit elitism div_freq div_min div_unique div_refill stop).
  Notation initial_population := (initial_population C A X a_items a_empty evaluate arch_update init_cells init_size extend).
  Notation optimise := (optimise C A X a_items a_empty evaluate arch_update init_cells init_size extend regularize
                                 reproduce inherit elitism div_freq div_min div_unique div_refill stop).

  Lemma good_app h c l : good h l -> good (h ++ c) l.
  Proof. intros G u Hu. destruct (G u Hu). split; apply flag_app; assumption. Qed.
  Lemma ver_app h c l : ver h l -> ver (h ++ c) l.
  Proof. intros G u Hu. apply flag_app, G, Hu. Qed.
  Lemma good_ver h l : good h l -> ver h l.
  Proof. intros G u Hu. apply G, Hu. Qed.
  Lemma good_incl h l l' : incl l' l -> good h l -> good h l'.
  Proof. intros I G u Hu. apply G, I, Hu. Qed.
  Lemma good_app_l h l l' : good h l -> good h l' -> good h (l ++ l').
  Proof. intros G G' u Hu. apply in_app_or in Hu as [Hu|Hu]; auto. Qed.

  (* snapshot i only holds members of generations 0..i *)
  Definition snaps_rel (calls : list (label * list nat)) (snaps : list (list nat)) : Prop :=
    length snaps = length calls /\
    forall i sn, nth_error snaps i = Some sn -> incl sn (concat (map snd (firstn (S i) calls))).

  Record Inv (s : cstate) : Prop := {
    inv_pop_nodup : NoDup (cs_pop s);
    inv_pop_good : good (cs_heap s) (cs_pop s);
    inv_calls : forall c, In c (cs_calls s) -> NoDup (snd c) /\ good (cs_heap s) (snd c);
    inv_arch_nodup : NoDup (a_items (cs_arch s));
    inv_arch_seen : incl (a_items (cs_arch s)) (concat (map snd (cs_calls s)));
    inv_snaps : snaps_rel (cs_calls s) (cs_snaps s);
    inv_snaps_nodup : Forall (@NoDup nat) (cs_snaps s);
    inv_ainv : a_inv (cs_heap s) (cs_arch s) }.

  Lemma seen_good s : Inv s -> good (cs_heap s) (concat (map snd (cs_calls s))).
  Proof.
    intros I u Hu. apply in_concat in Hu as (l & Hl & Hu). apply in_map_iff in Hl as (c & <- & Hc).
    apply (proj2 (inv_calls s I c Hc)), Hu.
  Qed.

  Lemma arch_good s : Inv s -> good (cs_heap s) (a_items (cs_arch s)).
  Proof. intros I. eapply good_incl; [apply (inv_arch_seen s I)|apply seen_good, I]. Qed.

  Lemma Inv_with_heap s c x : Inv s -> Inv (with_heap C A X s (cs_heap s ++ c) x).
  Proof.
    intros [a b d e f g g' i]. constructor; simpl; auto.
    - apply good_app, b.
    - intros c0 Hc. destruct (d c0 Hc). split; [assumption|apply good_app; assumption].
  Qed.

  Lemma Inv_update s lab pop :
    Inv s -> NoDup pop -> good (cs_heap s) pop -> Inv (update_population s lab pop).
  Proof.
    intros I Np Gp. destruct (H_arch (cs_heap s) (cs_calls s) (cs_arch s) pop (inv_ainv s I) Gp) as (Ai & An & Av).
    constructor; simpl; auto.
    - intros c Hc. apply in_app_or in Hc as [Hc|[<-|[]]]; [apply (inv_calls s I c Hc)|simpl; auto].
    - apply An, (inv_arch_nodup s I).
    - rewrite map_app, concat_app. simpl. rewrite app_nil_r.
      intros u Hu. apply Ai in Hu. apply in_or_app. apply in_app_or in Hu as [Hu|Hu]; [left|right; exact Hu].
      apply (inv_arch_seen s I), Hu.
    - destruct (inv_snaps s I) as [L R]. split; [rewrite !app_length, L; reflexivity|].
      intros i sn Hn. destruct (Nat.lt_ge_cases i (length (cs_snaps s))) as [Lt|Ge].
      + rewrite nth_error_app1 in Hn by exact Lt. rewrite firstn_app_le by lia. apply (R i sn Hn).
      + rewrite nth_error_app2 in Hn by exact Ge.
        destruct (i - length (cs_snaps s)) as [|j] eqn:E; simpl in Hn; [|destruct j; discriminate].
        injection Hn as <-. assert (i = length (cs_calls s)) by lia. subst i.
        replace (S (length (cs_calls s))) with (length (cs_calls s) + length [(lab, pop)]) by (simpl; lia).
        rewrite firstn_all_app, map_app, concat_app. simpl. rewrite app_nil_r.
        intros u Hu. apply Ai in Hu. apply in_or_app. apply in_app_or in Hu as [Hu|Hu]; [left|right; exact Hu].
        apply (inv_arch_seen s I), Hu.
    - apply Forall_app. split; [apply (inv_snaps_nodup s I)|]. constructor; [|constructor].
      apply An, (inv_arch_nodup s I).
  Qed.

  Lemma fresh_ids_ge h c u : In u (fresh_ids C h c) -> length h <= u.
  Proof. unfold fresh_ids. intros Hu. apply in_seq in Hu. lia. Qed.

  Lemma flag_all (f : C -> bool) h : (forall c, In c h -> f c = true) -> forall u, u < length h -> flag f h u = true.
  Proof.
    intros F u L. unfold flag. destruct (nth_error h u) eqn:E; [apply F; eapply nth_error_In; eassumption|].
    apply nth_error_None in E. lia.
  Qed.

  Lemma flag_fresh (f : C -> bool) h c u :
    (forall x, In x c -> f x = true) -> In u (fresh_ids C h c) -> flag f (h ++ c) u = true.
  Proof.
    intros F Hu. unfold fresh_ids in Hu. apply in_seq in Hu. unfold flag.
    rewrite nth_error_app2 by lia. destruct (nth_error c (u - length h)) eqn:E.
    - apply F. eapply nth_error_In; eassumption.
    - apply nth_error_None in E. lia.
  Qed.

  Lemma Inv_init x0 : Inv (s_init C A X a_empty init_cells x0).
  Proof.
    destruct H_arch_empty as [E V]. constructor; simpl.
    - constructor.
    - intros u [].
    - intros c [].
    - rewrite E. constructor.
    - rewrite E. intros u [].
    - split; [reflexivity|]. intros [|i] sn Hn; discriminate.
    - constructor.
    - apply V.
  Qed.

  Lemma Inv_initial x0 : Inv (initial_population x0).
  Proof.
    unfold Compose.initial_population.
    set (ids := seq 0 (length init_cells)).
    assert (Vids : ver init_cells ids).
    { intros u Hu. apply flag_all; [exact H_init|]. apply in_seq in Hu. lia. }
    assert (I1 : Inv (update_population (s_init C A X a_empty init_cells x0) LInitial (evaluate 0 0 init_cells ids))).
    { destruct (H_eval 0 0 init_cells ids) as (Ei & En & Ev).
      apply Inv_update; [apply Inv_init|apply En, seq_NoDup|].
      intros u Hu. split; [apply Ev, Hu|apply Vids, Ei, Hu]. }
    destruct (length init_cells <? init_size); [|exact I1].
    destruct (extend init_cells ids init_size) as [cells acc] eqn:Ex.
    destruct (H_extend _ _ _ _ _ Ex) as (Ai & An & Av).
    destruct (H_eval 0 1 (init_cells ++ cells) (ids ++ acc)) as (Ei & En & Ev).
    apply Inv_update.
    - apply (Inv_with_heap _ cells x0) in I1. exact I1.
    - apply En. apply NoDup_app_disj; [apply seq_NoDup|exact An|].
      intros u Hu Hu'. apply in_seq in Hu. apply Ai, fresh_ids_ge in Hu'. lia.
    - intros u Hu. split; [apply Ev, Hu|]. apply Ei in Hu. apply in_app_or in Hu as [Hu|Hu].
      + apply flag_app, Vids, Hu.
      + apply Av, Hu.
  Qed.

  (* one pass of the loop body: the population it hands to _update_population *)
  Lemma evolve_ok k s s' newpop :
    Inv s -> evolve k s = Some (s', newpop) ->
    Inv s' /\ NoDup newpop /\ good (cs_heap s') newpop /\
    cs_calls s' = cs_calls s /\ cs_snaps s' = cs_snaps s.
  Proof.
    intros I. unfold Compose.evolve.
    destruct (regularize k (cs_heap s) (cs_pop s)) as [c1 sel] eqn:Er.
    destruct (reproduce k (cs_heap s ++ c1) (cs_aux s) sel) as [[[c2 new]|] x'] eqn:Ep; [|discriminate].
    set (h0 := cs_heap s) in *. set (h1 := h0 ++ c1) in *. set (h2 := h1 ++ c2).
    destruct (H_rep _ _ _ _ _ _ _ Ep) as (Nn & Hn).
    assert (Vsel : ver h1 sel).
    { intros u Hu. destruct (H_reg _ _ _ _ _ Er u Hu) as [Hp|[_ Hv]]; [|exact Hv].
      apply flag_app. apply (inv_pop_good s I), Hp. }
    assert (Gnew : good h2 new).
    { intros u Hu. destruct (Hn u Hu) as (Va & [Hs|[_ Hv]]); split; auto. apply flag_app, Vsel, Hs. }
    assert (Gpop : good h2 (cs_pop s)) by (apply good_app, good_app, (inv_pop_good s I)).
    assert (Garch : good h2 (a_items (cs_arch s))) by (apply good_app, good_app, arch_good, I).
    set (inh := inherit k h2 (cs_pop s) new).
    assert (Ginh : good h2 inh).
    { eapply good_incl; [apply H_inh_incl|]. apply good_app_l; assumption. }
    assert (Ninh : NoDup inh) by (apply H_inh_nodup; [apply (inv_pop_nodup s I)|exact Nn]).
    set (eli := elitism k h2 (a_items (cs_arch s)) inh).
    assert (Geli : good h2 eli).
    { eapply good_incl; [apply H_eli_incl|]. apply good_app_l; assumption. }
    assert (Neli : NoDup eli) by (apply H_eli_nodup; [apply (inv_arch_nodup s I)|exact Ninh]).
    assert (I2 : forall x, Inv (with_heap C A X s h2 x)).
    { intros x. unfold h2, h1. rewrite <- app_assoc. apply Inv_with_heap, I. }
    destruct (div_due C A X div_freq s).
    - set (u := div_unique k h2 eli).
      set (n := if negb (length u =? 0) && (length u <? div_min) then div_min - length u else 0).
      set (c3 := div_refill k h2 u n). set (h3 := h2 ++ c3).
      intros E. injection E as <- <-.
      destruct (H_uniq k h2 eli) as (Ui & Un). fold u in Ui, Un.
      assert (Gu : good h2 u) by (eapply good_incl; eassumption).
      destruct (H_eval k 2 h3 (u ++ fresh_ids C h2 c3)) as (Ei & En & Ev).
      split; [|split; [|split; [|split; reflexivity]]].
      + pose proof (Inv_with_heap _ c3 x' (I2 x')) as I3. simpl in I3. exact I3.
      + apply En. apply NoDup_app_disj; [exact Un|apply seq_NoDup|].
        intros y Hy Hy'. apply fresh_ids_ge in Hy'. destruct (Gu y Hy) as [Va _]. apply flag_lt in Va. lia.
      + intros y Hy. split; [apply Ev, Hy|]. apply Ei in Hy. apply in_app_or in Hy as [Hy|Hy].
        * apply flag_app. apply Gu, Hy.
        * apply flag_fresh; [|exact Hy]. apply (H_refill k h2 u n). apply good_ver, Gu.
    - intros E. injection E as <- <-. split; [apply I2|]. split; [exact Neli|]. split; [exact Geli|]. split; reflexivity.
  Qed.

  (* where the members of the population handed to _update_population come from: the previous
     population, the archive, or objects created during this pass *)
  Theorem evolve_drawn k s s' newpop :
    evolve k s = Some (s', newpop) ->
    forall u, In u newpop -> In u (cs_pop s) \/ In u (a_items (cs_arch s)) \/ length (cs_heap s) <= u.
  Proof.
    unfold Compose.evolve.
    destruct (regularize k (cs_heap s) (cs_pop s)) as [c1 sel] eqn:Er.
    destruct (reproduce k (cs_heap s ++ c1) (cs_aux s) sel) as [[[c2 new]|] x'] eqn:Ep; [|discriminate].
    set (h0 := cs_heap s) in *. set (h1 := h0 ++ c1) in *. set (h2 := h1 ++ c2).
    destruct (H_rep _ _ _ _ _ _ _ Ep) as (_ & Hn).
    assert (L1 : length h0 <= length h1) by (unfold h1; rewrite app_length; lia).
    assert (L2 : length h1 <= length h2) by (unfold h2; rewrite app_length; lia).
    assert (Dnew : forall u, In u new -> In u (cs_pop s) \/ length h0 <= u).
    { intros u Hu. destruct (Hn u Hu) as (_ & [Hs|[Hf _]]).
      - destruct (H_reg _ _ _ _ _ Er u Hs) as [Hp|[Hf _]]; [left; exact Hp|right; apply fresh_ids_ge in Hf; exact Hf].
      - right. apply fresh_ids_ge in Hf. lia. }
    assert (Dinh : forall u, In u (inherit k h2 (cs_pop s) new) -> In u (cs_pop s) \/ length h0 <= u).
    { intros u Hu. apply H_inh_incl in Hu. apply in_app_or in Hu as [Hu|Hu]; [left; exact Hu|apply Dnew, Hu]. }
    assert (Deli : forall u, In u (elitism k h2 (a_items (cs_arch s)) (inherit k h2 (cs_pop s) new)) ->
                   In u (cs_pop s) \/ In u (a_items (cs_arch s)) \/ length h0 <= u).
    { intros u Hu. apply H_eli_incl in Hu. apply in_app_or in Hu as [Hu|Hu]; [right; left; exact Hu|].
      destruct (Dinh u Hu); [left|right; right]; assumption. }
    destruct (div_due C A X div_freq s); intros E; injection E as <- <-; [|exact Deli].
    intros u Hu. destruct (H_eval k 2 (h2 ++ div_refill k h2 (div_unique k h2 (elitism k h2 (a_items (cs_arch s)) (inherit k h2 (cs_pop s) new)))
                 (if negb (length (div_unique k h2 (elitism k h2 (a_items (cs_arch s)) (inherit k h2 (cs_pop s) new))) =? 0) &&
                     (length (div_unique k h2 (elitism k h2 (a_items (cs_arch s)) (inherit k h2 (cs_pop s) new))) <? div_min)
                  then div_min - length (div_unique k h2 (elitism k h2 (a_items (cs_arch s)) (inherit k h2 (cs_pop s) new))) else 0))
                 (div_unique k h2 (elitism k h2 (a_items (cs_arch s)) (inherit k h2 (cs_pop s) new)) ++
                  fresh_ids C h2 (div_refill k h2 (div_unique k h2 (elitism k h2 (a_items (cs_arch s)) (inherit k h2 (cs_pop s) new)))
                 (if negb (length (div_unique k h2 (elitism k h2 (a_items (cs_arch s)) (inherit k h2 (cs_pop s) new))) =? 0) &&
                     (length (div_unique k h2 (elitism k h2 (a_items (cs_arch s)) (inherit k h2 (cs_pop s) new))) <? div_min)
                  then div_min - length (div_unique k h2 (elitism k h2 (a_items (cs_arch s)) (inherit k h2 (cs_pop s) new))) else 0)))) as (Ei & _).
    apply Ei in Hu. apply in_app_or in Hu as [Hu|Hu].
    - apply Deli. apply (proj1 (H_uniq k h2 _)), Hu.
    - right. right. apply fresh_ids_ge in Hu. lia.
  Qed.

  Lemma Inv_loop fuel : forall k s, Inv s -> Inv (loop fuel k s).
  Proof.
    induction fuel as [|f IH]; intros k s I; simpl; [exact I|].
    destruct (stop k s); [exact I|].
    destruct (evolve k s) as [[s' newpop]|] eqn:E; [|exact I].
    destruct (evolve_ok k s s' newpop I E) as (I' & N & G & _).
    apply IH, Inv_update; assumption.
  Qed.

  Lemma Inv_optimise fuel x0 : Inv (optimise fuel x0).
  Proof.
    unfold Compose.optimise. set (s := loop fuel 0 (initial_population x0)).
    assert (I : Inv s) by apply Inv_loop, Inv_initial.
    apply Inv_update; [exact I|apply (inv_arch_nodup s I)|apply arch_good, I].
  Qed.

  (* ---- labels ---- *)
  Lemma loop_calls fuel : forall k s, Inv s ->
    exists tail, cs_calls (loop fuel k s) = cs_calls s ++ tail /\
                 Forall (fun c => fst c = LNone) tail /\ length tail <= fuel.
  Proof.
    induction fuel as [|f IH]; intros k s I; simpl.
    - exists []. rewrite app_nil_r. repeat split; auto.
    - destruct (stop k s); [exists []; rewrite app_nil_r; repeat split; auto; simpl; lia|].
      destruct (evolve k s) as [[s' newpop]|] eqn:E;
        [|exists []; rewrite app_nil_r; repeat split; auto; simpl; lia].
      destruct (evolve_ok k s s' newpop I E) as (I' & N & G & Ec & Es).
      destruct (IH (S k) (update_population s' LNone newpop) (Inv_update _ _ _ I' N G)) as (tail & Et & Ft & Lt).
      exists ((LNone, newpop) :: tail). simpl in Et. rewrite Et, Ec, <- app_assoc. simpl.
      repeat split; auto. simpl; lia.
  Qed.

  (* the recorded labels: initial assumptions, possibly the extended ones, unlabelled evolved
     generations, final choices *)
  Theorem optimise_labels fuel x0 :
    exists n, n <= fuel /\
      map fst (cs_calls (optimise fuel x0)) =
      LInitial :: (if length init_cells <? init_size then [LExtended] else []) ++ repeat LNone n ++ [LFinal].
  Proof.
    unfold Compose.optimise. set (s0 := initial_population x0).
    destruct (loop_calls fuel 0 s0 (Inv_initial x0)) as (tail & Et & Ft & Lt).
    exists (length tail). split; [exact Lt|]. simpl. rewrite Et, !map_app. simpl.
    assert (Em : map fst tail = repeat LNone (length tail)).
    { clear Et Lt. induction Ft as [|c t Hc _ IH]; simpl; [reflexivity|]. rewrite Hc, IH. reflexivity. }
    rewrite Em. unfold s0, Compose.initial_population.
    destruct (length init_cells <? init_size).
    - destruct (extend init_cells (seq 0 (length init_cells)) init_size) as [cells acc]. simpl.
      reflexivity.
    - simpl. reflexivity.
  Qed.

  (* ---- the C06 clauses for every number of generations ---- *)
  Theorem optimise_members fuel x0 : forall c, In c (cs_calls (optimise fuel x0)) ->
    NoDup (snd c) /\ forall u, In u (snd c) ->
      flag cvalid (cs_heap (optimise fuel x0)) u = true /\ flag cverified (cs_heap (optimise fuel x0)) u = true.
  Proof. intros c Hc. destruct (inv_calls _ (Inv_optimise fuel x0) c Hc) as [N G]. split; [exact N|exact G]. Qed.

  Theorem optimise_snapshots fuel x0 :
    let r := optimise fuel x0 in
    length (cs_snaps r) = length (cs_calls r) /\
    forall i sn, nth_error (cs_snaps r) i = Some sn ->
      NoDup sn /\ incl sn (concat (map snd (firstn (S i) (cs_calls r)))).
  Proof.
    intros r. pose proof (Inv_optimise fuel x0) as I. destruct (inv_snaps _ I) as [L R]. split; [exact L|].
    intros i sn Hn. split; [|apply R, Hn].
    pose proof (inv_snaps_nodup _ I) as F. rewrite Forall_forall in F. apply F. eapply nth_error_In, Hn.
  Qed.
End LoopProofs.

(* ================================================================================================ *)
(* lineage: every individual is created after its parents, so the heap of the composed run is        *)
(* well-founded and the lineage walker of C06 terminates on it                                        *)
(* ================================================================================================ *)
Section LoopLineage.
  Variables C A X : Type.
  Variable cparents : C -> list nat.
  Variable a_items : A -> list nat.
  Variable a_empty : A.
  Variable evaluate : nat -> nat -> list C -> list nat -> list nat.
  Variable arch_update : list C -> list (label * list nat) -> A -> list nat -> A.
  Variable init_cells : list C.
  Variable init_size : nat.
  Variable extend : list C -> list nat -> nat -> list C * list nat.
  Variable regularize : nat -> list C -> list nat -> list C * list nat.
  Variable reproduce : nat -> list C -> X -> list nat -> option (list C * list nat) * X.
  Variable inherit : nat -> list C -> list nat -> list nat -> list nat.
  Variable elitism : nat -> list C -> list nat -> list nat -> list nat.
  Variable div_freq div_min : nat.
  Variable div_unique : nat -> list C -> list nat -> list nat.
  Variable div_refill : nat -> list C -> list nat -> nat -> list C.
  Variable stop : nat -> cstate C A X -> bool.

  (* parents exist when the child is created: ParentOperator(parent_individuals=...) names existing objects *)
  Definition wfh (h : list C) : Prop :=
    forall u c, nth_error h u = Some c -> forall p, In p (cparents c) -> p < u.
  Definition cells_wf (h cells : list C) : Prop :=
    forall i c, nth_error cells i = Some c -> forall p, In p (cparents c) -> p < length h + i.

  Lemma wfh_app h cells : wfh h -> cells_wf h cells -> wfh (h ++ cells).
  Proof.
    intros W Cw u c Hn p Hp. destruct (Nat.lt_ge_cases u (length h)) as [L|G].
    - rewrite nth_error_app1 in Hn by exact L. eapply W; eassumption.
    - rewrite nth_error_app2 in Hn by exact G. specialize (Cw _ _ Hn p Hp). lia.
  Qed.

  Hypothesis W_init : forall c, In c init_cells -> cparents c = [].
  Hypothesis W_ext : forall h ids n cells acc, extend h ids n = (cells, acc) -> cells_wf h cells.
  Hypothesis W_reg : forall k h pop c1 sel, regularize k h pop = (c1, sel) -> cells_wf h c1.
  Hypothesis W_rep : forall k h x sel c2 new x', reproduce k h x sel = (Some (c2, new), x') -> cells_wf h c2.
  Hypothesis W_refill : forall k h l n, cells_wf h (div_refill k h l n).

  Notation update_population := (update_population C A X a_items arch_update).
  Notation evolve := (evolve C A X a_items evaluate regularize reproduce inherit elitism div_freq div_min div_unique div_refill).
  Notation loop := (loop C A X a_items evaluate arch_update regularize reproduce inherit elitism div_freq div_min div_unique div_refill stop).
  Notation initial_population := (initial_population C A X a_items a_empty evaluate arch_update init_cells init_size extend).
  Notation optimise := (optimise C A X a_items a_empty evaluate arch_update init_cells init_size extend regularize
                                 reproduce inherit elitism div_freq div_min div_unique div_refill stop).

  Lemma wfh_initial x0 : wfh (cs_heap (initial_population x0)).
  Proof.
    assert (W0 : wfh init_cells).
    { intros u c Hn p Hp. rewrite (W_init c (nth_error_In _ _ Hn)) in Hp. destruct Hp. }
    unfold Compose.initial_population. destruct (length init_cells <? init_size); [|exact W0].
    destruct (extend init_cells (seq 0 (length init_cells)) init_size) as [cells acc] eqn:E. simpl.
    apply wfh_app; [exact W0|eapply W_ext, E].
  Qed.

  Lemma wfh_evolve k s s' np : wfh (cs_heap s) -> evolve k s = Some (s', np) -> wfh (cs_heap s').
  Proof.
    intros W. unfold Compose.evolve.
    destruct (regularize k (cs_heap s) (cs_pop s)) as [c1 sel] eqn:Er.
    destruct (reproduce k (cs_heap s ++ c1) (cs_aux s) sel) as [[[c2 new]|] x'] eqn:Ep; [|discriminate].
    assert (W2 : wfh ((cs_heap s ++ c1) ++ c2)).
    { apply wfh_app; [apply wfh_app; [exact W|eapply W_reg, Er]|eapply W_rep, Ep]. }
    destruct (div_due C A X div_freq s); intros E; injection E as <- <-; simpl; [|exact W2].
    apply wfh_app; [exact W2|apply W_refill].
  Qed.

  Lemma wfh_loop fuel : forall k s, wfh (cs_heap s) -> wfh (cs_heap (loop fuel k s)).
  Proof.
    induction fuel as [|f IH]; intros k s W; simpl; [exact W|].
    destruct (stop k s); [exact W|].
    destruct (evolve k s) as [[s' np]|] eqn:E; [|exact W].
    apply IH. simpl. eapply wfh_evolve; eassumption.
  Qed.

  Theorem wfh_optimise fuel x0 : wfh (cs_heap (optimise fuel x0)).
  Proof. unfold Compose.optimise. simpl. apply wfh_loop, wfh_initial. Qed.
End LoopLineage.

(* ---------- the relation evaluated on real transitions implies the clauses it stands for ---------- *)
Lemma nodup_b_sound l : nodup_b l = true -> NoDup l.
Proof.
  induction l as [|x l IH]; simpl; intros H; [constructor|].
  apply andb_true_iff in H as [H1 H2]. constructor; [|apply IH, H2].
  intros Hin. apply negb_true_iff in H1.
  assert (existsb (Nat.eqb x) l = true); [|congruence].
  apply existsb_exists. exists x. split; [exact Hin|apply Nat.eqb_refl].
Qed.

Lemma mem_In u l : mem u l = true -> In u l.
Proof. unfold mem. intros H. apply existsb_exists in H as (y & Hy & E). apply Nat.eqb_eq in E. subst. exact Hy. Qed.

Theorem step_admits_sound o : step_admits o = true ->
  NoDup (os_next o) /\
  (forall u, In u (os_next o) -> hflag h_valid (os_heap o) u = true /\ hflag h_verified (os_heap o) u = true) /\
  NoDup (os_arch_next o) /\ incl (os_arch_next o) (os_arch_prev o ++ os_next o).
Proof.
  unfold step_admits. intros H.
  apply andb_true_iff in H as [H _]. apply andb_true_iff in H as [H _]. apply andb_true_iff in H as [Hm Ha].
  apply andb_true_iff in Hm as [Hn Hf]. apply andb_true_iff in Ha as [Ha _]. apply andb_true_iff in Ha as [Han Has].
  split; [apply nodup_b_sound, Hn|]. split; [|split; [apply nodup_b_sound, Han|]].
  - intros u Hu. rewrite forallb_forall in Hf. specialize (Hf u Hu). apply andb_true_iff in Hf. exact Hf.
  - intros u Hu. unfold subset_nat in Has. rewrite forallb_forall in Has. apply mem_In, Has, Hu.
Qed.

(* ================================================================================================ *)
(* the archives of Archive/Hof.v and Archive/Pareto.v: members were shown, no uid twice - for EVERY  *)
(* comparison (no hypothesis on the fitness values for the hall of fame)                             *)
(* ================================================================================================ *)
From GolemV Require Archive.Hof Archive.HofProofs Archive.Pareto Archive.ParetoProofs Evo.Loop.
From GolemV Require Evo.Selection Evo.SelectionProofs Evo.Elitism Evo.ElitismProofs Evo.Inheritance Evo.InheritanceProofs
     Evo.Reproduction Evo.ReproductionProofs.
From Coq Require Import ZArith.

Section ArchFacts.
  Import Archive.Hof Archive.HofProofs Archive.Pareto.
  Variables K I : Type.
  Variable key : I -> K.
  Variables worse better dom feq : K -> K -> bool.
  Variable similar : I -> I -> bool.
  Variable uidf : I -> nat.

  Lemma remove_in (a : arch K I) idx x : In x (items (arch_remove a idx)) -> In x (items a).
  Proof. unfold arch_remove. simpl. apply del_at_in. Qed.

  Lemma remove_nodup (a : arch K I) idx :
    NoDup (map uidf (items a)) -> NoDup (map uidf (items (arch_remove a idx))).
  Proof. unfold arch_remove. simpl. rewrite map_del_at. apply ParetoProofs.NoDup_del_at. Qed.

  Lemma insert_nodup (a : arch K I) it :
    NoDup (map uidf (items a)) -> ~ In (uidf it) (map uidf (items a)) ->
    NoDup (map uidf (items (arch_insert key worse a it))).
  Proof.
    intros N Hn. apply (Permutation_NoDup (l := map uidf (it :: items a))).
    - apply Permutation_map. symmetry. apply arch_insert_perm.
    - simpl. constructor; assumption.
  Qed.

  Lemma size0_items (a : arch K I) : (size a =? 0) = true -> items a = [].
  Proof. unfold size. destruct (items a); [reflexivity|discriminate]. Qed.

  (* ---- hall of fame ---- *)
  Lemma hof_step_in k p0 a ind x :
    In x (items (hof_step key worse better similar k p0 a ind)) -> In x (items a) \/ x = p0 \/ x = ind.
  Proof.
    unfold hof_step. destruct ((size a =? 0) && negb (k =? 0)).
    - intros H. apply arch_insert_in in H. tauto.
    - destruct (last_opt (items a)); [|tauto].
      destruct (better (key ind) (key i) || (size a <? k)); [|tauto].
      destruct (existsb (similar ind) (items a)); [tauto|].
      intros H. apply arch_insert_in in H as [->|H]; [tauto|]. left.
      destruct (k <=? size a); [eapply remove_in; eassumption|exact H].
  Qed.

  Lemma hof_update_in k a pop x :
    In x (items (hof_update key worse better similar k a pop)) -> In x (items a) \/ In x pop.
  Proof.
    unfold hof_update. destruct pop as [|p0 rest]; [tauto|].
    assert (G : forall l a0, incl l (p0 :: rest) ->
              In x (items (fold_left (hof_step key worse better similar k p0) l a0)) -> In x (items a0) \/ In x (p0 :: rest)).
    { induction l as [|y l IH]; intros a0 Inc H; simpl in H; [tauto|].
      apply IH in H; [|intros z Hz; apply Inc; right; exact Hz].
      destruct H as [H|H]; [|tauto]. apply hof_step_in in H. destruct H as [H|[H|H]]; [tauto| |].
      + subst x. right. left. reflexivity.
      + subst x. right. apply Inc. left. reflexivity. }
    apply G, incl_refl.
  Qed.

  Hypothesis sim_is_uid : forall a b, similar a b = true <-> uidf a = uidf b.

  Lemma not_similar_not_in ind l : existsb (similar ind) l = false -> ~ In (uidf ind) (map uidf l).
  Proof.
    intros E Hin. apply in_map_iff in Hin as (y & Ey & Hy).
    assert (existsb (similar ind) l = true); [|congruence].
    apply existsb_exists. exists y. split; [exact Hy|]. apply sim_is_uid. auto.
  Qed.

  Lemma hof_step_nodup k p0 a ind :
    NoDup (map uidf (items a)) -> NoDup (map uidf (items (hof_step key worse better similar k p0 a ind))).
  Proof.
    intros N. unfold hof_step. destruct ((size a =? 0) && negb (k =? 0)) eqn:E0.
    - apply andb_true_iff in E0 as [E0 _]. apply insert_nodup; [exact N|].
      rewrite (size0_items a E0). intros [].
    - destruct (last_opt (items a)); [|exact N].
      destruct (better (key ind) (key i) || (size a <? k)); [|exact N].
      destruct (existsb (similar ind) (items a)) eqn:Ex; [exact N|].
      pose proof (not_similar_not_in ind (items a) Ex) as Hn.
      destruct (k <=? size a).
      + apply insert_nodup; [apply remove_nodup, N|].
        intros Hin. apply Hn. apply in_map_iff in Hin as (y & Ey & Hy). apply in_map_iff. exists y.
        split; [exact Ey|eapply remove_in; eassumption].
      + apply insert_nodup; assumption.
  Qed.

  Lemma hof_update_nodup k a pop :
    NoDup (map uidf (items a)) -> NoDup (map uidf (items (hof_update key worse better similar k a pop))).
  Proof.
    unfold hof_update. destruct pop as [|p0 rest]; [auto|]. generalize (p0 :: rest) as l. intros l. revert a.
    induction l as [|y l IH]; intros a N; simpl; [exact N|]. apply IH, hof_step_nodup, N.
  Qed.
End ArchFacts.

Section FrontFacts.
  Import Archive.Hof Archive.HofProofs Archive.Pareto.
  Variables K I : Type.
  Variable key : I -> K.
  Variables worse dom feq : K -> K -> bool.
  Variable similar : I -> I -> bool.
  Variable uidf : I -> nat.
  Variable cap : nat.

  Lemma prune_fold_in l : forall (a : arch K I) x,
    In x (items (fold_left (fun a i => arch_remove a (Z.of_nat i)) l a)) -> In x (items a).
  Proof.
    induction l as [|i l IH]; intros a x H; simpl in H; [exact H|].
    apply IH in H. eapply remove_in; eassumption.
  Qed.

  Lemma prune_fold_nodup l : forall (a : arch K I),
    NoDup (map uidf (items a)) -> NoDup (map uidf (items (fold_left (fun a i => arch_remove a (Z.of_nat i)) l a))).
  Proof. induction l as [|i l IH]; intros a N; simpl; [exact N|]. apply IH, remove_nodup, N. Qed.

  Lemma pf_step_in a ind x :
    In x (items (pf_step key worse dom feq similar cap a ind)) -> In x (items a) \/ x = ind.
  Proof.
    unfold pf_step, pf_prune.
    set (s := pf_scan key dom feq similar ind (items a) 0 false []).
    destruct (negb (s_dominated s) && negb (s_twin s)).
    - set (a2 := arch_insert key worse _ ind). intros H.
      assert (H2 : In x (items a2)) by (destruct (over_capacity cap a2); [eapply remove_in; eassumption|exact H]).
      apply arch_insert_in in H2 as [->|H2]; [tauto|]. left. eapply prune_fold_in; eassumption.
    - intros H. left. eapply prune_fold_in; eassumption.
  Qed.

  Lemma pf_update_in pop : forall a x,
    In x (items (pf_update key worse dom feq similar cap a pop)) -> In x (items a) \/ In x pop.
  Proof.
    unfold pf_update. induction pop as [|y l IH]; intros a x H; simpl in H; [tauto|].
    apply IH in H as [H|H]; [|right; right; exact H].
    apply pf_step_in in H as [H| ->]; [tauto|right; left; reflexivity].
  Qed.

  (* showing a member again: the scan ends with `dominated` or `twin`, nothing is inserted *)
  Lemma scan_member ind (Hd : dom (key ind) (key ind) = false)
        (Ht : feq (key ind) (key ind) && similar ind ind = true) ms : forall i d tr,
    In ind ms ->
    let s := pf_scan key dom feq similar ind ms i d tr in s_dominated s || s_twin s = true.
  Proof.
    induction ms as [|m ms IH]; intros i d tr Hin; [destruct Hin|]. simpl.
    destruct (negb d && dom (key m) (key ind)); [reflexivity|].
    destruct (dom (key ind) (key m)) eqn:D.
    - apply IH. destruct Hin as [->|Hin]; [congruence|exact Hin].
    - destruct (feq (key ind) (key m) && similar ind m) eqn:T; [reflexivity|].
      apply IH. destruct Hin as [->|Hin]; [congruence|exact Hin].
  Qed.

  Lemma pf_step_nodup a ind :
    dom (key ind) (key ind) = false -> feq (key ind) (key ind) && similar ind ind = true ->
    (forall y, In y (items a) -> uidf y = uidf ind -> y = ind) ->
    NoDup (map uidf (items a)) -> NoDup (map uidf (items (pf_step key worse dom feq similar cap a ind))).
  Proof.
    intros Hd Ht Hinj N. unfold pf_step, pf_prune.
    set (s := pf_scan key dom feq similar ind (items a) 0 false []).
    destruct (negb (s_dominated s) && negb (s_twin s)) eqn:E; [|apply prune_fold_nodup, N].
    assert (Hn : ~ In (uidf ind) (map uidf (items a))).
    { intros Hin. apply in_map_iff in Hin as (y & Ey & Hy). pose proof (Hinj y Hy Ey) as ->.
      pose proof (scan_member ind Hd Ht (items a) 0 false [] Hy) as Sm. fold s in Sm. simpl in Sm.
      destruct (s_dominated s), (s_twin s); simpl in *; discriminate. }
    set (a1 := fold_left _ _ a).
    assert (N2 : NoDup (map uidf (items (arch_insert key worse a1 ind)))).
    { apply insert_nodup; [apply prune_fold_nodup, N|].
      intros Hin. apply Hn. apply in_map_iff in Hin as (y & Ey & Hy). apply in_map_iff. exists y.
      split; [exact Ey|eapply prune_fold_in; eassumption]. }
    destruct (over_capacity cap _); [apply remove_nodup, N2|exact N2].
  Qed.

  Lemma pf_update_nodup pop : forall a,
    (forall x, In x pop -> dom (key x) (key x) = false /\ feq (key x) (key x) && similar x x = true) ->
    (forall y z, In y (items a ++ pop) -> In z (items a ++ pop) -> uidf y = uidf z -> y = z) ->
    NoDup (map uidf (items a)) -> NoDup (map uidf (items (pf_update key worse dom feq similar cap a pop))).
  Proof.
    unfold pf_update. induction pop as [|x l IH]; intros a Hs Hinj N; simpl; [exact N|].
    apply IH.
    - intros y Hy. apply Hs. right. exact Hy.
    - intros y z Hy Hz. apply Hinj.
      + apply in_app_or in Hy as [Hy|Hy]; [|apply in_or_app; right; right; exact Hy].
        apply pf_step_in in Hy as [Hy| ->]; apply in_or_app; [left; exact Hy|right; left; reflexivity].
      + apply in_app_or in Hz as [Hz|Hz]; [|apply in_or_app; right; right; exact Hz].
        apply pf_step_in in Hz as [Hz| ->]; apply in_or_app; [left; exact Hz|right; left; reflexivity].
    - destruct (Hs x (or_introl eq_refl)) as [Hd Ht]. apply pf_step_nodup; auto.
      intros y Hy E. apply Hinj; [apply in_or_app; left; exact Hy|apply in_or_app; right; left; reflexivity|exact E].
  Qed.
End FrontFacts.

(* ---------- fitness facts used by the Pareto front ---------- *)
Lemma dominates_loop_refl l : forall b, dominates_loop b l l = b.
Proof.
  induction l as [|a l IH]; intros b; simpl; [reflexivity|].
  assert (E : Qlt_b a a = false) by (unfold Qlt_b; rewrite (proj2 (Qle_bool_iff a a) (Qle_refl a)); reflexivity).
  rewrite E. apply IH.
Qed.

Lemma f_dom_irrefl f : Hof.f_dom f f = false.
Proof.
  unfold Hof.f_dom. destruct f as [p s|vs ws]; simpl.
  - rewrite FitnessProofs.gt_irrefl. reflexivity.
  - rewrite dominates_loop_refl. reflexivity.
Qed.

Lemma f_eq_refl f : valid f = true -> Hof.f_eq f f = true.
Proof.
  intros V. unfold Hof.f_eq, eq. rewrite V.
  assert (S : same_class f f = true) by (destruct f; reflexivity). rewrite S. simpl.
  unfold allclose. rewrite Nat.eqb_refl, FitnessProofs.close_refl_list. reflexivity.
Qed.

(* ---------- a generation of the history model run on a call list ---------- *)
Lemma history_gen_facts calls g : In g (gens (run_history calls)) ->
  g_num g < length calls /\ nth_error calls (g_num g) = Some (g_label g, g_members g).
Proof.
  intros Hin. apply In_nth_error in Hin as [k Hk].
  pose proof (map_nth_error g_num k _ Hk) as H1. rewrite run_history_nums in H1.
  pose proof (map_nth_error (fun g => (g_label g, g_members g)) k _ Hk) as H2. rewrite run_history_calls in H2.
  assert (Lk : k < length calls).
  { assert (nth_error (seq 0 (length calls)) k <> None) by congruence.
    apply nth_error_Some in H. rewrite seq_length in H. exact H. }
  apply (nth_error_nth _ _ 0) in H1. rewrite seq_nth in H1 by exact Lk. simpl in H1. subst k.
  split; assumption.
Qed.

Lemma mem_of_In u l : In u l -> mem u l = true.
Proof.
  intros H. unfold mem. apply existsb_exists. exists u. split; [exact H|apply Nat.eqb_refl].
Qed.

(* ================================================================================================ *)
(* closing the section: the evolutionary operators of the operator models satisfy the contracts      *)
(* ================================================================================================ *)
Section EvoProofs.
  Variable multi : bool.
  Variable keep : nat.
  Variable steps : nat -> evo_step.
  Variable rep_cells : nat -> list ccell -> list nat -> list ccell.
  Variable rep_partial : nat -> list ccell -> list nat -> nat -> nat -> list nat.

  Lemma view_uids h l : map Selection.uid (map (ind_of h) l) = l.
  Proof. rewrite map_map. simpl. apply map_id. Qed.

  Lemma view_incl h out l : incl out (map (ind_of h) l) -> incl (map Selection.uid out) l.
  Proof.
    intros I u Hu. apply in_map_iff in Hu as (x & <- & Hx). apply I in Hx.
    apply in_map_iff in Hx as (v & <- & Hv). exact Hv.
  Qed.

  (* inheritance: Evo/Inheritance.v through C16_inheritance_contract *)
  Lemma c_inherit_incl k h prev new : incl (c_inherit steps k h prev new) (prev ++ new).
  Proof.
    unfold c_inherit. set (e := steps k).
    destruct (InheritanceProofs.inheritance_contract_g Selection.better Selection.dom (es_scheme e) (es_sel e)
                (es_sel_oracle e) (es_pop_size e) (map (ind_of h) prev) (map (ind_of h) new)) as (out & E & I & _).
    unfold Inheritance.inherit. rewrite E. apply (view_incl h). rewrite map_app. exact I.
  Qed.

  Lemma c_inherit_nodup k h prev new : NoDup prev -> NoDup new -> NoDup (c_inherit steps k h prev new).
  Proof.
    intros Np Nn. unfold c_inherit. set (e := steps k).
    destruct (InheritanceProofs.inheritance_contract_g Selection.better Selection.dom (es_scheme e) (es_sel e)
                (es_sel_oracle e) (es_pop_size e) (map (ind_of h) prev) (map (ind_of h) new)) as (out & E & _ & _ & M).
    unfold Inheritance.inherit. rewrite E.
    destruct (es_scheme e).
    - destruct M as [_ M]. apply M; rewrite view_uids; assumption.
    - destruct M as [_ M]. apply M. rewrite view_uids. exact Nn.
    - destruct M as [_ M]. apply M; rewrite view_uids; assumption.
  Qed.

  (* elitism: Evo/Elitism.v through C16_elitism_contract *)
  Lemma c_elitism_incl k h best new : incl (c_elitism steps k h best new) (best ++ new).
  Proof.
    unfold c_elitism. set (e := steps k).
    destruct (ElitismProofs.elitism_contract_g Selection.worse (es_eparams e) (es_shuffle e)
                (map (ind_of h) best) (map (ind_of h) new)) as (I & _).
    apply (view_incl h). rewrite map_app. exact I.
  Qed.

  Lemma c_elitism_nodup k h best new : NoDup best -> NoDup new -> NoDup (c_elitism steps k h best new).
  Proof.
    intros Nb Nn. unfold c_elitism. set (e := steps k).
    destruct (ElitismProofs.elitism_contract_g Selection.worse (es_eparams e) (es_shuffle e)
                (map (ind_of h) best) (map (ind_of h) new)) as (_ & _ & N & _).
    apply N; rewrite view_uids; assumption.
  Qed.

  (* the head of the archive is kept whenever keep_n_best elitism applies and something was inherited
     (C16_elitism_contract, clause 4) - the clause `os_must` of step_admits *)
  Lemma c_elitism_head k h b best new :
    Elitism.applies (es_eparams (steps k)) = true -> Elitism.e_type (es_eparams (steps k)) = Elitism.KeepNBest ->
    1 <= length new -> In b (c_elitism steps k h (b :: best) new).
  Proof.
    intros Ap Ty Ln. unfold c_elitism. set (e := steps k).
    destruct (ElitismProofs.elitism_contract_g Selection.worse (es_eparams e) (es_shuffle e)
                (map (ind_of h) (b :: best)) (map (ind_of h) new)) as (_ & _ & _ & Hd).
    specialize (Hd (ind_of h b) Ap). rewrite map_length in Hd. specialize (Hd Ln eq_refl (or_introl Ty)).
    apply (in_map Selection.uid) in Hd. exact Hd.
  Qed.

  (* reproduction: the attempt loop of Evo/Reproduction.v through C16_reproduce_contract; what one
     attempt delivers (selection, variation, evaluation) stays an oracle with the contract of C16
     selection (members of its input) + C02 (a member as is, or a new verified individual) + C05
     (only individuals with a valid fitness come back) *)
  Hypothesis R_ok : forall k, ReproductionProofs.ratio_ok (es_rparams (steps k)).
  Hypothesis H_partial : forall k h sel i s u, In u (rep_partial k h sel i s) ->
    flag cc_valid (h ++ rep_cells k h sel) u = true /\
    (In u sel \/ (In u (fresh_ids ccell h (rep_cells k h sel)) /\ flag cc_verified (h ++ rep_cells k h sel) u = true)).

  Lemma c_reproduce_contract k h x sel c2 new x' :
    c_reproduce steps rep_cells rep_partial k h x sel = (Some (c2, new), x') ->
    NoDup new /\
    forall u, In u new -> flag cc_valid (h ++ c2) u = true /\
                          (In u sel \/ (In u (fresh_ids ccell h c2) /\ flag cc_verified (h ++ c2) u = true)).
  Proof.
    unfold c_reproduce. set (e := steps k). set (cells := rep_cells k h sel).
    set (part := fun i s => map (ind_of (h ++ cells)) (rep_partial k h sel i s)).
    pose proof (ReproductionProofs.reproduce_contract_g (es_rparams e) (length sel) part (es_under e) (R_ok k) x) as Rc.
    destruct (Reproduction.reproduce (es_rparams e) (length sel) part (es_under e) x) as [[[l|] w'] ss]; [|discriminate].
    intros E. injection E as <- <- <-. simpl in Rc. destruct Rc as (N & _ & _ & F).
    split; [exact N|]. intros u Hu. apply in_map_iff in Hu as (y & <- & Hy).
    destruct (F y Hy) as (i & s & Hi). unfold part in Hi. apply in_map_iff in Hi as (v & <- & Hv). simpl.
    apply (H_partial k h sel i s v Hv).
  Qed.

  (* archives: Archive/Hof.v, Archive/Pareto.v through Evo/Loop.arch_upd *)
  Definition c_ainv (h : list ccell) (a : Hof.hof) : Prop :=
    forall x, In x (Hof.items a) -> x = indiv_of h (Hof.uid x) /\ Hof.uid x < length h.

  Lemma indiv_of_app h c u : u < length h -> indiv_of (h ++ c) u = indiv_of h u.
  Proof.
    intros L. unfold indiv_of, fit_at, gclass_at. rewrite nth_error_app1 by exact L. reflexivity.
  Qed.

  Lemma c_ainv_app h c a : c_ainv h a -> c_ainv (h ++ c) a.
  Proof.
    intros V x Hx. destruct (V x Hx) as [E L]. split; [|rewrite app_length; lia].
    rewrite indiv_of_app by exact L. exact E.
  Qed.

  Lemma valid_fit_at h u : flag cc_valid h u = true -> valid (fit_at h u) = true.
  Proof. unfold flag, fit_at, cc_valid. destruct (nth_error h u); [auto|discriminate]. Qed.

  Lemma c_arch_contract h calls a pop :
    c_ainv h a -> good ccell cc_valid cc_verified h pop ->
    incl (c_a_items (c_arch_update multi keep h calls a pop)) (c_a_items a ++ pop) /\
    (NoDup (c_a_items a) -> NoDup (c_a_items (c_arch_update multi keep h calls a pop))) /\
    c_ainv h (c_arch_update multi keep h calls a pop).
  Proof.
    intros V G. unfold c_arch_update, c_a_items, Loop.arch_upd.
    set (m := ngs (run_history calls)). set (vp := map (indiv_of h) pop).
    assert (In' : forall x, In x (Hof.items (if multi
                     then Pareto.pf_update Hof.fitness Hof.f_worse Hof.f_dom Hof.f_eq (Loop.sim_at m) (Loop.pareto_cap keep) a vp
                     else Hof.hof_upd keep a vp)) -> In x (Hof.items a) \/ In x vp).
    { intros x. destruct multi.
      - apply pf_update_in; try exact Hof.uid.
      - unfold Hof.hof_upd. apply hof_update_in; try exact Hof.uid; exact Hof.f_dom. }
    assert (Vp : forall x, In x vp -> x = indiv_of h (Hof.uid x) /\ Hof.uid x < length h /\ In (Hof.uid x) pop).
    { intros x Hx. apply in_map_iff in Hx as (u & <- & Hu). simpl. split; [reflexivity|]. split; [|exact Hu].
      destruct (G u Hu) as [Va _]. eapply flag_lt, Va. }
    split; [|split].
    - intros u Hu. apply in_map_iff in Hu as (x & <- & Hx). apply in_or_app.
      destruct (In' x Hx) as [H|H]; [left; apply in_map, H|right; apply (Vp x H)].
    - intros N. destruct multi.
      + apply pf_update_nodup; [| |exact N].
        * intros x Hx. split; [apply f_dom_irrefl|].
          destruct (Vp x Hx) as (E & _ & Hu). destruct (G _ Hu) as [Va _]. apply valid_fit_at in Va.
          assert (Fx : Hof.fitness x = fit_at h (Hof.uid x)) by (rewrite E at 1; reflexivity).
          unfold Loop.sim_at. rewrite Fx, (f_eq_refl _ Va). simpl. rewrite Nat.eqb_refl, andb_true_r.
          destruct (ng_lookup m (Hof.uid x)); simpl; [apply Nat.eqb_refl|reflexivity].
        * intros y z Hy Hz E.
          assert (R : forall w, In w (Hof.items a ++ vp) -> w = indiv_of h (Hof.uid w)).
          { intros w Hw. apply in_app_or in Hw as [Hw|Hw]; [apply (V w Hw)|apply (Vp w Hw)]. }
          rewrite (R y Hy), (R z Hz), E. reflexivity.
      + apply hof_update_nodup; [|exact N]. intros p q. unfold Hof.sim_uid. apply Nat.eqb_eq.
    - intros x Hx. destruct (In' x Hx) as [H|H]; [apply (V x H)|]. destruct (Vp x H) as (E & L & _). auto.
  Qed.

  (* ---- the remaining operators: oracles with their contracts ---- *)
  Variable evaluate : nat -> nat -> list ccell -> list nat -> list nat.
  Variable init_cells : list ccell.
  Variable init_size : nat.
  Variable extend : list ccell -> list nat -> nat -> list ccell * list nat.
  Variable regularize : nat -> list ccell -> list nat -> list ccell * list nat.
  Variable div_freq div_min : nat.
  Variable div_unique : nat -> list ccell -> list nat -> list nat.
  Variable div_refill : nat -> list ccell -> list nat -> nat -> list ccell.
  Variable stop : nat -> cstate ccell Hof.hof (list Q) -> bool.

  Notation ver := (ver ccell cc_verified).
  Hypothesis H_init : forall c, In c init_cells -> cc_verified c = true.
  Hypothesis H_eval : forall k j h l,
    incl (evaluate k j h l) l /\ (NoDup l -> NoDup (evaluate k j h l)) /\
    forall u, In u (evaluate k j h l) -> flag cc_valid h u = true.
  Hypothesis H_extend : forall h ids n cells acc, extend h ids n = (cells, acc) ->
    incl acc (fresh_ids ccell h cells) /\ NoDup acc /\ ver (h ++ cells) acc.
  Hypothesis H_reg : forall k h pop c1 sel, regularize k h pop = (c1, sel) ->
    forall u, In u sel -> In u pop \/ (In u (fresh_ids ccell h c1) /\ flag cc_verified (h ++ c1) u = true).
  Hypothesis H_uniq : forall k h l, incl (div_unique k h l) l /\ NoDup (div_unique k h l).
  Hypothesis H_refill : forall k h l n, ver h l -> forall c, In c (div_refill k h l n) -> cc_verified c = true.

  Notation run := (evo_optimise multi keep steps rep_cells rep_partial evaluate init_cells init_size extend regularize
                                div_freq div_min div_unique div_refill stop).

  Lemma arch_empty_ok : c_a_items Hof.empty_arch = [] /\ forall h, c_ainv h Hof.empty_arch.
  Proof. split; [reflexivity|]. intros h x []. Qed.

  (* every recorded generation is repeat-free; every recorded member has a valid fitness and a
     graph accepted by the verifier *)
  Theorem evo_members fuel w0 : forall c, In c (cs_calls (run fuel w0)) ->
    NoDup (snd c) /\ forall u, In u (snd c) ->
      flag cc_valid (cs_heap (run fuel w0)) u = true /\ flag cc_verified (cs_heap (run fuel w0)) u = true.
  Proof.
    unfold evo_optimise.
    apply (optimise_members ccell Hof.hof (list Q) cc_valid cc_verified c_a_items Hof.empty_arch c_ainv); auto.
    - intros; eapply c_reproduce_contract; eassumption.
    - apply c_inherit_incl.
    - apply c_inherit_nodup.
    - apply c_elitism_incl.
    - apply c_elitism_nodup.
    - apply arch_empty_ok.
    - apply c_ainv_app.
    - intros. apply c_arch_contract; assumption.
  Qed.

  (* one archive snapshot per generation, repeat-free, its members occur in that or an earlier generation *)
  Theorem evo_snapshots fuel w0 :
    let r := run fuel w0 in
    length (cs_snaps r) = length (cs_calls r) /\
    forall i sn, nth_error (cs_snaps r) i = Some sn ->
      NoDup sn /\ incl sn (concat (map snd (firstn (S i) (cs_calls r)))).
  Proof.
    unfold evo_optimise.
    apply (optimise_snapshots ccell Hof.hof (list Q) cc_valid cc_verified c_a_items Hof.empty_arch c_ainv); auto.
    - intros; eapply c_reproduce_contract; eassumption.
    - apply c_inherit_incl.
    - apply c_inherit_nodup.
    - apply c_elitism_incl.
    - apply c_elitism_nodup.
    - apply arch_empty_ok.
    - apply c_ainv_app.
    - intros. apply c_arch_contract; assumption.
  Qed.

  (* the labels, for every number of passes of the loop *)
  Theorem evo_labels fuel w0 :
    exists n, n <= fuel /\
      map fst (cs_calls (run fuel w0)) =
      LInitial :: (if length init_cells <? init_size then [LExtended] else []) ++ repeat LNone n ++ [LFinal].
  Proof.
    unfold evo_optimise.
    apply (optimise_labels ccell Hof.hof (list Q) cc_valid cc_verified c_a_items Hof.empty_arch c_ainv); auto.
    - intros; eapply c_reproduce_contract; eassumption.
    - apply c_inherit_incl.
    - apply c_inherit_nodup.
    - apply c_elitism_incl.
    - apply c_elitism_nodup.
    - apply arch_empty_ok.
    - apply c_ainv_app.
    - intros. apply c_arch_contract; assumption.
  Qed.

  (* the history the composed run leaves behind (History.run_history on the calls it made): numbered
     from zero, first generation = initial assumptions, last = final choices, every member of every
     generation once, with a valid fitness, a verified graph and a native generation no later than
     the generation *)
  Theorem evo_history fuel w0 :
    let r := run fuel w0 in
    let hs := run_history (cs_calls r) in
    map g_num (gens hs) = seq 0 (length (cs_calls r)) /\
    (exists g0 rest, gens hs = g0 :: rest /\ g_label g0 = LInitial) /\
    (exists front gl, gens hs = front ++ [gl] /\ g_label gl = LFinal) /\
    length (cs_snaps r) = length (gens hs) /\
    forall g, In g (gens hs) ->
      NoDup (g_members g) /\
      forall u, In u (g_members g) ->
        flag cc_valid (cs_heap r) u = true /\ flag cc_verified (cs_heap r) u = true /\
        exists n, ng_lookup (ngs hs) u = Some n /\ n <= g_num g.
  Proof.
    intros r hs. split; [apply run_history_nums|].
    pose proof (run_history_calls (cs_calls r)) as Ec. fold hs in Ec.
    destruct (evo_labels fuel w0) as (n & _ & El). fold r in El.
    assert (Lab : map g_label (gens hs) = map fst (cs_calls r)).
    { rewrite <- Ec, map_map. reflexivity. }
    rewrite El in Lab.
    split; [|split; [|split]].
    - destruct (gens hs) as [|g0 rest]; [discriminate|]. exists g0, rest. split; [reflexivity|].
      simpl in Lab. injection Lab as L0 _. exact L0.
    - destruct (exists_last (l := gens hs)) as (front & gl & Eg); [intros E; rewrite E in Lab; discriminate|].
      exists front, gl. split; [exact Eg|]. rewrite Eg, map_app in Lab. simpl in Lab.
      change (LInitial :: (if length init_cells <? init_size then [LExtended] else []) ++ repeat LNone n ++ [LFinal])
        with ((LInitial :: (if length init_cells <? init_size then [LExtended] else [])) ++ repeat LNone n ++ [LFinal]) in Lab.
      rewrite !app_assoc in Lab. apply app_inj_tail in Lab. apply Lab.
    - destruct (evo_snapshots fuel w0) as [L _]. fold r in L. rewrite L.
      rewrite <- Ec at 1. rewrite map_length. reflexivity.
    - intros g Hg. destruct (history_gen_facts _ g Hg) as [Lk Hk].
      assert (Hc : In (g_label g, g_members g) (cs_calls r)) by (eapply nth_error_In; eassumption).
      destruct (evo_members fuel w0 _ Hc) as [N G]. simpl in N, G. split; [exact N|].
      intros u Hu. destruct (G u Hu) as [Va Ve]. split; [exact Va|]. split; [exact Ve|].
      apply (member_native_le (cs_calls r) (g_num g) (g_label g, g_members g) u Hk). simpl. apply mem_of_In, Hu.
  Qed.

  (* lineage of the composed run: created after the parents -> the walker of C06 terminates *)
  Hypothesis W_init : forall c, In c init_cells -> cc_parents c = [].
  Hypothesis W_ext : forall h ids n cells acc, extend h ids n = (cells, acc) -> cells_wf ccell cc_parents h cells.
  Hypothesis W_reg : forall k h pop c1 sel, regularize k h pop = (c1, sel) -> cells_wf ccell cc_parents h c1.
  Hypothesis W_cells : forall k h sel, cells_wf ccell cc_parents h (rep_cells k h sel).
  Hypothesis W_refill : forall k h l n, cells_wf ccell cc_parents h (div_refill k h l n).

  Theorem evo_lineage_wf fuel w0 : wf_heap (map to_hind (cs_heap (run fuel w0))).
  Proof.
    assert (W : wfh ccell cc_parents (cs_heap (run fuel w0))).
    { unfold evo_optimise. apply wfh_optimise; auto.
      intros k h x sel c2 new x'. unfold c_reproduce.
      destruct (Reproduction.reproduce _ _ _ _ _) as [[[l|] w'] ss]; [|discriminate].
      intros E. injection E as <- <- <-. apply W_cells. }
    intros r p Hp. unfold parents_of in Hp. rewrite nth_error_map in Hp.
    destruct (nth_error (cs_heap (run fuel w0)) r) as [c|] eqn:E; simpl in Hp; [|destruct Hp].
    eapply W; eassumption.
  Qed.
End EvoProofs.
