(* C17 - executable models of the built-in crossover FUNCTIONS of
   golem/core/optimisers/genetic/operators/crossover.py and of gp_operators.replace_subtrees,
   as compositions of the LinkedGraph primitives of Graph/Ops.v.  Definitions only.

   State = one heap of node objects and the `_nodes` lists of the two graphs.  Relatives
   (deepcopies of one ancestor) are two graphs with disjoint objects whose uids coincide.
   Random decisions are explicit arguments:
   * subtree / one_point: the two nodes handed to replace_subtrees and the outcome of its two
     depth tests (`summary_depth <= max_depth and summary_depth != 0`), or None when
     one_point_crossover found no pair of equivalent subtrees - property C17 says nothing
     about depth, and every pair (member of graph 1, member of graph 2) is allowed;
   * exchange_edges: the two edge samples; exchange_parents_one/both: the selected node.
   * subgraph_crossover: the chosen link, the pairs cut by the while loop, the random connections. *)
From Coq Require Import List Arith Bool.
From GolemV Require Import Graph.Heap Graph.Ops Evo.Mutations.
Import ListNotations.

Definition cstate := (heap * (graph * graph))%type.

(* ------------------------------------------------------------------ replace_subtrees *)
(* node_from_graph_first_copy = deepcopy(node_from_first)
   if <depth test 1>: graph_first.update_subtree(node_from_first, node_from_second)
   if <depth test 2>: graph_second.update_subtree(node_from_second, node_from_graph_first_copy) *)
Definition replace_subtrees (s : cstate) (n1 n2 : ref) (do1 do2 : bool) : res cstate :=
  let h := fst s in let g1 := fst (snd s) in let g2 := snd (snd s) in
  bind (deepcopy h n1) (fun hc =>
  bind (if do1 then update_subtree (fst hc) g1 n1 n2 else Ok (fst hc, g1)) (fun s1 =>
  bind (if do2 then update_subtree (fst s1) g2 n2 (snd hc) else Ok (fst s1, g2)) (fun s2 =>
  Ok (fst s2, (snd s1, snd s2))))).

Definition subtree_crossover (c : option (ref * ref * (bool * bool))) (s : cstate) : res cstate :=
  match c with
  | None => Ok s
  | Some (n1, n2, (do1, do2)) => replace_subtrees s n1 n2 do1 do2
  end.

(* ------------------------------------------------------------------ find a node by name or create it *)
(* graph.get_nodes_by_name(str(node))[0]  or  OptNode(str(node)) + graph.add_node *)
Definition find_label (h : heap) (g : graph) (l : nat) : option ref :=
  find (fun r => label (get h r) =? l) g.

Definition find_or_create (h : heap) (g : graph) (l : nat) : res (heap * graph * ref) :=
  match find_label h g l with
  | Some r => Ok (h, g, r)
  | None => let n := length h in
            let h1 := h ++ [mkNode (fresh_uid h) l [] true] in
            bind (add_node h1 g n) (fun s => Ok (fst s, snd s, n))
  end.

(* find_nodes_in_other_graph(nodes, graph): one after the other, the graph grows on the way *)
Fixpoint find_all (h : heap) (g : graph) (ls : list nat) : res (heap * graph * list ref) :=
  match ls with
  | [] => Ok (h, g, [])
  | l :: t => bind (find_or_create h g l) (fun x =>
              let '(h1, g1, r) := x in
              bind (find_all h1 g1 t) (fun y => let '(h2, g2, rs) := y in Ok (h2, g2, r :: rs)))
  end.

(* for p in ps: if (p, c) not in old_edges: c.nodes_from.append(p) *)
Definition append_parent (old : list (ref * ref)) (h : heap) (pc : ref * ref) : heap :=
  let p := fst pc in let c := snd pc in
  if mem2 (c, p) old then h else set_pars h c (pl_append (uniq (get h c)) (pars h c) p).

(* ------------------------------------------------------------------ exchange_edges_crossover *)
(* for parent, child in sample: child.nodes_from.remove(parent) *)
Fixpoint remove_edges (es : list (ref * ref)) (h : heap) : res heap :=
  match es with
  | [] => Ok h
  | (p, c) :: t => bind (list_remove p (pars h c)) (fun ps => remove_edges t (set_pars h c ps))
  end.

(* find_edges_in_other_graph(edges, graph) : edges given by the labels of (parent, child) *)
Fixpoint find_edges (h : heap) (g : graph) (ls : list (nat * nat)) : res (heap * graph * list (ref * ref)) :=
  match ls with
  | [] => Ok (h, g, [])
  | (lp, lc) :: t =>
      bind (find_or_create h g lp) (fun x => let '(h1, g1, p) := x in
      bind (find_or_create h1 g1 lc) (fun y => let '(h2, g2, c) := y in
      bind (find_edges h2 g2 t) (fun z => let '(h3, g3, es) := z in Ok (h3, g3, (p, c) :: es))))
  end.

Definition labels_of (h : heap) (es : list (ref * ref)) : list (nat * nat) :=
  map (fun e => (label (get h (fst e)), label (get h (snd e)))) es.

(* e1, e2 : the samples of (parent, child) pairs taken from graph_first / graph_second *)
Definition exchange_edges (e1 e2 : list (ref * ref)) (s : cstate) : res cstate :=
  let h := fst s in let g1 := fst (snd s) in let g2 := snd (snd s) in
  bind (remove_edges e1 h) (fun ha =>
  bind (remove_edges e2 ha) (fun hb =>
  let old1 := edges hb g1 in let old2 := edges hb g2 in
  bind (find_edges hb g2 (labels_of hb e1)) (fun x => let '(hc, g2', new2) := x in
  bind (find_edges hc g1 (labels_of hc e2)) (fun y => let '(hd, g1', new1) := y in
  let he := fold_left (append_parent old1) new1 hd in
  let hf := fold_left (append_parent old2) new2 he in
  Ok (hf, (g1', g2')))))).

(* ------------------------------------------------------------------ exchange_parents_one_crossover *)
Definition has_edges (h : heap) (g : graph) : bool := negb (null (edges h g)).

(* sel : the node of graph_second chosen among those that have a parent or a child *)
Definition exchange_parents_one (sel : option ref) (s : cstate) : res cstate :=
  let h := fst s in let g1 := fst (snd s) in let g2 := snd (snd s) in
  match sel with
  | None => Ok s
  | Some v =>
      let ps := pars h v in
      bind (find_or_create h g1 (label (get h v))) (fun x => let '(h1, g1a, n1) := x in
      let h2 := set_pars_uniq h1 n1 [] in
      let old1 := edges h2 g1a in
      match ps with
      | [] => Ok (h2, (g1a, g2))
      | _ :: _ =>
          bind (find_all h2 g1a (map (fun p => label (get h2 p)) ps)) (fun y => let '(h3, g1b, ps1) := y in
          Ok (fold_left (append_parent old1) (map (fun p => (p, n1)) ps1) h3, (g1b, g2)))
      end)
  end.

(* ------------------------------------------------------------------ exchange_parents_both_crossover *)
(* for p in parents: node.nodes_from.remove(p)   where `parents` IS node.nodes_from:
   the list iterator advances by index while the list shrinks under it *)
Fixpoint iter_remove (fuel i : nat) (l : list ref) : res (list ref) :=
  match fuel with
  | O => Ok l
  | S k => if i <? length l then bind (list_remove (nth i l 0) l) (iter_remove k (S i)) else Ok l
  end.

Definition exchange_parents_both (sel : option ref) (s : cstate) : res cstate :=
  let h := fst s in let g1 := fst (snd s) in let g2 := snd (snd s) in
  match sel with
  | None => Ok s
  | Some v2 =>
      bind (find_all h g1 (map (fun p => label (get h p)) (pars h v2))) (fun x => let '(h1, g1a, in_first) := x in
      bind (find_or_create h1 g1a (label (get h1 v2))) (fun y => let '(h2, g1b, v1) := y in
      bind (find_all h2 g2 (map (fun p => label (get h2 p)) (pars h2 v1))) (fun z => let '(h3, g2a, in_second) := z in
      bind (iter_remove (length (pars h3 v1)) 0 (pars h3 v1)) (fun r1 =>
      let h4 := set_pars h3 v1 r1 in
      bind (iter_remove (length (pars h4 v2)) 0 (pars h4 v2)) (fun r2 =>
      let h5 := set_pars h4 v2 r2 in
      let old1 := edges h5 g1b in let old2 := edges h5 g2a in
      let h6 := fold_left (append_parent old1) (map (fun p => (p, v1)) in_first) h5 in
      let h7 := fold_left (append_parent old2) (map (fun p => (p, v2)) in_second) h6 in
      Ok (h7, (g1b, g2a)))))))
  end.

(* ------------------------------------------------------------------ subgraph_crossover *)
(* neighbours ignoring the direction of the links: node.nodes_from and graph.node_children(node) *)
Definition nbrs (h : heap) (g : graph) (r : ref) : list ref := pars h r ++ node_children h g r.

(* _bfs of get_connected_components: the undirected component of x (as a set; listed below in
   graph order, as the code does with sorted(component, key=graph.nodes.index)) *)
Definition component (h : heap) (g : graph) (x : ref) : res (list ref) :=
  dfs_add (nbrs h g) (S (length h)) [] x.

Definition in_order (g comp : list ref) : list ref := filter (fun r => memb r comp) g.

(* node_first, node_second = choice(simple_paths[0]):
   disconnect(first, second) if first in second.nodes_from else disconnect(second, first) *)
Definition cut_pair (s : state) (ab : ref * ref) : res state :=
  let a := fst ab in let b := snd ab in
  if memb a (pars (fst s) b) then disconnect_nodes (fst s) (snd s) a b false
  else disconnect_nodes (fst s) (snd s) b a false.

Fixpoint cut_all (cuts : list (ref * ref)) (s : state) : res state :=
  match cuts with
  | [] => Ok s
  | c :: t => bind (cut_pair s c) (cut_all t)
  end.

(* get_subgraphs(graph).
   first = the (parent, child) pair `target, source = choice(edges)`; cuts = the pairs cut by the
   while loop, in order (each is taken from a shortest simple undirected path between source and
   target: an oracle answer here; a pair that is not a link of the graph cuts nothing).  The loop
   ends exactly when source and target are in different undirected components: a cut list that
   leaves them connected is not a run of the function (Unmodelled).
   Result: heap, (component of source, component of target) in graph order, division points
   (`division_points.union(...)` discards its result: the set stays {source, target}).
   Without any link the code returns deepcopy([nodes, nodes]) - ONE batch of copies listed twice -
   and division points that are copies from ANOTHER deepcopy, hence never found in a subgraph. *)
Definition get_subgraphs (h : heap) (g : graph) (first : option (ref * ref)) (cuts : list (ref * ref))
  : res (heap * (list ref * list ref) * list ref) :=
  if null (edges h g) then
    let copies := seq (length h) (length g) in
    Ok (h ++ map (get h) g, (copies, copies), [])
  else match first with
       | None => Raise Unmodelled
       | Some ts =>
           let tgt := fst ts in let src := snd ts in
           bind (disconnect_nodes h g tgt src false) (fun s1 =>
           bind (cut_all cuts s1) (fun s2 =>
           bind (component (fst s2) (snd s2) src) (fun c_src =>
           if memb tgt c_src then Raise Unmodelled
           else bind (component (fst s2) (snd s2) tgt) (fun c_tgt =>
                Ok (fst s2, (in_order (snd s2) c_src, in_order (snd s2) c_tgt), [src; tgt])))))
       end.

(* OptGraph([*first, *second]): add_node for every listed node *)
Fixpoint add_all (h : heap) (l : list ref) (g : graph) : res graph :=
  match l with
  | [] => Ok g
  | n :: t => bind (add_node_g h g n) (add_all h t)
  end.

Fixpoint remove_nth (i : nat) (l : list ref) : list ref :=
  match l, i with
  | [], _ => []
  | _ :: t, O => t
  | x :: t, S i' => x :: remove_nth i' t
  end.

(* for _ in range(connections_num): pop a random point of each side; a coin decides the direction.
   conns = (index in first_points, index in second_points, random() > 0.5) per iteration; an
   index out of range or a missing entry is not a run of the function *)
Fixpoint connect_loop (num : nat) (conns : list (nat * nat * bool)) (fp sp : list ref) (s : state) : res state :=
  match num with
  | O => Ok s
  | S k =>
      match conns with
      | [] => Raise Unmodelled
      | (i, j, coin) :: rest =>
          match nth_error fp i, nth_error sp j with
          | Some a, Some b =>
              bind (if coin then connect_nodes (fst s) (snd s) a b else connect_nodes (fst s) (snd s) b a)
                   (connect_loop k rest (remove_nth i fp) (remove_nth j sp))
          | _, _ => Raise Unmodelled
          end
      end
  end.

(* connect_subgraphs(first_subgraph, second_subgraph, first_div_points, second_div_points) *)
Definition connect_subgraphs (h : heap) (A B divA divB : list ref) (conns : list (nat * nat * bool)) : res state :=
  let fp := filter (fun r => memb r divA) A in
  let sp := filter (fun r => memb r divB) B in
  let num := Nat.min (length fp) (length sp) in
  let h1 := renew_uids (map (fun r => uid (get h r)) A) B h in
  bind (add_all h1 (A ++ B) []) (fun g => connect_loop num conns fp sp (h1, g)).

Record sub_choices := mkSub {
  sc_first1 : option (ref * ref); sc_cuts1 : list (ref * ref);
  sc_first2 : option (ref * ref); sc_cuts2 : list (ref * ref);
  sc_conns1 : list (nat * nat * bool); sc_conns2 : list (nat * nat * bool) }.

Definition subgraph_crossover (c : sub_choices) (s : cstate) : res cstate :=
  let h := fst s in let g1 := fst (snd s) in let g2 := snd (snd s) in
  bind (get_subgraphs h g1 (sc_first1 c) (sc_cuts1 c)) (fun x =>
  bind (get_subgraphs (fst (fst x)) g2 (sc_first2 c) (sc_cuts2 c)) (fun y =>
  let F := snd (fst x) in let S := snd (fst y) in
  bind (connect_subgraphs (fst (fst y)) (fst F) (snd S) (snd x) (snd y) (sc_conns1 c)) (fun r1 =>
  bind (connect_subgraphs (fst r1) (snd F) (fst S) (snd x) (snd y) (sc_conns2 c)) (fun r2 =>
  Ok (fst r2, (snd r1, snd r2)))))).

(* ------------------------------------------------------------------ the crossover functions *)
Inductive xcall :=
| XSubtree (c : option (ref * ref * (bool * bool)))     (* subtree_crossover and one_point_crossover *)
| XEdges (e1 e2 : list (ref * ref))
| XParentsOne (sel : option ref)
| XParentsBoth (sel : option ref)
| XSubgraph (c : sub_choices).

Definition run_cx (c : xcall) (s : cstate) : res cstate :=
  match c with
  | XSubtree x => subtree_crossover x s
  | XEdges a b => exchange_edges a b s
  | XParentsOne v => exchange_parents_one v s
  | XParentsBoth v => exchange_parents_both v s
  | XSubgraph x => subgraph_crossover x s
  end.

(* ------------------------------------------------------------------ comparison with the code *)
Inductive cobs := COk (h : heap) (g1 g2 : graph) | CRaise.

Definition agree_cstate (known : list nat) (r : res cstate) (o : cobs) : bool :=
  match r, o with
  | Ok s, COk ho o1 o2 => state_sim known (fst s) ho (fst (snd s)) o1 && state_sim known (fst s) ho (snd (snd s)) o2
  | Raise _, CRaise => true
  | _, _ => false
  end.

Definition cx_agree (known : list nat) (s : cstate) (cands : list xcall) (o : cobs) : bool :=
  existsb (fun c => agree_cstate known (run_cx c s) o) cands.

(* ------------------------------------------------------------------ the property on observed behaviour *)
Definition disjoint_b (a b : list nat) : bool := forallb (fun x => negb (memb x b)) a.

(* two non-empty well-formed acyclic graphs without a common node object (their uids may coincide) *)
Definition cx_in_domain (s : cstate) : bool :=
  let h := fst s in let g1 := fst (snd s) in let g2 := snd (snd s) in
  wf_b h g1 && wf_b h g2 && acyc_b h g1 && acyc_b h g2 && negb (null g1) && negb (null g2) &&
  disjoint_b g1 g2.

(* both results well-formed: closed under parents, no repeated node, parent link or uid *)
Definition cx_holds_b (s : cstate) (o : cobs) : bool :=
  if cx_in_domain s then
    match o with
    | CRaise => false
    | COk h' g1' g2' => wf_b h' g1' && wf_b h' g2'
    end
  else true.

Definition cx_check (known : list nat) (s : cstate) (cands : list xcall) (o : cobs) : list bool :=
  [cx_agree known s cands o; cx_holds_b s o; cx_in_domain s].
