(* C17 - proofs about the crossover models of Evo/Crossovers.v. *)
From Coq Require Import List Arith Bool Lia.
From GolemV Require Import Graph.Heap Graph.Ops Graph.OpsSpec Graph.OpsBase Graph.OpsDfs Graph.OpsProofs
  Graph.OpsProofs2 Graph.OpsChar Graph.OpsAcyclic Evo.Mutations Evo.MutationsProofs Evo.Crossovers.
Import ListNotations.

(* ------------------------------------------------------------------ the oracle decides the stated Props *)
Lemma disjoint_b_iff : forall a b, disjoint_b a b = true <-> (forall x, In x a -> In x b -> False).
Proof.
  intros a b. unfold disjoint_b. rewrite forallb_forall. split.
  - intros H x Ha Hb. specialize (H x Ha). apply negb_true_iff in H. apply memb_false in H. tauto.
  - intros H x Ha. apply negb_true_iff. apply memb_false. intros Hb. eapply H; eauto.
Qed.

(* two graphs over one heap that are both well-formed and share no node object *)
Definition Inv2 (h : heap) (g1 g2 : graph) : Prop :=
  WF h g1 /\ WF h g2 /\ (forall x, In x g1 -> In x g2 -> False).

Lemma Inv2_sym : forall h g1 g2, Inv2 h g1 g2 -> Inv2 h g2 g1.
Proof. intros h g1 g2 [A [B C]]. split; [exact B|]. split; [exact A|]. intros x X Y. eapply C; eauto. Qed.

Lemma cx_in_domain_iff : forall h g1 g2,
  cx_in_domain (h, (g1, g2)) = true <->
  Inv2 h g1 g2 /\ acyclic h g1 /\ acyclic h g2 /\ g1 <> [] /\ g2 <> [].
Proof.
  intros h g1 g2. unfold cx_in_domain, Inv2. cbn [fst snd].
  rewrite !andb_true_iff, !wf_b_iff, !null_false, disjoint_b_iff. split.
  - intros [[[[[[W1 W2] A1] A2] N1] N2] D].
    split; [auto|]. split; [apply acyc_b_iff; assumption|]. split; [apply acyc_b_iff; assumption|auto].
  - intros [[W1 [W2 D]] [A1 [A2 [N1 N2]]]].
    split; [split; [split; [split; [split; [split|]|]|]|]|]; auto; apply acyc_b_iff; assumption.
Qed.

Theorem cx_holds_b_sound : forall h g1 g2 h' g1' g2',
  cx_holds_b (h, (g1, g2)) (COk h' g1' g2') = true -> cx_in_domain (h, (g1, g2)) = true ->
  WF h' g1' /\ WF h' g2'.
Proof.
  intros h g1 g2 h' g1' g2' H D. unfold cx_holds_b in H. rewrite D in H.
  apply andb_true_iff in H. rewrite !wf_b_iff in H. exact H.
Qed.

Theorem cx_holds_b_complete : forall s h' g1' g2', WF h' g1' -> WF h' g2' -> cx_holds_b s (COk h' g1' g2') = true.
Proof.
  intros s h' g1' g2' W1 W2. unfold cx_holds_b. destruct (cx_in_domain s); [|reflexivity].
  apply andb_true_iff. rewrite !wf_b_iff. auto.
Qed.

Theorem cx_holds_b_raise : forall s, cx_in_domain s = true -> cx_holds_b s CRaise = false.
Proof. intros s D. unfold cx_holds_b. rewrite D. reflexivity. Qed.

(* ------------------------------------------------------------------ frame: cells of the other graph *)
Lemma WF_frame : forall h g h', WF h g -> heap_ok h' -> length h <= length h' ->
  (forall r, In r g -> get h' r = get h r) -> WF h' g.
Proof.
  intros h g h' W HK L V. constructor; auto.
  - apply (wf_nodup _ _ W).
  - intros r Hr. pose proof (wf_valid _ _ W r Hr). lia.
  - intros a b Ha Hb. rewrite (V a Ha), (V b Hb). apply (wf_uid _ _ W); auto.
  - intros r Hr. unfold pars. rewrite (V r Hr). apply (wf_pnodup _ _ W). exact Hr.
  - intros r Hr. rewrite (V r Hr). apply (wf_uniq _ _ W). exact Hr.
  - intros r p Hr Hp. unfold pars in Hp. rewrite (V r Hr) in Hp. eapply (wf_closed _ _ W); eauto.
Qed.

(* assigning a duplicate-free list of members as the parents of a member of the first graph *)
Lemma Inv2_set_pars : forall h g1 g2 c ps, Inv2 h g1 g2 -> In c g1 -> NoDup ps ->
  (forall p, In p ps -> In p g1) -> Inv2 (set_pars h c ps) g1 g2.
Proof.
  intros h g1 g2 c ps [W1 [W2 D]] Hc ND I.
  pose proof (WF_set_pars h g1 c ps W1 Hc ND I) as W1'.
  split; [exact W1'|]. split; [|exact D].
  apply (WF_frame h g2); [exact W2|apply (wf_heap _ _ W1')|rewrite length_set_pars; lia|].
  intros r Hr. unfold set_pars. apply get_upd_neq. intros <-. eapply D; eauto.
Qed.

Lemma set_pars_uniq_eq : forall h c ps, uniq (get h c) = true -> set_pars_uniq h c ps = set_pars h c ps.
Proof. intros h c ps U. unfold set_pars_uniq, set_pars, with_parents. rewrite U. reflexivity. Qed.

(* ------------------------------------------------------------------ find a node by name or create it *)
Lemma find_label_In : forall h g l r, find_label h g l = Some r -> In r g /\ label (get h r) = l.
Proof.
  intros h g l r E. unfold find_label in E. apply find_some in E. destruct E as [A B].
  apply Nat.eqb_eq in B. auto.
Qed.

Lemma find_or_create_good : forall h g1 g2 l, Inv2 h g1 g2 ->
  exists h' g1' r, find_or_create h g1 l = Ok (h', g1', r) /\ Inv2 h' g1' g2 /\ In r g1' /\ incl g1 g1' /\
    length h <= length h' /\ (forall x, x < length h -> get h' x = get h x).
Proof.
  intros h g1 g2 l I. unfold find_or_create.
  destruct (find_label h g1 l) as [r|] eqn:F.
  - exists h, g1, r. apply find_label_In in F. split; [reflexivity|]. split; [exact I|].
    split; [tauto|]. split; [apply incl_refl|]. split; [lia|auto].
  - destruct I as [W1 [W2 D]].
    set (nn := (fresh_uid h, l)).
    assert (FR : forall r, In r g1 -> uid (get h r) <> fst nn).
    { intros r _. pose proof (fresh_uid_gt h r). simpl. lia. }
    change (mkNode (fresh_uid h) l [] true) with (fresh_node nn).
    pose proof (alloc1_WF h g1 nn W1) as Wa.
    pose proof (alloc1_pars_new h nn) as P.
    pose proof (alloc1_new_not_member h g1 W1) as N.
    rewrite (add_node_leaf _ g1 (length h) N P). cbn [bind fst snd].
    destruct (add_node_WF _ g1 (length h) Wa (alloc1_guard_add h g1 nn W1 FR)) as [s' [E' W']].
    rewrite (add_node_leaf _ g1 (length h) N P) in E'. inversion E'; subst s'. simpl in W'.
    exists (h ++ [fresh_node nn]), (g1 ++ [length h]), (length h).
    split; [reflexivity|]. split; [|split; [|split; [|split]]].
    + split; [exact W'|]. split.
      * apply WF_app; [exact W2|apply (wf_heap _ _ W')].
      * intros x Hx Hy. apply in_app_or in Hx. destruct Hx as [Hx|[<-|[]]]; [eapply D; eauto|].
        pose proof (wf_valid _ _ W2 _ Hy). lia.
    + apply in_or_app. right. left. reflexivity.
    + intros x Hx. apply in_or_app. left. exact Hx.
    + rewrite app_length. lia.
    + intros x Hx. apply get_app_l. exact Hx.
Qed.

Lemma find_all_good : forall ls h g1 g2, Inv2 h g1 g2 ->
  exists h' g1' rs, find_all h g1 ls = Ok (h', g1', rs) /\ Inv2 h' g1' g2 /\ (forall r, In r rs -> In r g1') /\
    incl g1 g1' /\ length h <= length h' /\ (forall x, x < length h -> get h' x = get h x).
Proof.
  induction ls as [|l t IH]; intros h g1 g2 I; simpl.
  - exists h, g1, []. split; [reflexivity|]. split; [exact I|]. split; [intros r []|].
    split; [apply incl_refl|]. split; [lia|auto].
  - destruct (find_or_create_good h g1 g2 l I) as [h1 [g1a [r [E [I1 [Hr [Inc [L1 F1]]]]]]]].
    rewrite E. cbn [bind].
    destruct (IH h1 g1a g2 I1) as [h2 [g1b [rs [E2 [I2 [Hrs [Inc2 [L2 F2]]]]]]]].
    rewrite E2. cbn [bind].
    exists h2, g1b, (r :: rs). split; [reflexivity|]. split; [exact I2|]. split; [|split; [|split]].
    + intros x [<-|Hx]; [apply Inc2; exact Hr|apply Hrs; exact Hx].
    + intros x Hx. apply Inc2. apply Inc. exact Hx.
    + lia.
    + intros x Hx. rewrite F2 by lia. apply F1. exact Hx.
Qed.

(* for p in ps: if (p, c) not in old_edges: c.nodes_from.append(p) *)
Lemma append_parents_good : forall old c ps h g1 g2, Inv2 h g1 g2 -> In c g1 ->
  (forall p, In p ps -> In p g1) ->
  Inv2 (fold_left (append_parent old) (map (fun p => (p, c)) ps) h) g1 g2.
Proof.
  intros old c. induction ps as [|p t IH]; intros h g1 g2 I Hc Hps; simpl; [exact I|].
  apply IH; [|exact Hc|intros q Hq; apply Hps; right; exact Hq].
  unfold append_parent. cbn [fst snd]. destruct (mem2 (c, p) old); [exact I|].
  destruct I as [W1 [W2 D]].
  assert (U : uniq (get h c) = true) by (apply (wf_uniq _ _ W1); exact Hc). rewrite U.
  apply Inv2_set_pars; [split; auto|exact Hc| |].
  - apply pl_append_nodup. apply (wf_pnodup _ _ W1). exact Hc.
  - intros q Hq. apply pl_append_In in Hq. destruct Hq as [Hq| ->].
    + eapply (wf_closed _ _ W1); eauto.
    + apply Hps. left. reflexivity.
Qed.

(* ------------------------------------------------------------------ exchange_parents_one_crossover *)
(* For every selected node of the second graph (or none): returns, both results well-formed,
   the second graph is the same list over untouched cells. *)
Theorem exchange_parents_one_ok : forall sel h g1 g2, Inv2 h g1 g2 ->
  (forall v, sel = Some v -> In v g2) ->
  exists h' g1', exchange_parents_one sel (h, (g1, g2)) = Ok (h', (g1', g2)) /\ Inv2 h' g1' g2.
Proof.
  intros [v|] h g1 g2 I Hs; unfold exchange_parents_one; cbn [fst snd]; [|exists h, g1; auto].
  destruct (find_or_create_good h g1 g2 (label (get h v)) I) as [h1 [g1a [n1 [E [I1 [Hn [Inc [L1 F1]]]]]]]].
  rewrite E. cbn [bind].
  assert (U : uniq (get h1 n1) = true) by (destruct I1 as [W _]; apply (wf_uniq _ _ W); exact Hn).
  rewrite (set_pars_uniq_eq h1 n1 [] U).
  assert (I2 : Inv2 (set_pars h1 n1 []) g1a g2).
  { apply Inv2_set_pars; auto; [constructor|intros p []]. }
  destruct (pars h v) as [|q t] eqn:EP.
  - exists (set_pars h1 n1 []), g1a. auto.
  - set (h2 := set_pars h1 n1 []) in *.
    destruct (find_all_good (map (fun p => label (get h2 p)) (q :: t)) h2 g1a g2 I2)
      as [h3 [g1b [ps1 [E3 [I3 [Hps [Inc3 _]]]]]]].
    rewrite E3. cbn [bind].
    exists (fold_left (append_parent (edges h2 g1a)) (map (fun p => (p, n1)) ps1) h3), g1b.
    split; [reflexivity|]. apply append_parents_good; auto.
Qed.

(* ------------------------------------------------------------------ subtree_crossover / one_point_crossover *)
(* what update_subtree needs of the subtree it copies in: its root is an object, no cycle is
   reachable from it, the reachable objects have duplicate-free UniqueList parents and pairwise
   distinct uids (nothing about clashes with the receiving graph) *)
Definition sub_ok (h : heap) (n : ref) : Prop :=
  n < length h /\ acyclic_from h n /\
  (forall r, reach h n r -> uniq (get h r) = true /\ NoDup (pars h r)) /\
  (forall a b, reach h n a -> reach h n b -> uid (get h a) = uid (get h b) -> a = b).

Lemma filter_all : forall (R : list ref), filter (fun r => negb (memb r [])) R = R.
Proof. induction R as [|a t IH]; simpl; [reflexivity|]. f_equal. exact IH. Qed.

Lemma sub_ok_guard : forall h n, heap_ok h -> sub_ok h n ->
  match hierarchy h n with Ok R => ins_ok h [] R | Raise _ => false end = true.
Proof.
  intros h n HK [Vn [AC [PW UI]]].
  destruct (hierarchy_ok h n HK Vn AC) as [R E]. rewrite E.
  destruct (hierarchy_spec h n R E) as [_ [_ [_ RS]]].
  unfold ins_ok. cbn [app]. rewrite filter_all. apply andb_true_iff. split.
  - apply forallb_forall. intros r Hr. apply RS in Hr. destruct (PW r Hr) as [A B].
    apply andb_true_iff. split; [exact A|apply nodup_b_iff; exact B].
  - apply uid_inj_b_iff. intros a b Ha Hb. apply UI; apply RS; assumption.
Qed.

Lemma sub_ok_member : forall h g n, WF h g -> acyclic h g -> In n g -> sub_ok h n.
Proof.
  intros h g n W AC Hn.
  assert (M : forall r, reach h n r -> In r g).
  { intros r R. exact (reach_closed_set h (fun x => In x g) n r R Hn (wf_closed _ _ W)). }
  split; [apply (wf_valid _ _ W); exact Hn|]. split; [apply AC; exact Hn|]. split.
  - intros r R. split; [apply (wf_uniq _ _ W)|apply (wf_pnodup _ _ W)]; apply M; exact R.
  - intros a b Ra Rb. apply (wf_uid _ _ W); apply M; assumption.
Qed.

Lemma sub_ok_transport : forall h h' n, sub_ok h n -> length h <= length h' ->
  (forall r, reach h n r -> get h' r = get h r) -> sub_ok h' n.
Proof.
  intros h h' n [Vn [AC [PW UI]]] L EQ.
  assert (CL : forall x p, reach h n x -> In p (pars h x) -> reach h n p).
  { intros x p R Hp. eapply reach_step_r; eauto. }
  assert (PE : forall x, reach h n x -> pars h' x = pars h x).
  { intros x R. unfold pars. rewrite (EQ x R). reflexivity. }
  assert (RB : forall r, reach h' n r -> reach h n r).
  { intros r R. exact (proj2 (reach_local h h' (fun x => reach h n x) CL PE n r R (reach_refl _ _))). }
  split; [lia|]. split; [|split].
  - apply (acyclic_from_local h h' (fun x => reach h n x) n); auto. constructor.
  - intros r R. apply RB in R. rewrite (PE r R), (EQ r R). apply PW. exact R.
  - intros a b Ra Rb. apply RB in Ra. apply RB in Rb. rewrite (EQ a Ra), (EQ b Rb). apply UI; assumption.
Qed.

Lemma upd_guard : forall h g v new, WF h g -> acyclic h g -> In v g -> sub_ok h new ->
  guard_b (h, g) (OUpdSub v new) = true.
Proof.
  intros h g v new W AC Hv S. unfold guard_b. cbn [fst snd].
  apply andb_true_iff; split; [apply andb_true_iff; split; [apply andb_true_iff; split|]|].
  - apply memb_In. exact Hv.
  - apply Nat.ltb_lt. destruct S as [V _]. exact V.
  - eapply hierarchy_member_ok; eauto.
  - apply sub_ok_guard; [apply (wf_heap _ _ W)|exact S].
Qed.

Lemma acyclic_frame : forall h h' g, WF h g -> acyclic h g -> (forall r, In r g -> get h' r = get h r) -> acyclic h' g.
Proof.
  intros h h' g W AC EQ r Hr.
  apply (acyclic_from_local h h' (fun x => In x g) r); auto.
  - apply (wf_closed _ _ W).
  - intros x Hx. unfold pars. rewrite (EQ x Hx). reflexivity.
Qed.

(* one guarded update_subtree on the first of two disjoint graphs: the other graph and any
   subtree made of non-members stay as they were *)
Lemma update_subtree_two : forall h g1 g2 v new, Inv2 h g1 g2 -> acyclic h g1 -> In v g1 -> sub_ok h new ->
  exists h' g1', update_subtree h g1 v new = Ok (h', g1') /\ Inv2 h' g1' g2 /\
    length h <= length h' /\ (forall r, r < length h -> ~ In r g1 -> get h' r = get h r).
Proof.
  intros h g1 g2 v new [W1 [W2 D]] A1 Hv S.
  pose proof (upd_guard h g1 v new W1 A1 Hv S) as G.
  destruct (update_subtree_facts h g1 v new W1 G) as [h' [g1' [Bs [E [W' [M [BN _]]]]]]].
  destruct (update_subtree_frame h g1 v new h' g1' E W1 G) as [L F].
  exists h', g1'. split; [exact E|]. split; [|split; [exact L|exact F]].
  split; [exact W'|]. split.
  - apply (WF_frame h g2); [exact W2|apply (wf_heap _ _ W')|exact L|].
    intros r Hr. apply F; [apply (wf_valid _ _ W2); exact Hr|]. intros X. eapply D; eauto.
  - intros x Hx Hy. destruct (M x Hx) as [A|B]; [eapply D; eauto|].
    pose proof (BN x B). pose proof (wf_valid _ _ W2 x Hy). lia.
Qed.

(* For every pair (member of graph 1, member of graph 2) and both outcomes of each depth test:
   replace_subtrees returns and both graphs are well-formed - also for relatives, whose uids
   coincide (Inv2 asks nothing about uids across the two graphs). *)
Theorem replace_subtrees_ok : forall h g1 g2 n1 n2 do1 do2, Inv2 h g1 g2 -> acyclic h g1 -> acyclic h g2 ->
  In n1 g1 -> In n2 g2 ->
  exists h' g1' g2', replace_subtrees (h, (g1, g2)) n1 n2 do1 do2 = Ok (h', (g1', g2')) /\ Inv2 h' g1' g2'.
Proof.
  intros h g1 g2 n1 n2 do1 do2 [W1 [W2 D]] A1 A2 H1 H2. unfold replace_subtrees. cbn [fst snd].
  (* node_from_graph_first_copy = deepcopy(node_from_first) *)
  assert (V1 : n1 < length h) by (apply (wf_valid _ _ W1); exact H1).
  destruct (closure_ok h n1 (wf_heap _ _ W1) V1) as [R EC].
  destruct (closure_spec h n1 R EC) as [_ [_ [_ RS]]].
  assert (RM : forall r, In r R -> In r g1).
  { intros r Hr. apply RS in Hr. exact (reach_closed_set h (fun x => In x g1) n1 r Hr H1 (wf_closed _ _ W1)). }
  assert (PW : forall r, In r R -> uniq (get h r) = true /\ NoDup (pars h r)).
  { intros r Hr. split; [apply (wf_uniq _ _ W1)|apply (wf_pnodup _ _ W1)]; apply RM; exact Hr. }
  rewrite (deepcopy_eq h n1 R EC). cbn [bind fst snd].
  set (h1 := h ++ map (fun r => copy_node R (length h) (get h r)) R).
  set (c1 := rename R (length h) n1).
  pose proof (dc_heap_ok h n1 R (wf_heap _ _ W1) V1 EC PW) as HK1. fold h1 in HK1.
  assert (W1a : WF h1 g1) by (apply WF_app; assumption).
  assert (W2a : WF h1 g2) by (apply WF_app; assumption).
  assert (A1a : acyclic h1 g1) by (apply acyclic_app; assumption).
  assert (A2a : acyclic h1 g2) by (apply acyclic_app; assumption).
  (* the copy is a subtree of new objects *)
  assert (CC : forall r, reach h1 c1 r -> is_copy h R r).
  { intros r Rr. apply (reach_closed_set h1 (is_copy h R) c1 r Rr); [apply (dc_nw_copy h n1 R EC)|].
    intros x p Hx Hp. exact (dc_copy_pars h n1 R EC PW x p Hx Hp). }
  assert (CN : forall r, is_copy h R r -> length h <= r /\ r < length h1).
  { intros r [i [Li ->]]. unfold h1. rewrite dc_length. lia. }
  assert (SC : sub_ok h1 c1).
  { split; [|split; [|split]].
    - apply CN. apply (dc_nw_copy h n1 R EC).
    - apply (dc_acyclic h n1 R V1 EC PW). apply A1. exact H1.
    - intros r Rr. destruct (dc_copy_wf h n1 R EC PW r (CC r Rr)) as [A B]. auto.
    - intros a b Ra Rb. apply (dc_uid_inj h n1 R EC); [|apply CC; exact Ra|apply CC; exact Rb].
      intros x y Hx Hy. apply (wf_uid _ _ W1); apply RM; assumption. }
  (* first update_subtree *)
  match goal with |- context [bind ?X _] =>
    assert (P2 : exists h2 g1', X = Ok (h2, g1') /\ Inv2 h2 g1' g2 /\ acyclic h2 g2 /\ sub_ok h2 c1) end.
  { destruct do1.
    - destruct (update_subtree_two h1 g1 g2 n1 n2) as [h2 [g1' [E [I2 [L F]]]]]; auto.
      { split; [exact W1a|]. split; [exact W2a|exact D]. }
      { eapply sub_ok_member; eauto. }
      exists h2, g1'. split; [exact E|]. split; [exact I2|]. split.
      + apply (acyclic_frame h1 h2 g2 W2a A2a). intros r Hr. apply F; [apply (wf_valid _ _ W2a); exact Hr|].
        intros X. eapply D; eauto.
      + apply (sub_ok_transport h1 h2 c1 SC L). intros r Rr. destruct (CN r (CC r Rr)) as [A B].
        apply F; [exact B|]. intros X. pose proof (wf_valid _ _ W1 r X). lia.
    - exists h1, g1. split; [reflexivity|]. split; [split; [exact W1a|split; [exact W2a|exact D]]|]. auto. }
  destruct P2 as [h2 [g1' [E2 [I2 [A2b SC2]]]]]. rewrite E2. cbn [bind fst snd].
  (* second update_subtree *)
  destruct do2.
  - destruct (update_subtree_two h2 g2 g1' n2 c1 (Inv2_sym _ _ _ I2) A2b H2 SC2) as [h3 [g2' [E3 [I3 _]]]].
    rewrite E3. cbn [bind fst snd]. exists h3, g1', g2'. split; [reflexivity|apply Inv2_sym; exact I3].
  - cbn [bind fst snd]. exists h2, g1', g2. auto.
Qed.

Theorem subtree_crossover_ok : forall c h g1 g2, Inv2 h g1 g2 -> acyclic h g1 -> acyclic h g2 ->
  (forall n1 n2 d, c = Some (n1, n2, d) -> In n1 g1 /\ In n2 g2) ->
  exists h' g1' g2', subtree_crossover c (h, (g1, g2)) = Ok (h', (g1', g2')) /\ Inv2 h' g1' g2'.
Proof.
  intros [[[n1 n2] [do1 do2]]|] h g1 g2 I A1 A2 H; simpl; [|exists h, g1, g2; auto].
  destruct (H n1 n2 (do1, do2) eq_refl) as [H1 H2]. apply replace_subtrees_ok; assumption.
Qed.

(* ------------------------------------------------------------------ exchange_parents_both_crossover *)
Lemma append_pairs_good : forall old pairs h g1 g2, Inv2 h g1 g2 ->
  (forall p c, In (p, c) pairs -> In p g1 /\ In c g1) ->
  Inv2 (fold_left (append_parent old) pairs h) g1 g2.
Proof.
  intros old. induction pairs as [|[p c] t IH]; intros h g1 g2 I H; simpl; [exact I|].
  destruct (H p c (or_introl eq_refl)) as [Hp Hc].
  apply IH; [|intros p' c' X; apply H; right; exact X].
  unfold append_parent. cbn [fst snd]. destruct (mem2 (c, p) old); [exact I|].
  destruct I as [W1 [W2 D]].
  assert (U : uniq (get h c) = true) by (apply (wf_uniq _ _ W1); exact Hc). rewrite U.
  apply Inv2_set_pars; [split; auto|exact Hc| |].
  - apply pl_append_nodup. apply (wf_pnodup _ _ W1). exact Hc.
  - intros q Hq. apply pl_append_In in Hq. destruct Hq as [Hq| ->]; [eapply (wf_closed _ _ W1); eauto|exact Hp].
Qed.

(* the loop `for p in node.nodes_from: node.nodes_from.remove(p)` never raises and leaves a
   duplicate-free sub-list *)
Lemma iter_remove_good : forall fuel i (l : list ref), NoDup l ->
  exists l', iter_remove fuel i l = Ok l' /\ NoDup l' /\ incl l' l.
Proof.
  induction fuel as [|k IH]; intros i l ND; simpl.
  - exists l. split; [reflexivity|]. split; [exact ND|apply incl_refl].
  - destruct (Nat.ltb_spec i (length l)) as [L|L].
    + destruct (list_remove_ok (nth i l 0) l (nth_In l 0 L)) as [l1 E1]. rewrite E1. cbn [bind].
      destruct (list_remove_nodup _ _ _ E1 ND) as [ND1 _].
      destruct (IH (S i) l1 ND1) as [l2 [E2 [ND2 I2]]].
      exists l2. split; [exact E2|]. split; [exact ND2|].
      intros x Hx. eapply list_remove_incl; [exact E1|]. apply I2. exact Hx.
    + exists l. split; [reflexivity|]. split; [exact ND|apply incl_refl].
Qed.

Lemma Inv2_iter_remove : forall h g1 g2 c, Inv2 h g1 g2 -> In c g1 ->
  exists r, iter_remove (length (pars h c)) 0 (pars h c) = Ok r /\ Inv2 (set_pars h c r) g1 g2.
Proof.
  intros h g1 g2 c I Hc. pose proof I as [W1 _].
  destruct (iter_remove_good (length (pars h c)) 0 (pars h c) (wf_pnodup _ _ W1 c Hc)) as [r [E [ND In_]]].
  exists r. split; [exact E|]. apply Inv2_set_pars; auto.
  intros p Hp. eapply (wf_closed _ _ W1); [exact Hc|]. apply In_. exact Hp.
Qed.

Theorem exchange_parents_both_ok : forall sel h g1 g2, Inv2 h g1 g2 ->
  (forall v, sel = Some v -> In v g2) ->
  exists h' g1' g2', exchange_parents_both sel (h, (g1, g2)) = Ok (h', (g1', g2')) /\ Inv2 h' g1' g2'.
Proof.
  intros [v2|] h g1 g2 I Hs; unfold exchange_parents_both; cbn [fst snd]; [|exists h, g1, g2; auto].
  pose proof (Hs v2 eq_refl) as H2.
  destruct (find_all_good (map (fun p => label (get h p)) (pars h v2)) h g1 g2 I)
    as [h1 [g1a [in_first [E1 [I1 [F1 [Inc1 _]]]]]]].
  rewrite E1. cbn [bind].
  destruct (find_or_create_good h1 g1a g2 (label (get h1 v2)) I1) as [h2 [g1b [v1 [E2 [I2 [Hv1 [Inc2 _]]]]]]].
  rewrite E2. cbn [bind].
  destruct (find_all_good (map (fun p => label (get h2 p)) (pars h2 v1)) h2 g2 g1b (Inv2_sym _ _ _ I2))
    as [h3 [g2a [in_second [E3 [I3 [F3 [Inc3 _]]]]]]].
  rewrite E3. cbn [bind].
  apply Inv2_sym in I3.
  destruct (Inv2_iter_remove h3 g1b g2a v1 I3 Hv1) as [r1 [E4 I4]]. rewrite E4. cbn [bind].
  assert (H2a : In v2 g2a) by (apply Inc3; exact H2).
  destruct (Inv2_iter_remove (set_pars h3 v1 r1) g2a g1b v2 (Inv2_sym _ _ _ I4) H2a) as [r2 [E5 I5]].
  rewrite E5. cbn [bind].
  apply Inv2_sym in I5.
  eexists. eexists. eexists. split; [reflexivity|].
  apply Inv2_sym. apply append_parents_good; [|exact H2a|exact F3].
  apply Inv2_sym. apply append_parents_good; [exact I5|exact Hv1|].
  intros p Hp. apply Inc2. apply F1. exact Hp.
Qed.

(* ------------------------------------------------------------------ exchange_edges_crossover *)
(* the sampled (parent, child) pairs are distinct parent links of members of the graph *)
Definition edges_ok (h : heap) (g : graph) (es : list (ref * ref)) : Prop :=
  NoDup es /\ forall p c, In (p, c) es -> In c g /\ In p (pars h c).

Lemma remove_edges_good : forall es h g1 g2, Inv2 h g1 g2 -> edges_ok h g1 es ->
  exists h', remove_edges es h = Ok h' /\ Inv2 h' g1 g2 /\ length h' = length h /\
    (forall r, ~ In r g1 -> get h' r = get h r).
Proof.
  induction es as [|[p c] t IH]; intros h g1 g2 I [ND H]; simpl.
  - exists h. auto.
  - destruct (H p c (or_introl eq_refl)) as [Hc Hp]. pose proof I as [W1 _].
    destruct (list_remove_ok p (pars h c) Hp) as [ps E]. rewrite E. cbn [bind].
    destruct (list_remove_nodup _ _ _ E (wf_pnodup _ _ W1 c Hc)) as [NDp _].
    assert (Vc : c < length h) by (apply (wf_valid _ _ W1); exact Hc).
    assert (I' : Inv2 (set_pars h c ps) g1 g2).
    { apply Inv2_set_pars; auto. intros q Hq. eapply (wf_closed _ _ W1); [exact Hc|].
      eapply list_remove_incl; eauto. }
    inversion ND as [|? ? Hn NDt]; subst.
    destruct (IH (set_pars h c ps) g1 g2 I') as [h' [E' [I'' [L' F']]]].
    + split; [exact NDt|]. intros p' c' X. destruct (H p' c' (or_intror X)) as [A B]. split; [exact A|].
      rewrite pars_set_pars by exact Vc. destruct (Nat.eqb_spec c c') as [<-|N]; [|exact B].
      eapply list_remove_other; [exact E|exact B|]. intros ->. tauto.
    + exists h'. split; [exact E'|]. split; [exact I''|]. split; [rewrite L'; apply length_set_pars|].
      intros r Hr. rewrite (F' r Hr). unfold set_pars. apply get_upd_neq. intros <-. tauto.
Qed.

Lemma find_edges_good : forall ls h g1 g2, Inv2 h g1 g2 ->
  exists h' g1' es, find_edges h g1 ls = Ok (h', g1', es) /\ Inv2 h' g1' g2 /\
    (forall p c, In (p, c) es -> In p g1' /\ In c g1') /\ incl g1 g1'.
Proof.
  induction ls as [|[lp lc] t IH]; intros h g1 g2 I; simpl.
  - exists h, g1, []. split; [reflexivity|]. split; [exact I|]. split; [intros p c []|apply incl_refl].
  - destruct (find_or_create_good h g1 g2 lp I) as [h1 [ga [p [E1 [I1 [Hp [Inc1 _]]]]]]]. rewrite E1. cbn [bind].
    destruct (find_or_create_good h1 ga g2 lc I1) as [h2 [gb [c [E2 [I2 [Hc [Inc2 _]]]]]]]. rewrite E2. cbn [bind].
    destruct (IH h2 gb g2 I2) as [h3 [gc [es [E3 [I3 [H3 Inc3]]]]]]. rewrite E3. cbn [bind].
    exists h3, gc, ((p, c) :: es). split; [reflexivity|]. split; [exact I3|]. split.
    + intros p' c' [X|X]; [inversion X; subst; split; apply Inc3; [apply Inc2|]; assumption|apply H3; exact X].
    + intros x Hx. apply Inc3. apply Inc2. apply Inc1. exact Hx.
Qed.

(* For all samples of distinct parent links of the two graphs: returns, both results well-formed. *)
Theorem exchange_edges_ok : forall e1 e2 h g1 g2, Inv2 h g1 g2 -> edges_ok h g1 e1 -> edges_ok h g2 e2 ->
  exists h' g1' g2', exchange_edges e1 e2 (h, (g1, g2)) = Ok (h', (g1', g2')) /\ Inv2 h' g1' g2'.
Proof.
  intros e1 e2 h g1 g2 I O1 O2. unfold exchange_edges. cbn [fst snd].
  destruct (remove_edges_good e1 h g1 g2 I O1) as [ha [Ea [Ia [La Fa]]]]. rewrite Ea. cbn [bind].
  assert (O2a : edges_ok ha g2 e2).
  { destruct O2 as [ND H]. split; [exact ND|]. intros p c X. destruct (H p c X) as [A B]. split; [exact A|].
    unfold pars. rewrite Fa; [exact B|]. destruct I as [_ [_ D]]. intros Y. eapply D; eauto. }
  destruct (remove_edges_good e2 ha g2 g1 (Inv2_sym _ _ _ Ia) O2a) as [hb [Eb [Ib _]]]. rewrite Eb. cbn [bind].
  destruct (find_edges_good (labels_of hb e1) hb g2 g1 Ib) as [hc [g2' [new2 [Ec [Ic [H2 _]]]]]].
  rewrite Ec. cbn [bind].
  destruct (find_edges_good (labels_of hc e2) hc g1 g2' (Inv2_sym _ _ _ Ic)) as [hd [g1' [new1 [Ed [Id [H1 _]]]]]].
  rewrite Ed. cbn [bind].
  eexists. eexists. eexists. split; [reflexivity|].
  apply Inv2_sym. apply append_pairs_good; [|exact H2].
  apply Inv2_sym. apply append_pairs_good; [exact Id|exact H1].
Qed.
