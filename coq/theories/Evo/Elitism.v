(* Model of golem/core/optimisers/genetic/operators/elitism.py as it is after the fix commit
   ec53a26 (property C16).  Definitions only.  random.shuffle is replayed from an explicit
   list of choice numbers (Selection.shuffle): every list of numbers yields a permutation. *)
From Coq Require Import List Bool Arith QArith.
From GolemV Require Import Fitness.Fitness Evo.Selection.
Import ListNotations.
Local Open Scope nat_scope.

Inductive elitism_type := KeepNBest | ReplaceWorst | ENone.
Record eparams := { e_type : elitism_type; e_multi : bool; e_pop_size : nat; e_min_pop : nat }.

(* Elitism._is_elitism_applicable *)
Definition applicable (p : eparams) : bool := negb (e_multi p) && (e_min_pop p <=? e_pop_size p).
Definition applies (p : eparams) : bool :=
  match e_type p with ENone => false | _ => applicable p end.

Definition keep_n_best (cs : list nat) (best new : list ind) : list ind :=
  let final := firstn (length new) best in
  let nu := filter (fun x => negb (mem_uid x final)) new in
  match nu with
  | [] => final
  | _ => final ++ firstn (length new - length final) (shuffle cs nu)
  end.

(* sorted(population, key=fitness, reverse=True): stable, descending, uses only < *)
Definition sort_desc (wr : ind -> ind -> bool) (l : list ind) : list ind :=
  stable_sort (fun y x => wr x y) l.

Definition replace_worst_g (wr : ind -> ind -> bool) (best new : list ind) : list ind :=
  let population := best ++ filter (fun x => negb (mem_uid x best)) new in
  firstn (length new) (sort_desc wr population).
Definition replace_worst := replace_worst_g worse.

Definition elitism_g (wr : ind -> ind -> bool) (p : eparams) (cs : list nat) (best new : list ind) : list ind :=
  match e_type p with
  | ENone => new
  | KeepNBest => if applicable p then keep_n_best cs best new else new
  | ReplaceWorst => if applicable p then replace_worst_g wr best new else new
  end.
Definition elitism := elitism_g worse.

(* ---------------- correspondence ---------------- *)
Definition count_ind (x : ind) (l : list ind) : nat := length (filter (ind_eqb x) l).

(* observed output admitted by the mechanism: exact for the deterministic parts; for
   keep_n_best the tail is any arrangement of min(remain, |new_unique|) of the new-unique
   individuals *)
Definition eli_admits (p : eparams) (best new out : list ind) : bool :=
  if negb (applies p) then inds_eqb out new
  else match e_type p with
       | ReplaceWorst => inds_eqb out (replace_worst best new)
       | _ =>
           let final := firstn (length new) best in
           let nu := filter (fun x => negb (mem_uid x final)) new in
           let tail := skipn (length final) out in
           inds_eqb (firstn (length final) out) final &&
           Nat.eqb (length tail) (match nu with [] => 0 | _ => Nat.min (length new - length final) (length nu) end) &&
           forallb (fun x => count_ind x tail <=? count_ind x nu) tail
       end.

(* the property's clauses on the OBSERVED output.  Size and no-repeat are demanded for inputs
   that are themselves repeat-free (they are jointly unsatisfiable otherwise). *)
Definition eli_holds_b (p : eparams) (best new out : list ind) : bool :=
  subset_b out (best ++ new) &&
  implb (nodup_uid new) (Nat.eqb (length out) (length new)) &&
  implb (nodup_uid best && nodup_uid new) (nodup_uid out).

(* "when elitism applies the best archived individual is part of the next population" *)
Definition eli_head_b (p : eparams) (best new out : list ind) : bool :=
  match best with
  | [] => true
  | h :: _ => implb (applies p && (1 <=? length new)) (mem_uid h out)
  end.

(* number of members of best ++ new' that come before the head in the descending stable
   order: the exact guard under which replace_worst keeps the head *)
Definition ahead_of_head (wr : ind -> ind -> bool) (best new : list ind) : nat :=
  match best with
  | [] => 0
  | h :: _ => length (filter (fun x => wr h x) (best ++ filter (fun x => negb (mem_uid x best)) new))
  end.
