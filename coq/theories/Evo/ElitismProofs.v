(* Proofs about the elitism model (property C16). *)
From Coq Require Import List Bool Arith QArith Lia Permutation Sorted.
From GolemV Require Import Fitness.Fitness Fitness.FitnessProofs Evo.Selection Evo.SelectionProofs Evo.Elitism.
Import ListNotations.
Local Open Scope nat_scope.

(* ------------------------------------------------------------------ list facts *)
(* members of a repeat-free list that also occur in F: at most |F| *)
Lemma overlap_bound F l :
  NoDup (map uid l) -> length (filter (fun x => mem_uid x F) l) <= length F.
Proof.
  intros ND. rewrite <- (map_length uid (filter _ l)), <- (map_length uid F).
  apply NoDup_incl_length; [apply filter_NoDup_map, ND|].
  intros u Hu. apply in_map_iff in Hu as [x [<- Hx]]. apply filter_In in Hx as [_ Hx].
  apply mem_uid_iff, Hx.
Qed.

Lemma new_unique_bound F l :
  NoDup (map uid l) -> length l - length F <= length (filter (fun x => negb (mem_uid x F)) l).
Proof.
  intros ND. pose proof (overlap_bound F l ND). pose proof (filter_length_split (fun x => mem_uid x F) l) as H1. cbv beta in H1. lia.
Qed.

Lemma new_unique_disjoint F l x : In x (filter (fun x => negb (mem_uid x F)) l) -> ~ In (uid x) (map uid F).
Proof.
  intros H. apply filter_In in H as [_ H]. apply negb_true_iff in H. intros C.
  apply mem_uid_iff in C. congruence.
Qed.

(* ------------------------------------------------------------------ keep_n_best *)
Lemma keep_n_best_incl cs best new : incl (keep_n_best cs best new) (best ++ new).
Proof.
  unfold keep_n_best. set (final := firstn (length new) best).
  set (nu := filter (fun x => negb (mem_uid x final)) new).
  assert (Hf : incl final (best ++ new)).
  { intros x Hx. apply in_or_app. left. eapply firstn_incl, Hx. }
  destruct nu eqn:En; [exact Hf|]. rewrite <- En.
  intros x Hx. apply in_app_or in Hx as [Hx|Hx]; [apply Hf, Hx|].
  apply firstn_incl in Hx. apply (Permutation_in _ (shuffle_perm cs nu)) in Hx.
  apply in_or_app. right. subst nu. apply filter_In in Hx as [Hx _]. exact Hx.
Qed.

Lemma keep_n_best_length cs best new :
  NoDup (map uid new) -> length (keep_n_best cs best new) = length new.
Proof.
  intros ND. unfold keep_n_best. set (final := firstn (length new) best).
  set (nu := filter (fun x => negb (mem_uid x final)) new).
  pose proof (new_unique_bound final new ND) as B. fold nu in B.
  assert (Lf : length final <= length new) by (subst final; rewrite firstn_length; lia).
  destruct nu eqn:En.
  - simpl in B. lia.
  - rewrite <- En in *. rewrite app_length, firstn_length, (Permutation_length (shuffle_perm cs nu)). lia.
Qed.

Lemma keep_n_best_NoDup cs best new :
  NoDup (map uid best) -> NoDup (map uid new) -> NoDup (map uid (keep_n_best cs best new)).
Proof.
  intros Nb Nn. unfold keep_n_best. set (final := firstn (length new) best).
  set (nu := filter (fun x => negb (mem_uid x final)) new).
  assert (Nf : NoDup (map uid final)) by (apply firstn_NoDup_map, Nb).
  destruct nu eqn:En; [exact Nf|]. rewrite <- En.
  rewrite map_app. apply NoDup_app_intro; [exact Nf| |].
  - apply firstn_NoDup_map. eapply Permutation_NoDup.
    + apply Permutation_map, Permutation_sym, shuffle_perm.
    + subst nu. apply filter_NoDup_map, Nn.
  - intros u Hu Hu'. apply in_map_iff in Hu' as [x [<- Hx]].
    apply firstn_incl in Hx. apply (Permutation_in _ (shuffle_perm cs nu)) in Hx.
    subst nu. eapply new_unique_disjoint; eauto.
Qed.

Lemma keep_n_best_head cs best new h :
  1 <= length new -> hd_error best = Some h -> In h (keep_n_best cs best new).
Proof.
  intros L H. destruct best as [|b best]; simpl in H; [discriminate|]. injection H as ->.
  unfold keep_n_best. destruct (length new) as [|n] eqn:E; [lia|]. simpl.
  destruct (filter _ new); simpl; left; reflexivity.
Qed.

(* ------------------------------------------------------------------ replace_worst *)
Section ReplaceWorst.
  Variable wr : ind -> ind -> bool.
  Definition rw_pop (best new : list ind) := best ++ filter (fun x => negb (mem_uid x best)) new.

  Lemma replace_worst_incl best new : incl (replace_worst_g wr best new) (best ++ new).
  Proof.
    unfold replace_worst_g, sort_desc. intros x Hx. apply firstn_incl in Hx.
    apply (Permutation_in _ (stable_sort_perm _ _)) in Hx.
    apply in_app_or in Hx as [Hx|Hx]; apply in_or_app; [left; exact Hx|right].
    apply filter_In in Hx as [Hx _]. exact Hx.
  Qed.

  Lemma replace_worst_length best new :
    NoDup (map uid new) -> length (replace_worst_g wr best new) = length new.
  Proof.
    intros ND. unfold replace_worst_g, sort_desc.
    rewrite firstn_length, (Permutation_length (stable_sort_perm _ _)), app_length.
    pose proof (new_unique_bound best new ND). lia.
  Qed.

  Lemma rw_pop_NoDup best new :
    NoDup (map uid best) -> NoDup (map uid new) -> NoDup (map uid (rw_pop best new)).
  Proof.
    intros Nb Nn. unfold rw_pop. rewrite map_app. apply NoDup_app_intro; [exact Nb|apply filter_NoDup_map, Nn|].
    intros u Hu Hu'. apply in_map_iff in Hu' as [x [<- Hx]]. eapply new_unique_disjoint; eauto.
  Qed.

  Lemma replace_worst_NoDup best new :
    NoDup (map uid best) -> NoDup (map uid new) -> NoDup (map uid (replace_worst_g wr best new)).
  Proof.
    intros Nb Nn. unfold replace_worst_g, sort_desc. apply firstn_NoDup_map.
    eapply Permutation_NoDup; [apply Permutation_map, Permutation_sym, stable_sort_perm|].
    apply rw_pop_NoDup; assumption.
  Qed.

  (* where insertion puts an element: after a prefix of elements it is worse than *)
  Lemma ins_sorted_split (ltb : ind -> ind -> bool) x l :
    exists pre post, ins_sorted ltb x l = pre ++ x :: post /\ l = pre ++ post /\
                     forall y, In y pre -> ltb y x = true.
  Proof.
    induction l as [|y l (pre & post & E & El & H)]; simpl.
    - exists [], []. repeat split. intros y [].
    - destruct (ltb y x) eqn:Ey.
      + exists (y :: pre), post. rewrite E, El at 1. repeat split.
        intros z [<-|Hz]; [exact Ey|apply H, Hz].
      + exists [], (y :: l). repeat split. intros z [].
  Qed.

  Lemma filter_length_perm {A} (p : A -> bool) l l' :
    Permutation l l' -> length (filter p l) = length (filter p l').
  Proof.
    induction 1; simpl; auto; try congruence.
    - destruct (p x); simpl; congruence.
    - destruct (p x), (p y); reflexivity.
  Qed.

  Lemma filter_all {A} (p : A -> bool) l : (forall x, In x l -> p x = true) -> filter p l = l.
  Proof.
    induction l as [|x l IH]; simpl; intros H; [reflexivity|].
    rewrite (H x (or_introl eq_refl)), IH; [reflexivity|]. intros y Hy. apply H. right. exact Hy.
  Qed.

  (* the guarded statement: the archive head stays whenever fewer than |new| members of
     best ++ new' are strictly better than it *)
  Lemma replace_worst_head best new h :
    hd_error best = Some h -> ahead_of_head wr best new < length new ->
    In h (replace_worst_g wr best new).
  Proof.
    intros Hh G. destruct best as [|b best]; simpl in Hh; [discriminate|]. injection Hh as ->.
    unfold replace_worst_g, sort_desc, ahead_of_head in *.
    set (new' := filter (fun x => negb (mem_uid x (h :: best))) new) in *.
    change ((h :: best) ++ new') with (h :: (best ++ new')) in *. simpl stable_sort.
    set (s := stable_sort (fun y x => wr x y) (best ++ new')).
    destruct (ins_sorted_split (fun y x => wr x y) h s) as (pre & post & E & Es & Hp).
    rewrite E.
    assert (Lp : length pre < length new).
    { eapply Nat.le_lt_trans; [|exact G]. simpl.
      assert (length pre <= length (filter (fun x => wr h x) (best ++ new'))).
      { rewrite (filter_length_perm (fun x => wr h x) _ _ (Permutation_sym (stable_sort_perm (fun y x => wr x y) (best ++ new')))).
        fold s. rewrite Es, filter_app, app_length, (filter_all (fun x => wr h x) pre Hp). lia. }
      destruct (wr h h); simpl; lia. }
    rewrite <- (firstn_skipn (length new) (pre ++ h :: post)) in E.
    clear E. assert (H : firstn (length new) (pre ++ h :: post) = pre ++ firstn (length new - length pre) (h :: post)).
    { rewrite firstn_app. rewrite (firstn_all2 pre) by lia. reflexivity. }
    rewrite H. apply in_or_app. right. destruct (length new - length pre) eqn:D; [lia|]. left. reflexivity.
  Qed.

  (* the general statement: on a strict weak order, nothing that is left out is better than
     anything that is kept *)
  Definition not_worse (x y : ind) : Prop := wr x y = false.

  Lemma ins_sorted_strongly U x l :
    swo_on wr U -> In x U -> incl l U ->
    StronglySorted not_worse l -> StronglySorted not_worse (ins_sorted (fun y x => wr x y) x l).
  Proof.
    intros (Irr & Tr & Neg) Hx. induction l as [|y l IH]; simpl; intros I S.
    - constructor; constructor.
    - assert (Hy : In y U) by (apply I; left; reflexivity).
      assert (Il : incl l U) by (intros z Hz; apply I; right; exact Hz).
      inversion S as [|? ? S' F]; subst. destruct (wr x y) eqn:Exy.
      + constructor; [apply IH; assumption|].
        apply Forall_forall. intros z Hz.
        apply (Permutation_in _ (ins_sorted_perm _ x l)) in Hz. destruct Hz as [<-|Hz].
        * unfold not_worse. destruct (wr y x) eqn:Eyx; [|reflexivity].
          pose proof (Tr x y x Hx Hy Hx Exy Eyx) as C. rewrite (Irr x Hx) in C. discriminate.
        * rewrite Forall_forall in F. apply F, Hz.
      + constructor; [exact S|]. constructor; [exact Exy|].
        apply Forall_forall. intros z Hz. rewrite Forall_forall in F.
        apply (Neg x y z Hx Hy (Il z Hz) Exy). apply F, Hz.
  Qed.

  Lemma sort_desc_strongly U l : swo_on wr U -> incl l U -> StronglySorted not_worse (sort_desc wr l).
  Proof.
    intros S. unfold sort_desc. induction l as [|x l IH]; simpl; intros I; [constructor|].
    apply (ins_sorted_strongly U); auto.
    - apply I. left. reflexivity.
    - intros z Hz. apply (Permutation_in _ (stable_sort_perm _ l)) in Hz. apply I. right. exact Hz.
    - apply IH. intros z Hz. apply I. right. exact Hz.
  Qed.

  Lemma strongly_sorted_app (a b : list ind) :
    StronglySorted not_worse (a ++ b) -> forall x y, In x a -> In y b -> not_worse x y.
  Proof.
    induction a as [|z a IH]; simpl; intros S x y Hx Hy; [contradiction|].
    inversion S as [|? ? S' F]; subst. destruct Hx as [<-|Hx].
    - rewrite Forall_forall in F. apply F, in_or_app. right. exact Hy.
    - eapply IH; eauto.
  Qed.

  Lemma replace_worst_keeps_top best new :
    swo_on wr (rw_pop best new) ->
    forall x y, In x (replace_worst_g wr best new) ->
                In y (skipn (length new) (sort_desc wr (rw_pop best new))) -> wr x y = false.
  Proof.
    intros S x y Hx Hy. unfold replace_worst_g in Hx. fold (rw_pop best new) in Hx.
    apply (strongly_sorted_app (firstn (length new) (sort_desc wr (rw_pop best new)))
                               (skipn (length new) (sort_desc wr (rw_pop best new)))); auto.
    rewrite firstn_skipn. apply (sort_desc_strongly (rw_pop best new)); auto. apply incl_refl.
  Qed.

  (* kept ++ left-out is exactly best ++ new' rearranged *)
  Lemma replace_worst_partition best new :
    Permutation (replace_worst_g wr best new ++ skipn (length new) (sort_desc wr (rw_pop best new)))
                (rw_pop best new).
  Proof.
    unfold replace_worst_g. fold (rw_pop best new). rewrite firstn_skipn. apply stable_sort_perm.
  Qed.
End ReplaceWorst.

(* ------------------------------------------------------------------ the operator *)
Theorem elitism_contract_g wr p cs best new :
  let out := elitism_g wr p cs best new in
  incl out (best ++ new) /\
  (NoDup (map uid new) -> length out = length new) /\
  (NoDup (map uid best) -> NoDup (map uid new) -> NoDup (map uid out)) /\
  (forall h, applies p = true -> 1 <= length new -> hd_error best = Some h ->
             e_type p = KeepNBest \/ ahead_of_head wr best new < length new -> In h out).
Proof.
  unfold elitism_g, applies.
  assert (Hnew : incl new (best ++ new)) by (intros x Hx; apply in_or_app; right; exact Hx).
  destruct (e_type p) eqn:Et; [destruct (applicable p) eqn:Ap| destruct (applicable p) eqn:Ap|]; simpl.
  - split; [apply keep_n_best_incl|]. split; [apply keep_n_best_length|]. split; [apply keep_n_best_NoDup|].
    intros h _ L H _. apply keep_n_best_head; assumption.
  - split; [exact Hnew|]. split; [reflexivity|]. split; [auto|]. intros h C. discriminate.
  - split; [apply replace_worst_incl|]. split; [apply replace_worst_length|]. split; [apply replace_worst_NoDup|].
    intros h _ L H [C|G]; [discriminate|]. apply replace_worst_head; assumption.
  - split; [exact Hnew|]. split; [reflexivity|]. split; [auto|]. intros h C. discriminate.
  - split; [exact Hnew|]. split; [reflexivity|]. split; [auto|]. intros h C. discriminate.
Qed.

(* `worse` (python < on fitness objects) is a strict weak order on valid fitness values of
   equal length *)
Definition valid_pop (l : list ind) : Prop :=
  forall a b, In a l -> In b l ->
    valid (fitness a) = true /\ length (vals (fitness a)) = length (vals (fitness b)).

Lemma worse_lex l a b : valid_pop l -> In a l -> In b l ->
  worse a b = lex_lt_b (vals (fitness b)) (vals (fitness a)).
Proof.
  intros V Ha Hb. destruct (V a b Ha Hb) as [Va L]. destruct (V b a Hb Ha) as [Vb _].
  unfold worse, lt. rewrite Va, Vb. simpl. apply tuple_gt_lex, L.
Qed.

Lemma worse_swo_on_valid l : valid_pop l -> swo_on worse l.
Proof.
  intros V. repeat split.
  - intros a Ha. rewrite (worse_lex l a a V Ha Ha). apply lex_irrefl.
  - intros a b c Ha Hb Hc. rewrite (worse_lex l a b V Ha Hb), (worse_lex l b c V Hb Hc), (worse_lex l a c V Ha Hc).
    intros H1 H2. eapply lex_trans; eauto.
  - intros a b c Ha Hb Hc. rewrite (worse_lex l a b V Ha Hb), (worse_lex l b c V Hb Hc), (worse_lex l a c V Ha Hc).
    intros H1 H2. destruct (lex_lt_b (vals (fitness c)) (vals (fitness a))) eqn:H3; [|reflexivity].
    destruct (V c b Hc Hb) as [_ L].
    rewrite (lex_trichotomy _ _ L) in H2. apply negb_false_iff, orb_true_iff in H2 as [H2|H2].
    + rewrite (lex_trans _ _ _ H2 H3) in H1. discriminate.
    + rewrite (lex_identical_l _ _ _ H2), H1 in H3. discriminate.
Qed.

(* the literal clause "the archive head is always kept" fails for replace_worst *)
Definition w_a := Build_ind 0 (Single (Some (5 # 1)%Q) []).
Definition w_b := Build_ind 1 (Single (Some (1 # 1)%Q) []).
Definition w_c := Build_ind 2 (Single (Some (2 # 1)%Q) []).
Definition w_p := Build_eparams ReplaceWorst false 5 5.

Lemma elitism_head_refuted :
  exists p cs best new h,
    applies p = true /\ 1 <= length new /\ NoDup (map uid best) /\ NoDup (map uid new) /\
    hd_error best = Some h /\ ~ In h (elitism p cs best new).
Proof.
  exists w_p, [], [w_a], [w_b; w_c], w_a. repeat split.
  - simpl. lia.
  - constructor; [intros []|constructor].
  - simpl. constructor; [intros [H|[]]; discriminate|]. constructor; [intros []|constructor].
  - vm_compute. intros [H|[H|[]]]; discriminate.
Qed.

(* ------------------------------------------------------------------ the oracle vs the theorems *)
(* the executable clauses hold of the model's output for every shuffle *)
Theorem model_eli_holds_b p cs best new : eli_holds_b p best new (elitism p cs best new) = true.
Proof.
  destruct (elitism_contract_g worse p cs best new) as (I & L & ND & _). fold (elitism p cs best new) in *.
  unfold eli_holds_b. rewrite (subset_b_of_incl _ _ I). unfold implb.
  destruct (nodup_uid new) eqn:Nn; cbn [negb orb andb].
  - apply nodup_uid_iff in Nn. rewrite (L Nn), Nat.eqb_refl. cbn [andb].
    destruct (nodup_uid best) eqn:Nb; cbn [negb orb andb]; [|reflexivity].
    apply nodup_uid_iff in Nb. apply nodup_uid_iff, ND; assumption.
  - rewrite andb_false_r. reflexivity.
Qed.

(* the head clause of the oracle holds of the model's output under the guard, and the guard is
   exactly what the driver uses to recognise the known input class *)
Theorem model_eli_head_b p cs best new :
  e_type p = KeepNBest \/ ahead_of_head worse best new < length new ->
  eli_head_b p best new (elitism p cs best new) = true.
Proof.
  intros G. destruct (elitism_contract_g worse p cs best new) as (_ & _ & _ & H). fold (elitism p cs best new) in *.
  unfold eli_head_b. destruct best as [|h best]; [reflexivity|]. unfold implb.
  destruct (applies p) eqn:Ap; [|reflexivity]. destruct (1 <=? length new) eqn:L1; [|reflexivity].
  apply Nat.leb_le in L1. cbn [andb negb orb]. apply mem_uid_iff, in_map. apply H; auto.
Qed.
