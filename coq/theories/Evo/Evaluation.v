(* Model of golem/core/optimisers/genetic/evaluation.py (both dispatchers, delegate cache,
   fallback loop), of Objective.__call__ / to_fitness (objective/objective.py) and of
   Individual.set_evaluation_result / GraphEvalResult.__bool__
   (opt_history_objects/individual.py).  Definitions only; proofs are in EvaluationProofs.v.

   Boundary.  Individuals are values (uid, fitness, graph label): the in-place mutation done by
   set_evaluation_result is modelled by building the updated individual.  This is faithful as
   long as no not-yet-evaluated Individual *object* occurs twice in the population (the theorems
   assume pairwise distinct uids among the not-yet-evaluated individuals, which excludes it).
   A graph is identified by a label (nat): the machinery never looks inside a graph.
   Metric values are exact rationals; the machinery only copies them. *)
From Coq Require Import List Bool Arith QArith.
Import ListNotations.
Local Open Scope nat_scope.

(* ------------------------------------------------------------------------------------- *)
(* values                                                                                 *)
(* ------------------------------------------------------------------------------------- *)
Definition graph := nat.

(* what one call of a metric function on a graph does *)
Inductive mres := MVal (q : Q) | MRaise | MNone | MNaN.

(* a fitness object as the dispatchers see it: null_fitness / SingleObjFitness(values...) /
   MultiObjFitness(values, weights=1.) *)
Inductive fit := Null | FSingle (vs : list Q) | FMulti (vs : list Q).

Definition valid (f : fit) : bool :=
  match f with
  | Null => false
  | FSingle vs => negb (Nat.eqb (length vs) 0)      (* primary value is not None *)
  | FMulti vs => negb (Nat.eqb (length vs) 0)       (* len(wvalues) != 0 *)
  end.

Record ind := { uid : nat; fitness : fit; gr : graph }.

(* GraphEvalResult *)
Record eres := { r_uid : nat; r_fit : fit; r_graph : graph }.

(* `if res` for a value that is either None or a GraphEvalResult (__bool__ = fitness.valid) *)
Definition truthy (r : option eres) : bool :=
  match r with Some e => valid (r_fit e) | None => false end.

(* observable events: metric k called on graph g; post-evaluation callback called on g *)
Inductive ev := EvMetric (k : nat) (g : graph) | EvCallback (g : graph).

(* exceptions as values: the only exception the modelled code raises itself *)
Inductive res (A : Type) := Ok (a : A) | RaiseValueError.
Arguments Ok {A} a.
Arguments RaiseValueError {A}.

(* ------------------------------------------------------------------------------------- *)
(* python dict with integer keys: insertion ordered, a later insertion of a key overwrites *)
(* ------------------------------------------------------------------------------------- *)
Definition dict (V : Type) := list (nat * V).

Fixpoint dict_get {V} (k : nat) (d : dict V) : option V :=
  match d with
  | [] => None
  | (k', v) :: r => if Nat.eqb k k' then Some v else dict_get k r
  end.

Fixpoint dict_set {V} (k : nat) (v : V) (d : dict V) : dict V :=
  match d with
  | [] => [(k, v)]
  | (k', v') :: r => if Nat.eqb k k' then (k', v) :: r else (k', v') :: dict_set k v r
  end.

(* {k: v for k, v in pairs} *)
Definition dict_of_pairs {V} (l : list (nat * V)) : dict V :=
  fold_left (fun d kv => dict_set (fst kv) (snd kv) d) l [].

(* ------------------------------------------------------------------------------------- *)
(* Objective.__call__ and to_fitness                                                      *)
(* ------------------------------------------------------------------------------------- *)
Definition metric := graph -> mres.
Record objective := { metrics : list metric; multi : bool }.

(* for metric_id, metric_func in self.metrics: try: append(metric_func(graph))
   except Exception: return null_fitness()     -- (None = "returned null_fitness right away") *)
Fixpoint call_metrics (ms : list metric) (k : nat) (g : graph) : option (list mres) * list ev :=
  match ms with
  | [] => (Some [], [])
  | m :: ms' =>
      match m g with
      | MRaise => (None, [EvMetric k g])
      | r => let '(rs, lg) := call_metrics ms' (S k) g in
             (option_map (cons r) rs, EvMetric k g :: lg)
      end
  end.

(* _is_missing: None or NaN *)
Definition is_missing (r : mres) : bool :=
  match r with MNone | MNaN => true | _ => false end.

Definition mvalue (r : mres) : Q := match r with MVal q => q | _ => 0%Q end.

Definition to_fitness (is_multi : bool) (rs : list mres) : fit :=
  if existsb is_missing rs then Null
  else if is_multi then FMulti (map mvalue rs)
  else match rs with [] => Null | _ => FSingle (map mvalue rs) end.   (* SingleObjFitness() is null *)

Definition objective_call (o : objective) (g : graph) : fit * list ev :=
  match call_metrics (metrics o) 0 g with
  | (None, lg) => (Null, lg)
  | (Some rs, lg) => (to_fitness (multi o) rs, lg)
  end.

(* "the objective applied to the graph" *)
Definition objective_value (o : objective) (g : graph) : fit := fst (objective_call o g).

(* independent formulation used by the oracle: a graph is evaluable when every metric returns
   a number on it; its fitness then collects these numbers *)
Definition is_val (r : mres) : bool := match r with MVal _ => true | _ => false end.
Definition evaluable (o : objective) (g : graph) : bool :=
  forallb (fun m => is_val (m g)) (metrics o) && negb (Nat.eqb (length (metrics o)) 0).
Definition spec_fit (o : objective) (g : graph) : fit :=
  if evaluable o g then
    (if multi o then FMulti else FSingle) (map (fun m => mvalue (m g)) (metrics o))
  else Null.

(* ------------------------------------------------------------------------------------- *)
(* BaseGraphEvaluationDispatcher                                                          *)
(* ------------------------------------------------------------------------------------- *)
(* split_individuals_to_evaluate: (to evaluate, to skip), both in population order *)
Definition to_evaluate (pop : list ind) : list ind := filter (fun i => negb (valid (fitness i))) pop.
Definition to_skip (pop : list ind) : list ind := filter (fun i => valid (fitness i)) pop.

(* evaluation_cache.get(cache_key, graph) *)
Definition cached_graph (cache : dict graph) (key : option nat) (g : graph) : graph :=
  match key with
  | Some k => match dict_get k cache with Some c => c | None => g end
  | None => g
  end.

(* evaluate_single.  `expired` is the answer timer.is_time_limit_reached() would give to this
   call; it is consulted only when with_time_limit holds.  _evaluate_graph calls the objective
   and then the post-evaluation callback (also when a metric raised: Objective.__call__ has
   caught the exception).  The adapter is the identity on labels. *)
Definition evaluate_single (o : objective) (cache : dict graph) (expired with_time_limit : bool)
           (key : option nat) (g : graph) (u : nat) : option eres * list ev :=
  let g' := cached_graph cache key g in
  if with_time_limit && expired then (None, [])
  else let '(f, lg) := objective_call o g' in
       (Some {| r_uid := u; r_fit := f; r_graph := g' |}, lg ++ [EvCallback g']).

(* Individual.set_evaluation_result *)
Definition set_evaluation_result (i : ind) (r : eres) : res ind :=
  if valid (fitness i) then RaiseValueError
  else Ok {| uid := uid i; fitness := r_fit r; gr := r_graph r |}.

(* {res.uid_of_individual: res for res in evaluation_results if res} *)
Definition truthy_pairs (rs : list (option eres)) : list (nat * eres) :=
  flat_map (fun r => match r with
                     | Some e => if valid (r_fit e) then [(r_uid e, e)] else []
                     | None => []
                     end) rs.
Definition results_dict (rs : list (option eres)) : dict eres := dict_of_pairs (truthy_pairs rs).

Fixpoint apply_loop (d : dict eres) (inds : list ind) : res (list ind) :=
  match inds with
  | [] => Ok []
  | i :: rest =>
      match dict_get (uid i) d with
      | None => apply_loop d rest
      | Some r =>
          if negb (valid (r_fit r)) then apply_loop d rest          (* `if not eval_res: continue` *)
          else match set_evaluation_result i r with
               | RaiseValueError => RaiseValueError
               | Ok i' => match apply_loop d rest with
                          | Ok l => Ok (i' :: l)
                          | RaiseValueError => RaiseValueError
                          end
               end
      end
  end.

Definition apply_evaluation_results (inds : list ind) (rs : list (option eres)) : res (list ind) :=
  apply_loop (results_dict rs) inds.

(* individuals paired with the index of their evaluate_single call *)
Fixpoint index_from (k : nat) (l : list ind) : list (nat * ind) :=
  match l with [] => [] | i :: r => (k, i) :: index_from (S k) r end.

(* the delegate evaluator: None = absent or not enabled; compute_graphs is any function *)
Definition delegate := option (list graph -> list graph).

(* _remote_compute_cache: {ind.uid: graph for ind, graph in zip(population, computed)} *)
Definition remote_compute_cache (d : delegate) (pop : list ind) : dict graph :=
  match d with
  | None => []
  | Some f => dict_of_pairs (combine (map uid pop) (f (map gr pop)))
  end.

(* ------------------------------------------------------------------------------------- *)
(* SequentialDispatcher.evaluate_population (what dispatch() returns): no reversal; the     *)
(* delegate cache is computed for the whole input population in input order and every      *)
(* evaluation looks its graph up by the individual's uid                                   *)
(* ------------------------------------------------------------------------------------- *)
Definition seq_single (o : objective) (cache : dict graph) (timer : nat -> bool) (ki : nat * ind)
  : option eres * list ev :=
  evaluate_single o cache (timer (fst ki)) true (Some (uid (snd ki))) (gr (snd ki)) (uid (snd ki)).

Definition seq_main (o : objective) (cache : dict graph) (timer : nat -> bool) (pop : list ind)
  : list (option eres * list ev) :=
  map (seq_single o cache timer) (index_from 0 (to_evaluate pop)).

(* the part after the evaluations, for an arbitrary list of results *)
Definition seq_finish (pop : list ind) (results : list (option eres)) : res (list ind) :=
  match apply_evaluation_results (to_evaluate pop) results with
  | Ok evd => Ok (evd ++ to_skip pop)
  | RaiseValueError => RaiseValueError
  end.

Definition sequential_evaluate (o : objective) (d : delegate) (timer : nat -> bool) (pop : list ind)
  : res (list ind) * list ev :=
  let per := seq_main o (remote_compute_cache d pop) timer pop in
  (seq_finish pop (map fst per), concat (map snd per)).

(* ------------------------------------------------------------------------------------- *)
(* MultiprocessingDispatcher                                                              *)
(* ------------------------------------------------------------------------------------- *)
Definition mp_single (o : objective) (cache : dict graph) (timer : nat -> bool) (ki : nat * ind)
  : option eres * list ev :=
  evaluate_single o cache (timer (fst ki)) true (Some (uid (snd ki))) (gr (snd ki)) (uid (snd ki)).

Definition mp_main (o : objective) (cache : dict graph) (timer : nat -> bool) (individuals : list ind)
  : list (option eres * list ev) :=
  map (mp_single o cache timer) (index_from 0 (to_evaluate individuals)).

(* for single_ind in individuals: evaluate without time limit; stop at the first success *)
Fixpoint fallback (o : objective) (cache : dict graph) (inds : list ind) : res (list ind) * list ev :=
  match inds with
  | [] => (Ok [], [])
  | i :: rest =>
      let '(r, lg) := evaluate_single o cache false false (Some (uid i)) (gr i) (uid i) in
      match apply_evaluation_results [i] [r] with
      | RaiseValueError => (RaiseValueError, lg)
      | Ok [] => let '(out, lg') := fallback o cache rest in (out, lg ++ lg')
      | Ok out => (Ok out, lg)
      end
  end.

(* evaluate_population after the joblib fan-out, for an arbitrary list of results and an
   arbitrary log of the events of the fan-out *)
Definition mp_finish (o : objective) (cache : dict graph) (individuals : list ind)
           (results : list (option eres)) (main_log : list ev) : res (list ind) * list ev :=
  match apply_evaluation_results (to_evaluate individuals) results with
  | RaiseValueError => (RaiseValueError, main_log)
  | Ok evd =>
      match evd ++ to_skip individuals with
      | [] => let '(out, lg) := fallback o cache individuals in (out, main_log ++ lg)
      | succ => (Ok succ, main_log)
      end
  end.

Definition mp_evaluate_population (o : objective) (cache : dict graph) (timer : nat -> bool)
           (individuals : list ind) : res (list ind) * list ev :=
  let per := mp_main o cache timer individuals in
  mp_finish o cache individuals (map fst per) (concat (map snd per)).

(* evaluate_with_cache = what MultiprocessingDispatcher.dispatch() returns *)
Definition evaluate_with_cache (o : objective) (d : delegate) (timer : nat -> bool) (pop : list ind)
  : res (list ind) * list ev :=
  let rp := rev pop in
  mp_evaluate_population o (remote_compute_cache d rp) timer rp.

(* the same with the results of the fan-out handed over in another order (any completion
   order / worker count); `shuffle` is applied to the list of results *)
Definition evaluate_with_cache_shuffled (shuffle : list (option eres) -> list (option eres))
           (o : objective) (d : delegate) (timer : nat -> bool) (pop : list ind)
  : res (list ind) * list ev :=
  let rp := rev pop in
  let cache := remote_compute_cache d rp in
  let per := mp_main o cache timer rp in
  mp_finish o cache rp (shuffle (map fst per)) (concat (map snd per)).

Definition sequential_evaluate_shuffled (shuffle : list (option eres) -> list (option eres))
           (o : objective) (d : delegate) (timer : nat -> bool) (pop : list ind) : res (list ind) * list ev :=
  let per := seq_main o (remote_compute_cache d pop) timer pop in
  (seq_finish pop (shuffle (map fst per)), concat (map snd per)).

(* the graph an individual is evaluated on by the parallel dispatcher (delegate asked about the
   reversed population) and by the sequential one (delegate asked about the population) *)
Definition eff_graph (d : delegate) (pop : list ind) (i : ind) : graph :=
  cached_graph (remote_compute_cache d (rev pop)) (Some (uid i)) (gr i).
Definition eff_graph_seq (d : delegate) (pop : list ind) (i : ind) : graph :=
  cached_graph (remote_compute_cache d pop) (Some (uid i)) (gr i).

(* ------------------------------------------------------------------------------------- *)
(* one dispatcher object used several times: dispatch(objective, timer) stores the objective *)
(* and `timer or get_forever_timer()`; the evaluation operator reads both from the object;    *)
(* every evaluation recomputes the delegate cache and resets it afterwards.  (Evaluating      *)
(* before the first dispatch is outside the model: the objective is None then.  The call      *)
(* index of the timer restarts with every evaluation: the sessions driven by the harness use  *)
(* timers whose answer does not depend on the number of earlier calls.)                       *)
(* ------------------------------------------------------------------------------------- *)
Record dstate := { s_objective : objective; s_timer : nat -> bool; s_cache : dict graph }.

Definition forever_timer : nat -> bool := fun _ => false.

Definition dispatch_op (st : dstate) (o : objective) (t : option (nat -> bool)) : dstate :=
  {| s_objective := o;
     s_timer := match t with Some tm => tm | None => forever_timer end;
     s_cache := s_cache st |}.

(* what a freshly built and dispatched dispatcher answers *)
Definition evaluate_fresh (par : bool) (o : objective) (d : delegate) (timer : nat -> bool) (pop : list ind)
  : res (list ind) * list ev :=
  if par then evaluate_with_cache o d timer pop else sequential_evaluate o d timer pop.

Definition evaluate_op (par : bool) (d : delegate) (st : dstate) (pop : list ind)
  : (res (list ind) * list ev) * dstate :=
  (evaluate_fresh par (s_objective st) d (s_timer st) pop,
   {| s_objective := s_objective st; s_timer := s_timer st; s_cache := [] |}).   (* _reset_eval_cache *)

(* the delegate evaluator object can be switched on / off / exchanged between evaluations
   (is_enabled is read at every evaluation); an evaluation can be ABORTED by an exception that
   escapes it (a raising callback or plain objective function, KeyboardInterrupt): nothing is
   returned, no individual is changed, and the delegate cache of that run is left behind because
   the reset after an evaluation is not reached.  The next evaluation starts with
   _reset_eval_cache() inside _remote_compute_cache, so the left-over cache is never read. *)
Inductive step :=
| Dispatch (o : objective) (t : option (nat -> bool))
| Evaluate (pop : list ind)
| SetDelegate (d : delegate)
| Aborted (pop : list ind).

Definition aborted_op (par : bool) (d : delegate) (st : dstate) (pop : list ind) : dstate :=
  {| s_objective := s_objective st; s_timer := s_timer st;
     s_cache := remote_compute_cache d (if par then rev pop else pop) |}.

(* the answers of the evaluations of a session, in order *)
Fixpoint run_session (par : bool) (d : delegate) (st : dstate) (steps : list step)
  : list (res (list ind) * list ev) :=
  match steps with
  | [] => []
  | Dispatch o t :: rest => run_session par d (dispatch_op st o t) rest
  | Evaluate pop :: rest => let '(r, st') := evaluate_op par d st pop in r :: run_session par d st' rest
  | SetDelegate d' :: rest => run_session par d' st rest
  | Aborted pop :: rest => run_session par d (aborted_op par d st pop) rest
  end.

(* several dispatcher objects (number j: parallel iff par j) used alternately; they may have been
   built over one shared adapter - the adapter keeps no state, so each dispatcher only reads and
   writes its own delegate and state *)
Definition step_op (par : bool) (c : delegate * dstate) (s : step)
  : (delegate * dstate) * list (res (list ind) * list ev) :=
  let '(d, st) := c in
  match s with
  | Dispatch o t => ((d, dispatch_op st o t), [])
  | Evaluate pop => let '(r, st') := evaluate_op par d st pop in ((d, st'), [r])
  | SetDelegate d' => ((d', st), [])
  | Aborted pop => ((d, aborted_op par d st pop), [])
  end.

Fixpoint run_multi (par : nat -> bool) (cfg : nat -> delegate * dstate) (steps : list (nat * step))
  : list (nat * (res (list ind) * list ev)) :=
  match steps with
  | [] => []
  | (j, s) :: rest =>
      let '(c', out) := step_op (par j) (cfg j) s in
      map (pair j) out ++ run_multi par (fun k => if Nat.eqb k j then c' else cfg k) rest
  end.

(* ------------------------------------------------------------------------------------- *)
(* boolean equalities and small list tools for the executable predicates                   *)
(* ------------------------------------------------------------------------------------- *)
Definition Q_eqb (a b : Q) : bool := Z.eqb (Qnum a) (Qnum b) && Pos.eqb (Qden a) (Qden b).

Fixpoint list_eqb {A} (eqb : A -> A -> bool) (l r : list A) : bool :=
  match l, r with
  | [], [] => true
  | a :: l', b :: r' => eqb a b && list_eqb eqb l' r'
  | _, _ => false
  end.

Definition fit_eqb (f g : fit) : bool :=
  match f, g with
  | Null, Null => true
  | FSingle a, FSingle b => list_eqb Q_eqb a b
  | FMulti a, FMulti b => list_eqb Q_eqb a b
  | _, _ => false
  end.

Definition ind_eqb (a b : ind) : bool :=
  Nat.eqb (uid a) (uid b) && fit_eqb (fitness a) (fitness b) && Nat.eqb (gr a) (gr b).

Definition ev_eqb (a b : ev) : bool :=
  match a, b with
  | EvMetric k g, EvMetric k' g' => Nat.eqb k k' && Nat.eqb g g'
  | EvCallback g, EvCallback g' => Nat.eqb g g'
  | _, _ => false
  end.

Fixpoint remove1 {A} (eqb : A -> A -> bool) (x : A) (l : list A) : option (list A) :=
  match l with
  | [] => None
  | y :: r => if eqb x y then Some r
              else match remove1 eqb x r with Some r' => Some (y :: r') | None => None end
  end.

(* l1 is a permutation of l2 *)
Fixpoint perm_b {A} (eqb : A -> A -> bool) (l1 l2 : list A) : bool :=
  match l1 with
  | [] => match l2 with [] => true | _ => false end
  | x :: r => match remove1 eqb x l2 with Some l2' => perm_b eqb r l2' | None => false end
  end.

Definition count {A} (p : A -> bool) (l : list A) : nat := length (filter p l).

Fixpoint nodup_b (l : list nat) : bool :=
  match l with [] => true | x :: r => negb (existsb (Nat.eqb x) r) && nodup_b r end.

Definition metric0_graphs (lg : list ev) : list graph :=
  flat_map (fun e => match e with EvMetric 0 g => [g] | _ => [] end) lg.
Definition callback_graphs (lg : list ev) : list graph :=
  flat_map (fun e => match e with EvCallback g => [g] | _ => [] end) lg.
Definition metric_graphs (lg : list ev) : list graph :=
  flat_map (fun e => match e with EvMetric _ g => [g] | _ => [] end) lg.

(* ------------------------------------------------------------------------------------- *)
(* correspondence cases                                                                   *)
(* ------------------------------------------------------------------------------------- *)
(* objective given by a table: row of a graph = what each metric does on it; a graph without
   a row makes the metric raise (KeyError in the harness's metric) *)
Fixpoint assoc {V} (k : nat) (l : list (nat * V)) : option V :=
  match l with [] => None | (k', v) :: r => if Nat.eqb k k' then Some v else assoc k r end.

Definition table := list (graph * list mres).
Definition metric_of_table (t : table) (k : nat) : metric :=
  fun g => match assoc g t with Some row => nth k row MRaise | None => MRaise end.
Definition objective_of_table (t : table) (n : nat) (is_multi : bool) : objective :=
  {| metrics := map (metric_of_table t) (seq 0 n); multi := is_multi |}.

(* delegates of the harness: graph g at position p is replaced by add + mul*p + g, and the last
   `drop` graphs are not returned *)
Record dspec := { d_add : nat; d_mul : nat; d_drop : nat }.
Definition delegate_of_spec (s : dspec) : list graph -> list graph :=
  fun gs => firstn (length gs - d_drop s)
                   (map (fun pg => d_add s + d_mul s * fst pg + snd pg) (combine (seq 0 (length gs)) gs)).

Record case := {
  c_par : bool;                 (* MultiprocessingDispatcher (true) / SequentialDispatcher *)
  c_ordered : bool;             (* n_jobs = 1: the order of the event log is determined *)
  c_pop : list ind;
  c_tbl : table;
  c_nmetrics : nat;
  c_multi : bool;
  c_timer : list bool;          (* answers of is_time_limit_reached by call index ... *)
  c_timer_rest : bool;          (* ... and for every later call *)
  c_delegate : option dspec     (* an enabled delegate evaluator handed to the dispatcher *)
}.

Record observed := {
  o_raised : bool;                               (* the call raised an exception *)
  o_out : list ind;                              (* returned individuals, in order *)
  o_log : list ev;                               (* side file: metric and callback calls *)
  o_deleg : list (list graph * list graph)       (* compute_graphs calls: (input, output) *)
}.

Definition case_objective (c : case) : objective := objective_of_table (c_tbl c) (c_nmetrics c) (c_multi c).
Definition case_timer (c : case) : nat -> bool := fun k => nth k (c_timer c) (c_timer_rest c).
Definition case_delegate (c : case) : delegate := option_map delegate_of_spec (c_delegate c).

Definition model_run (shuffle : list (option eres) -> list (option eres)) (c : case)
  : res (list ind) * list ev :=
  if c_par c then evaluate_with_cache_shuffled shuffle (case_objective c) (case_delegate c) (case_timer c) (c_pop c)
  else sequential_evaluate_shuffled shuffle (case_objective c) (case_delegate c) (case_timer c) (c_pop c).

(* compute_graphs calls the model predicts *)
Definition model_deleg (c : case) : list (list graph * list graph) :=
  match c_delegate c with
  | Some s => let gs := map gr (if c_par c then rev (c_pop c) else c_pop c) in [(gs, delegate_of_spec s gs)]
  | None => []
  end.

Definition graphs_eqb := list_eqb Nat.eqb.
Definition deleg_eqb (a b : list (list graph * list graph)) : bool :=
  list_eqb (fun x y => graphs_eqb (fst x) (fst y) && graphs_eqb (snd x) (snd y)) a b.

Definition unevaluated (c : case) : list ind := to_evaluate (c_pop c).
Definition preevaluated (c : case) : list ind := to_skip (c_pop c).

(* the quantifier of the property: not-yet-evaluated individuals have pairwise distinct uids,
   shared with no pre-evaluated individual *)
Definition in_scope (c : case) : bool :=
  nodup_b (map uid (unevaluated c))
  && forallb (fun i => negb (existsb (fun j => Nat.eqb (uid i) (uid j)) (preevaluated c))) (unevaluated c).

Definition agree_with (shuffle : list (option eres) -> list (option eres)) (c : case) (ob : observed) : bool :=
  match model_run shuffle c with
  | (RaiseValueError, _) => o_raised ob
  | (Ok out, lg) =>
      negb (o_raised ob) && list_eqb ind_eqb out (o_out ob)
      && (if c_ordered c then list_eqb ev_eqb lg (o_log ob) else perm_b ev_eqb lg (o_log ob))
  end.

(* model = implementation: with the results in submission order and (inside the quantifier of
   the property, where the order cannot matter) in reverse order *)
Definition agree (c : case) (ob : observed) : bool :=
  agree_with (fun l => l) c ob && (negb (in_scope c) || agree_with (@rev _) c ob)
  && deleg_eqb (model_deleg c) (o_deleg ob).

(* ------------------------------------------------------------------------------------- *)
(* the property as an executable predicate on the OBSERVED behaviour                       *)
(* ------------------------------------------------------------------------------------- *)
(* "the graph the delegate computed for it": the output of compute_graphs at the position at
   which the individual's graph was handed in (looked up by graph label; first call, first
   position); its own graph when the delegate computed nothing for it *)
Definition computed_for (dl : list (list graph * list graph)) (g : graph) : graph :=
  match dl with
  | (din, dout) :: _ => match assoc g (combine din dout) with Some g' => g' | None => g end
  | [] => g
  end.

Definition timer_expired_from_start (c : case) : bool := forallb (fun b => b) (c_timer c) && c_timer_rest c.
Definition timer_generous (c : case) : bool := forallb negb (c_timer c) && negb (c_timer_rest c).

(* the clauses, one definition each.  Common vocabulary: o = the objective; geff i = the graph
   the delegate computed for individual i (its own graph if none); une / pre = the
   not-yet-evaluated / pre-evaluated individuals of the input; m0 / cb = graphs on which metric 0 /
   the callback was called; in_out i = some returned individual carries the uid of i *)
Definition geff_of (ob : observed) (i : ind) : graph := computed_for (o_deleg ob) (gr i).
Definition in_out (ob : observed) (i : ind) : bool := existsb (fun x => Nat.eqb (uid x) (uid i)) (o_out ob).
Definition is_new (c : case) (x : ind) : bool := existsb (fun i => Nat.eqb (uid i) (uid x)) (unevaluated c).

(* only individuals of the input, each with a valid fitness: a pre-evaluated one unchanged, a
   newly evaluated one with the objective value of (the delegate's graph for) its graph *)
Definition clause_sound (c : case) (ob : observed) : bool :=
  forallb (fun x => valid (fitness x)
                    && (existsb (fun i => ind_eqb i x) (preevaluated c)
                        || existsb (fun i => Nat.eqb (uid i) (uid x)
                                             && fit_eqb (fitness x) (spec_fit (case_objective c) (geff_of ob i)))
                                   (unevaluated c))) (o_out ob).

(* pre-evaluated individuals are passed through ... *)
Definition clause_passthrough (c : case) (ob : observed) : bool :=
  forallb (fun i => existsb (fun x => ind_eqb i x) (o_out ob)) (preevaluated c).

(* ... and nothing but graphs of not-yet-evaluated individuals reaches the metrics *)
Definition clause_no_reevaluation (c : case) (ob : observed) : bool :=
  forallb (fun g => existsb (fun i => Nat.eqb (geff_of ob i) g) (unevaluated c)) (metric_graphs (o_log ob)).

(* not evaluable => left out *)
Definition clause_left_out (c : case) (ob : observed) : bool :=
  forallb (fun i => valid (spec_fit (case_objective c) (geff_of ob i)) || negb (in_out ob i)) (unevaluated c).

(* evaluable: returned exactly when it reached the objective (not cut off by the time limit), and
   then its graph was evaluated once - counted per graph label: the number of objective calls on
   the label = the number of returned individuals evaluated on that label *)
Definition clause_exactly (c : case) (ob : observed) : bool :=
  forallb (fun i => negb (valid (spec_fit (case_objective c) (geff_of ob i)))
                    || Nat.eqb (count (Nat.eqb (geff_of ob i)) (metric0_graphs (o_log ob)))
                               (count (fun j => Nat.eqb (geff_of ob j) (geff_of ob i) && in_out ob j) (unevaluated c)))
          (unevaluated c).

(* a generous time limit cuts nobody off *)
Definition clause_generous (c : case) (ob : observed) : bool :=
  negb (timer_generous c)
  || forallb (fun i => Nat.leb (count (fun j => Nat.eqb (geff_of ob j) (geff_of ob i)) (unevaluated c))
                               (count (Nat.eqb (geff_of ob i)) (metric0_graphs (o_log ob)))) (unevaluated c).

(* the callback sees a graph once per objective call on it *)
Definition clause_callback (ob : observed) : bool :=
  perm_b Nat.eqb (callback_graphs (o_log ob)) (metric0_graphs (o_log ob)).

(* expired from the start: the sequential dispatcher returns the pre-evaluated only; the parallel
   one returns something iff anything is pre-evaluated or evaluable, and exactly one individual
   when nothing was pre-evaluated *)
Definition clause_expired (c : case) (ob : observed) : bool :=
  negb (timer_expired_from_start c)
  || (if c_par c
      then Bool.eqb (negb (Nat.eqb (length (o_out ob)) 0))
                    (negb (Nat.eqb (length (preevaluated c)) 0)
                     || existsb (fun i => valid (spec_fit (case_objective c) (geff_of ob i))) (unevaluated c))
           && (negb (Nat.eqb (length (preevaluated c)) 0) || Nat.leb (length (o_out ob)) 1)
      else forallb (fun x => negb (is_new c x)) (o_out ob)).

(* an enabled delegate: every newly evaluated individual that is returned was handed to
   compute_graphs (so "the graph the delegate computed for it" exists or the delegate chose to
   return none); a dispatcher that ignores the delegate fails here *)
Definition clause_delegate (c : case) (ob : observed) : bool :=
  match c_delegate c with
  | None => true
  | Some _ => forallb (fun i => negb (in_out ob i)
                                || existsb (fun call => existsb (Nat.eqb (gr i)) (fst call)) (o_deleg ob))
                      (unevaluated c)
  end.

Definition holds_b (c : case) (ob : observed) : bool :=
  if negb (in_scope c) then true else
  negb (o_raised ob)
  && clause_sound c ob && clause_passthrough c ob && clause_no_reevaluation c ob
  && clause_left_out c ob && clause_exactly c ob && clause_generous c ob
  && clause_callback ob && clause_expired c ob && clause_delegate c ob.

(* ------------------------------------------------------------------------------------- *)
(* apply_evaluation_results called directly (it is a public static method) with the results  *)
(* in ANY order, with invalid / None / missing / foreign results mixed in                     *)
(* ------------------------------------------------------------------------------------- *)
(* specification: an individual is returned iff some valid result carries its uid, and then with
   the fitness and graph of that result; input order of the individuals is preserved *)
Definition apply_spec (inds : list ind) (rs : list (option eres)) : list ind :=
  flat_map (fun i => match dict_get (uid i) (truthy_pairs rs) with
                     | Some r => [ {| uid := uid i; fitness := r_fit r; gr := r_graph r |} ]
                     | None => []
                     end) inds.

(* the quantifier: individuals without valid fitness and with pairwise distinct uids, at most one
   valid result per uid *)
Definition apply_in_scope (inds : list ind) (rs : list (option eres)) : bool :=
  nodup_b (map uid inds) && forallb (fun i => negb (valid (fitness i))) inds
  && nodup_b (map fst (truthy_pairs rs)).

Definition apply_agree (inds : list ind) (rs : list (option eres)) (raised : bool) (out : list ind) : bool :=
  match apply_evaluation_results inds rs with
  | Ok l => negb raised && list_eqb ind_eqb l out
  | RaiseValueError => raised
  end.

Definition apply_holds_b (inds : list ind) (rs : list (option eres)) (raised : bool) (out : list ind) : bool :=
  if negb (apply_in_scope inds rs) then true
  else negb raised && list_eqb ind_eqb out (apply_spec inds rs).

(* which individual received which fitness, compared between two runs on one scenario *)
Definition same_assignment_b (out1 out2 : list ind) : bool :=
  forallb (fun x => existsb (fun y => Nat.eqb (uid x) (uid y) && fit_eqb (fitness x) (fitness y)) out2) out1
  && forallb (fun y => existsb (fun x => Nat.eqb (uid x) (uid y) && fit_eqb (fitness x) (fitness y)) out1) out2.
