(* Proofs about the model of the evaluation dispatchers (Evo/Evaluation.v). *)
From Coq Require Import List Bool Arith QArith Lia Permutation.
From GolemV Require Import Evo.Evaluation.
Import ListNotations.
Local Open Scope nat_scope.

(* ------------------------------------------------------------------------------------- *)
(* A. dictionaries                                                                        *)
(* ------------------------------------------------------------------------------------- *)
Lemma assoc_is_dict_get : forall V k (l : list (nat * V)), assoc k l = dict_get k l.
Proof. induction l as [|[k' v] l IH]; simpl; auto. Qed.

Lemma dict_get_set : forall V k k' (v : V) d,
  dict_get k (dict_set k' v d) = if Nat.eqb k k' then Some v else dict_get k d.
Proof.
  induction d as [|[k0 v0] d IH]; simpl.
  - reflexivity.
  - destruct (Nat.eqb k' k0) eqn:E; simpl.
    + apply Nat.eqb_eq in E. subst k0. destruct (Nat.eqb k k'); reflexivity.
    + rewrite IH. destruct (Nat.eqb k k0) eqn:E0; destruct (Nat.eqb k k') eqn:E1; try reflexivity.
      apply Nat.eqb_eq in E0, E1. subst. rewrite Nat.eqb_refl in E. discriminate.
Qed.

Lemma dict_get_app : forall V k (a b : dict V),
  dict_get k (a ++ b) = match dict_get k a with Some v => Some v | None => dict_get k b end.
Proof.
  induction a as [|[k' v] a IH]; simpl; intros; auto.
  destruct (Nat.eqb k k'); auto.
Qed.

Lemma dict_get_fold : forall V k (l : list (nat * V)) d,
  dict_get k (fold_left (fun d kv => dict_set (fst kv) (snd kv) d) l d)
  = match dict_get k (rev l) with Some v => Some v | None => dict_get k d end.
Proof.
  induction l as [|[k' v] l IH]; simpl; intros d.
  - reflexivity.
  - rewrite IH, dict_get_app. destruct (dict_get k (rev l)); auto.
    simpl. rewrite dict_get_set. destruct (Nat.eqb k k'); reflexivity.
Qed.

(* a dict comprehension: the LAST pair with the key wins *)
Lemma dict_get_of_pairs : forall V k (l : list (nat * V)),
  dict_get k (dict_of_pairs l) = dict_get k (rev l).
Proof.
  intros. unfold dict_of_pairs. rewrite dict_get_fold. destruct (dict_get k (rev l)); reflexivity.
Qed.

Lemma dict_get_In : forall V k (v : V) l, dict_get k l = Some v -> In (k, v) l.
Proof.
  induction l as [|[k' v'] l IH]; simpl; intros H; try discriminate.
  destruct (Nat.eqb k k') eqn:E.
  - apply Nat.eqb_eq in E. inversion H. subst. auto.
  - auto.
Qed.

Lemma dict_get_None : forall V k (l : list (nat * V)), dict_get k l = None <-> ~ In k (map fst l).
Proof.
  induction l as [|[k' v'] l IH]; simpl.
  - tauto.
  - destruct (Nat.eqb k k') eqn:E.
    + apply Nat.eqb_eq in E. subst. split; [discriminate|intros H; exfalso; auto].
    + apply Nat.eqb_neq in E. rewrite IH. split; intros H; [intros [H1|H1]; auto|auto].
Qed.

Lemma dict_get_NoDup_In : forall V k (v : V) l,
  NoDup (map fst l) -> In (k, v) l -> dict_get k l = Some v.
Proof.
  induction l as [|[k' v'] l IH]; simpl; intros ND H; [tauto|].
  inversion ND as [|? ? Hn ND']; subst.
  destruct H as [H|H].
  - inversion H; subst. rewrite Nat.eqb_refl. reflexivity.
  - destruct (Nat.eqb k k') eqn:E.
    + apply Nat.eqb_eq in E. subst. exfalso. apply Hn. apply in_map_iff. exists (k', v). auto.
    + auto.
Qed.

(* with distinct keys the order of the pairs is irrelevant *)
Lemma dict_get_perm : forall V k (l l' : list (nat * V)),
  NoDup (map fst l) -> Permutation l l' -> dict_get k l = dict_get k l'.
Proof.
  intros V k l l' ND P.
  assert (ND' : NoDup (map fst l')) by (eapply Permutation_NoDup; [apply Permutation_map; exact P|exact ND]).
  destruct (dict_get k l) eqn:E.
  - symmetry. apply dict_get_NoDup_In; auto. eapply Permutation_in; [exact P|]. apply dict_get_In; auto.
  - symmetry. apply dict_get_None. apply dict_get_None in E. intros H. apply E.
    eapply Permutation_in; [apply Permutation_map; apply Permutation_sym; exact P|exact H].
Qed.

(* ------------------------------------------------------------------------------------- *)
(* B. apply_evaluation_results without the exception                                      *)
(* ------------------------------------------------------------------------------------- *)
Definition updated (i : ind) (e : eres) : ind := {| uid := uid i; fitness := r_fit e; gr := r_graph e |}.

Definition apply_pure (d : dict eres) (inds : list ind) : list ind :=
  flat_map (fun i => match dict_get (uid i) d with
                     | Some r => if valid (r_fit r) then [updated i r] else []
                     | None => []
                     end) inds.

Definition all_invalid (inds : list ind) : Prop := forall i, In i inds -> valid (fitness i) = false.

Lemma apply_loop_pure : forall d inds, all_invalid inds -> apply_loop d inds = Ok (apply_pure d inds).
Proof.
  induction inds as [|i inds IH]; simpl; intros H; [reflexivity|].
  assert (Hi : valid (fitness i) = false) by (apply H; simpl; auto).
  assert (H' : all_invalid inds) by (intros j Hj; apply H; simpl; auto).
  destruct (dict_get (uid i) d) as [r|].
  - destruct (valid (r_fit r)); simpl.
    + unfold set_evaluation_result. rewrite Hi. rewrite (IH H'). reflexivity.
    + auto.
  - auto.
Qed.

Lemma to_evaluate_invalid : forall pop, all_invalid (to_evaluate pop).
Proof.
  intros pop i H. apply filter_In in H. destruct H as [_ H]. destruct (valid (fitness i)); simpl in H; congruence.
Qed.

Lemma to_skip_valid : forall pop i, In i (to_skip pop) <-> In i pop /\ valid (fitness i) = true.
Proof. intros. unfold to_skip. apply filter_In. Qed.

Lemma to_evaluate_In : forall pop i, In i (to_evaluate pop) <-> In i pop /\ valid (fitness i) = false.
Proof.
  intros. unfold to_evaluate. rewrite filter_In. destruct (valid (fitness i)); simpl; intuition congruence.
Qed.

(* ------------------------------------------------------------------------------------- *)
(* C. looking results up by uid                                                           *)
(* ------------------------------------------------------------------------------------- *)
Lemma index_from_snd : forall l k, map snd (index_from k l) = l.
Proof. induction l; simpl; intros; f_equal; auto. Qed.

Lemma index_from_uid : forall l k, map (fun ki => uid (snd ki)) (index_from k l) = map uid l.
Proof. intros. rewrite <- (index_from_snd l k) at 2. rewrite map_map. reflexivity. Qed.

Lemma index_from_length : forall l k, length (index_from k l) = length l.
Proof. induction l; simpl; intros; auto. Qed.

Lemma index_from_In_snd : forall l k ki, In ki (index_from k l) -> In (snd ki) l.
Proof. intros. rewrite <- (index_from_snd l k). apply in_map. assumption. Qed.

Lemma NoDup_map_inj_in : forall A B (g : A -> B) l a b,
  NoDup (map g l) -> In a l -> In b l -> g a = g b -> a = b.
Proof.
  induction l as [|x l IH]; simpl; intros a b ND Ha Hb E; [tauto|].
  inversion ND as [|? ? Hn ND']; subst.
  destruct Ha as [Ha|Ha]; destruct Hb as [Hb|Hb]; subst; auto.
  - exfalso. apply Hn. rewrite E. apply in_map. assumption.
  - exfalso. apply Hn. rewrite <- E. apply in_map. assumption.
Qed.

Section Lookup.
  Variable f : nat * ind -> option eres.
  Hypothesis f_uid : forall ki e, f ki = Some e -> r_uid e = uid (snd ki).

  Lemma truthy_pairs_In : forall (l : list (nat * ind)) u e,
    In (u, e) (truthy_pairs (map f l)) <->
    exists ki, In ki l /\ f ki = Some e /\ valid (r_fit e) = true /\ u = uid (snd ki).
  Proof.
    intros l u e. unfold truthy_pairs. rewrite in_flat_map. split.
    - intros [r [Hr Hin]]. apply in_map_iff in Hr. destruct Hr as [ki [Hf Hki]]. subst r.
      destruct (f ki) as [e'|] eqn:E; [|simpl in Hin; tauto].
      destruct (valid (r_fit e')) eqn:Ev; simpl in Hin; [|tauto].
      destruct Hin as [Hin|[]]. inversion Hin; subst. exists ki. repeat split; auto.
    - intros [ki [Hki [Hf [Hv Hu]]]]. exists (f ki). split; [apply in_map; assumption|].
      rewrite Hf, Hv. simpl. left. rewrite (f_uid _ _ Hf). subst. reflexivity.
  Qed.

  Lemma truthy_pairs_keys_NoDup : forall (l : list (nat * ind)),
    NoDup (map (fun ki => uid (snd ki)) l) -> NoDup (map fst (truthy_pairs (map f l))).
  Proof.
    induction l as [|ki l IH]; simpl; intros ND; [constructor|].
    inversion ND as [|? ? Hn ND']; subst.
    destruct (f ki) as [e|] eqn:E; simpl; auto.
    destruct (valid (r_fit e)) eqn:Ev; simpl; auto.
    constructor; auto.
    intros Hin. apply in_map_iff in Hin. destruct Hin as [[u e'] [Hu Hin]]. simpl in Hu.
    apply (truthy_pairs_In l u e') in Hin. destruct Hin as [ki' [Hki' [_ [_ Hu']]]].
    apply Hn. apply in_map_iff. exists ki'. split; auto. rewrite <- Hu'. rewrite Hu. apply f_uid. assumption.
  Qed.

  Lemma lookup_result : forall (l : list (nat * ind)) rs ki,
    NoDup (map (fun ki => uid (snd ki)) l) ->
    Permutation rs (map f l) -> In ki l ->
    dict_get (uid (snd ki)) (results_dict rs) = if truthy (f ki) then f ki else None.
  Proof.
    intros l rs ki ND P Hki.
    unfold results_dict. rewrite dict_get_of_pairs.
    assert (PP : Permutation (rev (truthy_pairs rs)) (truthy_pairs (map f l))).
    { eapply Permutation_trans; [apply Permutation_sym, Permutation_rev|].
      unfold truthy_pairs. apply Permutation_flat_map. exact P. }
    pose proof (truthy_pairs_keys_NoDup l ND) as NDk.
    rewrite (dict_get_perm _ _ _ (truthy_pairs (map f l))); auto.
    2:{ eapply Permutation_NoDup; [apply Permutation_map; apply Permutation_sym; exact PP|exact NDk]. }
    destruct (f ki) as [e|] eqn:E; simpl.
    - destruct (valid (r_fit e)) eqn:Ev.
      + apply dict_get_NoDup_In; auto. apply truthy_pairs_In. exists ki. repeat split; auto.
      + apply dict_get_None. intros Hin. apply in_map_iff in Hin. destruct Hin as [[u e'] [Hu Hin]].
        simpl in Hu. apply truthy_pairs_In in Hin. destruct Hin as [ki' [Hki' [Hf' [Hv' Hu']]]].
        assert (ki' = ki) by (eapply NoDup_map_inj_in; eauto; simpl; congruence).
        subst ki'. rewrite E in Hf'. inversion Hf'; subst. congruence.
    - apply dict_get_None. intros Hin. apply in_map_iff in Hin. destruct Hin as [[u e'] [Hu Hin]].
      simpl in Hu. apply truthy_pairs_In in Hin. destruct Hin as [ki' [Hki' [Hf' [Hv' Hu']]]].
      assert (ki' = ki) by (eapply NoDup_map_inj_in; eauto; simpl; congruence).
      subst ki'. rewrite E in Hf'. discriminate.
  Qed.

  (* the individuals that come out of apply_evaluation_results, independent of the results' order *)
  Definition evaluated_of (l : list (nat * ind)) : list ind :=
    flat_map (fun ki => match f ki with
                        | Some e => if valid (r_fit e) then [updated (snd ki) e] else []
                        | None => []
                        end) l.

  Lemma apply_pure_lookup : forall (l sub : list (nat * ind)) rs,
    NoDup (map (fun ki => uid (snd ki)) l) -> Permutation rs (map f l) ->
    (forall ki, In ki sub -> In ki l) ->
    apply_pure (results_dict rs) (map snd sub) = evaluated_of sub.
  Proof.
    intros l sub rs ND P. induction sub as [|ki sub IH]; simpl; intros Hsub; [reflexivity|].
    rewrite IH by (intros; apply Hsub; simpl; auto). f_equal.
    rewrite (lookup_result l rs ki ND P) by (apply Hsub; simpl; auto).
    destruct (f ki) as [e|]; simpl; auto.
    destruct (valid (r_fit e)) eqn:Ev; simpl; [rewrite Ev|]; reflexivity.
  Qed.

  Lemma apply_closed : forall te k rs,
    NoDup (map uid te) -> all_invalid te -> Permutation rs (map f (index_from k te)) ->
    apply_evaluation_results te rs = Ok (evaluated_of (index_from k te)).
  Proof.
    intros te k rs ND Hinv P. unfold apply_evaluation_results.
    rewrite apply_loop_pure by assumption.
    rewrite <- (index_from_snd te k) at 1.
    rewrite (apply_pure_lookup (index_from k te) (index_from k te) rs); auto.
    rewrite index_from_uid. assumption.
  Qed.
End Lookup.
