(* Proofs about the model of the evaluation dispatchers (Evo/Evaluation.v). *)
From Coq Require Import List Bool Arith QArith Lia Permutation.
From GolemV Require Import Evo.Evaluation.
Import ListNotations.
Local Open Scope nat_scope.

(* ------------------------------------------------------------------------------------- *)
(* A. dictionaries                                                                        *)
(* ------------------------------------------------------------------------------------- *)
Lemma assoc_is_dict_get : forall V k (l : list (nat * V)), assoc k l = dict_get k l.
Proof. induction l as [|[k' v] l IH]; simpl; auto. Qed.

Lemma dict_get_set : forall V k k' (v : V) d,
  dict_get k (dict_set k' v d) = if Nat.eqb k k' then Some v else dict_get k d.
Proof.
  induction d as [|[k0 v0] d IH]; simpl.
  - reflexivity.
  - destruct (Nat.eqb k' k0) eqn:E; simpl.
    + apply Nat.eqb_eq in E. subst k0. destruct (Nat.eqb k k'); reflexivity.
    + rewrite IH. destruct (Nat.eqb k k0) eqn:E0; destruct (Nat.eqb k k') eqn:E1; try reflexivity.
      apply Nat.eqb_eq in E0, E1. subst. rewrite Nat.eqb_refl in E. discriminate.
Qed.

Lemma dict_get_app : forall V k (a b : dict V),
  dict_get k (a ++ b) = match dict_get k a with Some v => Some v | None => dict_get k b end.
Proof.
  induction a as [|[k' v] a IH]; simpl; intros; auto.
  destruct (Nat.eqb k k'); auto.
Qed.

Lemma dict_get_fold : forall V k (l : list (nat * V)) d,
  dict_get k (fold_left (fun d kv => dict_set (fst kv) (snd kv) d) l d)
  = match dict_get k (rev l) with Some v => Some v | None => dict_get k d end.
Proof.
  induction l as [|[k' v] l IH]; simpl; intros d.
  - reflexivity.
  - rewrite IH, dict_get_app. destruct (dict_get k (rev l)); auto.
    simpl. rewrite dict_get_set. destruct (Nat.eqb k k'); reflexivity.
Qed.

(* a dict comprehension: the LAST pair with the key wins *)
Lemma dict_get_of_pairs : forall V k (l : list (nat * V)),
  dict_get k (dict_of_pairs l) = dict_get k (rev l).
Proof.
  intros. unfold dict_of_pairs. rewrite dict_get_fold. destruct (dict_get k (rev l)); reflexivity.
Qed.

Lemma dict_get_In : forall V k (v : V) l, dict_get k l = Some v -> In (k, v) l.
Proof.
  induction l as [|[k' v'] l IH]; simpl; intros H; try discriminate.
  destruct (Nat.eqb k k') eqn:E.
  - apply Nat.eqb_eq in E. inversion H. subst. auto.
  - auto.
Qed.

Lemma dict_get_None : forall V k (l : list (nat * V)), dict_get k l = None <-> ~ In k (map fst l).
Proof.
  induction l as [|[k' v'] l IH]; simpl.
  - tauto.
  - destruct (Nat.eqb k k') eqn:E.
    + apply Nat.eqb_eq in E. subst. split; [discriminate|intros H; exfalso; auto].
    + apply Nat.eqb_neq in E. rewrite IH. split; intros H; [intros [H1|H1]; auto|auto].
Qed.

Lemma dict_get_NoDup_In : forall V k (v : V) l,
  NoDup (map fst l) -> In (k, v) l -> dict_get k l = Some v.
Proof.
  induction l as [|[k' v'] l IH]; simpl; intros ND H; [tauto|].
  inversion ND as [|? ? Hn ND']; subst.
  destruct H as [H|H].
  - inversion H; subst. rewrite Nat.eqb_refl. reflexivity.
  - destruct (Nat.eqb k k') eqn:E.
    + apply Nat.eqb_eq in E. subst. exfalso. apply Hn. apply in_map_iff. exists (k', v). auto.
    + auto.
Qed.

(* with distinct keys the order of the pairs is irrelevant *)
Lemma dict_get_perm : forall V k (l l' : list (nat * V)),
  NoDup (map fst l) -> Permutation l l' -> dict_get k l = dict_get k l'.
Proof.
  intros V k l l' ND P.
  assert (ND' : NoDup (map fst l')) by (eapply Permutation_NoDup; [apply Permutation_map; exact P|exact ND]).
  destruct (dict_get k l) eqn:E.
  - symmetry. apply dict_get_NoDup_In; auto. eapply Permutation_in; [exact P|]. apply dict_get_In; auto.
  - symmetry. apply dict_get_None. apply dict_get_None in E. intros H. apply E.
    eapply Permutation_in; [apply Permutation_map; apply Permutation_sym; exact P|exact H].
Qed.

(* ------------------------------------------------------------------------------------- *)
(* B. apply_evaluation_results without the exception                                      *)
(* ------------------------------------------------------------------------------------- *)
Definition updated (i : ind) (e : eres) : ind := {| uid := uid i; fitness := r_fit e; gr := r_graph e |}.

Definition apply_pure (d : dict eres) (inds : list ind) : list ind :=
  flat_map (fun i => match dict_get (uid i) d with
                     | Some r => if valid (r_fit r) then [updated i r] else []
                     | None => []
                     end) inds.

Definition all_invalid (inds : list ind) : Prop := forall i, In i inds -> valid (fitness i) = false.

Lemma apply_loop_pure : forall d inds, all_invalid inds -> apply_loop d inds = Ok (apply_pure d inds).
Proof.
  induction inds as [|i inds IH]; simpl; intros H; [reflexivity|].
  assert (Hi : valid (fitness i) = false) by (apply H; simpl; auto).
  assert (H' : all_invalid inds) by (intros j Hj; apply H; simpl; auto).
  destruct (dict_get (uid i) d) as [r|].
  - destruct (valid (r_fit r)); simpl.
    + unfold set_evaluation_result. rewrite Hi. rewrite (IH H'). reflexivity.
    + auto.
  - auto.
Qed.

Lemma to_evaluate_invalid : forall pop, all_invalid (to_evaluate pop).
Proof.
  intros pop i H. apply filter_In in H. destruct H as [_ H]. destruct (valid (fitness i)); simpl in H; congruence.
Qed.

Lemma to_skip_valid : forall pop i, In i (to_skip pop) <-> In i pop /\ valid (fitness i) = true.
Proof. intros. unfold to_skip. apply filter_In. Qed.

Lemma to_evaluate_In : forall pop i, In i (to_evaluate pop) <-> In i pop /\ valid (fitness i) = false.
Proof.
  intros. unfold to_evaluate. rewrite filter_In. destruct (valid (fitness i)); simpl; intuition congruence.
Qed.

(* ------------------------------------------------------------------------------------- *)
(* C. looking results up by uid                                                           *)
(* ------------------------------------------------------------------------------------- *)
Lemma index_from_snd : forall l k, map snd (index_from k l) = l.
Proof. induction l; simpl; intros; f_equal; auto. Qed.

Lemma index_from_uid : forall l k, map (fun ki => uid (snd ki)) (index_from k l) = map uid l.
Proof. intros. rewrite <- (index_from_snd l k) at 2. rewrite map_map. reflexivity. Qed.

Lemma index_from_length : forall l k, length (index_from k l) = length l.
Proof. induction l; simpl; intros; auto. Qed.

Lemma index_from_In_snd : forall l k ki, In ki (index_from k l) -> In (snd ki) l.
Proof. intros. rewrite <- (index_from_snd l k). apply in_map. assumption. Qed.

Lemma NoDup_map_inj_in : forall A B (g : A -> B) l a b,
  NoDup (map g l) -> In a l -> In b l -> g a = g b -> a = b.
Proof.
  induction l as [|x l IH]; simpl; intros a b ND Ha Hb E; [tauto|].
  inversion ND as [|? ? Hn ND']; subst.
  destruct Ha as [Ha|Ha]; destruct Hb as [Hb|Hb]; subst; auto.
  - exfalso. apply Hn. rewrite E. apply in_map. assumption.
  - exfalso. apply Hn. rewrite <- E. apply in_map. assumption.
Qed.

Section Lookup.
  Variable f : nat * ind -> option eres.
  Hypothesis f_uid : forall ki e, f ki = Some e -> r_uid e = uid (snd ki).

  Lemma truthy_pairs_In : forall (l : list (nat * ind)) u e,
    In (u, e) (truthy_pairs (map f l)) <->
    exists ki, In ki l /\ f ki = Some e /\ valid (r_fit e) = true /\ u = uid (snd ki).
  Proof.
    intros l u e. unfold truthy_pairs. rewrite in_flat_map. split.
    - intros [r [Hr Hin]]. apply in_map_iff in Hr. destruct Hr as [ki [Hf Hki]]. subst r.
      destruct (f ki) as [e'|] eqn:E; [|simpl in Hin; tauto].
      destruct (valid (r_fit e')) eqn:Ev; simpl in Hin; [|tauto].
      destruct Hin as [Hin|[]]. inversion Hin; subst. exists ki. repeat split; auto.
    - intros [ki [Hki [Hf [Hv Hu]]]]. exists (f ki). split; [apply in_map; assumption|].
      rewrite Hf, Hv. simpl. left. rewrite (f_uid _ _ Hf). subst. reflexivity.
  Qed.

  Lemma truthy_pairs_keys_NoDup : forall (l : list (nat * ind)),
    NoDup (map (fun ki => uid (snd ki)) l) -> NoDup (map fst (truthy_pairs (map f l))).
  Proof.
    induction l as [|ki l IH]; simpl; intros ND; [constructor|].
    inversion ND as [|? ? Hn ND']; subst.
    destruct (f ki) as [e|] eqn:E; simpl; auto.
    destruct (valid (r_fit e)) eqn:Ev; simpl; auto.
    constructor; auto.
    intros Hin. apply in_map_iff in Hin. destruct Hin as [[u e'] [Hu Hin]]. simpl in Hu.
    apply (truthy_pairs_In l u e') in Hin. destruct Hin as [ki' [Hki' [_ [_ Hu']]]].
    apply Hn. apply in_map_iff. exists ki'. split; auto. rewrite <- Hu'. rewrite Hu. apply f_uid. assumption.
  Qed.

  Lemma lookup_result : forall (l : list (nat * ind)) rs ki,
    NoDup (map (fun ki => uid (snd ki)) l) ->
    Permutation rs (map f l) -> In ki l ->
    dict_get (uid (snd ki)) (results_dict rs) = if truthy (f ki) then f ki else None.
  Proof.
    intros l rs ki ND P Hki.
    unfold results_dict. rewrite dict_get_of_pairs.
    assert (PP : Permutation (rev (truthy_pairs rs)) (truthy_pairs (map f l))).
    { eapply Permutation_trans; [apply Permutation_sym, Permutation_rev|].
      unfold truthy_pairs. apply Permutation_flat_map. exact P. }
    pose proof (truthy_pairs_keys_NoDup l ND) as NDk.
    rewrite (dict_get_perm _ _ _ (truthy_pairs (map f l))); auto.
    2:{ eapply Permutation_NoDup; [apply Permutation_map; apply Permutation_sym; exact PP|exact NDk]. }
    destruct (f ki) as [e|] eqn:E; simpl.
    - destruct (valid (r_fit e)) eqn:Ev.
      + apply dict_get_NoDup_In; auto. apply truthy_pairs_In. exists ki. repeat split; auto.
      + apply dict_get_None. intros Hin. apply in_map_iff in Hin. destruct Hin as [[u e'] [Hu Hin]].
        simpl in Hu. apply truthy_pairs_In in Hin. destruct Hin as [ki' [Hki' [Hf' [Hv' Hu']]]].
        assert (ki' = ki) by (eapply NoDup_map_inj_in; eauto; simpl; congruence).
        subst ki'. rewrite E in Hf'. inversion Hf'; subst. congruence.
    - apply dict_get_None. intros Hin. apply in_map_iff in Hin. destruct Hin as [[u e'] [Hu Hin]].
      simpl in Hu. apply truthy_pairs_In in Hin. destruct Hin as [ki' [Hki' [Hf' [Hv' Hu']]]].
      assert (ki' = ki) by (eapply NoDup_map_inj_in; eauto; simpl; congruence).
      subst ki'. rewrite E in Hf'. discriminate.
  Qed.

  (* the individuals that come out of apply_evaluation_results, independent of the results' order *)
  Definition evaluated_of (l : list (nat * ind)) : list ind :=
    flat_map (fun ki => match f ki with
                        | Some e => if valid (r_fit e) then [updated (snd ki) e] else []
                        | None => []
                        end) l.

  Lemma apply_pure_lookup : forall (l sub : list (nat * ind)) rs,
    NoDup (map (fun ki => uid (snd ki)) l) -> Permutation rs (map f l) ->
    (forall ki, In ki sub -> In ki l) ->
    apply_pure (results_dict rs) (map snd sub) = evaluated_of sub.
  Proof.
    intros l sub rs ND P. induction sub as [|ki sub IH]; simpl; intros Hsub; [reflexivity|].
    rewrite IH by (intros; apply Hsub; simpl; auto). f_equal.
    rewrite (lookup_result l rs ki ND P) by (apply Hsub; simpl; auto).
    destruct (f ki) as [e|]; simpl; auto.
    destruct (valid (r_fit e)) eqn:Ev; simpl; [rewrite Ev|]; reflexivity.
  Qed.

  Lemma apply_closed : forall te k rs,
    NoDup (map uid te) -> all_invalid te -> Permutation rs (map f (index_from k te)) ->
    apply_evaluation_results te rs = Ok (evaluated_of (index_from k te)).
  Proof.
    intros te k rs ND Hinv P. unfold apply_evaluation_results.
    rewrite apply_loop_pure by assumption.
    rewrite <- (index_from_snd te k) at 1.
    rewrite (apply_pure_lookup (index_from k te) (index_from k te) rs); auto.
    rewrite index_from_uid. assumption.
  Qed.
End Lookup.

(* ------------------------------------------------------------------------------------- *)
(* D. evaluate_single and the objective                                                   *)
(* ------------------------------------------------------------------------------------- *)
Lemma evaluate_single_fst : forall o cache ex wl key g u,
  fst (evaluate_single o cache ex wl key g u) =
  if wl && ex then None
  else Some {| r_uid := u; r_fit := objective_value o (cached_graph cache key g);
               r_graph := cached_graph cache key g |}.
Proof.
  intros. unfold evaluate_single, objective_value. destruct (wl && ex); [reflexivity|].
  destruct (objective_call o (cached_graph cache key g)). reflexivity.
Qed.

Lemma evaluate_single_snd : forall o cache ex wl key g u,
  snd (evaluate_single o cache ex wl key g u) =
  if wl && ex then []
  else snd (objective_call o (cached_graph cache key g)) ++ [EvCallback (cached_graph cache key g)].
Proof.
  intros. unfold evaluate_single. destruct (wl && ex); [reflexivity|].
  destruct (objective_call o (cached_graph cache key g)). reflexivity.
Qed.

(* the metrics called on a graph: all up to the first one that raises *)
Lemma call_metrics_spec : forall ms k g,
  fst (call_metrics ms k g) =
    (if forallb (fun m => match m g with MRaise => false | _ => true end) ms
     then Some (map (fun m => m g) ms) else None).
Proof.
  induction ms as [|m ms IH]; simpl; intros; [reflexivity|].
  pose proof (IH (S k) g) as H.
  destruct (call_metrics ms (S k) g) as [rs lg]. simpl in H. subst rs.
  destruct (m g) eqn:E; simpl; try reflexivity;
    match goal with |- context [forallb ?p ms] => destruct (forallb p ms) end; reflexivity.
Qed.

Lemma existsb_missing_vals : forall (ms : list metric) g,
  forallb (fun m => match m g with MRaise => false | _ => true end) ms = true ->
  existsb is_missing (map (fun m => m g) ms) = negb (forallb (fun m => is_val (m g)) ms).
Proof.
  induction ms as [|m ms IH]; simpl; intros g H; [reflexivity|].
  apply andb_true_iff in H. destruct H as [H1 H2]. rewrite (IH g H2).
  destruct (m g); simpl in *; try reflexivity; try discriminate.
Qed.

Lemma forallb_val_noraise : forall (ms : list metric) g,
  forallb (fun m => match m g with MRaise => false | _ => true end) ms = false ->
  forallb (fun m => is_val (m g)) ms = false.
Proof.
  induction ms as [|m ms IH]; simpl; intros g H; [discriminate|].
  destruct (m g); simpl in *; auto.
Qed.

(* Objective.__call__ computes the fitness the specification describes *)
Theorem objective_value_spec : forall o g, metrics o <> [] -> objective_value o g = spec_fit o g.
Proof.
  intros o g Hne. unfold objective_value, objective_call, spec_fit, evaluable.
  pose proof (call_metrics_spec (metrics o) 0 g) as H.
  destruct (call_metrics (metrics o) 0 g) as [rs lg]. simpl in H. subst rs.
  destruct (forallb (fun m => match m g with MRaise => false | _ => true end) (metrics o)) eqn:E.
  - simpl. unfold to_fitness. rewrite (existsb_missing_vals _ _ E).
    destruct (forallb (fun m => is_val (m g)) (metrics o)); simpl.
    + destruct (metrics o) as [|m ms] eqn:Em; [congruence|]. simpl.
      rewrite map_map. destruct (multi o); reflexivity.
    + reflexivity.
  - simpl. rewrite (forallb_val_noraise _ _ E). reflexivity.
Qed.

Lemma valid_spec_fit : forall o g, valid (spec_fit o g) = evaluable o g.
Proof.
  intros. unfold spec_fit. destruct (evaluable o g) eqn:E; [|reflexivity].
  unfold evaluable in E. apply andb_true_iff in E. destruct E as [_ E].
  destruct (multi o); simpl; rewrite map_length; exact E.
Qed.

(* events of one objective call: only metric events, on that graph; metric 0 is called once
   when there is a metric *)
Lemma call_metrics_log : forall ms k g e,
  In e (snd (call_metrics ms k g)) -> exists j, e = EvMetric j g.
Proof.
  induction ms as [|m ms IH]; simpl; intros k g e H; [tauto|].
  destruct (m g); simpl in H;
    try (destruct (call_metrics ms (S k) g) as [rs lg] eqn:E; simpl in H;
         destruct H as [H|H]; [eauto|apply (IH (S k) g e); rewrite E; exact H]).
  destruct H as [H|[]]. eauto.
Qed.

Lemma objective_call_log : forall o g e, In e (snd (objective_call o g)) -> exists j, e = EvMetric j g.
Proof.
  intros o g e. unfold objective_call.
  pose proof (call_metrics_log (metrics o) 0 g e) as H.
  destruct (call_metrics (metrics o) 0 g) as [[rs|] lg]; simpl in *; exact H.
Qed.

Lemma callback_graphs_app : forall a b, callback_graphs (a ++ b) = callback_graphs a ++ callback_graphs b.
Proof. intros. unfold callback_graphs. apply flat_map_app. Qed.
Lemma metric0_graphs_app : forall a b, metric0_graphs (a ++ b) = metric0_graphs a ++ metric0_graphs b.
Proof. intros. unfold metric0_graphs. apply flat_map_app. Qed.
Lemma metric_graphs_app : forall a b, metric_graphs (a ++ b) = metric_graphs a ++ metric_graphs b.
Proof. intros. unfold metric_graphs. apply flat_map_app. Qed.

Lemma callback_graphs_objective : forall o g, callback_graphs (snd (objective_call o g)) = [].
Proof.
  intros. unfold callback_graphs.
  assert (H : forall e, In e (snd (objective_call o g)) -> exists j, e = EvMetric j g) by (apply objective_call_log).
  induction (snd (objective_call o g)) as [|e l IH]; simpl; [reflexivity|].
  destruct (H e (or_introl eq_refl)) as [j ->]. simpl. apply IH. intros; apply H; simpl; auto.
Qed.

Lemma call_metrics_metric0 : forall ms k g,
  metric0_graphs (snd (call_metrics ms k g)) =
  match ms with [] => [] | _ => match k with 0 => [g] | _ => [] end end.
Proof.
  induction ms as [|m ms IH]; simpl; intros; [reflexivity|].
  assert (T : metric0_graphs (snd (call_metrics ms (S k) g)) = []).
  { rewrite IH. destruct ms; reflexivity. }
  destruct (m g); simpl;
    try (destruct (call_metrics ms (S k) g) as [rs lg]; simpl in *; rewrite T; destruct k; reflexivity).
  destruct k; reflexivity.
Qed.

Lemma metric0_graphs_objective : forall o g,
  metrics o <> [] -> metric0_graphs (snd (objective_call o g)) = [g].
Proof.
  intros o g Hne. unfold objective_call.
  pose proof (call_metrics_metric0 (metrics o) 0 g) as H.
  destruct (call_metrics (metrics o) 0 g) as [[rs|] lg]; simpl in *; rewrite H; destruct (metrics o); congruence.
Qed.

(* events of one evaluation that is not cut off *)
Definition eval_log (o : objective) (g : graph) : list ev := snd (objective_call o g) ++ [EvCallback g].

Lemma callback_graphs_eval_log : forall o g, callback_graphs (eval_log o g) = [g].
Proof. intros. unfold eval_log. rewrite callback_graphs_app, callback_graphs_objective. reflexivity. Qed.

Lemma metric0_graphs_eval_log : forall o g, metrics o <> [] -> metric0_graphs (eval_log o g) = [g].
Proof.
  intros. unfold eval_log. rewrite metric0_graphs_app, metric0_graphs_objective by assumption. reflexivity.
Qed.

Lemma metric_graphs_eval_log : forall o g g', In g' (metric_graphs (eval_log o g)) -> g' = g.
Proof.
  intros o g g' H. unfold eval_log in H. rewrite metric_graphs_app in H. apply in_app_or in H.
  destruct H as [H|H]; [|simpl in H; tauto].
  unfold metric_graphs in H. apply in_flat_map in H. destruct H as [e [He Hg]].
  destruct (objective_call_log o g e He) as [j ->]. simpl in Hg. destruct Hg as [Hg|[]]. auto.
Qed.

(* ------------------------------------------------------------------------------------- *)
(* E. closed forms of the two dispatchers                                                 *)
(* ------------------------------------------------------------------------------------- *)
Definition evaluated_ind (o : objective) (g : graph) (i : ind) : ind :=
  {| uid := uid i; fitness := objective_value o g; gr := g |}.

(* the graph the evaluation of i is run on, given the cache *)
Definition cgc (cache : dict graph) (i : ind) : graph := cached_graph cache (Some (uid i)) (gr i).

(* individuals evaluated by the fan-out: not cut off by the time limit and evaluable *)
Definition survivors (o : objective) (cg : ind -> graph) (timer : nat -> bool) (te : list ind) : list ind :=
  flat_map (fun ki => if timer (fst ki) then []
                      else if valid (objective_value o (cg (snd ki))) then [evaluated_ind o (cg (snd ki)) (snd ki)]
                      else []) (index_from 0 te).

Definition main_log_spec (o : objective) (cg : ind -> graph) (timer : nat -> bool) (te : list ind) : list ev :=
  flat_map (fun ki => if timer (fst ki) then [] else eval_log o (cg (snd ki))) (index_from 0 te).

Definition first_evaluable (o : objective) (cg : ind -> graph) (inds : list ind) : option ind :=
  find (fun i => valid (objective_value o (cg i))) inds.

Fixpoint upto_first {A} (p : A -> bool) (l : list A) : list A :=
  match l with [] => [] | x :: r => if p x then [x] else x :: upto_first p r end.

Definition fallback_spec (o : objective) (cg : ind -> graph) (inds : list ind) : list ind :=
  match first_evaluable o cg inds with Some i => [evaluated_ind o (cg i) i] | None => [] end.

Definition fallback_log_spec (o : objective) (cg : ind -> graph) (inds : list ind) : list ev :=
  flat_map (fun i => eval_log o (cg i)) (upto_first (fun i => valid (objective_value o (cg i))) inds).

Lemma evaluate_single_nolimit : forall o cache ex key g u,
  evaluate_single o cache ex false key g u =
  (Some {| r_uid := u; r_fit := objective_value o (cached_graph cache key g);
           r_graph := cached_graph cache key g |}, eval_log o (cached_graph cache key g)).
Proof.
  intros. unfold evaluate_single, objective_value, eval_log. simpl.
  destruct (objective_call o (cached_graph cache key g)). reflexivity.
Qed.

Lemma apply_single : forall i e,
  valid (fitness i) = false -> r_uid e = uid i ->
  apply_evaluation_results [i] [Some e] = Ok (if valid (r_fit e) then [updated i e] else []).
Proof.
  intros i e Hi Hu. unfold apply_evaluation_results, results_dict, truthy_pairs. simpl.
  destruct (valid (r_fit e)) eqn:Ev; simpl.
  - unfold dict_of_pairs. simpl. rewrite Hu, Nat.eqb_refl, Ev. simpl.
    unfold set_evaluation_result. rewrite Hi. reflexivity.
  - reflexivity.
Qed.

Lemma fallback_closed : forall o cache inds,
  all_invalid inds ->
  fallback o cache inds = (Ok (fallback_spec o (cgc cache) inds), fallback_log_spec o (cgc cache) inds).
Proof.
  induction inds as [|i inds IH]; intros Hinv; [reflexivity|].
  assert (Hi : valid (fitness i) = false) by (apply Hinv; simpl; auto).
  assert (H' : all_invalid inds) by (intros j Hj; apply Hinv; simpl; auto).
  cbn [fallback]. rewrite evaluate_single_nolimit.
  rewrite apply_single by auto. cbn [r_fit].
  unfold fallback_spec, fallback_log_spec, first_evaluable. cbn [find upto_first]. fold (cgc cache i).
  destruct (valid (objective_value o (cgc cache i))) eqn:Ev.
  - unfold updated, evaluated_ind. simpl. rewrite app_nil_r. reflexivity.
  - rewrite (IH H'). unfold fallback_spec, fallback_log_spec, first_evaluable. simpl. reflexivity.
Qed.

Lemma filter_nil_all : forall A (p : A -> bool) l, filter p l = [] -> forall x, In x l -> p x = false.
Proof.
  induction l as [|a l IH]; simpl; intros H x Hx; [tauto|].
  destruct (p a) eqn:E; [discriminate|]. destruct Hx as [->|Hx]; auto.
Qed.

Lemma mp_single_uid : forall o cache timer ki e,
  fst (mp_single o cache timer ki) = Some e -> r_uid e = uid (snd ki).
Proof.
  intros o cache timer ki e. unfold mp_single. rewrite evaluate_single_fst.
  destruct (true && timer (fst ki)); [discriminate|]. intros H. inversion H. reflexivity.
Qed.

Lemma seq_single_uid : forall o cache timer ki e,
  fst (seq_single o cache timer ki) = Some e -> r_uid e = uid (snd ki).
Proof.
  intros o cache timer ki e. unfold seq_single. rewrite evaluate_single_fst.
  destruct (true && timer (fst ki)); [discriminate|]. intros H. inversion H. reflexivity.
Qed.

Lemma evaluated_of_mp : forall o cache timer l,
  evaluated_of (fun ki => fst (mp_single o cache timer ki)) l =
  flat_map (fun ki => if timer (fst ki) then []
                      else if valid (objective_value o (cgc cache (snd ki)))
                           then [evaluated_ind o (cgc cache (snd ki)) (snd ki)] else []) l.
Proof.
  intros. unfold evaluated_of. apply flat_map_ext. intros ki. unfold mp_single.
  rewrite evaluate_single_fst. simpl. destruct (timer (fst ki)); reflexivity.
Qed.

Lemma evaluated_of_seq : forall o cache timer l,
  evaluated_of (fun ki => fst (seq_single o cache timer ki)) l =
  flat_map (fun ki => if timer (fst ki) then []
                      else if valid (objective_value o (cgc cache (snd ki)))
                           then [evaluated_ind o (cgc cache (snd ki)) (snd ki)] else []) l.
Proof.
  intros. unfold evaluated_of. apply flat_map_ext. intros ki. unfold seq_single.
  rewrite evaluate_single_fst. simpl. destruct (timer (fst ki)); reflexivity.
Qed.

Lemma concat_map_snd : forall A B C (f : A -> B * list C) l,
  concat (map snd (map f l)) = flat_map (fun a => snd (f a)) l.
Proof. intros. rewrite map_map. symmetry. apply flat_map_concat_map. Qed.

Lemma mp_main_log : forall o cache timer inds,
  concat (map snd (mp_main o cache timer inds)) = main_log_spec o (cgc cache) timer (to_evaluate inds).
Proof.
  intros. unfold mp_main, main_log_spec. rewrite concat_map_snd. apply flat_map_ext. intros ki.
  unfold mp_single. rewrite evaluate_single_snd. simpl. destruct (timer (fst ki)); reflexivity.
Qed.

Lemma seq_main_log : forall o cache timer pop,
  concat (map snd (seq_main o cache timer pop)) = main_log_spec o (cgc cache) timer (to_evaluate pop).
Proof.
  intros. unfold seq_main, main_log_spec. rewrite concat_map_snd. apply flat_map_ext. intros ki.
  unfold seq_single. rewrite evaluate_single_snd. simpl. destruct (timer (fst ki)); reflexivity.
Qed.

Lemma filter_rev' : forall A (p : A -> bool) l, filter p (rev l) = rev (filter p l).
Proof.
  induction l as [|a l IH]; simpl; [reflexivity|].
  rewrite filter_app, IH. simpl. destruct (p a); simpl; [reflexivity|apply app_nil_r].
Qed.

Lemma to_evaluate_rev : forall pop, to_evaluate (rev pop) = rev (to_evaluate pop).
Proof. intros. apply filter_rev'. Qed.
Lemma to_skip_rev : forall pop, to_skip (rev pop) = rev (to_skip pop).
Proof. intros. apply filter_rev'. Qed.

Lemma NoDup_to_evaluate_rev : forall pop,
  NoDup (map uid (to_evaluate pop)) -> NoDup (map uid (to_evaluate (rev pop))).
Proof.
  intros pop ND. rewrite to_evaluate_rev, map_rev. eapply Permutation_NoDup; [apply Permutation_rev|exact ND].
Qed.

(* --- the parallel dispatcher ---------------------------------------------------------- *)
Definition mp_spec (o : objective) (cache : dict graph) (timer : nat -> bool) (inds : list ind) : list ind :=
  match survivors o (cgc cache) timer (to_evaluate inds) ++ to_skip inds with
  | [] => fallback_spec o (cgc cache) inds
  | s => s
  end.

Definition mp_log_spec (o : objective) (cache : dict graph) (timer : nat -> bool) (inds : list ind) : list ev :=
  main_log_spec o (cgc cache) timer (to_evaluate inds) ++
  match survivors o (cgc cache) timer (to_evaluate inds) ++ to_skip inds with
  | [] => fallback_log_spec o (cgc cache) inds
  | _ => []
  end.

Theorem mp_finish_closed : forall o cache timer inds rs lg,
  NoDup (map uid (to_evaluate inds)) ->
  Permutation rs (map fst (mp_main o cache timer inds)) ->
  mp_finish o cache inds rs lg =
  (Ok (mp_spec o cache timer inds),
   lg ++ match survivors o (cgc cache) timer (to_evaluate inds) ++ to_skip inds with
         | [] => fallback_log_spec o (cgc cache) inds
         | _ => []
         end).
Proof.
  intros o cache timer inds rs lg ND P. unfold mp_finish, mp_main in *. rewrite map_map in P.
  rewrite (apply_closed (fun ki => fst (mp_single o cache timer ki)) (mp_single_uid o cache timer)
                        (to_evaluate inds) 0 rs ND (to_evaluate_invalid inds) P).
  rewrite evaluated_of_mp. unfold mp_spec. fold (survivors o (cgc cache) timer (to_evaluate inds)).
  destruct (survivors o (cgc cache) timer (to_evaluate inds) ++ to_skip inds) eqn:E.
  - apply app_eq_nil in E. destruct E as [_ E].
    assert (Hinv : all_invalid inds).
    { intros i Hi. apply (filter_nil_all _ _ _ E i Hi). }
    rewrite (fallback_closed o cache inds Hinv). reflexivity.
  - rewrite app_nil_r. reflexivity.
Qed.

Theorem evaluate_with_cache_closed : forall o d timer pop,
  NoDup (map uid (to_evaluate pop)) ->
  evaluate_with_cache o d timer pop =
  (Ok (mp_spec o (remote_compute_cache d (rev pop)) timer (rev pop)),
   mp_log_spec o (remote_compute_cache d (rev pop)) timer (rev pop)).
Proof.
  intros o d timer pop ND. unfold evaluate_with_cache, mp_evaluate_population.
  rewrite (mp_finish_closed o _ timer (rev pop) _ _); auto.
  - rewrite mp_main_log. reflexivity.
  - apply NoDup_to_evaluate_rev. exact ND.
Qed.

(* --- the sequential dispatcher --------------------------------------------------------- *)
Definition seq_spec (o : objective) (cg : ind -> graph) (timer : nat -> bool) (pop : list ind) : list ind :=
  survivors o cg timer (to_evaluate pop) ++ to_skip pop.

Theorem seq_finish_closed : forall o cache timer pop rs,
  NoDup (map uid (to_evaluate pop)) ->
  Permutation rs (map fst (seq_main o cache timer pop)) ->
  seq_finish pop rs = Ok (seq_spec o (cgc cache) timer pop).
Proof.
  intros o cache timer pop rs ND P. unfold seq_finish, seq_main in *. rewrite map_map in P.
  rewrite (apply_closed (fun ki => fst (seq_single o cache timer ki)) (seq_single_uid o cache timer)
                        (to_evaluate pop) 0 rs ND (to_evaluate_invalid pop) P).
  rewrite evaluated_of_seq. reflexivity.
Qed.

Lemma eff_graph_seq_cgc : forall d pop i, eff_graph_seq d pop i = cgc (remote_compute_cache d pop) i.
Proof. reflexivity. Qed.

Theorem sequential_evaluate_closed : forall o d timer pop,
  NoDup (map uid (to_evaluate pop)) ->
  sequential_evaluate o d timer pop =
  (Ok (seq_spec o (eff_graph_seq d pop) timer pop),
   main_log_spec o (eff_graph_seq d pop) timer (to_evaluate pop)).
Proof.
  intros o d timer pop ND. unfold sequential_evaluate.
  rewrite (seq_finish_closed o _ timer pop _ ND (Permutation_refl _)). rewrite seq_main_log. reflexivity.
Qed.

(* --- (3) the order in which the results come back is irrelevant ------------------------ *)
Theorem order_independent_par : forall shuffle o d timer pop,
  (forall l, Permutation (shuffle l) l) ->
  NoDup (map uid (to_evaluate pop)) ->
  evaluate_with_cache_shuffled shuffle o d timer pop = evaluate_with_cache o d timer pop.
Proof.
  intros shuffle o d timer pop Hs ND.
  pose proof (NoDup_to_evaluate_rev pop ND) as ND'.
  unfold evaluate_with_cache_shuffled, evaluate_with_cache, mp_evaluate_population.
  rewrite (mp_finish_closed o _ timer (rev pop) _ _ ND' (Hs _)).
  rewrite (mp_finish_closed o _ timer (rev pop) _ _ ND' (Permutation_refl _)). reflexivity.
Qed.

Theorem order_independent_seq : forall shuffle o d timer pop,
  (forall l, Permutation (shuffle l) l) ->
  NoDup (map uid (to_evaluate pop)) ->
  sequential_evaluate_shuffled shuffle o d timer pop = sequential_evaluate o d timer pop.
Proof.
  intros shuffle o d timer pop Hs ND. unfold sequential_evaluate_shuffled, sequential_evaluate.
  rewrite (seq_finish_closed o _ timer pop _ ND (Hs _)).
  rewrite (seq_finish_closed o _ timer pop _ ND (Permutation_refl _)). reflexivity.
Qed.

(* ------------------------------------------------------------------------------------- *)
(* F. the clauses of the property                                                         *)
(* ------------------------------------------------------------------------------------- *)
Lemma survivors_In : forall o cg timer te x,
  In x (survivors o cg timer te) <->
  exists k i, In (k, i) (index_from 0 te) /\ timer k = false /\
              valid (objective_value o (cg i)) = true /\ x = evaluated_ind o (cg i) i.
Proof.
  intros. unfold survivors. rewrite in_flat_map. split.
  - intros [[k i] [Hin Hx]]. simpl in Hx. destruct (timer k) eqn:Et; [simpl in Hx; tauto|].
    destruct (valid (objective_value o (cg i))) eqn:Ev; simpl in Hx; [|tauto].
    destruct Hx as [Hx|[]]. exists k, i. auto.
  - intros [k [i [Hin [Et [Ev Hx]]]]]. exists (k, i). split; auto. simpl. rewrite Et, Ev. simpl. auto.
Qed.

Lemma fallback_spec_In : forall o cg inds x,
  In x (fallback_spec o cg inds) ->
  exists i, In i inds /\ valid (objective_value o (cg i)) = true /\ x = evaluated_ind o (cg i) i.
Proof.
  intros o cg inds x. unfold fallback_spec, first_evaluable.
  destruct (find _ inds) as [i|] eqn:E; simpl; [|tauto].
  intros [Hx|[]]. apply find_some in E. destruct E as [E1 E2]. exists i. subst x. auto.
Qed.

Lemma in_flat_map_flat_map : forall A B C (h : B -> list C) (F : A -> list B) l c,
  In c (flat_map h (flat_map F l)) <-> exists a, In a l /\ In c (flat_map h (F a)).
Proof.
  intros. rewrite in_flat_map. split.
  - intros [b [Hb Hc]]. apply in_flat_map in Hb. destruct Hb as [a [Ha Hb]].
    exists a. split; auto. apply in_flat_map. eauto.
  - intros [a [Ha Hc]]. apply in_flat_map in Hc. destruct Hc as [b [Hb Hc]].
    exists b. split; auto. apply in_flat_map. eauto.
Qed.

Lemma main_log_metric_graphs : forall o cg timer te g,
  In g (metric_graphs (main_log_spec o cg timer te)) -> exists i, In i te /\ g = cg i.
Proof.
  intros o cg timer te g H. unfold metric_graphs, main_log_spec in H.
  apply in_flat_map_flat_map in H. destruct H as [[k i] [Hin Hg]]. simpl in Hg.
  destruct (timer k); [simpl in Hg; tauto|].
  exists i. split; [apply (index_from_In_snd te 0 (k, i) Hin)|]. apply (metric_graphs_eval_log o (cg i) g Hg).
Qed.

Lemma upto_first_incl : forall A (p : A -> bool) l x, In x (upto_first p l) -> In x l.
Proof.
  induction l as [|a l IH]; simpl; intros x H; [tauto|].
  destruct (p a); simpl in H; destruct H as [H|H]; auto; tauto.
Qed.

Lemma fallback_log_metric_graphs : forall o cg inds g,
  In g (metric_graphs (fallback_log_spec o cg inds)) -> exists i, In i inds /\ g = cg i.
Proof.
  intros o cg inds g H. unfold metric_graphs, fallback_log_spec in H.
  apply in_flat_map_flat_map in H. destruct H as [i [Hin Hg]].
  exists i. split; [eapply upto_first_incl; eauto|]. apply (metric_graphs_eval_log o (cg i) g Hg).
Qed.

Lemma eff_graph_cgc : forall d pop i, eff_graph d pop i = cgc (remote_compute_cache d (rev pop)) i.
Proof. reflexivity. Qed.

Lemma in_rev_iff : forall A (l : list A) x, In x (rev l) <-> In x l.
Proof. intros. symmetry. apply in_rev. Qed.

(* the fan-out produced nothing and nothing was pre-evaluated *)
Definition main_pass_empty (o : objective) (d : delegate) (timer : nat -> bool) (pop : list ind) : Prop :=
  survivors o (eff_graph d pop) timer (to_evaluate (rev pop)) ++ to_skip (rev pop) = [].

Lemma main_pass_empty_iff : forall o d timer pop,
  main_pass_empty o d timer pop <->
  to_skip pop = [] /\
  forall k i, In (k, i) (index_from 0 (to_evaluate (rev pop))) ->
              timer k = true \/ valid (objective_value o (eff_graph d pop i)) = false.
Proof.
  intros. unfold main_pass_empty. split.
  - intros H. apply app_eq_nil in H. destruct H as [H1 H2]. split.
    + rewrite to_skip_rev in H2. destruct (to_skip pop); [reflexivity|].
      simpl in H2. apply app_eq_nil in H2. destruct H2; discriminate.
    + intros k i Hin. destruct (timer k) eqn:Et; auto. right.
      destruct (valid (objective_value o (eff_graph d pop i))) eqn:Ev; auto.
      exfalso. assert (Hx : In (evaluated_ind o (eff_graph d pop i) i)
                               (survivors o (eff_graph d pop) timer (to_evaluate (rev pop)))).
      { apply survivors_In. exists k, i. auto. }
      rewrite H1 in Hx. exact Hx.
  - intros [H1 H2]. rewrite to_skip_rev, H1. simpl. rewrite app_nil_r.
    destruct (survivors o (eff_graph d pop) timer (to_evaluate (rev pop))) as [|x l] eqn:E; [reflexivity|].
    assert (Hx : In x (survivors o (eff_graph d pop) timer (to_evaluate (rev pop)))) by (rewrite E; simpl; auto).
    apply survivors_In in Hx. destruct Hx as [k [i [Hin [Et [Ev _]]]]].
    destruct (H2 k i Hin); congruence.
Qed.

(* --- (1) soundness ------------------------------------------------------------------------ *)
Theorem eval_sound_par : forall o d timer pop,
  NoDup (map uid (to_evaluate pop)) ->
  exists out lg, evaluate_with_cache o d timer pop = (Ok out, lg) /\
    (forall x, In x out ->
       valid (fitness x) = true /\
       ((In x pop (* passed through unchanged *)) \/
        (exists i, In i pop /\ valid (fitness i) = false /\ x = evaluated_ind o (eff_graph d pop i) i))) /\
    (forall g, In g (metric_graphs lg) ->
       exists i, In i pop /\ valid (fitness i) = false /\ g = eff_graph d pop i).
Proof.
  intros o d timer pop ND. rewrite (evaluate_with_cache_closed o d timer pop ND).
  eexists. eexists. split; [reflexivity|]. split.
  - intros x Hx. unfold mp_spec in Hx.
    destruct (survivors o (cgc (remote_compute_cache d (rev pop))) timer (to_evaluate (rev pop))
              ++ to_skip (rev pop)) as [|y s] eqn:E.
    + apply fallback_spec_In in Hx. destruct Hx as [i [Hi [Ev ->]]].
      apply app_eq_nil in E. destruct E as [_ E].
      split; [exact Ev|]. right. exists i. split; [apply in_rev_iff; exact Hi|]. split; [|reflexivity].
      apply (filter_nil_all _ _ _ E i Hi).
    + rewrite <- E in Hx. apply in_app_or in Hx. destruct Hx as [Hx|Hx].
      * apply survivors_In in Hx. destruct Hx as [k [i [Hin [Et [Ev ->]]]]].
        apply index_from_In_snd in Hin. simpl in Hin. apply to_evaluate_In in Hin. destruct Hin as [Hi Hv].
        split; [exact Ev|]. right. exists i. split; [apply in_rev_iff; exact Hi|]. auto.
      * apply to_skip_valid in Hx. destruct Hx as [Hx Hv]. split; [exact Hv|]. left. apply in_rev_iff. exact Hx.
  - intros g Hg. unfold mp_log_spec in Hg. rewrite metric_graphs_app in Hg. apply in_app_or in Hg.
    destruct Hg as [Hg|Hg].
    + apply main_log_metric_graphs in Hg. destruct Hg as [i [Hi ->]].
      apply to_evaluate_In in Hi. destruct Hi as [Hi Hv]. exists i. split; [apply in_rev_iff; exact Hi|]. auto.
    + destruct (survivors o (cgc (remote_compute_cache d (rev pop))) timer (to_evaluate (rev pop))
                ++ to_skip (rev pop)) as [|y s] eqn:E; [|simpl in Hg; tauto].
      apply fallback_log_metric_graphs in Hg. destruct Hg as [i [Hi ->]].
      apply app_eq_nil in E. destruct E as [_ E].
      exists i. split; [apply in_rev_iff; exact Hi|]. split; [|reflexivity]. apply (filter_nil_all _ _ _ E i Hi).
Qed.

Theorem eval_sound_seq : forall o d timer pop,
  NoDup (map uid (to_evaluate pop)) ->
  exists out lg, sequential_evaluate o d timer pop = (Ok out, lg) /\
    (forall x, In x out ->
       valid (fitness x) = true /\
       (In x pop \/
        (exists i, In i pop /\ valid (fitness i) = false /\ x = evaluated_ind o (eff_graph_seq d pop i) i))) /\
    (forall g, In g (metric_graphs lg) ->
       exists i, In i pop /\ valid (fitness i) = false /\ g = eff_graph_seq d pop i).
Proof.
  intros o d timer pop ND. rewrite (sequential_evaluate_closed o d timer pop ND).
  eexists. eexists. split; [reflexivity|]. split.
  - intros x Hx. unfold seq_spec in Hx. apply in_app_or in Hx. destruct Hx as [Hx|Hx].
    + apply survivors_In in Hx. destruct Hx as [k [i [Hin [Et [Ev ->]]]]].
      apply index_from_In_snd in Hin. simpl in Hin. apply to_evaluate_In in Hin. destruct Hin as [Hi Hv].
      split; [exact Ev|]. right. exists i. auto.
    + apply to_skip_valid in Hx. destruct Hx as [Hx Hv]. auto.
  - intros g Hg. apply main_log_metric_graphs in Hg. destruct Hg as [i [Hi ->]].
    apply to_evaluate_In in Hi. destruct Hi as [Hi Hv]. exists i. auto.
Qed.

(* --- (2) completeness ----------------------------------------------------------------------- *)
Lemma index_from_unique : forall te k ki ki',
  NoDup (map uid te) -> In ki (index_from k te) -> In ki' (index_from k te) ->
  uid (snd ki) = uid (snd ki') -> ki = ki'.
Proof.
  intros te k ki ki' ND H H' E.
  apply (NoDup_map_inj_in _ _ (fun ki => uid (snd ki)) (index_from k te)); auto.
  rewrite index_from_uid. exact ND.
Qed.

Lemma survivors_present_iff : forall o cg timer te k i,
  NoDup (map uid te) -> In (k, i) (index_from 0 te) ->
  ((exists x, In x (survivors o cg timer te) /\ uid x = uid i) <->
   timer k = false /\ valid (objective_value o (cg i)) = true).
Proof.
  intros o cg timer te k i ND Hin. split.
  - intros [x [Hx Hu]]. apply survivors_In in Hx. destruct Hx as [k' [i' [Hin' [Et [Ev ->]]]]].
    simpl in Hu. assert (E : (k', i') = (k, i)) by (eapply index_from_unique; eauto).
    inversion E; subst. auto.
  - intros [Et Ev]. exists (evaluated_ind o (cg i) i). split; [|reflexivity].
    apply survivors_In. exists k, i. auto.
Qed.

Theorem eval_complete_seq : forall o d timer pop k i,
  NoDup (map uid (to_evaluate pop)) ->
  In (k, i) (index_from 0 (to_evaluate pop)) ->       (* i is the k-th individual to evaluate *)
  ~ In (uid i) (map uid (to_skip pop)) ->
  forall out lg, sequential_evaluate o d timer pop = (Ok out, lg) ->
  ((exists x, In x out /\ uid x = uid i) <->
   timer k = false /\ valid (objective_value o (eff_graph_seq d pop i)) = true).
Proof.
  intros o d timer pop k i ND Hin Hns out lg H.
  rewrite (sequential_evaluate_closed o d timer pop ND) in H. inversion H; subst out lg. clear H.
  rewrite <- (survivors_present_iff o (eff_graph_seq d pop) timer (to_evaluate pop) k i ND Hin). unfold seq_spec. split.
  - intros [x [Hx Hu]]. apply in_app_or in Hx. destruct Hx as [Hx|Hx]; [eauto|].
    exfalso. apply Hns. rewrite <- Hu. apply in_map. exact Hx.
  - intros [x [Hx Hu]]. exists x. split; auto. apply in_or_app. auto.
Qed.

Theorem eval_complete_par : forall o d timer pop k i,
  NoDup (map uid (to_evaluate pop)) ->
  In (k, i) (index_from 0 (to_evaluate (rev pop))) -> (* i is the k-th individual handed to joblib *)
  ~ In (uid i) (map uid (to_skip pop)) ->
  ~ main_pass_empty o d timer pop ->
  forall out lg, evaluate_with_cache o d timer pop = (Ok out, lg) ->
  ((exists x, In x out /\ uid x = uid i) <->
   timer k = false /\ valid (objective_value o (eff_graph d pop i)) = true).
Proof.
  intros o d timer pop k i ND Hin Hns Hne out lg H.
  rewrite (evaluate_with_cache_closed o d timer pop ND) in H. inversion H; subst out lg. clear H.
  pose proof (NoDup_to_evaluate_rev pop ND) as ND'.
  rewrite <- (survivors_present_iff o (eff_graph d pop) timer (to_evaluate (rev pop)) k i ND' Hin).
  unfold mp_spec. unfold main_pass_empty in Hne.
  change (cgc (remote_compute_cache d (rev pop))) with (eff_graph d pop).
  destruct (survivors o (eff_graph d pop) timer (to_evaluate (rev pop)) ++ to_skip (rev pop)) as [|y s] eqn:E;
    [exfalso; apply Hne; reflexivity|].
  rewrite <- E. split.
  - intros [x [Hx Hu]]. apply in_app_or in Hx. destruct Hx as [Hx|Hx]; [eauto|].
    exfalso. apply Hns. rewrite <- Hu. apply in_map. rewrite to_skip_rev in Hx. apply (proj1 (in_rev_iff _ _ _)) in Hx. exact Hx.
  - intros [x [Hx Hu]]. exists x. split; auto. apply in_or_app. auto.
Qed.

(* --- (4) the forced evaluation -------------------------------------------------------------- *)
Theorem fallback_when_main_pass_empty : forall o d timer pop,
  NoDup (map uid (to_evaluate pop)) -> main_pass_empty o d timer pop ->
  fst (evaluate_with_cache o d timer pop) = Ok (fallback_spec o (eff_graph d pop) (rev pop)).
Proof.
  intros o d timer pop ND He. rewrite (evaluate_with_cache_closed o d timer pop ND). simpl.
  unfold mp_spec. change (cgc (remote_compute_cache d (rev pop))) with (eff_graph d pop).
  unfold main_pass_empty in He. rewrite He. reflexivity.
Qed.

Lemma survivors_expired : forall o cg timer te, (forall k, timer k = true) -> survivors o cg timer te = [].
Proof.
  intros o cg timer te H. unfold survivors. induction (index_from 0 te) as [|ki l IH]; simpl; [reflexivity|].
  rewrite H. simpl. exact IH.
Qed.

Theorem expired_timer_fallback : forall o d timer pop,
  NoDup (map uid (to_evaluate pop)) -> (forall k, timer k = true) ->
  fst (evaluate_with_cache o d timer pop) =
  Ok (match to_skip (rev pop) with
      | [] => fallback_spec o (eff_graph d pop) (rev pop)
      | s => s
      end).
Proof.
  intros o d timer pop ND Ht. rewrite (evaluate_with_cache_closed o d timer pop ND). simpl.
  unfold mp_spec. rewrite (survivors_expired _ _ _ _ Ht). simpl. reflexivity.
Qed.

(* what "the first evaluable one" means *)
Lemma find_first : forall A (p : A -> bool) l x,
  find p l = Some x <-> exists l1 l2, l = l1 ++ x :: l2 /\ p x = true /\ forall y, In y l1 -> p y = false.
Proof.
  induction l as [|a l IH]; simpl; intros x.
  - split; [discriminate|]. intros [l1 [l2 [H _]]]. destruct l1; discriminate.
  - destruct (p a) eqn:E.
    + split.
      * intros H. inversion H; subst. exists [], l. simpl. repeat split; auto. tauto.
      * intros [l1 [l2 [H [Hp Hn]]]]. destruct l1 as [|b l1]; simpl in H; inversion H; subst; auto.
        rewrite (Hn b) in E by (simpl; auto). discriminate.
    + rewrite IH. split.
      * intros [l1 [l2 [H [Hp Hn]]]]. exists (a :: l1), l2. subst. simpl. repeat split; auto.
        intros y [->|Hy]; auto.
      * intros [l1 [l2 [H [Hp Hn]]]]. destruct l1 as [|b l1]; simpl in H; inversion H; subst.
        -- congruence.
        -- exists l1, l2. repeat split; auto. intros; apply Hn; simpl; auto.
Qed.

Lemma find_none_iff : forall A (p : A -> bool) l, find p l = None <-> forall x, In x l -> p x = false.
Proof.
  induction l as [|a l IH]; simpl.
  - split; auto. tauto.
  - destruct (p a) eqn:E.
    + split; [discriminate|]. intros H. rewrite (H a) in E by auto. discriminate.
    + rewrite IH. split; intros H x; [intros [->|Hx]; auto|auto].
Qed.

(* with the limit expired from the start and nothing pre-evaluated: exactly one individual, the
   first evaluable one in reversed input order, iff one exists *)
Theorem expired_timer_returns_first_evaluable : forall o d timer pop,
  NoDup (map uid (to_evaluate pop)) -> (forall k, timer k = true) -> to_skip pop = [] ->
  (forall i l1 l2, rev pop = l1 ++ i :: l2 ->
     valid (objective_value o (eff_graph d pop i)) = true ->
     (forall j, In j l1 -> valid (objective_value o (eff_graph d pop j)) = false) ->
     fst (evaluate_with_cache o d timer pop) = Ok [evaluated_ind o (eff_graph d pop i) i]) /\
  ((forall i, In i pop -> valid (objective_value o (eff_graph d pop i)) = false) ->
     fst (evaluate_with_cache o d timer pop) = Ok []).
Proof.
  intros o d timer pop ND Ht Hs.
  rewrite (expired_timer_fallback o d timer pop ND Ht). rewrite to_skip_rev, Hs. simpl. split.
  - intros i l1 l2 Hsplit Hv Hn. unfold fallback_spec, first_evaluable.
    assert (F : find (fun i0 => valid (objective_value o (eff_graph d pop i0))) (rev pop) = Some i).
    { apply find_first. exists l1, l2. auto. }
    rewrite F. reflexivity.
  - intros Hn. unfold fallback_spec, first_evaluable.
    assert (F : find (fun i0 => valid (objective_value o (eff_graph d pop i0))) (rev pop) = None).
    { apply find_none_iff. intros x Hx. apply Hn. apply in_rev_iff. exact Hx. }
    rewrite F. reflexivity.
Qed.

(* --- (5) the post-evaluation callback ------------------------------------------------------- *)
Lemma flat_map_flat_map : forall A B C (h : B -> list C) (F : A -> list B) l,
  flat_map h (flat_map F l) = flat_map (fun a => flat_map h (F a)) l.
Proof.
  induction l as [|a l IH]; simpl; [reflexivity|]. rewrite flat_map_app, IH. reflexivity.
Qed.

(* the individuals of the fan-out that were not cut off by the time limit, in submission order *)
Definition not_cut (timer : nat -> bool) (te : list ind) : list ind :=
  map snd (filter (fun ki => negb (timer (fst ki))) (index_from 0 te)).

Lemma flat_map_if_filter : forall A B (p : A -> bool) (g : A -> B) l,
  flat_map (fun a => if p a then [] else [g a]) l = map g (filter (fun a => negb (p a)) l).
Proof.
  induction l as [|a l IH]; simpl; [reflexivity|]. destruct (p a); simpl; rewrite IH; reflexivity.
Qed.

Lemma main_log_callbacks : forall o cg timer te,
  callback_graphs (main_log_spec o cg timer te) = map cg (not_cut timer te).
Proof.
  intros. unfold callback_graphs, main_log_spec, not_cut. rewrite flat_map_flat_map.
  rewrite map_map. rewrite <- (flat_map_if_filter _ _ (fun ki => timer (fst ki)) (fun ki => cg (snd ki))).
  apply flat_map_ext. intros ki. destruct (timer (fst ki)); [reflexivity|].
  apply (callback_graphs_eval_log o (cg (snd ki))).
Qed.

Lemma main_log_metric0 : forall o cg timer te,
  metrics o <> [] -> metric0_graphs (main_log_spec o cg timer te) = map cg (not_cut timer te).
Proof.
  intros o cg timer te Hne. unfold metric0_graphs, main_log_spec, not_cut. rewrite flat_map_flat_map.
  rewrite map_map. rewrite <- (flat_map_if_filter _ _ (fun ki => timer (fst ki)) (fun ki => cg (snd ki))).
  apply flat_map_ext. intros ki. destruct (timer (fst ki)); [reflexivity|].
  apply (metric0_graphs_eval_log o (cg (snd ki)) Hne).
Qed.

Lemma flat_map_singleton : forall A B (g : A -> B) l, flat_map (fun a => [g a]) l = map g l.
Proof. induction l; simpl; intros; f_equal; auto. Qed.

Lemma fallback_log_callbacks : forall o cg inds,
  callback_graphs (fallback_log_spec o cg inds) =
  map cg (upto_first (fun i => valid (objective_value o (cg i))) inds).
Proof.
  intros. unfold callback_graphs, fallback_log_spec. rewrite flat_map_flat_map.
  rewrite <- flat_map_singleton. apply flat_map_ext. intros i. apply (callback_graphs_eval_log o (cg i)).
Qed.

Lemma fallback_log_metric0 : forall o cg inds,
  metrics o <> [] ->
  metric0_graphs (fallback_log_spec o cg inds) =
  map cg (upto_first (fun i => valid (objective_value o (cg i))) inds).
Proof.
  intros o cg inds Hne. unfold metric0_graphs, fallback_log_spec. rewrite flat_map_flat_map.
  rewrite <- flat_map_singleton. apply flat_map_ext. intros i. apply (metric0_graphs_eval_log o (cg i) Hne).
Qed.

(* the graphs that reached the objective during a call of the parallel evaluator *)
Definition reached_par (o : objective) (d : delegate) (timer : nat -> bool) (pop : list ind) : list graph :=
  map (eff_graph d pop) (not_cut timer (to_evaluate (rev pop))) ++
  match survivors o (eff_graph d pop) timer (to_evaluate (rev pop)) ++ to_skip (rev pop) with
  | [] => map (eff_graph d pop)
              (upto_first (fun i => valid (objective_value o (eff_graph d pop i))) (rev pop))
  | _ => []
  end.

Theorem callback_log_par : forall o d timer pop,
  NoDup (map uid (to_evaluate pop)) ->
  callback_graphs (snd (evaluate_with_cache o d timer pop)) = reached_par o d timer pop /\
  (metrics o <> [] -> metric0_graphs (snd (evaluate_with_cache o d timer pop)) = reached_par o d timer pop).
Proof.
  intros o d timer pop ND. rewrite (evaluate_with_cache_closed o d timer pop ND). simpl.
  unfold mp_log_spec, reached_par. change (cgc (remote_compute_cache d (rev pop))) with (eff_graph d pop).
  split.
  - rewrite callback_graphs_app, main_log_callbacks.
    destruct (survivors o (eff_graph d pop) timer (to_evaluate (rev pop)) ++ to_skip (rev pop));
      [rewrite fallback_log_callbacks|]; reflexivity.
  - intros Hne. rewrite metric0_graphs_app, main_log_metric0 by assumption.
    destruct (survivors o (eff_graph d pop) timer (to_evaluate (rev pop)) ++ to_skip (rev pop));
      [rewrite fallback_log_metric0 by assumption|]; reflexivity.
Qed.

Theorem callback_log_seq : forall o d timer pop,
  NoDup (map uid (to_evaluate pop)) ->
  callback_graphs (snd (sequential_evaluate o d timer pop))
    = map (eff_graph_seq d pop) (not_cut timer (to_evaluate pop)) /\
  (metrics o <> [] ->
   metric0_graphs (snd (sequential_evaluate o d timer pop))
     = map (eff_graph_seq d pop) (not_cut timer (to_evaluate pop))).
Proof.
  intros o d timer pop ND. rewrite (sequential_evaluate_closed o d timer pop ND). simpl. split.
  - apply main_log_callbacks.
  - intros. apply main_log_metric0. assumption.
Qed.

(* however the workers interleave their events: the callback saw exactly the graphs that reached
   the objective, as often as they reached it *)
Theorem callback_once_par : forall o d timer pop lg',
  NoDup (map uid (to_evaluate pop)) ->
  Permutation lg' (snd (evaluate_with_cache o d timer pop)) ->
  Permutation (callback_graphs lg') (reached_par o d timer pop) /\
  (metrics o <> [] -> Permutation (callback_graphs lg') (metric0_graphs lg')).
Proof.
  intros o d timer pop lg' ND P. destruct (callback_log_par o d timer pop ND) as [H1 H2]. split.
  - rewrite <- H1. unfold callback_graphs. apply Permutation_flat_map. exact P.
  - intros Hne. eapply Permutation_trans; [unfold callback_graphs; apply Permutation_flat_map; exact P|].
    fold (callback_graphs (snd (evaluate_with_cache o d timer pop))). rewrite H1, <- (H2 Hne).
    unfold metric0_graphs. apply Permutation_flat_map. apply Permutation_sym. exact P.
Qed.

Theorem callback_once_seq : forall o d timer pop lg',
  NoDup (map uid (to_evaluate pop)) ->
  Permutation lg' (snd (sequential_evaluate o d timer pop)) ->
  Permutation (callback_graphs lg') (map (eff_graph_seq d pop) (not_cut timer (to_evaluate pop))).
Proof.
  intros o d timer pop lg' ND P. destruct (callback_log_seq o d timer pop ND) as [H1 _].
  rewrite <- H1. unfold callback_graphs. apply Permutation_flat_map. exact P.
Qed.

(* "each once": the individuals of the fan-out whose graphs the callback saw are pairwise distinct *)
Lemma filter_map_NoDup : forall A B (g : A -> B) (p : A -> bool) l, NoDup (map g l) -> NoDup (map g (filter p l)).
Proof.
  induction l as [|a l IH]; simpl; intros ND; [constructor|].
  inversion ND as [|? ? Hn ND']; subst. destruct (p a); simpl; auto.
  constructor; auto. intros H. apply Hn. apply in_map_iff in H. destruct H as [b [Hb Hin]].
  apply filter_In in Hin. destruct Hin as [Hin _]. apply in_map_iff. eauto.
Qed.

Theorem not_cut_distinct : forall timer te, NoDup (map uid te) -> NoDup (map uid (not_cut timer te)).
Proof.
  intros timer te ND. unfold not_cut. rewrite map_map.
  apply filter_map_NoDup. rewrite index_from_uid. exact ND.
Qed.

(* when the fan-out succeeded nothing is evaluated a second time; when it did not, the forced
   evaluations re-run graphs that already failed in the fan-out: a failing graph is then seen twice *)
Theorem no_fallback_callbacks : forall o d timer pop,
  NoDup (map uid (to_evaluate pop)) -> ~ main_pass_empty o d timer pop ->
  callback_graphs (snd (evaluate_with_cache o d timer pop)) =
  map (eff_graph d pop) (not_cut timer (to_evaluate (rev pop))).
Proof.
  intros o d timer pop ND Hne. destruct (callback_log_par o d timer pop ND) as [H _]. rewrite H.
  unfold reached_par. unfold main_pass_empty in Hne.
  destruct (survivors o (eff_graph d pop) timer (to_evaluate (rev pop)) ++ to_skip (rev pop));
    [exfalso; apply Hne; reflexivity|apply app_nil_r].
Qed.

(* --- (6) the delegate evaluator ---------------------------------------------------------------- *)
Lemma combine_keys_In : forall A B (us : list A) (gs : list B) u, In u (map fst (combine us gs)) -> In u us.
Proof.
  induction us as [|a us IH]; simpl; intros gs u H; [tauto|].
  destruct gs as [|g gs]; simpl in H; [tauto|]. destruct H as [H|H]; eauto.
Qed.

Lemma combine_keys_NoDup : forall A B (us : list A) (gs : list B), NoDup us -> NoDup (map fst (combine us gs)).
Proof.
  induction us as [|a us IH]; simpl; intros gs ND; [constructor|].
  destruct gs as [|g gs]; simpl; [constructor|].
  inversion ND; subst. constructor; auto. intros H. apply combine_keys_In in H. auto.
Qed.

Lemma combine_nth_error : forall A B (us : list A) (gs : list B) k u g,
  nth_error us k = Some u -> nth_error gs k = Some g -> In (u, g) (combine us gs).
Proof.
  induction us as [|a us IH]; intros gs k u g Hu Hg; destruct k; simpl in *; try discriminate.
  - destruct gs; simpl in *; try discriminate. inversion Hu; inversion Hg; subst. auto.
  - destruct gs; simpl in *; try discriminate. right. eauto.
Qed.

Lemma delegate_used_on : forall f inds k i g,
  NoDup (map uid inds) ->
  nth_error inds k = Some i ->
  nth_error (f (map gr inds)) k = Some g ->
  cached_graph (remote_compute_cache (Some f) inds) (Some (uid i)) (gr i) = g.
Proof.
  intros f inds k i g ND Hi Hg. unfold cached_graph, remote_compute_cache.
  rewrite dict_get_of_pairs.
  assert (NDc : NoDup (map fst (combine (map uid inds) (f (map gr inds))))).
  { apply combine_keys_NoDup. exact ND. }
  rewrite (dict_get_perm _ _ _ (combine (map uid inds) (f (map gr inds)))).
  - rewrite (dict_get_NoDup_In _ (uid i) g); auto.
    eapply combine_nth_error; eauto. rewrite nth_error_map, Hi. reflexivity.
  - eapply Permutation_NoDup; [apply Permutation_map; apply Permutation_rev|exact NDc].
  - apply Permutation_sym, Permutation_rev.
Qed.

(* parallel: the delegate is asked about the reversed population *)
Theorem delegate_used : forall f pop k i g,
  NoDup (map uid pop) ->
  nth_error (rev pop) k = Some i ->                    (* i is the k-th individual handed to the delegate *)
  nth_error (f (map gr (rev pop))) k = Some g ->       (* g is the k-th graph the delegate returned *)
  eff_graph (Some f) pop i = g.
Proof.
  intros f pop k i g ND Hi Hg. unfold eff_graph. apply (delegate_used_on f (rev pop) k i g); auto.
  rewrite map_rev. eapply Permutation_NoDup; [apply Permutation_rev|exact ND].
Qed.

(* sequential: the delegate is asked about the population in input order *)
Theorem delegate_used_seq : forall f pop k i g,
  NoDup (map uid pop) ->
  nth_error pop k = Some i ->
  nth_error (f (map gr pop)) k = Some g ->
  eff_graph_seq (Some f) pop i = g.
Proof. intros f pop k i g ND Hi Hg. unfold eff_graph_seq. apply (delegate_used_on f pop k i g); auto. Qed.

Theorem delegate_absent : forall pop i, eff_graph None pop i = gr i.
Proof. reflexivity. Qed.

(* an individual for which the delegate returned nothing is evaluated on its own graph *)
Theorem delegate_silent : forall f pop i,
  ~ In (uid i) (map fst (combine (map uid (rev pop)) (f (map gr (rev pop))))) ->
  eff_graph (Some f) pop i = gr i.
Proof.
  intros f pop i H. unfold eff_graph, cached_graph, remote_compute_cache.
  rewrite dict_get_of_pairs.
  assert (E : dict_get (uid i) (rev (combine (map uid (rev pop)) (f (map gr (rev pop))))) = None).
  { apply dict_get_None. intros Hin. apply H. rewrite map_rev in Hin. apply (proj1 (in_rev_iff _ _ _)) in Hin. exact Hin. }
  rewrite E. reflexivity.
Qed.

Theorem delegate_absent_seq : forall pop i, eff_graph_seq None pop i = gr i.
Proof. reflexivity. Qed.

(* --- sequential = parallel ---------------------------------------------------------------------- *)
Lemma cgc_nil : forall i, cgc [] i = gr i.
Proof. reflexivity. Qed.

Lemma survivors_ext : forall o cg cg' timer te,
  (forall i, cg i = cg' i) -> survivors o cg timer te = survivors o cg' timer te.
Proof.
  intros. unfold survivors. apply flat_map_ext. intros ki. rewrite H. reflexivity.
Qed.

(* without delegate, whenever the fan-out of the parallel dispatcher is not empty it returns what
   the sequential dispatcher returns on the reversed population (same individuals, same order) *)
Theorem par_is_seq_on_reversed : forall o timer pop,
  NoDup (map uid (to_evaluate pop)) -> ~ main_pass_empty o None timer pop ->
  fst (evaluate_with_cache o None timer pop) = fst (sequential_evaluate o None timer (rev pop)).
Proof.
  intros o timer pop ND Hne.
  rewrite (evaluate_with_cache_closed o None timer pop ND).
  rewrite (sequential_evaluate_closed o None timer (rev pop) (NoDup_to_evaluate_rev pop ND)). cbn [fst].
  unfold mp_spec, seq_spec. unfold main_pass_empty in Hne.
  change (eff_graph_seq None (rev pop)) with (cgc []).
  change (eff_graph None pop) with (cgc []) in Hne.
  change (remote_compute_cache None (rev pop)) with (@nil (nat * graph)).
  destruct (survivors o (cgc []) timer (to_evaluate (rev pop)) ++ to_skip (rev pop));
    [exfalso; apply Hne; reflexivity|reflexivity].
Qed.

Lemma flat_map_index_free : forall A (G : ind -> list A) l k,
  flat_map (fun ki => G (snd ki)) (index_from k l) = flat_map G l.
Proof. induction l as [|a l IH]; simpl; intros; [reflexivity|]. rewrite IH. reflexivity. Qed.

Lemma survivors_never : forall o cg te,
  survivors o cg (fun _ => false) te =
  flat_map (fun i => if valid (objective_value o (cg i)) then [evaluated_ind o (cg i) i] else []) te.
Proof.
  intros. unfold survivors. simpl.
  apply (flat_map_index_free _ (fun i => if valid (objective_value o (cg i)) then [evaluated_ind o (cg i) i] else [])).
Qed.

(* with a time limit that is never reached and no delegate: sequential evaluation and parallel
   evaluation (any order of results, see order_independent_par) return the same individuals with
   the same fitness *)
Theorem seq_par_same : forall o pop,
  NoDup (map uid (to_evaluate pop)) ->
  exists out_p out_s,
    fst (evaluate_with_cache o None (fun _ => false) pop) = Ok out_p /\
    fst (sequential_evaluate o None (fun _ => false) pop) = Ok out_s /\
    Permutation out_p out_s.
Proof.
  intros o pop ND.
  rewrite (evaluate_with_cache_closed o None _ pop ND).
  rewrite (sequential_evaluate_closed o None _ pop ND). cbn [fst].
  eexists. eexists. split; [reflexivity|]. split; [reflexivity|].
  unfold mp_spec, seq_spec.
  change (eff_graph_seq None pop) with (cgc []).
  change (remote_compute_cache None (rev pop)) with (@nil (nat * graph)).
  rewrite !(survivors_ext o (cgc []) gr _ _ cgc_nil).
  rewrite !survivors_never.
  set (G := fun i => if valid (objective_value o (gr i)) then [evaluated_ind o (gr i) i] else []).
  assert (PP : Permutation (flat_map G (to_evaluate (rev pop)) ++ to_skip (rev pop))
                           (flat_map G (to_evaluate pop) ++ to_skip pop)).
  { apply Permutation_app.
    - apply Permutation_flat_map. rewrite to_evaluate_rev. apply Permutation_sym, Permutation_rev.
    - rewrite to_skip_rev. apply Permutation_sym, Permutation_rev. }
  destruct (flat_map G (to_evaluate (rev pop)) ++ to_skip (rev pop)) as [|y s] eqn:E; [|exact PP].
  (* nothing came out of the fan-out: the forced evaluations fail again *)
  apply app_eq_nil in E. destruct E as [E1 E2].
  assert (Hinv : forall i, In i (rev pop) -> valid (fitness i) = false).
  { intros i Hi. apply (filter_nil_all _ _ _ E2 i Hi). }
  assert (F : fallback_spec o (cgc []) (rev pop) = []).
  { unfold fallback_spec, first_evaluable.
    assert (Fn : find (fun i => valid (objective_value o (cgc [] i))) (rev pop) = None).
    { apply find_none_iff. intros i Hi. rewrite cgc_nil.
      destruct (valid (objective_value o (gr i))) eqn:Ev; [|reflexivity]. exfalso.
      assert (Hx : In (evaluated_ind o (gr i) i) (flat_map G (to_evaluate (rev pop)))).
      { apply in_flat_map. exists i. split; [apply to_evaluate_In; auto|]. unfold G. rewrite Ev. simpl. auto. }
      rewrite E1 in Hx. exact Hx. }
    rewrite Fn. reflexivity. }
  rewrite F. exact PP.
Qed.

(* ------------------------------------------------------------------------------------- *)
(* G. witnesses: what fails outside the hypotheses, and what the forced evaluation costs   *)
(* ------------------------------------------------------------------------------------- *)
Definition w_objective : objective :=
  {| metrics := [fun g => MVal (inject_Z (Z.of_nat g))]; multi := false |}.
Definition w_failing : objective := {| metrics := [fun _ => MRaise]; multi := false |}.
Definition w_dup_pop : list ind :=
  [ {| uid := 0; fitness := Null; gr := 0 |}; {| uid := 0; fitness := Null; gr := 1 |} ].

(* two not-yet-evaluated individuals with one uid: the order of the results decides which
   fitness both of them get, and one of them receives the value of the other's graph *)
Theorem duplicate_uids_order_matters :
  fst (sequential_evaluate_shuffled (@rev _) w_objective None (fun _ => false) w_dup_pop)
  <> fst (sequential_evaluate w_objective None (fun _ => false) w_dup_pop) /\
  fst (sequential_evaluate w_objective None (fun _ => false) w_dup_pop)
  = Ok [ {| uid := 0; fitness := FSingle [inject_Z 1]; gr := 1 |};
         {| uid := 0; fitness := FSingle [inject_Z 1]; gr := 1 |} ].
Proof. split; [vm_compute; discriminate|vm_compute; reflexivity]. Qed.

(* nothing evaluable, time left: the fan-out evaluates the graph, the forced evaluation
   evaluates it again - the callback sees the failing graph twice *)
Theorem failing_graph_seen_twice :
  evaluate_with_cache w_failing None (fun _ => false) [ {| uid := 0; fitness := Null; gr := 7 |} ]
  = (Ok [], [EvMetric 0 7; EvCallback 7; EvMetric 0 7; EvCallback 7]).
Proof. vm_compute. reflexivity. Qed.

(* ------------------------------------------------------------------------------------- *)
(* H. the boolean predicates of the oracle decide the propositions used above             *)
(* ------------------------------------------------------------------------------------- *)
Lemma Q_eqb_eq : forall a b, Q_eqb a b = true <-> a = b.
Proof.
  intros [an ad] [bn bd]. unfold Q_eqb. simpl. rewrite andb_true_iff, Z.eqb_eq, Pos.eqb_eq.
  split; [intros [-> ->]; reflexivity|intros H; inversion H; auto].
Qed.

Lemma list_eqb_eq : forall A (eqb : A -> A -> bool),
  (forall a b, eqb a b = true <-> a = b) -> forall l r, list_eqb eqb l r = true <-> l = r.
Proof.
  intros A eqb H. induction l as [|a l IH]; destruct r as [|b r]; simpl; try (split; [discriminate|discriminate]).
  - tauto.
  - rewrite andb_true_iff, H, IH. split; [intros [-> ->]; reflexivity|intros E; inversion E; auto].
Qed.

Lemma fit_eqb_eq : forall f g, fit_eqb f g = true <-> f = g.
Proof.
  intros [|a|a] [|b|b]; simpl; try (split; [discriminate|discriminate]); try tauto;
    rewrite (list_eqb_eq _ _ Q_eqb_eq); split; [intros ->; reflexivity|intros E; inversion E; auto|
                                                 intros ->; reflexivity|intros E; inversion E; auto].
Qed.

Lemma ind_eqb_eq : forall a b, ind_eqb a b = true <-> a = b.
Proof.
  intros [u f g] [u' f' g']. unfold ind_eqb. simpl.
  rewrite !andb_true_iff, !Nat.eqb_eq, fit_eqb_eq.
  split; [intros [[-> ->] ->]; reflexivity|intros E; inversion E; auto].
Qed.

Lemma ev_eqb_eq : forall a b, ev_eqb a b = true <-> a = b.
Proof.
  intros [k g|g] [k' g'|g']; simpl; try (split; [discriminate|discriminate]).
  - rewrite andb_true_iff, !Nat.eqb_eq. split; [intros [-> ->]; reflexivity|intros E; inversion E; auto].
  - rewrite Nat.eqb_eq. split; [intros ->; reflexivity|intros E; inversion E; auto].
Qed.

Section PermB.
  Variable A : Type.
  Variable eqb : A -> A -> bool.
  Hypothesis eqb_eq : forall a b, eqb a b = true <-> a = b.

  Lemma remove1_Some : forall x l l', remove1 eqb x l = Some l' -> Permutation l (x :: l').
  Proof.
    induction l as [|y l IH]; simpl; intros l' H; [discriminate|].
    destruct (eqb x y) eqn:E.
    - apply eqb_eq in E. inversion H; subst. apply Permutation_refl.
    - destruct (remove1 eqb x l) as [r|] eqn:R; [|discriminate]. inversion H; subst.
      eapply Permutation_trans; [apply perm_skip; apply IH; reflexivity|apply perm_swap].
  Qed.

  Lemma remove1_None : forall x l, remove1 eqb x l = None -> ~ In x l.
  Proof.
    induction l as [|y l IH]; simpl; intros H; [tauto|].
    destruct (eqb x y) eqn:E; [discriminate|].
    destruct (remove1 eqb x l) eqn:R; [discriminate|].
    intros [Hy|Hy]; [subst; assert (T : eqb x x = true) by (apply eqb_eq; reflexivity); congruence|].
    apply IH; auto.
  Qed.

  Lemma perm_b_sound : forall l1 l2, perm_b eqb l1 l2 = true -> Permutation l1 l2.
  Proof.
    induction l1 as [|x l1 IH]; simpl; intros l2 H.
    - destruct l2; [constructor|discriminate].
    - destruct (remove1 eqb x l2) as [l2'|] eqn:R; [|discriminate].
      eapply Permutation_trans; [apply perm_skip; apply IH; exact H|].
      apply Permutation_sym. apply remove1_Some. exact R.
  Qed.

  Lemma perm_b_complete : forall l1 l2, Permutation l1 l2 -> perm_b eqb l1 l2 = true.
  Proof.
    induction l1 as [|x l1 IH]; simpl; intros l2 P.
    - apply Permutation_nil in P. subst. reflexivity.
    - destruct (remove1 eqb x l2) as [l2'|] eqn:R.
      + apply IH. apply remove1_Some in R.
        apply (Permutation_cons_inv (a := x)). eapply Permutation_trans; [exact P|exact R].
      + exfalso. apply (remove1_None _ _ R). eapply Permutation_in; [exact P|simpl; auto].
  Qed.

  Theorem perm_b_iff : forall l1 l2, perm_b eqb l1 l2 = true <-> Permutation l1 l2.
  Proof. intros. split; [apply perm_b_sound|apply perm_b_complete]. Qed.
End PermB.

Lemma existsb_eqb_In : forall x l, existsb (Nat.eqb x) l = true <-> In x l.
Proof.
  intros. rewrite existsb_exists. split.
  - intros [y [Hy E]]. apply Nat.eqb_eq in E. subst. exact Hy.
  - intros H. exists x. split; auto. apply Nat.eqb_refl.
Qed.

Theorem nodup_b_iff : forall l, nodup_b l = true <-> NoDup l.
Proof.
  induction l as [|x l IH]; simpl.
  - split; [constructor|reflexivity].
  - rewrite andb_true_iff, negb_true_iff, IH. split.
    + intros [H1 H2]. constructor; auto. intros Hin. apply existsb_eqb_In in Hin. congruence.
    + intros H. inversion H; subst. split; auto.
      destruct (existsb (Nat.eqb x) l) eqn:E; auto. apply existsb_eqb_In in E. tauto.
Qed.

(* the quantifier the oracle works in is the hypothesis of the theorems (plus: no uid shared
   between a not-yet-evaluated and a pre-evaluated individual, the side condition of
   eval_complete_seq and eval_complete_par) *)
Theorem in_scope_iff : forall c,
  in_scope c = true <->
  NoDup (map uid (to_evaluate (c_pop c))) /\
  forall i, In i (to_evaluate (c_pop c)) -> ~ In (uid i) (map uid (to_skip (c_pop c))).
Proof.
  intros c. unfold in_scope, unevaluated, preevaluated. rewrite andb_true_iff, nodup_b_iff, forallb_forall.
  split; intros [H1 H2]; split; auto.
  - intros i Hi Hin. specialize (H2 i Hi). apply negb_true_iff in H2.
    apply in_map_iff in Hin. destruct Hin as [j [Hu Hj]].
    assert (T : existsb (fun j => Nat.eqb (uid i) (uid j)) (to_skip (c_pop c)) = true).
    { apply existsb_exists. exists j. split; auto. apply Nat.eqb_eq. auto. }
    congruence.
  - intros i Hi. apply negb_true_iff. destruct (existsb _ (to_skip (c_pop c))) eqn:E; auto.
    apply existsb_exists in E. destruct E as [j [Hj E]]. apply Nat.eqb_eq in E.
    exfalso. apply (H2 i Hi). rewrite E. apply in_map. exact Hj.
Qed.

Theorem same_assignment_b_iff : forall a b,
  same_assignment_b a b = true <->
  (forall x, In x a -> exists y, In y b /\ uid x = uid y /\ fitness x = fitness y) /\
  (forall y, In y b -> exists x, In x a /\ uid x = uid y /\ fitness x = fitness y).
Proof.
  intros a b. unfold same_assignment_b. rewrite andb_true_iff, !forallb_forall.
  split; intros [H1 H2]; split.
  - intros x Hx. specialize (H1 x Hx). apply existsb_exists in H1. destruct H1 as [y [Hy E]].
    apply andb_true_iff in E. destruct E as [E1 E2]. apply Nat.eqb_eq in E1. apply fit_eqb_eq in E2. eauto.
  - intros y Hy. specialize (H2 y Hy). apply existsb_exists in H2. destruct H2 as [x [Hx E]].
    apply andb_true_iff in E. destruct E as [E1 E2]. apply Nat.eqb_eq in E1. apply fit_eqb_eq in E2. eauto.
  - intros x Hx. destruct (H1 x Hx) as [y [Hy [E1 E2]]]. apply existsb_exists. exists y. split; auto.
    apply andb_true_iff. split; [apply Nat.eqb_eq; auto|apply fit_eqb_eq; auto].
  - intros y Hy. destruct (H2 y Hy) as [x [Hx [E1 E2]]]. apply existsb_exists. exists x. split; auto.
    apply andb_true_iff. split; [apply Nat.eqb_eq; auto|apply fit_eqb_eq; auto].
Qed.

(* ------------------------------------------------------------------------------------- *)
(* I. the clauses of the oracle as propositions                                            *)
(* ------------------------------------------------------------------------------------- *)
Theorem clause_sound_iff : forall c ob,
  clause_sound c ob = true <->
  forall x, In x (o_out ob) ->
    valid (fitness x) = true /\
    (In x (preevaluated c) \/
     exists i, In i (unevaluated c) /\ uid i = uid x /\
               fitness x = spec_fit (case_objective c) (geff_of ob i)).
Proof.
  intros c ob. unfold clause_sound. rewrite forallb_forall. split; intros H x Hx; specialize (H x Hx).
  - apply andb_true_iff in H. destruct H as [Hv H]. split; auto. apply orb_true_iff in H. destruct H as [H|H].
    + left. apply existsb_exists in H. destruct H as [i [Hi E]]. apply ind_eqb_eq in E. subst. exact Hi.
    + right. apply existsb_exists in H. destruct H as [i [Hi E]]. apply andb_true_iff in E.
      destruct E as [E1 E2]. apply Nat.eqb_eq in E1. apply fit_eqb_eq in E2. eauto.
  - destruct H as [Hv H]. apply andb_true_iff. split; auto. apply orb_true_iff. destruct H as [H|[i [Hi [E1 E2]]]].
    + left. apply existsb_exists. exists x. split; auto. apply ind_eqb_eq. reflexivity.
    + right. apply existsb_exists. exists i. split; auto. apply andb_true_iff.
      split; [apply Nat.eqb_eq; auto|apply fit_eqb_eq; auto].
Qed.

Theorem clause_passthrough_iff : forall c ob,
  clause_passthrough c ob = true <-> forall i, In i (preevaluated c) -> In i (o_out ob).
Proof.
  intros c ob. unfold clause_passthrough. rewrite forallb_forall. split; intros H i Hi; specialize (H i Hi).
  - apply existsb_exists in H. destruct H as [x [Hx E]]. apply ind_eqb_eq in E. subst. exact Hx.
  - apply existsb_exists. exists i. split; auto. apply ind_eqb_eq. reflexivity.
Qed.

Theorem clause_no_reevaluation_iff : forall c ob,
  clause_no_reevaluation c ob = true <->
  forall g, In g (metric_graphs (o_log ob)) -> exists i, In i (unevaluated c) /\ geff_of ob i = g.
Proof.
  intros c ob. unfold clause_no_reevaluation. rewrite forallb_forall. split; intros H g Hg; specialize (H g Hg).
  - apply existsb_exists in H. destruct H as [i [Hi E]]. apply Nat.eqb_eq in E. eauto.
  - destruct H as [i [Hi E]]. apply existsb_exists. exists i. split; auto. apply Nat.eqb_eq. exact E.
Qed.

Lemma in_out_iff : forall ob i, in_out ob i = true <-> exists x, In x (o_out ob) /\ uid x = uid i.
Proof.
  intros. unfold in_out. rewrite existsb_exists. split; intros [x [Hx E]]; exists x; split; auto;
    apply Nat.eqb_eq; auto.
Qed.

Theorem clause_left_out_iff : forall c ob,
  clause_left_out c ob = true <->
  forall i, In i (unevaluated c) -> valid (spec_fit (case_objective c) (geff_of ob i)) = false ->
            ~ exists x, In x (o_out ob) /\ uid x = uid i.
Proof.
  intros c ob. unfold clause_left_out. rewrite forallb_forall. split; intros H i Hi.
  - intros Hv Hex. specialize (H i Hi). rewrite Hv in H. simpl in H. apply negb_true_iff in H.
    apply in_out_iff in Hex. congruence.
  - apply orb_true_iff. destruct (valid (spec_fit (case_objective c) (geff_of ob i))) eqn:Ev; auto.
    right. apply negb_true_iff. destruct (in_out ob i) eqn:Eo; auto.
    exfalso. apply (H i Hi Ev). apply in_out_iff. exact Eo.
Qed.

Theorem clause_callback_iff : forall ob,
  clause_callback ob = true <-> Permutation (callback_graphs (o_log ob)) (metric0_graphs (o_log ob)).
Proof. intros. unfold clause_callback. apply (perm_b_iff nat Nat.eqb Nat.eqb_eq). Qed.

(* ------------------------------------------------------------------------------------- *)
(* J. the oracle accepts the behaviour of the model (the clauses are theorems of the model) *)
(* ------------------------------------------------------------------------------------- *)
Definition model_observed (c : case) : observed :=
  match model_run (fun l => l) c with
  | (Ok out, lg) => {| o_raised := false; o_out := out; o_log := lg; o_deleg := model_deleg c |}
  | (RaiseValueError, lg) => {| o_raised := true; o_out := []; o_log := lg; o_deleg := model_deleg c |}
  end.

(* the graph an individual is evaluated on according to the model of the chosen dispatcher *)
Definition case_eff (c : case) (i : ind) : graph :=
  if c_par c then eff_graph (case_delegate c) (c_pop c) i else eff_graph_seq (case_delegate c) (c_pop c) i.

(* looking the delegate's answer up by graph label finds the graph computed for the individual
   (true without delegate; with a delegate it needs labels that identify the individuals) *)
Definition labels_ok (c : case) : Prop :=
  forall i, In i (to_evaluate (c_pop c)) -> computed_for (model_deleg c) (gr i) = case_eff c i.

Lemma model_run_id_par : forall c, c_par c = true ->
  model_run (fun l => l) c = evaluate_with_cache (case_objective c) (case_delegate c) (case_timer c) (c_pop c).
Proof. intros c H. unfold model_run. rewrite H. reflexivity. Qed.

Lemma model_run_id_seq : forall c, c_par c = false ->
  model_run (fun l => l) c = sequential_evaluate (case_objective c) (case_delegate c) (case_timer c) (c_pop c).
Proof. intros c H. unfold model_run. rewrite H. reflexivity. Qed.

Lemma case_metrics_nonempty : forall c, c_nmetrics c <> 0 -> metrics (case_objective c) <> [].
Proof.
  intros c H. unfold case_objective, objective_of_table. simpl.
  destruct (c_nmetrics c); [congruence|]. simpl. discriminate.
Qed.

(* what the model returns, for either dispatcher, in the vocabulary of the oracle *)
Lemma model_observed_facts : forall c,
  NoDup (map uid (to_evaluate (c_pop c))) ->
  exists out lg,
    model_run (fun l => l) c = (Ok out, lg) /\
    (forall x, In x out ->
       valid (fitness x) = true /\
       (In x (c_pop c) \/
        exists i, In i (c_pop c) /\ valid (fitness i) = false /\
                  x = evaluated_ind (case_objective c) (case_eff c i) i)) /\
    (forall g, In g (metric_graphs lg) ->
       exists i, In i (c_pop c) /\ valid (fitness i) = false /\ g = case_eff c i) /\
    (forall i, In i (to_skip (c_pop c)) -> In i out) /\
    (metrics (case_objective c) <> [] -> callback_graphs lg = metric0_graphs lg).
Proof.
  intros c ND. unfold case_eff. destruct (c_par c) eqn:Ep.
  - rewrite (model_run_id_par c Ep).
    destruct (eval_sound_par (case_objective c) (case_delegate c) (case_timer c) (c_pop c) ND)
      as [out [lg [E [H1 H2]]]].
    exists out, lg. split; [exact E|]. split; [exact H1|]. split; [exact H2|]. split.
    + intros i Hi. rewrite (evaluate_with_cache_closed _ _ _ _ ND) in E. inversion E; subst out lg.
      unfold mp_spec.
      destruct (survivors (case_objective c) (cgc (remote_compute_cache (case_delegate c) (rev (c_pop c))))
                          (case_timer c) (to_evaluate (rev (c_pop c))) ++ to_skip (rev (c_pop c))) eqn:Es.
      * apply app_eq_nil in Es. destruct Es as [_ Es]. rewrite to_skip_rev in Es.
        exfalso. destruct (to_skip (c_pop c)); [exact Hi|]. simpl in Es. apply app_eq_nil in Es. destruct Es; discriminate.
      * rewrite <- Es. apply in_or_app. right. rewrite to_skip_rev. apply in_rev_iff. exact Hi.
    + intros Hne. destruct (callback_log_par (case_objective c) (case_delegate c) (case_timer c) (c_pop c) ND) as [C1 C2].
      rewrite E in C1, C2. simpl in C1, C2. rewrite C1, (C2 Hne). reflexivity.
  - rewrite (model_run_id_seq c Ep).
    destruct (eval_sound_seq (case_objective c) (case_delegate c) (case_timer c) (c_pop c) ND) as [out [lg [E [H1 H2]]]].
    exists out, lg. split; [exact E|]. split; [exact H1|]. split; [exact H2|]. split.
    + intros i Hi. rewrite (sequential_evaluate_closed _ _ _ _ ND) in E. inversion E; subst out lg.
      unfold seq_spec. apply in_or_app. right. exact Hi.
    + intros Hne. destruct (callback_log_seq (case_objective c) (case_delegate c) (case_timer c) (c_pop c) ND) as [C1 C2].
      rewrite E in C1, C2. simpl in C1, C2. rewrite C1, (C2 Hne). reflexivity.
Qed.

Theorem oracle_accepts_model_partial : forall c,
  in_scope c = true -> c_nmetrics c <> 0 -> labels_ok c ->
  let ob := model_observed c in
  o_raised ob = false /\ clause_sound c ob = true /\ clause_passthrough c ob = true /\
  clause_no_reevaluation c ob = true /\ clause_left_out c ob = true /\ clause_callback ob = true.
Proof.
  intros c Hs Hn Hl. apply in_scope_iff in Hs. destruct Hs as [ND Hdis].
  pose proof (case_metrics_nonempty c Hn) as Hne.
  destruct (model_observed_facts c ND) as [out [lg [E [F1 [F2 [F3 F4]]]]]].
  unfold model_observed. rewrite E. cbn zeta.
  assert (G : forall i, In i (to_evaluate (c_pop c)) ->
              geff_of {| o_raised := false; o_out := out; o_log := lg; o_deleg := model_deleg c |} i = case_eff c i).
  { intros i Hi. unfold geff_of. simpl. apply Hl. exact Hi. }
  split; [reflexivity|]. split; [|split; [|split; [|split]]].
  - apply clause_sound_iff. simpl. intros x Hx. destruct (F1 x Hx) as [Hv [Hin|[i [Hi [Hiv ->]]]]].
    + split; auto. left. apply to_skip_valid. auto.
    + split; auto. right. exists i. assert (Hi' : In i (to_evaluate (c_pop c))) by (apply to_evaluate_In; auto).
      split; [exact Hi'|]. split; [reflexivity|]. simpl. rewrite (G i Hi'). apply objective_value_spec. exact Hne.
  - apply clause_passthrough_iff. simpl. exact F3.
  - apply clause_no_reevaluation_iff. simpl. intros g Hg. destruct (F2 g Hg) as [i [Hi [Hiv ->]]].
    assert (Hi' : In i (to_evaluate (c_pop c))) by (apply to_evaluate_In; auto). exists i. split; auto.
  - apply clause_left_out_iff. simpl. intros i Hi Hv [x [Hx Hu]].
    rewrite (G i Hi) in Hv. destruct (F1 x Hx) as [Hvx [Hin|[j [Hj [Hjv ->]]]]].
    + apply (Hdis i Hi). rewrite <- Hu. apply in_map. apply to_skip_valid. auto.
    + simpl in Hu. assert (Hj' : In j (to_evaluate (c_pop c))) by (apply to_evaluate_In; auto).
      assert (j = i) by (eapply (NoDup_map_inj_in _ _ uid (to_evaluate (c_pop c))); eauto). subst j.
      simpl in Hvx. rewrite (objective_value_spec _ _ Hne) in Hvx. congruence.
  - apply clause_callback_iff. simpl. rewrite (F4 Hne). apply Permutation_refl.
Qed.

(* ---- counting ------------------------------------------------------------------------------- *)
Lemma count_app : forall A (p : A -> bool) a b, count p (a ++ b) = count p a + count p b.
Proof. intros. unfold count. rewrite filter_app, app_length. reflexivity. Qed.

Lemma count_rev : forall A (p : A -> bool) l, count p (rev l) = count p l.
Proof. intros. unfold count. rewrite filter_rev', rev_length. reflexivity. Qed.

Lemma count_map : forall A B (f : A -> B) (p : B -> bool) l, count p (map f l) = count (fun x => p (f x)) l.
Proof.
  intros. unfold count. induction l as [|a l IH]; simpl; [reflexivity|].
  destruct (p (f a)); simpl; rewrite IH; reflexivity.
Qed.

Lemma count_ext_in : forall A (p q : A -> bool) l, (forall x, In x l -> p x = q x) -> count p l = count q l.
Proof.
  intros A p q l H. unfold count. induction l as [|a l IH]; simpl; [reflexivity|].
  rewrite (H a) by (simpl; auto). destruct (q a); simpl; rewrite IH; auto; intros; apply H; simpl; auto.
Qed.

Lemma count_filter : forall A (p q : A -> bool) l, count p (filter q l) = count (fun x => q x && p x) l.
Proof.
  intros. unfold count. induction l as [|a l IH]; simpl; [reflexivity|].
  destruct (q a); simpl; [destruct (p a); simpl; rewrite IH; reflexivity|exact IH].
Qed.

Lemma count_zero : forall A (p : A -> bool) l, (forall x, In x l -> p x = false) -> count p l = 0.
Proof.
  intros A p l H. unfold count. induction l as [|a l IH]; simpl; [reflexivity|].
  rewrite (H a) by (simpl; auto). apply IH. intros; apply H; simpl; auto.
Qed.

Lemma count_uid_one : forall l f,
  NoDup (map uid l) -> In f l -> count (fun j => Nat.eqb (uid j) (uid f)) l = 1.
Proof.
  induction l as [|a l IH]; simpl; intros f ND Hf; [tauto|].
  inversion ND as [|? ? Hn ND']; subst. unfold count in *. simpl. destruct Hf as [->|Hf].
  - rewrite Nat.eqb_refl. simpl. f_equal. apply (count_zero _ _ l).
    intros x Hx. apply Nat.eqb_neq. intros E. apply Hn. rewrite <- E. apply in_map. exact Hx.
  - destruct (Nat.eqb (uid a) (uid f)) eqn:E.
    + apply Nat.eqb_eq in E. exfalso. apply Hn. rewrite E. apply in_map. exact Hf.
    + apply IH; auto.
Qed.

Lemma count_index_snd : forall (p : ind -> bool) l k,
  count (fun ki => p (snd ki)) (index_from k l) = count p l.
Proof. intros. rewrite <- (index_from_snd l k) at 2. rewrite count_map. reflexivity. Qed.

(* ---- the time-limit patterns of a case -------------------------------------------------------- *)
Lemma timer_generous_never : forall c, timer_generous c = true -> forall k, case_timer c k = false.
Proof.
  intros c H k. unfold timer_generous in H. apply andb_true_iff in H. destruct H as [H1 H2].
  apply negb_true_iff in H2. unfold case_timer. revert k.
  induction (c_timer c) as [|b l IH]; intros k; destruct k; simpl in *; auto.
  - apply andb_true_iff in H1. destruct H1 as [H1 _]. apply negb_true_iff in H1. exact H1.
  - apply andb_true_iff in H1. destruct H1 as [_ H1]. auto.
Qed.

Lemma timer_expired_always : forall c, timer_expired_from_start c = true -> forall k, case_timer c k = true.
Proof.
  intros c H k. unfold timer_expired_from_start in H. apply andb_true_iff in H. destruct H as [H1 H2].
  unfold case_timer. revert k.
  induction (c_timer c) as [|b l IH]; intros k; destruct k; simpl in *; auto.
  - apply andb_true_iff in H1. destruct H1 as [H1 _]. exact H1.
  - apply andb_true_iff in H1. destruct H1 as [_ H1]. auto.
Qed.

Lemma not_cut_never : forall timer te, (forall k, timer k = false) -> not_cut timer te = te.
Proof.
  intros timer te H. unfold not_cut.
  assert (E : filter (fun ki : nat * ind => negb (timer (fst ki))) (index_from 0 te) = index_from 0 te).
  { induction (index_from 0 te) as [|ki l IH]; simpl; [reflexivity|]. rewrite H. simpl. rewrite IH. reflexivity. }
  rewrite E. apply index_from_snd.
Qed.

(* the metric-0 call log of the model, for either dispatcher *)
Definition case_te (c : case) : list ind :=
  if c_par c then to_evaluate (rev (c_pop c)) else to_evaluate (c_pop c).

Lemma model_metric0 : forall c out lg,
  NoDup (map uid (to_evaluate (c_pop c))) -> metrics (case_objective c) <> [] ->
  model_run (fun l => l) c = (Ok out, lg) ->
  exists extra, metric0_graphs lg = map (case_eff c) (not_cut (case_timer c) (case_te c)) ++ extra.
Proof.
  intros c out lg ND Hne E. unfold case_eff, case_te. destruct (c_par c) eqn:Ep.
  - rewrite (model_run_id_par c Ep) in E.
    destruct (callback_log_par (case_objective c) (case_delegate c) (case_timer c) (c_pop c) ND) as [_ C2].
    rewrite E in C2. simpl in C2. rewrite (C2 Hne). unfold reached_par. eexists. reflexivity.
  - rewrite (model_run_id_seq c Ep) in E.
    destruct (callback_log_seq (case_objective c) (case_delegate c) (case_timer c) (c_pop c) ND) as [_ C2].
    rewrite E in C2. simpl in C2. rewrite (C2 Hne). exists []. rewrite app_nil_r. reflexivity.
Qed.

Lemma count_case_te : forall c (p : ind -> bool), count p (case_te c) = count p (to_evaluate (c_pop c)).
Proof.
  intros. unfold case_te. destruct (c_par c); [|reflexivity]. rewrite to_evaluate_rev. apply count_rev.
Qed.

Theorem oracle_generous_on_model : forall c,
  in_scope c = true -> c_nmetrics c <> 0 -> labels_ok c -> clause_generous c (model_observed c) = true.
Proof.
  intros c Hs Hn Hl. apply in_scope_iff in Hs. destruct Hs as [ND Hdis].
  pose proof (case_metrics_nonempty c Hn) as Hne.
  destruct (model_observed_facts c ND) as [out [lg [E _]]].
  unfold clause_generous. destruct (timer_generous c) eqn:Eg; [|reflexivity]. simpl.
  pose proof (timer_generous_never c Eg) as Hnever.
  destruct (model_metric0 c out lg ND Hne E) as [extra Hm].
  unfold model_observed. rewrite E. apply forallb_forall. intros i Hi. apply Nat.leb_le. simpl.
  rewrite Hm, (not_cut_never _ _ Hnever), count_app, count_map, count_case_te.
  unfold geff_of. simpl.
  rewrite (count_ext_in _ (fun j => Nat.eqb (computed_for (model_deleg c) (gr j)) (computed_for (model_deleg c) (gr i)))
                          (fun x => Nat.eqb (computed_for (model_deleg c) (gr i)) (case_eff c x))).
  - unfold unevaluated. lia.
  - intros j Hj. unfold unevaluated in Hj. rewrite (Hl j Hj). apply Nat.eqb_sym.
Qed.

Lemma fallback_spec_length : forall o cg inds, length (fallback_spec o cg inds) <= 1.
Proof. intros. unfold fallback_spec. destruct (first_evaluable o cg inds); simpl; lia. Qed.

Theorem oracle_expired_on_model : forall c,
  in_scope c = true -> c_nmetrics c <> 0 -> labels_ok c -> clause_expired c (model_observed c) = true.
Proof.
  intros c Hs Hn Hl. apply in_scope_iff in Hs. destruct Hs as [ND Hdis].
  pose proof (case_metrics_nonempty c Hn) as Hne.
  unfold clause_expired. destruct (timer_expired_from_start c) eqn:Ee; [|reflexivity]. simpl.
  pose proof (timer_expired_always c Ee) as Halways.
  unfold model_observed. destruct (c_par c) eqn:Ep.
  - rewrite (model_run_id_par c Ep).
    pose proof (expired_timer_fallback (case_objective c) (case_delegate c) (case_timer c) (c_pop c) ND Halways) as F.
    destruct (evaluate_with_cache (case_objective c) (case_delegate c) (case_timer c) (c_pop c)) as [r lg].
    simpl in F. subst r. cbn [o_out]. unfold preevaluated, unevaluated.
    rewrite to_skip_rev. destruct (to_skip (c_pop c)) as [|p ps] eqn:Es.
    + (* nothing pre-evaluated: the forced evaluation *)
      cbn [rev].
      set (ob := {| o_raised := false;
                    o_out := fallback_spec (case_objective c) (eff_graph (case_delegate c) (c_pop c)) (rev (c_pop c));
                    o_log := lg; o_deleg := model_deleg c |}).
      assert (G : forall i, In i (to_evaluate (c_pop c)) ->
                  valid (spec_fit (case_objective c) (geff_of ob i)) =
                  valid (objective_value (case_objective c) (eff_graph (case_delegate c) (c_pop c) i))).
      { intros i Hi. unfold geff_of. simpl. rewrite (Hl i Hi). unfold case_eff. rewrite Ep.
        rewrite (objective_value_spec _ _ Hne). reflexivity. }
      assert (L : length (o_out ob) <= 1) by (apply fallback_spec_length).
      assert (X : existsb (fun i => valid (spec_fit (case_objective c) (geff_of ob i))) (to_evaluate (c_pop c))
                  = negb (Nat.eqb (length (o_out ob)) 0)).
      { unfold ob at 2. cbn [o_out]. unfold fallback_spec, first_evaluable.
        destruct (find (fun i => valid (objective_value (case_objective c) (eff_graph (case_delegate c) (c_pop c) i)))
                       (rev (c_pop c))) as [f|] eqn:Ef.
        - apply find_some in Ef. destruct Ef as [Hf Hv]. apply (proj1 (in_rev_iff _ _ _)) in Hf.
          assert (Hf' : In f (to_evaluate (c_pop c))).
          { apply to_evaluate_In. split; auto. destruct (valid (fitness f)) eqn:Evf; auto.
            assert (T : In f (to_skip (c_pop c))) by (apply to_skip_valid; auto). rewrite Es in T. destruct T. }
          simpl. apply existsb_exists. exists f. split; auto. rewrite (G f Hf'). exact Hv.
        - simpl. destruct (existsb _ (to_evaluate (c_pop c))) eqn:Ex; auto.
          apply existsb_exists in Ex. destruct Ex as [i [Hi Hv]]. rewrite (G i Hi) in Hv.
          pose proof (proj1 (find_none_iff _ _ _) Ef i) as T. simpl in T. rewrite T in Hv; [discriminate|].
          apply in_rev_iff. apply to_evaluate_In in Hi. tauto. }
      rewrite X. cbn [length Nat.eqb negb orb].
      change (fallback_spec (case_objective c) (eff_graph (case_delegate c) (c_pop c)) (rev (c_pop c)))
        with (o_out ob).
      destruct (length (o_out ob)) as [|[|n]]; simpl; try reflexivity. lia.
    + (* something pre-evaluated: it is what comes back *)
      assert (Hl2 : length (rev (p :: ps)) = S (length ps)) by (rewrite rev_length; reflexivity).
      destruct (rev (p :: ps)) as [|y s] eqn:Er; [simpl in Hl2; discriminate|]. reflexivity.
  - rewrite (model_run_id_seq c Ep). rewrite (sequential_evaluate_closed _ _ _ _ ND). cbn [o_out].
    unfold seq_spec. rewrite (survivors_expired _ _ _ _ Halways). simpl.
    apply forallb_forall. intros x Hx. apply negb_true_iff. unfold is_new.
    destruct (existsb _ (unevaluated c)) eqn:Ex; auto. apply existsb_exists in Ex.
    destruct Ex as [i [Hi E]]. apply Nat.eqb_eq in E. exfalso. apply (Hdis i Hi). rewrite E. apply in_map. exact Hx.
Qed.

(* ---- clause_exactly on the model ---------------------------------------------------------------- *)
Definition uid_in (out : list ind) (j : ind) : bool := existsb (fun x => Nat.eqb (uid x) (uid j)) out.

Lemma uid_in_iff : forall out j, uid_in out j = true <-> exists x, In x out /\ uid x = uid j.
Proof.
  intros. unfold uid_in. rewrite existsb_exists. split; intros [x [Hx E]]; exists x; split; auto;
    apply Nat.eqb_eq; auto.
Qed.

Lemma uid_in_survivors : forall o cg timer te ts k j,
  NoDup (map uid te) -> In (k, j) (index_from 0 te) -> (forall x, In x ts -> uid x <> uid j) ->
  uid_in (survivors o cg timer te ++ ts) j = negb (timer k) && valid (objective_value o (cg j)).
Proof.
  intros o cg timer te ts k j ND Hin Hts.
  destruct (negb (timer k) && valid (objective_value o (cg j))) eqn:R.
  - apply andb_true_iff in R. destruct R as [R1 R2]. apply negb_true_iff in R1.
    apply uid_in_iff. exists (evaluated_ind o (cg j) j). split; [|reflexivity].
    apply in_or_app. left. apply survivors_In. exists k, j. auto.
  - destruct (uid_in (survivors o cg timer te ++ ts) j) eqn:U; [|reflexivity].
    apply uid_in_iff in U. destruct U as [x [Hx Hu]]. apply in_app_or in Hx. destruct Hx as [Hx|Hx].
    + assert (T : timer k = false /\ valid (objective_value o (cg j)) = true).
      { apply (survivors_present_iff o cg timer te k j ND Hin). eauto. }
      destruct T as [T1 T2]. rewrite T1, T2 in R. discriminate.
    + exfalso. apply (Hts x Hx Hu).
Qed.

Lemma exactly_main : forall o cg timer te out g,
  (forall k j, In (k, j) (index_from 0 te) ->
     uid_in out j = negb (timer k) && valid (objective_value o (cg j))) ->
  valid (objective_value o g) = true ->
  count (Nat.eqb g) (map cg (not_cut timer te)) = count (fun j => Nat.eqb (cg j) g && uid_in out j) te.
Proof.
  intros o cg timer te out g H Hg. unfold not_cut.
  rewrite count_map, count_map, count_filter.
  rewrite <- (count_index_snd (fun j => Nat.eqb (cg j) g && uid_in out j) te 0).
  apply count_ext_in. intros [k j] Hin. simpl. rewrite (H k j Hin).
  destruct (Nat.eqb (cg j) g) eqn:E.
  - apply Nat.eqb_eq in E. rewrite E, Nat.eqb_refl, Hg. simpl. destruct (timer k); reflexivity.
  - rewrite Nat.eqb_sym, E. simpl. destruct (timer k); reflexivity.
Qed.

Lemma count_upto_first : forall (ev q : ind -> bool) l,
  (forall j, q j = true -> ev j = true) ->
  count q (upto_first ev l) = match find ev l with Some f => if q f then 1 else 0 | None => 0 end.
Proof.
  intros ev q l H. induction l as [|x r IH]; simpl; [reflexivity|].
  destruct (ev x) eqn:E.
  - unfold count. simpl. destruct (q x); reflexivity.
  - unfold count in *. simpl. destruct (q x) eqn:Q; [rewrite (H x Q) in E; discriminate|]. exact IH.
Qed.

Lemma count_and_uid : forall (p : ind -> bool) l f,
  NoDup (map uid l) -> In f l ->
  count (fun j => p j && Nat.eqb (uid f) (uid j)) l = if p f then 1 else 0.
Proof.
  intros p l f ND Hf.
  rewrite (count_ext_in _ _ (fun j => p f && Nat.eqb (uid j) (uid f))).
  - destruct (p f); simpl.
    + apply count_uid_one; auto.
    + apply count_zero. reflexivity.
  - intros j Hj. destruct (Nat.eqb (uid f) (uid j)) eqn:E.
    + apply Nat.eqb_eq in E. assert (j = f) by (eapply (NoDup_map_inj_in _ _ uid l); eauto). subst.
      rewrite Nat.eqb_refl. reflexivity.
    + rewrite Nat.eqb_sym, E. rewrite !andb_false_r. reflexivity.
Qed.

Lemma exactly_fallback : forall o cg timer inds g,
  NoDup (map uid inds) -> all_invalid inds ->
  (forall k j, In (k, j) (index_from 0 inds) -> timer k = true \/ valid (objective_value o (cg j)) = false) ->
  valid (objective_value o g) = true ->
  count (Nat.eqb g) (map cg (not_cut timer inds) ++
                     map cg (upto_first (fun i => valid (objective_value o (cg i))) inds))
  = count (fun j => Nat.eqb (cg j) g && uid_in (fallback_spec o cg inds) j) inds.
Proof.
  intros o cg timer inds g ND Hinv Hempty Hg.
  rewrite count_app.
  (* nothing evaluable reached the objective in the fan-out *)
  assert (Z : count (Nat.eqb g) (map cg (not_cut timer inds)) = 0).
  { apply count_zero. intros g' Hg'. apply in_map_iff in Hg'. destruct Hg' as [j [Ej Hj]].
    unfold not_cut in Hj. apply in_map_iff in Hj. destruct Hj as [[k j'] [Es Hf]]. simpl in Es. subst j'.
    apply filter_In in Hf. destruct Hf as [Hin Ht]. simpl in Ht. apply negb_true_iff in Ht.
    destruct (Hempty k j Hin) as [T|T]; [congruence|].
    apply Nat.eqb_neq. intros ->. congruence. }
  etransitivity; [apply f_equal2; [exact Z|reflexivity]|]. simpl. rewrite count_map.
  rewrite (count_upto_first (fun i => valid (objective_value o (cg i))) (fun x => Nat.eqb g (cg x))).
  2:{ intros j E. apply Nat.eqb_eq in E. rewrite <- E. exact Hg. }
  unfold fallback_spec, first_evaluable.
  destruct (find (fun i => valid (objective_value o (cg i))) inds) as [f|] eqn:Ef.
  - apply find_some in Ef. destruct Ef as [Hf _].
    rewrite (count_ext_in _ _ (fun j => Nat.eqb (cg j) g && Nat.eqb (uid f) (uid j))).
    + rewrite (count_and_uid (fun j => Nat.eqb (cg j) g) inds f ND Hf). rewrite Nat.eqb_sym. reflexivity.
    + intros j Hj. unfold uid_in. simpl. rewrite orb_false_r. reflexivity.
  - symmetry. apply count_zero. intros j Hj. unfold uid_in. simpl. apply andb_false_r.
Qed.

Lemma all_invalid_to_evaluate : forall l, all_invalid l -> to_evaluate l = l.
Proof.
  induction l as [|a l IH]; intros H; [reflexivity|]. unfold to_evaluate in *. simpl.
  rewrite (H a) by (simpl; auto). simpl. f_equal. apply IH. intros j Hj. apply H. simpl. auto.
Qed.

Theorem oracle_exactly_on_model : forall c,
  in_scope c = true -> c_nmetrics c <> 0 -> labels_ok c -> clause_exactly c (model_observed c) = true.
Proof.
  intros c Hs Hn Hl. apply in_scope_iff in Hs. destruct Hs as [ND Hdis].
  pose proof (case_metrics_nonempty c Hn) as Hne.
  destruct (model_observed_facts c ND) as [out [lg [E _]]].
  unfold clause_exactly, model_observed. rewrite E. apply forallb_forall. intros i Hi.
  unfold unevaluated in Hi.
  set (ob := {| o_raised := false; o_out := out; o_log := lg; o_deleg := model_deleg c |}).
  assert (G : forall j, In j (to_evaluate (c_pop c)) -> geff_of ob j = case_eff c j).
  { intros j Hj. unfold geff_of. simpl. apply Hl. exact Hj. }
  rewrite (G i Hi). rewrite <- (objective_value_spec _ _ Hne).
  destruct (valid (objective_value (case_objective c) (case_eff c i))) eqn:Ev; [|reflexivity]. simpl.
  apply Nat.eqb_eq. cbn [o_log].
  rewrite (count_ext_in _ (fun j => Nat.eqb (geff_of ob j) (case_eff c i) && in_out ob j)
                          (fun j => Nat.eqb (case_eff c j) (case_eff c i) && uid_in out j) (unevaluated c)).
  2:{ intros j Hj. unfold unevaluated in Hj. rewrite (G j Hj). reflexivity. }
  unfold unevaluated. unfold case_eff in *. destruct (c_par c) eqn:Ep.
  - (* parallel *)
    rewrite (model_run_id_par c Ep) in E.
    pose proof (NoDup_to_evaluate_rev _ ND) as ND'.
    destruct (callback_log_par (case_objective c) (case_delegate c) (case_timer c) (c_pop c) ND) as [_ C2].
    rewrite E in C2. simpl in C2. rewrite (C2 Hne). clear C2.
    rewrite (evaluate_with_cache_closed _ _ _ _ ND) in E. inversion E as [[Eo El]]. clear E El.
    unfold reached_par, mp_spec.
    change (cgc (remote_compute_cache (case_delegate c) (rev (c_pop c)))) with (eff_graph (case_delegate c) (c_pop c)).
    rewrite <- (count_rev _ _ (to_evaluate (c_pop c))), <- to_evaluate_rev.
    destruct (survivors (case_objective c) (eff_graph (case_delegate c) (c_pop c)) (case_timer c)
                        (to_evaluate (rev (c_pop c))) ++ to_skip (rev (c_pop c))) as [|y s] eqn:Es.
    + (* forced evaluation *)
      pose proof (proj1 (main_pass_empty_iff _ _ _ _) Es) as [Hskip Hempty].
      assert (Hinv : all_invalid (rev (c_pop c))).
      { intros j Hj. apply (proj1 (in_rev_iff _ _ _)) in Hj. destruct (valid (fitness j)) eqn:Evj; auto.
        assert (T : In j (to_skip (c_pop c))) by (apply to_skip_valid; auto). rewrite Hskip in T. destruct T. }
      rewrite (all_invalid_to_evaluate _ Hinv) in *.
      apply exactly_fallback; auto.
    + rewrite app_nil_r, <- Es. apply (exactly_main (case_objective c)); auto.
      intros k j Hin. apply uid_in_survivors; auto.
      intros x Hx Hu. assert (Hj : In j (to_evaluate (c_pop c))).
      { apply index_from_In_snd in Hin. simpl in Hin. rewrite to_evaluate_rev in Hin.
        apply (proj1 (in_rev_iff _ _ _)) in Hin. exact Hin. }
      apply (Hdis j Hj). rewrite <- Hu. apply in_map. rewrite to_skip_rev in Hx.
      apply (proj1 (in_rev_iff _ _ _)) in Hx. exact Hx.
  - (* sequential *)
    rewrite (model_run_id_seq c Ep) in E.
    destruct (callback_log_seq (case_objective c) (case_delegate c) (case_timer c) (c_pop c) ND) as [_ C2].
    rewrite E in C2. simpl in C2. rewrite (C2 Hne). clear C2.
    rewrite (sequential_evaluate_closed _ _ _ _ ND) in E. inversion E as [[Eo El]]. clear E El.
    unfold seq_spec. apply (exactly_main (case_objective c)); auto.
    intros k j Hin. apply uid_in_survivors; auto.
    intros x Hx Hu. assert (Hj : In j (to_evaluate (c_pop c))).
    { apply index_from_In_snd in Hin. exact Hin. }
    apply (Hdis j Hj). rewrite <- Hu. apply in_map. exact Hx.
Qed.

Lemma model_observed_deleg : forall c, o_deleg (model_observed c) = model_deleg c.
Proof. intros c. unfold model_observed. destruct (model_run (fun l => l) c) as [[out|] lg]; reflexivity. Qed.

(* the model hands every individual of the population to an enabled delegate *)
Theorem oracle_delegate_on_model : forall c, clause_delegate c (model_observed c) = true.
Proof.
  intros c. unfold clause_delegate. destruct (c_delegate c) as [s|] eqn:Ed; [|reflexivity].
  apply forallb_forall. intros i Hi. apply orb_true_iff. right.
  rewrite model_observed_deleg. unfold model_deleg. rewrite Ed. simpl. rewrite orb_false_r.
  apply existsb_eqb_In. apply in_map.
  unfold unevaluated in Hi. apply to_evaluate_In in Hi. destruct Hi as [Hi _].
  destruct (c_par c); [apply in_rev_iff|]; exact Hi.
Qed.

(* all clauses together: the executable property accepts every behaviour of the model *)
Theorem oracle_accepts_model : forall c,
  in_scope c = true -> c_nmetrics c <> 0 -> labels_ok c -> holds_b c (model_observed c) = true.
Proof.
  intros c Hs Hn Hl. unfold holds_b. rewrite Hs. simpl.
  destruct (oracle_accepts_model_partial c Hs Hn Hl) as [H0 [H1 [H2 [H3 [H4 H5]]]]].
  rewrite H0, H1, H2, H3, H4, H5.
  rewrite (oracle_exactly_on_model c Hs Hn Hl), (oracle_generous_on_model c Hs Hn Hl),
          (oracle_expired_on_model c Hs Hn Hl), (oracle_delegate_on_model c). reflexivity.
Qed.

(* when does the lookup by graph label find the delegate's graph for the individual? *)
Lemma lookup_label_vs_uid : forall (rp : list ind) (outg : list graph) i,
  NoDup (map gr rp) -> NoDup (map uid rp) -> In i rp ->
  dict_get (gr i) (combine (map gr rp) outg) = dict_get (uid i) (combine (map uid rp) outg).
Proof.
  induction rp as [|a r IH]; simpl; intros outg i NDg NDu Hi; [tauto|].
  destruct outg as [|g outg]; simpl; [reflexivity|].
  inversion NDg as [|? ? Hng NDg']; inversion NDu as [|? ? Hnu NDu']; subst.
  destruct Hi as [->|Hi].
  - rewrite !Nat.eqb_refl. reflexivity.
  - assert (E1 : Nat.eqb (gr i) (gr a) = false).
    { apply Nat.eqb_neq. intros E. apply Hng. rewrite <- E. apply in_map. exact Hi. }
    assert (E2 : Nat.eqb (uid i) (uid a) = false).
    { apply Nat.eqb_neq. intros E. apply Hnu. rewrite <- E. apply in_map. exact Hi. }
    rewrite E1, E2. apply IH; auto.
Qed.

Lemma lookup_on : forall s inds i,
  NoDup (map gr inds) -> NoDup (map uid inds) -> In i inds ->
  computed_for [(map gr inds, delegate_of_spec s (map gr inds))] (gr i)
  = cached_graph (remote_compute_cache (Some (delegate_of_spec s)) inds) (Some (uid i)) (gr i).
Proof.
  intros s inds i NDg NDu Hi. simpl. unfold cached_graph, remote_compute_cache.
  rewrite assoc_is_dict_get, dict_get_of_pairs.
  set (outg := delegate_of_spec s (map gr inds)).
  rewrite (dict_get_perm _ (uid i) (rev (combine (map uid inds) outg)) (combine (map uid inds) outg)).
  - rewrite (lookup_label_vs_uid _ outg i NDg NDu Hi). reflexivity.
  - eapply Permutation_NoDup; [apply Permutation_map; apply Permutation_rev|].
    apply combine_keys_NoDup. exact NDu.
  - apply Permutation_sym, Permutation_rev.
Qed.

Theorem labels_ok_sufficient : forall c,
  c_delegate c = None \/ (NoDup (map gr (c_pop c)) /\ NoDup (map uid (c_pop c))) ->
  labels_ok c.
Proof.
  intros c H i Hi. unfold case_eff, model_deleg, case_delegate.
  destruct (c_delegate c) as [s|] eqn:Ed; [|destruct (c_par c); reflexivity].
  destruct H as [H|[NDg NDu]]; try discriminate.
  assert (Hp : In i (c_pop c)) by (apply to_evaluate_In in Hi; tauto).
  destruct (c_par c) eqn:Ep; cbn [option_map].
  - unfold eff_graph. apply lookup_on.
    + rewrite map_rev. eapply Permutation_NoDup; [apply Permutation_rev|exact NDg].
    + rewrite map_rev. eapply Permutation_NoDup; [apply Permutation_rev|exact NDu].
    + apply in_rev_iff. exact Hp.
  - unfold eff_graph_seq. apply lookup_on; auto.
Qed.

(* ------------------------------------------------------------------------------------- *)
(* K. one dispatcher object, several dispatches: an evaluation is a function of the arguments *)
(*    of the LAST dispatch (and of the delegate the dispatcher was built with)                 *)
(* ------------------------------------------------------------------------------------- *)
Definition timer_or_forever (t : option (nat -> bool)) : nat -> bool :=
  match t with Some tm => tm | None => forever_timer end.

Lemma run_session_evaluations : forall par d pops st,
  run_session par d st (map Evaluate pops) =
  map (evaluate_fresh par (s_objective st) d (s_timer st)) pops.
Proof.
  induction pops as [|pop pops IH]; intros st; [reflexivity|].
  cbn [map run_session evaluate_op]. rewrite IH. reflexivity.
Qed.

Fixpoint final_state (par : bool) (d : delegate) (st : dstate) (steps : list step) : dstate :=
  match steps with
  | [] => st
  | Dispatch o t :: rest => final_state par d (dispatch_op st o t) rest
  | Evaluate pop :: rest => final_state par d (snd (evaluate_op par d st pop)) rest
  | SetDelegate d' :: rest => final_state par d' st rest
  | Aborted pop :: rest => final_state par d (aborted_op par d st pop) rest
  end.

(* the delegate in force after a sequence of steps *)
Fixpoint final_delegate (d : delegate) (steps : list step) : delegate :=
  match steps with
  | [] => d
  | SetDelegate d' :: rest => final_delegate d' rest
  | _ :: rest => final_delegate d rest
  end.

Lemma run_session_app : forall par a b d st,
  run_session par d st (a ++ b) =
  run_session par d st a ++ run_session par (final_delegate d a) (final_state par d st a) b.
Proof.
  induction a as [|x a IH]; intros b d st; [reflexivity|].
  destruct x as [o t|pop|d'|pop]; cbn [app run_session final_state final_delegate evaluate_op snd];
    rewrite IH; reflexivity.
Qed.

(* whatever happened to the dispatcher before (earlier dispatches with other objectives and
   timers - e.g. one that has expired -, earlier evaluations, evaluations aborted by an escaping
   exception that left their delegate cache behind, the delegate switched off or exchanged):
   after dispatch(o, t) every evaluation answers exactly what a fresh dispatcher with the
   delegate now in force, dispatched with (o, t), answers *)
Theorem session_last_dispatch : forall par d st before o t pops,
  run_session par d st (before ++ Dispatch o t :: map Evaluate pops) =
  run_session par d st before ++ map (evaluate_fresh par o (final_delegate d before) (timer_or_forever t)) pops.
Proof.
  intros. rewrite run_session_app. f_equal.
  cbn [run_session]. rewrite run_session_evaluations. reflexivity.
Qed.

(* an aborted run with an enabled delegate, the delegate switched off, the same population again:
   everybody is evaluated on its own graph (eff_graph None = gr, see delegate_absent) *)
Theorem session_stale_cache_unused : forall par f st pop,
  run_session par (Some f) st [Aborted pop; SetDelegate None; Evaluate pop] =
  [evaluate_fresh par (s_objective st) None (s_timer st) pop].
Proof. reflexivity. Qed.

(* in particular a dispatch without timer means no time limit, even after an expired one *)
Theorem session_timer_reset : forall par d st o1 o2 pop1 pop2,
  run_session par d st [Dispatch o1 (Some (fun _ => true)); Evaluate pop1; Dispatch o2 None; Evaluate pop2] =
  [evaluate_fresh par o1 d (fun _ => true) pop1; evaluate_fresh par o2 d forever_timer pop2].
Proof. reflexivity. Qed.

(* several dispatchers used alternately: the answers of dispatcher j are those of its own session *)
Lemma run_session_step_op : forall par d st s rest,
  run_session par d st (s :: rest) =
  snd (step_op par (d, st) s) ++
  run_session par (fst (fst (step_op par (d, st) s))) (snd (fst (step_op par (d, st) s))) rest.
Proof. intros. destruct s; reflexivity. Qed.

Theorem multi_independent : forall par steps cfg j,
  map snd (filter (fun ja => Nat.eqb (fst ja) j) (run_multi par cfg steps)) =
  run_session (par j) (fst (cfg j)) (snd (cfg j)) (map snd (filter (fun js => Nat.eqb (fst js) j) steps)).
Proof.
  induction steps as [|[i s] steps IH]; intros cfg j; [reflexivity|].
  cbn [run_multi filter fst].
  destruct (step_op (par i) (cfg i) s) as [c' out] eqn:E.
  rewrite filter_app, map_app, IH.
  destruct (Nat.eqb i j) eqn:Eij.
  - apply Nat.eqb_eq in Eij. subst i. cbn [map snd].
    rewrite run_session_step_op. rewrite <- surjective_pairing, E. cbn [fst snd].
    rewrite Nat.eqb_refl. f_equal.
    assert (F : forall out0 : list (res (list ind) * list ev),
              map snd (filter (fun ja : nat * (res (list ind) * list ev) => Nat.eqb (fst ja) j) (map (pair j) out0)) = out0).
    { induction out0 as [|a l IHl]; [reflexivity|]. cbn [map filter fst]. rewrite Nat.eqb_refl. cbn [map snd]. f_equal. exact IHl. }
    apply F.
  - assert (Eji : Nat.eqb j i = false) by (rewrite Nat.eqb_sym; exact Eij). rewrite Eji.
    assert (F : forall out0 : list (res (list ind) * list ev),
              filter (fun ja : nat * (res (list ind) * list ev) => Nat.eqb (fst ja) j) (map (pair i) out0) = []).
    { induction out0 as [|a l IHl]; [reflexivity|]. cbn [map filter fst]. rewrite Eij. exact IHl. }
    rewrite F. reflexivity.
Qed.

(* ------------------------------------------------------------------------------------- *)
(* L. apply_evaluation_results on arbitrary result lists: uid matching, any order            *)
(* ------------------------------------------------------------------------------------- *)
Lemma truthy_pairs_valid : forall rs k r, In (k, r) (truthy_pairs rs) -> valid (r_fit r) = true /\ r_uid r = k.
Proof.
  intros rs k r H. unfold truthy_pairs in H. apply in_flat_map in H. destruct H as [x [_ H]].
  destruct x as [e|]; [|destruct H]. destruct (valid (r_fit e)) eqn:Ev; [|destruct H].
  destruct H as [H|[]]. inversion H; subst. auto.
Qed.

Theorem apply_results_spec : forall inds rs,
  all_invalid inds -> NoDup (map fst (truthy_pairs rs)) ->
  apply_evaluation_results inds rs = Ok (apply_spec inds rs).
Proof.
  intros inds rs Hinv ND. unfold apply_evaluation_results. rewrite (apply_loop_pure _ _ Hinv).
  f_equal. unfold apply_pure, apply_spec. apply flat_map_ext. intros i.
  unfold results_dict. rewrite dict_get_of_pairs.
  rewrite (dict_get_perm _ (uid i) (rev (truthy_pairs rs)) (truthy_pairs rs)).
  - destruct (dict_get (uid i) (truthy_pairs rs)) as [r|] eqn:E; [|reflexivity].
    apply dict_get_In in E. apply truthy_pairs_valid in E. destruct E as [Ev _]. rewrite Ev. reflexivity.
  - eapply Permutation_NoDup; [apply Permutation_map; apply Permutation_rev|exact ND].
  - apply Permutation_sym, Permutation_rev.
Qed.

(* any order of the results - and of invalid, None, missing or foreign ones among them - gives
   the same individuals with the same fitness, in the order of the individuals *)
Theorem apply_results_order_independent : forall inds rs rs',
  all_invalid inds -> NoDup (map fst (truthy_pairs rs)) -> Permutation rs rs' ->
  apply_evaluation_results inds rs' = apply_evaluation_results inds rs.
Proof.
  intros inds rs rs' Hinv ND P.
  assert (PP : Permutation (truthy_pairs rs) (truthy_pairs rs')).
  { unfold truthy_pairs. apply Permutation_flat_map. exact P. }
  assert (ND' : NoDup (map fst (truthy_pairs rs'))).
  { eapply Permutation_NoDup; [apply Permutation_map; exact PP|exact ND]. }
  rewrite (apply_results_spec inds rs Hinv ND), (apply_results_spec inds rs' Hinv ND').
  f_equal. unfold apply_spec. apply flat_map_ext. intros i.
  rewrite (dict_get_perm _ (uid i) _ _ ND PP). reflexivity.
Qed.

Theorem apply_in_scope_iff : forall inds rs,
  apply_in_scope inds rs = true <->
  NoDup (map uid inds) /\ all_invalid inds /\ NoDup (map fst (truthy_pairs rs)).
Proof.
  intros. unfold apply_in_scope, all_invalid. rewrite !andb_true_iff, !nodup_b_iff, forallb_forall.
  split.
  - intros [[H1 H2] H3]. repeat split; auto. intros i Hi. apply negb_true_iff. auto.
  - intros [H1 [H2 H3]]. repeat split; auto. intros i Hi. apply negb_true_iff. auto.
Qed.
