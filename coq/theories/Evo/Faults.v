(* Model for property C07 (evaluation and persistence faults do not derail or silently cut
   short a run).  Definitions only; proofs in Evo/FaultsProofs.v.

   Anchored code (golem/core/optimisers):
     objective/objective.py        Objective.__call__ / to_fitness  (metric exception, None, NaN -> null fitness)
     genetic/evaluation.py         SequentialDispatcher.evaluate_population / apply_evaluation_results
     populational_optimizer.py     optimise (with timer, progressbar; try/except EvaluationAttemptsError),
                                   _update_population, _log_to_history
     random/random_search.py       optimise of the random-search family (`if evaluated:`)
     optimizer.py                  EmptyProgressBar.__exit__, _progressbar
     timer.py                      Timer.__exit__, OptimisationTimer.__exit__
     opt_history_objects/opt_history.py   save_current_results (os.makedirs and the dump inside one try/except)

   Oracles (everything the property quantifies over, or that belongs to other properties):
     objective   : evaluation index -> individual -> outcome
     script      : what the non-modelled code did in one terminating run: the batches handed to the
                   evaluator, which individuals the evolve step assembled into the next population
                   (indices into  evaluated offspring ++ previous population ++ archive, so that
                   "operators only reshuffle", C16, holds by construction), whether it raised, what
                   the archive kept (indices into archive ++ population, C08), the answers of the
                   file system (makedirs / dump) and of the iteration callback.
     A terminating run of `while not stop(): ...` is a finite list of iterations: the list of steps
     IS the stop oracle (end of list = a stop criterion held). *)
From Coq Require Import List Bool Arith Lia.
Import ListNotations.

(* ---------------------------------------------------------------------------------------- *)
(* exceptions as values                                                                      *)
(* ---------------------------------------------------------------------------------------- *)
Inductive exn :=
| EAttempts            (* EvaluationAttemptsError *)
| EOs                  (* OSError family (os.makedirs) *)
| EValue               (* ValueError: individual with valid fitness evaluated again *)
| EInj (n : nat)       (* an error injected into the loop, tagged *)
| EUnknown.

Definition exn_eqb (a b : exn) : bool :=
  match a, b with
  | EAttempts, EAttempts | EOs, EOs | EValue, EValue | EUnknown, EUnknown => true
  | EInj n, EInj m => Nat.eqb n m
  | _, _ => false
  end.

Inductive res (A : Type) := Ok (a : A) | Raise (e : exn).
Arguments Ok {A} a.
Arguments Raise {A} e.

(* ---------------------------------------------------------------------------------------- *)
(* 1. the `with` protocol                                                                    *)
(* ---------------------------------------------------------------------------------------- *)
Inductive cm :=
| OptTimer                      (* OptimisationTimer.__exit__: logs, returns None *)
| BaseTimer (terminated : bool) (* Timer.__exit__: returns self.process_terminated *)
| Tqdm                          (* tqdm.__exit__: closes the bar, returns None *)
| EmptyBar                      (* EmptyProgressBar.__exit__ as it is now: returns False *)
| SwallowBar.                   (* an __exit__ returning True (EmptyProgressBar before e3422a5) *)

Definition exit_truthy (c : cm) : bool :=
  match c with
  | BaseTimer t => t
  | SwallowBar => true
  | OptTimer | Tqdm | EmptyBar => false
  end.

Inductive wres (A : Type) := WDone (a : A) | WSwallowed | WRaised (e : exn).
Arguments WDone {A} a.
Arguments WSwallowed {A}.
Arguments WRaised {A} e.

(* `with c1, c2, ..., cn: body` = `with c1: with c2: ... body`.  When the body raises e the
   __exit__ methods run innermost first, each receiving the exception still in flight; a truthy
   return value suppresses it: the statement then completes normally, WITHOUT a value, and the
   outer managers see no exception. *)
Fixpoint with_ctx {A} (cms : list cm) (body : res A) : wres A :=
  match cms with
  | [] => match body with Ok a => WDone a | Raise e => WRaised e end
  | c :: rest =>
      match with_ctx rest body with
      | WRaised e => if exit_truthy c then WSwallowed else WRaised e
      | r => r
      end
  end.

(* the __exit__ calls in the order they happen, with the exception each one receives *)
Fixpoint exit_calls {A} (cms : list cm) (body : res A) : list (cm * option exn) :=
  match cms with
  | [] => []
  | c :: rest =>
      exit_calls rest body ++
      [(c, match with_ctx rest body with WRaised e => Some e | _ => None end)]
  end.

(* `with self.timer, self._progressbar as pbar` *)
Definition cms_of (show_progress : bool) : list cm :=
  [OptTimer; if show_progress then Tqdm else EmptyBar].

(* `with self.timer:` of the tuners: Timer() without timeout never sets process_terminated *)
Definition base_timer_terminated (has_timeout limit_reached : bool) : bool := has_timeout && limit_reached.

(* ---------------------------------------------------------------------------------------- *)
(* 2a. objective outcomes and the evaluator                                                  *)
(* ---------------------------------------------------------------------------------------- *)
Definition ind := nat.

Inductive outcome :=
| Value                (* all metrics returned real numbers *)
| RaiseExc             (* a metric raised an Exception: Objective.__call__ -> null fitness *)
| NoneValue            (* a metric returned None: to_fitness -> null fitness *)
| NaNValue             (* a metric returned NaN: to_fitness -> null fitness *)
| Escape (e : exn).    (* a metric raised a BaseException that `except Exception` does not catch *)

Definition objective := nat -> ind -> outcome.

Definition mem (x : nat) (l : list nat) : bool := existsb (Nat.eqb x) l.

Fixpoint nodup_b (l : list nat) : bool :=
  match l with
  | [] => true
  | x :: r => negb (mem x r) && nodup_b r
  end.

Record batch := { b_inds : list ind; b_surrogate : bool }.

Record estate := {
  valid : list ind;                 (* individuals holding a valid fitness *)
  idx : nat;                        (* number of objective evaluations so far *)
  evlog : list (ind * outcome);     (* every evaluation, in order *)
  outs : list (list ind) }.         (* what each completed evaluator call returned *)

Fixpoint outcomes (obj : objective) (i : nat) (l : list ind) : list (ind * outcome) :=
  match l with
  | [] => []
  | x :: r => (x, obj i x) :: outcomes obj (S i) r
  end.

(* the list comprehension over evaluate_single stops at the first escaping error *)
Fixpoint cut_escape (evs : list (ind * outcome)) : list (ind * outcome) * option exn :=
  match evs with
  | [] => ([], None)
  | (x, Escape e) :: _ => ([(x, Escape e)], Some e)
  | p :: r => let (l, o) := cut_escape r in (p :: l, o)
  end.

(* evaluation results are put into a dict keyed by uid: the last result of an individual wins *)
Fixpoint last_outcome (evs : list (ind * outcome)) (x : ind) : option outcome :=
  match evs with
  | [] => None
  | (y, o) :: r =>
      match last_outcome r x with
      | Some o' => Some o'
      | None => if Nat.eqb x y then Some o else None
      end
  end.

Definition succeeded (evs : list (ind * outcome)) (x : ind) : bool :=
  match last_outcome evs x with Some Value => true | _ => false end.

(* SequentialDispatcher.evaluate_population:
     split into individuals to evaluate (no valid fitness) and to skip;
     evaluate the former in order (the surrogate dispatcher never calls the objective);
     apply_evaluation_results keeps those whose result is truthy (valid fitness) -
     set_evaluation_result raises ValueError when one individual receives a valid result twice;
     return evaluated + skipped. *)
Definition evaluate (obj : objective) (st : estate) (b : batch) : res (list ind) * estate :=
  let te := filter (fun x => negb (mem x (valid st))) (b_inds b) in
  let sk := filter (fun x => mem x (valid st)) (b_inds b) in
  let evs_all := if b_surrogate b then map (fun x => (x, Value)) te else outcomes obj (idx st) te in
  let evs := fst (cut_escape evs_all) in
  let idx' := if b_surrogate b then idx st else idx st + length evs in
  match snd (cut_escape evs_all) with
  | Some e => (Raise e, {| valid := valid st; idx := idx'; evlog := evlog st ++ evs; outs := outs st |})
  | None =>
      let good := filter (succeeded evs) te in
      if nodup_b good
      then (Ok (good ++ sk),
            {| valid := valid st ++ good; idx := idx'; evlog := evlog st ++ evs; outs := outs st ++ [good ++ sk] |})
      else (Raise EValue,
            {| valid := valid st ++ good; idx := idx'; evlog := evlog st ++ evs; outs := outs st |})
  end.

Fixpoint run_batches (obj : objective) (es : estate) (bs : list batch) (acc : list ind)
  : res (list ind) * estate :=
  match bs with
  | [] => (Ok acc, es)
  | b :: r =>
      match evaluate obj es b with
      | (Ok out, es') => run_batches obj es' r (acc ++ out)
      | (Raise e, es') => (Raise e, es')
      end
  end.

(* ---------------------------------------------------------------------------------------- *)
(* 2b. _update_population / _log_to_history / save_current_results                           *)
(* ---------------------------------------------------------------------------------------- *)
Inductive label := LInitial | LExtended | LFinal | LNone.

Definition label_eqb (a b : label) : bool :=
  match a, b with
  | LInitial, LInitial | LExtended, LExtended | LFinal, LFinal | LNone, LNone => true
  | _, _ => false
  end.

(* `if not os.path.isdir(save_dir): os.makedirs(save_dir)` *)
Inductive mk_ans := MkNotNeeded | MkOk | MkFail.

Record upd := {
  u_arch : list nat;                  (* GenerationKeeper.append: indices into archive ++ population *)
  u_io : option (mk_ans * bool);      (* None: no history_dir; (makedirs answer, whole dump succeeded) *)
  u_cb : option exn }.                (* the iteration callback raises *)

Record lstate := {
  ev : estate;
  pop : list ind;                     (* self.population *)
  arch : list ind;                    (* self.generations.best_individuals *)
  gens : list (label * list ind);     (* history.generations *)
  snaps : list (list ind);            (* history.archive_history *)
  dumped : list nat;                  (* generations completely written to history_dir *)
  keeper_ok : bool }.                 (* monitor: the archive never dropped everything it was shown *)

Definition picks (pool : list ind) (ix : list nat) : list ind :=
  flat_map (fun i => match nth_error pool i with Some x => [x] | None => [] end) ix.

Definition is_nil {A} (l : list A) : bool := match l with [] => true | _ => false end.

Definition with_ev (st : lstate) (es : estate) : lstate :=
  {| ev := es; pop := pop st; arch := arch st; gens := gens st; snaps := snaps st;
     dumped := dumped st; keeper_ok := keeper_ok st |}.

(* OptHistory.save_current_results as it is now (commit 556274f): directory creation AND the dump
   are inside one try/except Exception, so every failure is logged and ignored.
   in_try = false is the earlier code (os.makedirs before the try), kept for the sensitivity lemma.
   Result: (raised?, the whole generation reached the disk). *)
Definition save_current_results (in_try : bool) (io : mk_ans * bool) : res unit * bool :=
  match io with
  | (MkFail, _) => if in_try then (Ok tt, false) else (Raise EOs, false)
  | (_, d) => (Ok tt, d)
  end.

Definition update_population (st : lstate) (p : list ind) (lab : label) (u : upd) : res unit * lstate :=
  (* self.generations.append(p); history.add_to_history; history.add_to_archive_history *)
  let arch' := picks (arch st ++ p) (u_arch u) in
  let ok' := keeper_ok st && (is_nil (arch st ++ p) || negb (is_nil arch')) in
  let num := length (gens st) in
  let mk d := {| ev := ev st; pop := pop st; arch := arch'; gens := gens st ++ [(lab, p)];
                 snaps := snaps st ++ [arch']; dumped := d; keeper_ok := ok' |} in
  let saved := match u_io u with Some io => save_current_results true io | None => (Ok tt, false) end in
  match fst saved with
  | Raise e => (Raise e, mk (dumped st))
  | Ok _ =>
      let d := if snd saved then dumped st ++ [num] else dumped st in
      match u_cb u with
      | Some e => (Raise e, mk d)                        (* self._iteration_callback(p, self) *)
      | None =>
          (Ok tt, {| ev := ev st; pop := p; arch := arch'; gens := gens st ++ [(lab, p)];
                     snaps := snaps st ++ [arch']; dumped := d; keeper_ok := ok' |})
      end
  end.

(* ---------------------------------------------------------------------------------------- *)
(* 2c. the loop                                                                              *)
(* ---------------------------------------------------------------------------------------- *)
Inductive evolve_res :=
| EPop (ix : list nat)     (* next population: indices into offspring ++ population ++ archive *)
| EAttemptsErr             (* ReproductionController.reproduce raised EvaluationAttemptsError *)
| ERaise (e : exn).        (* anything else raised inside _evolve_population *)

Record estep := {
  e_batches : list batch;          (* evaluator calls made by the step, in order *)
  e_res : evolve_res;
  e_label : label;
  e_skip_if_empty : bool;          (* random search: `if evaluated: self._update_best_individuals(...)` *)
  e_upd : upd }.

Inductive step_end := Continue | Break.

Definition run_step (obj : objective) (in_loop : bool) (st : lstate) (s : estep) : res step_end * lstate :=
  match run_batches obj (ev st) (e_batches s) [] with
  | (Raise e, es) => (Raise e, with_ev st es)
  | (Ok offspring, es) =>
      let st1 := with_ev st es in
      match e_res s with
      | ERaise e => (Raise e, st1)
      | EAttemptsErr => if in_loop then (Ok Break, st1) else (Raise EAttempts, st1)
      | EPop ix =>
          let p := picks (offspring ++ pop st ++ arch st) ix in
          if e_skip_if_empty s && is_nil p then (Ok Continue, st1)
          else match update_population st1 p (e_label s) (e_upd s) with
               | (Ok _, st2) => (Ok Continue, st2)
               | (Raise e, st2) => (Raise e, st2)
               end
      end
  end.

Inductive end_reason := StopHeld | TooFew.

(* while not self.stop_optimization(): try: ... except EvaluationAttemptsError: break; update *)
Fixpoint run_loop (obj : objective) (st : lstate) (steps : list estep) : res end_reason * lstate :=
  match steps with
  | [] => (Ok StopHeld, st)
  | s :: r =>
      match run_step obj true st s with
      | (Ok Continue, st') => run_loop obj st' r
      | (Ok Break, st') => (Ok TooFew, st')
      | (Raise e, st') => (Raise e, st')
      end
  end.

Record script := {
  s_initial : batch;               (* evaluator(self.initial_individuals) *)
  s_init_upd : upd;
  s_extend : option estep;         (* _extend_population + evaluator, when the population is too small *)
  s_steps : list estep;            (* the iterations performed before a stop criterion held *)
  s_final_upd : upd }.             (* _update_population(best_individuals, 'final_choices') *)

Definition es0 : estate := {| valid := []; idx := 0; evlog := []; outs := [] |}.
Definition st0 : lstate :=
  {| ev := es0; pop := []; arch := []; gens := []; snaps := []; dumped := []; keeper_ok := true |}.

(* the block inside `with self.timer, self._progressbar as pbar:` *)
Definition body (obj : objective) (s : script) : res end_reason * lstate :=
  match evaluate obj es0 (s_initial s) with
  | (Raise e, es) => (Raise e, with_ev st0 es)
  | (Ok out, es) =>
      match update_population (with_ev st0 es) out LInitial (s_init_upd s) with
      | (Raise e, st1) => (Raise e, st1)
      | (Ok _, st1) =>
          match s_extend s with
          | None => run_loop obj st1 (s_steps s)
          | Some x =>
              match run_step obj false st1 x with
              | (Raise e, st2) => (Raise e, st2)
              | (Ok _, st2) => run_loop obj st2 (s_steps s)
              end
          end
      end
  end.

(* optimise(): the with statement, then (outside it) pbar.close(), the 'final_choices' update
   and the return of the archive's graphs *)
Definition optimise (cms : list cm) (obj : objective) (s : script) : res (list ind) * lstate :=
  match with_ctx cms (fst (body obj s)) with
  | WRaised e => (Raise e, snd (body obj s))
  | WDone _ | WSwallowed =>
      let st := snd (body obj s) in
      match update_population st (arch st) LFinal (s_final_upd s) with
      | (Raise e, st2) => (Raise e, st2)
      | (Ok _, st2) => (Ok (arch st2), st2)
      end
  end.

(* everything a run recorded *)
Definition recorded (st : lstate) : list ind :=
  pop st ++ arch st ++ concat (map snd (gens st)) ++ concat (snaps st).

(* ---------------------------------------------------------------------------------------- *)
(* 3. ReproductionController.reproduce: the attempt loop                                      *)
(* ---------------------------------------------------------------------------------------- *)
(* Oracle: part i size = the individuals reproduce_uncontrolled (selection, crossover, mutation,
   evaluator - which drops what does not evaluate) returns at attempt i when asked for `size`.
   Individuals are uids.  required_valid_ratio = r_num / r_den.  The success-rate window holds
   exact rationals (the code uses binary64; property C16 carries the float-exact model). *)
From Coq Require Import ZArith QArith Qround.

Record rparams := {
  r_target : nat;        (* parameters.pop_size *)
  r_num : nat; r_den : nat;   (* parameters.required_valid_ratio *)
  r_min_pop : nat;       (* MIN_POP_SIZE = 5 *)
  r_attempts : nat }.    (* EVALUATION_ATTEMPTS_NUMBER = 5 *)

Inductive rres := RetOk (l : list ind) | RaiseAttempts.

Definition qnat (n : nat) : Q := inject_Z (Z.of_nat n).
(* float(np.mean(window)) *)
Definition mean (w : list Q) : Q := (fold_right Qplus 0 w / qnat (length w))%Q.
(* min(len(population), max(MIN_POP_SIZE, int(residual / mean_success_rate))) *)
Definition req_size (p : rparams) (pop_len n_collected : nat) (w : list Q) : nat :=
  let q := (qnat (r_target p - n_collected) / mean w)%Q in
  Nat.min pop_len (Nat.max (r_min_pop p) (Z.to_nat (Qfloor q))).
(* np.roll(window, 1); window[0] = ratio *)
Definition push_window (x : Q) (w : list Q) : list Q :=
  match w with [] => [] | _ => x :: removelast w end.

(* collected.update({ind.uid: ind ...}): known uids keep their place, new ones are appended *)
Fixpoint dict_update (d l : list ind) : list ind :=
  match l with
  | [] => d
  | x :: r => dict_update (if mem x d then d else d ++ [x]) r
  end.

(* len(collected) >= target * required_valid_ratio ; ... * ratio * 0.5 *)
Definition enough (p : rparams) (n : nat) : bool := r_target p * r_num p <=? n * r_den p.
Definition enough_min (p : rparams) (n : nat) : bool := r_target p * r_num p <=? 2 * n * r_den p.

Section Reproduce.
  Variable p : rparams.
  Variable pop_len : nat.
  Variable part : nat -> nat -> list ind.

  Fixpoint rloop (fuel i : nat) (collected : list ind) (w : list Q) : rres * list nat :=
    match fuel with
    | O => (* for ... else *)
        (if enough_min p (length collected) then RetOk collected else RaiseAttempts, [])
    | S f =>
        let rs := req_size p pop_len (length collected) w in
        let got := part i rs in
        let collected' := dict_update collected got in
        let w' := if r_min_pop p <=? length got
                  then push_window (qnat (length got) / qnat rs)%Q w else w in
        if enough p (length collected') then (RetOk (firstn (r_target p) collected'), [rs])
        else let (r, ss) := rloop f (S i) collected' w' in (r, rs :: ss)
    end.

  Definition reproduce (w : list Q) : rres * list nat := rloop (r_attempts p) 0 [] w.

  (* everything the evaluator delivered over the attempts made, deduplicated *)
  Fixpoint collect_all (i : nat) (ss : list nat) (c : list ind) : list ind :=
    match ss with
    | [] => c
    | s :: ss' => collect_all (S i) ss' (dict_update c (part i s))
    end.
End Reproduce.

(* what the main loop sees of one call *)
Definition evolve_of_reproduce (r : rres) (assemble : list ind -> list nat) : evolve_res :=
  match r with RetOk l => EPop (assemble l) | RaiseAttempts => EAttemptsErr end.

(* ---------------------------------------------------------------------------------------- *)
(* well-behaved oracles (hypotheses of the theorems, as decidable predicates)                 *)
(* ---------------------------------------------------------------------------------------- *)
Definition upd_calm (u : upd) : bool :=
  match u_cb u with Some _ => false | None => true end.

Definition step_calm (s : estep) : bool :=
  forallb (fun b => nodup_b (b_inds b)) (e_batches s) &&
  match e_res s with ERaise _ => false | _ => true end &&
  upd_calm (e_upd s).

Definition not_attempts (s : estep) : bool :=
  match e_res s with EAttemptsErr => false | _ => true end.

Definition calm (s : script) : bool :=
  nodup_b (b_inds (s_initial s)) && upd_calm (s_init_upd s) &&
  match s_extend s with Some x => step_calm x && not_attempts x | None => true end &&
  forallb step_calm (s_steps s) && upd_calm (s_final_upd s).

(* the objective fails only in the ways the property lists *)
Definition metric_faults_only (obj : objective) : Prop := forall i x e, obj i x <> Escape e.

(* at least one initial graph evaluates *)
Definition initial_evaluable (obj : objective) (s : script) : Prop :=
  b_surrogate (s_initial s) = false /\
  exists k x, nth_error (b_inds (s_initial s)) k = Some x /\ obj k x = Value.

(* all file-system answers replaced by io *)
Definition set_dump_upd (io : option (mk_ans * bool)) (u : upd) : upd :=
  {| u_arch := u_arch u; u_io := io; u_cb := u_cb u |}.
Definition set_dump_step (d : option (mk_ans * bool)) (s : estep) : estep :=
  {| e_batches := e_batches s; e_res := e_res s; e_label := e_label s;
     e_skip_if_empty := e_skip_if_empty s; e_upd := set_dump_upd d (e_upd s) |}.
Definition set_dumps (d : option (mk_ans * bool)) (s : script) : script :=
  {| s_initial := s_initial s; s_init_upd := set_dump_upd d (s_init_upd s);
     s_extend := option_map (set_dump_step d) (s_extend s);
     s_steps := map (set_dump_step d) (s_steps s);
     s_final_upd := set_dump_upd d (s_final_upd s) |}.

(* the state without the record of what reached the disk *)
Definition forget_dumped (st : lstate) : lstate :=
  {| ev := ev st; pop := pop st; arch := arch st; gens := gens st; snaps := snaps st;
     dumped := []; keeper_ok := keeper_ok st |}.

(* ---------------------------------------------------------------------------------------- *)
(* correspondence: one REAL run                                                              *)
(* ---------------------------------------------------------------------------------------- *)
Inductive oout := OOk | ORaise (e : exn).

Record case := {
  c_replay : bool;                     (* false: evaluator calls not replayable (parallel dispatcher) *)
  c_show : bool;                       (* requirements.show_progress *)
  c_sched : list outcome;              (* injected outcome per evaluation index; Value beyond *)
  c_script : script;                   (* oracle answers reconstructed from the recorded run *)
  (* observed *)
  c_out : oout;
  c_gens : list (label * list ind);
  c_snaps : list (list ind);
  c_result : list ind;
  c_outs : list (list ind);
  c_nevals : nat;
  c_dumped : list nat;
  c_pops : list (list ind);            (* populations handed to the iteration callback *)
  c_fired : option exn;                (* an injected loop error actually fired *)
  c_initial_ok : bool;                 (* objective log: some evaluation of the initial phase succeeded *)
  c_succeeded : list ind;              (* objective log: individuals with a successful evaluation *)
  c_bad_class : list ind }.            (* recorded individuals whose graph is of the failing class *)

Definition sched_obj (sched : list outcome) : objective := fun i _ => nth i sched Value.

Fixpoint list_eqb (a b : list nat) : bool :=
  match a, b with
  | [], [] => true
  | x :: a', y :: b' => Nat.eqb x y && list_eqb a' b'
  | _, _ => false
  end.

Fixpoint lists_eqb (a b : list (list nat)) : bool :=
  match a, b with
  | [], [] => true
  | x :: a', y :: b' => list_eqb x y && lists_eqb a' b'
  | _, _ => false
  end.

Fixpoint gens_eqb (a b : list (label * list nat)) : bool :=
  match a, b with
  | [], [] => true
  | (l, x) :: a', (m, y) :: b' => label_eqb l m && list_eqb x y && gens_eqb a' b'
  | _, _ => false
  end.

Definition agree (c : case) : bool :=
  negb (c_replay c) ||
  (let r := optimise (cms_of (c_show c)) (sched_obj (c_sched c)) (c_script c) in
   let st := snd r in
   match fst r, c_out c with
   | Ok l, OOk => list_eqb l (c_result c)
   | Raise e, ORaise e' => exn_eqb e e'
   | _, _ => false
   end
   && gens_eqb (gens st) (c_gens c) && lists_eqb (snaps st) (c_snaps c)
   && lists_eqb (outs (ev st)) (c_outs c) && Nat.eqb (idx (ev st)) (c_nevals c)
   && list_eqb (dumped st) (c_dumped c) && keeper_ok st).

(* the property's clauses on the OBSERVED behaviour (no reference to the model's answer) *)
Definition observed_recorded (c : case) : list ind :=
  concat (map snd (c_gens c)) ++ concat (c_snaps c) ++ concat (c_pops c) ++ c_result c.

Definition holds_b (c : case) : bool :=
  (* no individual whose evaluation failed is in a population, the history or the result *)
  forallb (fun x => mem x (c_succeeded c)) (observed_recorded c) && is_nil (c_bad_class c) &&
  match c_fired c with
  | Some e =>
      (* an error raised inside the loop reaches the caller *)
      match c_out c with ORaise e' => exn_eqb e e' | OOk => false end
  | None =>
      match c_out c with
      | OOk => negb (c_initial_ok c) || negb (is_nil (c_result c))
      | ORaise EAttempts => false          (* too few offspring: stop, do not raise *)
      | ORaise _ => negb (c_initial_ok c)  (* nothing was injected into the loop: the run must return *)
      end
  end.
