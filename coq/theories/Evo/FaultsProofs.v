(* Proofs about the model of Evo/Faults.v (property C07). *)
From Coq Require Import List Bool Arith Lia.
From GolemV Require Import Evo.Faults.
Import ListNotations.

(* ---------------------------------------------------------------------------------------- *)
(* 1. the with protocol                                                                      *)
(* ---------------------------------------------------------------------------------------- *)
Definition all_falsy (cms : list cm) : bool := forallb (fun c => negb (exit_truthy c)) cms.

Lemma with_ctx_ok {A} cms (a : A) : with_ctx cms (Ok a) = WDone a.
Proof. induction cms as [|c r IH]; simpl; [reflexivity|]. rewrite IH. reflexivity. Qed.

Lemma with_ctx_falsy {A} cms e : all_falsy cms = true -> @with_ctx A cms (Raise e) = WRaised e.
Proof.
  induction cms as [|c r IH]; simpl; intros H; [reflexivity|].
  apply andb_true_iff in H. destruct H as [Hc Hr]. rewrite (IH Hr).
  destruct (exit_truthy c); [discriminate|reflexivity].
Qed.

Lemma with_ctx_raise_cases {A} cms e :
  @with_ctx A cms (Raise e) = WRaised e \/ @with_ctx A cms (Raise e) = WSwallowed.
Proof.
  induction cms as [|c r IH]; simpl; [left; reflexivity|].
  destruct IH as [-> | ->]; [destruct (exit_truthy c); auto | auto].
Qed.

(* one truthy __exit__ anywhere in the statement discards the error *)
Lemma with_ctx_swallow {A} cms e c :
  In c cms -> exit_truthy c = true -> @with_ctx A cms (Raise e) = WSwallowed.
Proof.
  induction cms as [|d r IH]; simpl; intros HI HT; [contradiction|].
  destruct HI as [->|HI].
  - destruct (with_ctx_raise_cases (A:=A) r e) as [-> | ->]; [rewrite HT|]; reflexivity.
  - rewrite (IH HI HT). reflexivity.
Qed.

Lemma with_ctx_not_raised_other {A} cms (b : res A) e :
  with_ctx cms b = WRaised e -> b = Raise e.
Proof.
  revert e. induction cms as [|c r IH]; simpl; intros e.
  - destruct b; intros H; inversion H; reflexivity.
  - destruct (with_ctx r b) eqn:E; try discriminate.
    destruct (exit_truthy c); [discriminate|]. intros H; inversion H; subst. apply IH. reflexivity.
Qed.

Lemma cms_of_falsy show : all_falsy (cms_of show) = true.
Proof. destruct show; reflexivity. Qed.

(* the manager that receives the exception first is the innermost one *)
Lemma exit_calls_innermost_first {A} c cms e :
  exists rest, @exit_calls A (cms ++ [c]) (Raise e) = (c, Some e) :: rest.
Proof.
  induction cms as [|d r IH]; simpl.
  - eexists. reflexivity.
  - destruct IH as [rest ->]. eexists. reflexivity.
Qed.

(* Timer() without a timeout (the tuners' `with self.timer:`) never suppresses *)
Lemma base_timer_without_timeout reached : exit_truthy (BaseTimer (base_timer_terminated false reached)) = false.
Proof. reflexivity. Qed.

Lemma base_timer_swallows_when_terminated {A} e :
  @with_ctx A [BaseTimer (base_timer_terminated true true)] (Raise e) = WSwallowed.
Proof. reflexivity. Qed.

(* ---------------------------------------------------------------------------------------- *)
(* 2. evaluator                                                                              *)
(* ---------------------------------------------------------------------------------------- *)
Lemma mem_In x l : mem x l = true <-> In x l.
Proof.
  unfold mem. rewrite existsb_exists. split.
  - intros [y [Hy E]]. apply Nat.eqb_eq in E. subst. exact Hy.
  - intros H. exists x. split; [exact H|apply Nat.eqb_refl].
Qed.

Lemma mem_false x l : mem x l = false <-> ~ In x l.
Proof.
  split; intros H.
  - intros C. apply mem_In in C. congruence.
  - destruct (mem x l) eqn:E; [apply mem_In in E; contradiction|reflexivity].
Qed.

Lemma nodup_b_NoDup l : nodup_b l = true <-> NoDup l.
Proof.
  induction l as [|x r IH]; simpl.
  - split; [constructor|reflexivity].
  - rewrite andb_true_iff, negb_true_iff, mem_false, IH. split.
    + intros [A B]. constructor; assumption.
    + intros H. inversion H; subst. split; assumption.
Qed.

Lemma last_outcome_app a b x :
  last_outcome (a ++ b) x = match last_outcome b x with Some o => Some o | None => last_outcome a x end.
Proof.
  induction a as [|[y o] r IH]; simpl.
  - destruct (last_outcome b x); reflexivity.
  - rewrite IH. destruct (last_outcome b x); [reflexivity|]. reflexivity.
Qed.

Lemma last_outcome_notin evs x : ~ In x (map fst evs) -> last_outcome evs x = None.
Proof.
  induction evs as [|[y o] r IH]; simpl; intros H; [reflexivity|].
  rewrite IH by tauto. destruct (Nat.eqb x y) eqn:E; [|reflexivity].
  apply Nat.eqb_eq in E. subst. tauto.
Qed.

Lemma outcomes_fst obj i l : map fst (outcomes obj i l) = l.
Proof. revert i. induction l as [|x r IH]; simpl; intros i; [reflexivity|]. rewrite IH. reflexivity. Qed.

Lemma outcomes_length obj i l : length (outcomes obj i l) = length l.
Proof. rewrite <- (outcomes_fst obj i l) at 2. rewrite map_length. reflexivity. Qed.

Lemma cut_escape_incl evs : incl (map fst (fst (cut_escape evs))) (map fst evs).
Proof.
  induction evs as [|[x o] r IH]; simpl; [apply incl_refl|].
  destruct o; try (destruct (cut_escape r) as [l oo]; simpl in *; apply incl_cons;
                   [left; reflexivity|apply incl_tl; exact IH]).
  simpl. apply incl_cons; [left; reflexivity|intros y []].
Qed.

Lemma cut_escape_none evs : snd (cut_escape evs) = None -> fst (cut_escape evs) = evs.
Proof.
  induction evs as [|[x o] r IH]; simpl; [reflexivity|].
  destruct o; try (destruct (cut_escape r) as [l oo]; simpl in *; intros H; rewrite (IH H); reflexivity).
  simpl. discriminate.
Qed.

Lemma cut_escape_no_escape evs :
  (forall x e, ~ In (x, Escape e) evs) -> snd (cut_escape evs) = None.
Proof.
  induction evs as [|[x o] r IH]; simpl; intros H; [reflexivity|].
  assert (Hr : forall x e, ~ In (x, Escape e) r) by (intros y e C; apply (H y e); right; exact C).
  destruct o; try (destruct (cut_escape r) as [l oo]; simpl in *; apply IH; exact Hr).
  exfalso. apply (H x e). left. reflexivity.
Qed.

Definition ev_inv (es : estate) : Prop :=
  forall x, In x (valid es) -> last_outcome (evlog es) x = Some Value.

Lemma succeeded_last evs x : succeeded evs x = true -> last_outcome evs x = Some Value.
Proof.
  unfold succeeded. destruct (last_outcome evs x) as [[]|]; try discriminate. reflexivity.
Qed.

Section Evaluate.
  Variable obj : objective.

  Lemma evaluate_spec st b :
    ev_inv st ->
    let r := evaluate obj st b in
    ev_inv (snd r) /\ incl (valid st) (valid (snd r)) /\
    (forall out, fst r = Ok out -> incl out (valid (snd r))).
  Proof.
    intros I. unfold evaluate.
    set (te := filter (fun x => negb (mem x (valid st))) (b_inds b)).
    set (sk := filter (fun x => mem x (valid st)) (b_inds b)).
    set (evs_all := if b_surrogate b then map (fun x => (x, Value)) te else outcomes obj (idx st) te).
    assert (Hall : map fst evs_all = te).
    { unfold evs_all. destruct (b_surrogate b); [|apply outcomes_fst].
      rewrite map_map. simpl. apply map_id. }
    set (evs := fst (cut_escape evs_all)).
    assert (Hevs : forall x, In x (valid st) -> ~ In x (map fst evs)).
    { intros x Hx C. pose proof (cut_escape_incl evs_all x C) as C2. clear C. assert (C : In x te) by (rewrite <- Hall; exact C2). unfold te in C.
      apply filter_In in C. destruct C as [_ C]. apply negb_true_iff, mem_false in C. contradiction. }
    assert (Hold : forall x, In x (valid st) -> last_outcome (evlog st ++ evs) x = Some Value).
    { intros x Hx. rewrite last_outcome_app, (last_outcome_notin evs x (Hevs x Hx)). apply I, Hx. }
    assert (Hgood : forall x, In x (filter (succeeded evs) te) -> last_outcome (evlog st ++ evs) x = Some Value).
    { intros x Hx. apply filter_In in Hx. destruct Hx as [_ Hx]. apply succeeded_last in Hx.
      rewrite last_outcome_app, Hx. reflexivity. }
    assert (Hsk : incl sk (valid st)).
    { intros x Hx. apply filter_In in Hx. destruct Hx as [_ Hx]. apply mem_In, Hx. }
    destruct (snd (cut_escape evs_all)) eqn:Esc; simpl.
    - split; [|split].
      + intros x Hx. simpl in *. apply Hold, Hx.
      + apply incl_refl.
      + intros out H. discriminate.
    - assert (Inv' : forall x, In x (valid st ++ filter (succeeded evs) te) ->
                               last_outcome (evlog st ++ evs) x = Some Value).
      { intros x Hx. apply in_app_or in Hx. destruct Hx; [apply Hold|apply Hgood]; assumption. }
      destruct (nodup_b (filter (succeeded evs) te)); simpl.
      + split; [exact Inv'|]. split; [apply incl_appl, incl_refl|].
        intros out H. inversion H; subst. apply incl_app; [apply incl_appr, incl_refl|].
        apply incl_appl, Hsk.
      + split; [exact Inv'|]. split; [apply incl_appl, incl_refl|]. intros out H. discriminate.
  Qed.

  Lemma run_batches_spec bs : forall es acc,
    ev_inv es -> incl acc (valid es) ->
    let r := run_batches obj es bs acc in
    ev_inv (snd r) /\ incl (valid es) (valid (snd r)) /\
    (forall out, fst r = Ok out -> incl out (valid (snd r))).
  Proof.
    induction bs as [|b r IH]; intros es acc I A; simpl.
    - split; [exact I|]. split; [apply incl_refl|]. intros out H. inversion H; subst. exact A.
    - pose proof (evaluate_spec es b I) as [I' [M O]].
      destruct (evaluate obj es b) as [[out|e] es'] eqn:E; simpl in *.
      + assert (A' : incl (acc ++ out) (valid es')).
        { apply incl_app; [eapply incl_tran; [exact A|exact M]|apply O; reflexivity]. }
        destruct (IH es' (acc ++ out) I' A') as [I2 [M2 O2]].
        split; [exact I2|]. split; [eapply incl_tran; [exact M|exact M2]|exact O2].
      + split; [exact I'|]. split; [exact M|]. intros out H. discriminate.
  Qed.
End Evaluate.

(* ---------------------------------------------------------------------------------------- *)
(* 3. loop invariant: everything recorded passed the evaluator                                *)
(* ---------------------------------------------------------------------------------------- *)
Definition inv (st : lstate) : Prop := ev_inv (ev st) /\ incl (recorded st) (valid (ev st)).

Lemma picks_incl pool ix : incl (picks pool ix) pool.
Proof.
  intros x H. unfold picks in H. apply in_flat_map in H. destruct H as [i [_ H]].
  destruct (nth_error pool i) eqn:E; [|contradiction].
  destruct H as [<-|[]]. eapply nth_error_In, E.
Qed.

Lemma recorded_parts st x :
  In x (recorded st) <->
  In x (pop st) \/ In x (arch st) \/ (exists g, In g (gens st) /\ In x (snd g)) \/ (exists s, In s (snaps st) /\ In x s).
Proof.
  unfold recorded. rewrite !in_app_iff, !in_concat. split.
  - intros [H|[H|[[l [Hl Hx]]|[l [Hl Hx]]]]]; auto.
    + apply in_map_iff in Hl. destruct Hl as [g [<- Hg]]. right; right; left. exists g. auto.
    + right; right; right. exists l. auto.
  - intros [H|[H|[[g [Hg Hx]]|[s [Hs Hx]]]]]; auto.
    + right; right; left. exists (snd g). split; [apply in_map, Hg|exact Hx].
    + right; right; right. exists s. auto.
Qed.

Lemma with_ev_recorded st es : recorded (with_ev st es) = recorded st.
Proof. reflexivity. Qed.

Lemma inv_with_ev st es :
  inv st -> ev_inv es -> incl (valid (ev st)) (valid es) -> inv (with_ev st es).
Proof.
  intros [_ R] I M. split; [exact I|]. simpl. rewrite with_ev_recorded.
  eapply incl_tran; [exact R|exact M].
Qed.

Lemma update_population_inv st p lab u :
  inv st -> incl p (valid (ev st)) ->
  inv (snd (update_population st p lab u)) /\ ev (snd (update_population st p lab u)) = ev st.
Proof.
  intros [I R] P.
  assert (HA : incl (picks (arch st ++ p) (u_arch u)) (valid (ev st))).
  { eapply incl_tran; [apply picks_incl|]. apply incl_app; [|exact P].
    intros x Hx. apply R, recorded_parts. auto. }
  assert (Hrec : forall popx d k,
            incl popx (valid (ev st)) ->
            inv {| ev := ev st; pop := popx; arch := picks (arch st ++ p) (u_arch u);
                   gens := gens st ++ [(lab, p)]; snaps := snaps st ++ [picks (arch st ++ p) (u_arch u)];
                   dumped := d; keeper_ok := k |}).
  { intros popx d k Hp. split; [exact I|]. intros x Hx. apply recorded_parts in Hx. simpl in Hx.
    destruct Hx as [H|[H|[[g [Hg Hx]]|[s [Hs Hx]]]]].
    - apply Hp, H.
    - apply HA, H.
    - apply in_app_or in Hg. destruct Hg as [Hg|[<-|[]]].
      + apply R, recorded_parts. right; right; left. exists g. auto.
      + apply P, Hx.
    - apply in_app_or in Hs. destruct Hs as [Hs|[<-|[]]].
      + apply R, recorded_parts. right; right; right. exists s. auto.
      + apply HA, Hx. }
  assert (Hpop : incl (pop st) (valid (ev st))).
  { intros x Hx. apply R, recorded_parts. auto. }
  unfold update_population.
  destruct (fst (match u_io u with Some io => save_current_results true io | None => (Ok tt, false) end)).
  - destruct (u_cb u); simpl; (split; [apply Hrec; assumption|reflexivity]).
  - simpl. split; [apply Hrec; assumption|reflexivity].
Qed.

Section Loop.
  Variable obj : objective.

  Lemma run_step_inv in_loop st s : inv st -> inv (snd (run_step obj in_loop st s)).
  Proof.
    intros [I R]. unfold run_step.
    pose proof (run_batches_spec obj (e_batches s) (ev st) [] I (incl_nil_l _)) as [I' [M O]].
    destruct (run_batches obj (ev st) (e_batches s) []) as [[off|e] es] eqn:E; simpl in *.
    - assert (V1 : inv (with_ev st es)) by (apply inv_with_ev; [split|idtac|idtac]; assumption).
      destruct (e_res s) as [ix| |e].
      + set (p := picks (off ++ pop st ++ arch st) ix).
        assert (P : incl p (valid es)).
        { eapply incl_tran; [apply picks_incl|]. apply incl_app; [apply O; reflexivity|].
          apply incl_app; intros x Hx; apply M, R, recorded_parts; auto. }
        destruct (e_skip_if_empty s && is_nil p); [exact V1|].
        pose proof (update_population_inv (with_ev st es) p (e_label s) (e_upd s) V1 P) as [V2 _].
        destruct (update_population (with_ev st es) p (e_label s) (e_upd s)) as [[u|e] st2]; exact V2.
      + destruct in_loop; exact V1.
      + exact V1.
    - apply inv_with_ev; [split|idtac|idtac]; assumption.
  Qed.

  Lemma run_loop_inv steps : forall st, inv st -> inv (snd (run_loop obj st steps)).
  Proof.
    induction steps as [|s r IH]; intros st V; simpl; [exact V|].
    pose proof (run_step_inv true st s V) as V'.
    destruct (run_step obj true st s) as [[[|]|e] st']; simpl in *; [apply IH, V'|exact V'|exact V'].
  Qed.

  Lemma es0_inv : ev_inv es0.
  Proof. intros x []. Qed.

  Lemma st0_inv : inv st0.
  Proof. split; [apply es0_inv|]. intros x []. Qed.

  Lemma body_inv s : inv (snd (body obj s)).
  Proof.
    unfold body.
    pose proof (evaluate_spec obj es0 (s_initial s) es0_inv) as [I [M O]].
    destruct (evaluate obj es0 (s_initial s)) as [[out|e] es] eqn:E; simpl in *.
    - assert (V0 : inv (with_ev st0 es)) by (apply inv_with_ev; [apply st0_inv|exact I|exact M]).
      pose proof (update_population_inv (with_ev st0 es) out LInitial (s_init_upd s) V0 (O out eq_refl)) as [V1 _].
      destruct (update_population (with_ev st0 es) out LInitial (s_init_upd s)) as [[u|e] st1]; [|exact V1].
      destruct (s_extend s) as [x|]; [|apply run_loop_inv, V1].
      pose proof (run_step_inv false st1 x V1) as V2.
      destruct (run_step obj false st1 x) as [[u2|e] st2]; [apply run_loop_inv, V2|exact V2].
    - apply inv_with_ev; [apply st0_inv|exact I|exact M].
  Qed.

  Lemma optimise_inv cms s : inv (snd (optimise cms obj s)).
  Proof.
    unfold optimise. pose proof (body_inv s) as V.
    assert (F : inv (snd (match update_population (snd (body obj s)) (arch (snd (body obj s))) LFinal (s_final_upd s) with
                          | (Raise e, st2) => (Raise e, st2)
                          | (Ok _, st2) => (Ok (arch st2), st2)
                          end))).
    { assert (P : incl (arch (snd (body obj s))) (valid (ev (snd (body obj s))))).
      { destruct V as [_ R]. intros x Hx. apply R, recorded_parts. auto. }
      pose proof (update_population_inv _ _ LFinal (s_final_upd s) V P) as [V2 _].
      destruct (update_population (snd (body obj s)) (arch (snd (body obj s))) LFinal (s_final_upd s)) as [[u|e] st2]; exact V2. }
    destruct (with_ctx cms (fst (body obj s))); [exact F|exact F|exact V].
  Qed.

  Lemma optimise_result_arch cms s l :
    fst (optimise cms obj s) = Ok l -> l = arch (snd (optimise cms obj s)).
  Proof.
    unfold optimise. destruct (with_ctx cms (fst (body obj s))).
    - destruct (update_population _ _ LFinal (s_final_upd s)) as [[u|e] st2]; simpl; intros H; inversion H; reflexivity.
    - destruct (update_population _ _ LFinal (s_final_upd s)) as [[u|e] st2]; simpl; intros H; inversion H; reflexivity.
    - simpl. discriminate.
  Qed.

  (* T1 (invariant part): in every run - whatever the failure pattern, the other oracles, the
     context managers and the way the run ends - every individual in the population, the archive,
     a generation, an archive snapshot or the result has Value as the outcome of its last
     evaluation: no individual whose evaluation failed is recorded *)
  Theorem recorded_evaluated cms s x :
    let r := optimise cms obj s in
    (In x (recorded (snd r)) \/ exists l, fst r = Ok l /\ In x l) ->
    last_outcome (evlog (ev (snd r))) x = Some Value.
  Proof.
    intros r H. destruct (optimise_inv cms s) as [I R]. fold r in I, R.
    apply I, R. destruct H as [H|[l [E Hx]]]; [exact H|].
    apply optimise_result_arch in E. fold r in E. subst l. apply recorded_parts. auto.
  Qed.
End Loop.

(* ---------------------------------------------------------------------------------------- *)
(* 4. progress: metric faults never make the run raise or end empty                          *)
(* ---------------------------------------------------------------------------------------- *)
Lemma filter_all {A} (f : A -> bool) l : (forall x, In x l -> f x = true) -> filter f l = l.
Proof.
  induction l as [|x r IH]; simpl; intros H; [reflexivity|].
  rewrite (H x (or_introl eq_refl)), IH; [reflexivity|]. intros y Hy. apply H. right. exact Hy.
Qed.

Lemma NoDup_filter {A} (f : A -> bool) l : NoDup l -> NoDup (filter f l).
Proof.
  induction 1 as [|x r Hx ND IH]; simpl; [constructor|].
  destruct (f x); [constructor; [|exact IH]|exact IH].
  intros C. apply filter_In in C. tauto.
Qed.

Lemma last_outcome_outcomes obj l : forall i k x,
  NoDup l -> nth_error l k = Some x -> last_outcome (outcomes obj i l) x = Some (obj (i + k) x).
Proof.
  induction l as [|y r IH]; intros i k x ND H; [destruct k; discriminate|].
  inversion ND as [|? ? Hy NDr]; subst. simpl. destruct k as [|k]; simpl in H.
  - inversion H; subst. rewrite last_outcome_notin by (rewrite outcomes_fst; exact Hy).
    rewrite Nat.eqb_refl, Nat.add_0_r. reflexivity.
  - rewrite (IH (S i) k x NDr H). f_equal. f_equal. lia.
Qed.

Definition mono (st st' : lstate) : Prop :=
  keeper_ok st' = true -> keeper_ok st = true /\ (arch st <> [] -> arch st' <> []).

Lemma mono_refl st : mono st st.
Proof. intros H. auto. Qed.

Lemma mono_trans a b c : mono a b -> mono b c -> mono a c.
Proof. intros H1 H2 K. destruct (H2 K) as [Kb Ab]. destruct (H1 Kb) as [Ka Aa]. auto. Qed.

Lemma mono_with_ev st es : mono st (with_ev st es).
Proof. intros K. simpl in *. auto. Qed.

Lemma is_nil_false {A} (l : list A) : is_nil l = false <-> l <> [].
Proof. destruct l; simpl; split; congruence. Qed.

Lemma update_mono st p lab u :
  let st' := snd (update_population st p lab u) in
  keeper_ok st' = true -> keeper_ok st = true /\ (arch st ++ p <> [] -> arch st' <> []).
Proof.
  unfold update_population.
  assert (G : forall k, k = keeper_ok st && (is_nil (arch st ++ p) || negb (is_nil (picks (arch st ++ p) (u_arch u)))) ->
              k = true -> keeper_ok st = true /\ (arch st ++ p <> [] -> picks (arch st ++ p) (u_arch u) <> [])).
  { intros k -> H. apply andb_true_iff in H. destruct H as [K H]. split; [exact K|].
    intros NE. apply is_nil_false in NE. rewrite NE in H. simpl in H.
    apply negb_true_iff, is_nil_false in H. exact H. }
  destruct (fst (match u_io u with Some io => save_current_results true io | None => (Ok tt, false) end)).
  - destruct (u_cb u); simpl; apply G; reflexivity.
  - simpl. apply G; reflexivity.
Qed.

Lemma update_mono' st p lab u : mono st (snd (update_population st p lab u)).
Proof.
  intros K. destruct (update_mono st p lab u K) as [K0 A]. split; [exact K0|].
  intros NE. apply A. destruct (arch st); [congruence|discriminate].
Qed.

Lemma update_ok st p lab u : upd_calm u = true -> fst (update_population st p lab u) = Ok tt.
Proof.
  unfold upd_calm, update_population. intros H.
  destruct (u_cb u); [discriminate|].
  destruct (u_io u) as [[[] d]|]; reflexivity.
Qed.

(* the part of update_population that does not depend on how it ends *)
Lemma update_gens st p lab u :
  gens (snd (update_population st p lab u)) = gens st ++ [(lab, p)] /\
  ev (snd (update_population st p lab u)) = ev st.
Proof.
  unfold update_population.
  destruct (fst (match u_io u with Some io => save_current_results true io | None => (Ok tt, false) end));
    [destruct (u_cb u)|]; simpl; auto.
Qed.

Section Progress.
  Variable obj : objective.
  Hypothesis NoEsc : metric_faults_only obj.

  Lemma evaluate_ok st b : nodup_b (b_inds b) = true -> exists out, fst (evaluate obj st b) = Ok out.
  Proof.
    intros ND. apply nodup_b_NoDup in ND. unfold evaluate.
    set (te := filter (fun x => negb (mem x (valid st))) (b_inds b)).
    set (evs_all := if b_surrogate b then map (fun x => (x, Value)) te else outcomes obj (idx st) te).
    assert (E : snd (cut_escape evs_all) = None).
    { apply cut_escape_no_escape. intros x e C. unfold evs_all in C. destruct (b_surrogate b).
      - apply in_map_iff in C. destruct C as [y [C _]]. discriminate.
      - clear -C NoEsc. revert C. generalize (idx st). induction te as [|y r IH]; simpl; intros i C; [exact C|].
        destruct C as [C|C]; [inversion C; eapply NoEsc; eauto|eapply IH, C]. }
    rewrite E.
    assert (N : nodup_b (filter (succeeded (fst (cut_escape evs_all))) te) = true).
    { apply nodup_b_NoDup. apply NoDup_filter. unfold te. apply NoDup_filter. exact ND. }
    rewrite N. eexists. reflexivity.
  Qed.

  Lemma run_batches_ok bs : forall es acc,
    forallb (fun b => nodup_b (b_inds b)) bs = true -> exists out, fst (run_batches obj es bs acc) = Ok out.
  Proof.
    induction bs as [|b r IH]; intros es acc H; simpl; [eexists; reflexivity|].
    apply andb_true_iff in H. destruct H as [Hb Hr].
    destruct (evaluate_ok es b Hb) as [out E].
    destruct (evaluate obj es b) as [[o|e] es']; simpl in E; [|discriminate]. apply IH, Hr.
  Qed.

  Lemma run_step_mono in_loop st s : mono st (snd (run_step obj in_loop st s)).
  Proof.
    unfold run_step. destruct (run_batches obj (ev st) (e_batches s) []) as [[off|e] es]; simpl.
    - destruct (e_res s) as [ix| |e].
      + destruct (e_skip_if_empty s && is_nil (picks (off ++ pop st ++ arch st) ix)); [apply mono_with_ev|].
        pose proof (update_mono' (with_ev st es) (picks (off ++ pop st ++ arch st) ix) (e_label s) (e_upd s)) as M.
        destruct (update_population (with_ev st es) _ (e_label s) (e_upd s)) as [[u|e] st2];
          (eapply mono_trans; [apply mono_with_ev|exact M]).
      + destruct in_loop; apply mono_with_ev.
      + apply mono_with_ev.
    - apply mono_with_ev.
  Qed.

  Lemma run_step_ok in_loop st s :
    step_calm s = true -> (in_loop = true \/ not_attempts s = true) ->
    exists r, fst (run_step obj in_loop st s) = Ok r.
  Proof.
    unfold step_calm, run_step, not_attempts. intros H L.
    apply andb_true_iff in H. destruct H as [H Hu]. apply andb_true_iff in H. destruct H as [Hb Hr].
    destruct (run_batches_ok (e_batches s) (ev st) [] Hb) as [off E].
    destruct (run_batches obj (ev st) (e_batches s) []) as [[o|e] es]; simpl in E; [|discriminate].
    destruct (e_res s) as [ix| |e]; [| |discriminate].
    - destruct (e_skip_if_empty s && is_nil (picks (o ++ pop st ++ arch st) ix)); [eexists; reflexivity|].
      pose proof (update_ok (with_ev st es) (picks (o ++ pop st ++ arch st) ix) (e_label s) (e_upd s) Hu) as U.
      destruct (update_population (with_ev st es) _ (e_label s) (e_upd s)) as [[u|e] st2]; simpl in U; [|discriminate].
      eexists. reflexivity.
    - destruct in_loop; [eexists; reflexivity|]. destruct L as [L|L]; discriminate.
  Qed.

  Lemma run_loop_mono steps : forall st, mono st (snd (run_loop obj st steps)).
  Proof.
    induction steps as [|s r IH]; intros st; simpl; [apply mono_refl|].
    pose proof (run_step_mono true st s) as M.
    destruct (run_step obj true st s) as [[[|]|e] st']; simpl in *; [|exact M|exact M].
    eapply mono_trans; [exact M|apply IH].
  Qed.

  Lemma run_loop_ok steps : forall st,
    forallb step_calm steps = true -> exists r, fst (run_loop obj st steps) = Ok r.
  Proof.
    induction steps as [|s r IH]; intros st H; simpl; [eexists; reflexivity|].
    apply andb_true_iff in H. destruct H as [Hs Hr].
    destruct (run_step_ok true st s Hs (or_introl eq_refl)) as [k E].
    destruct (run_step obj true st s) as [[[|]|e] st']; simpl in E; [apply IH, Hr|eexists; reflexivity|discriminate].
  Qed.

  Lemma initial_out_nonempty s :
    nodup_b (b_inds (s_initial s)) = true -> initial_evaluable obj s ->
    exists out es, evaluate obj es0 (s_initial s) = (Ok out, es) /\ out <> [].
  Proof.
    intros ND [Sur [k [x [Hk Hv]]]]. pose proof ND as ND'. apply nodup_b_NoDup in ND'.
    unfold evaluate. change (valid es0) with (@nil nat). change (idx es0) with 0. rewrite Sur.
    assert (T : filter (fun x : nat => negb (mem x [])) (b_inds (s_initial s)) = b_inds (s_initial s))
      by (apply filter_all; reflexivity).
    rewrite T.
    assert (S : filter (fun x : nat => mem x []) (b_inds (s_initial s)) = []).
    { clear. induction (b_inds (s_initial s)); simpl; auto. }
    rewrite S.
    set (evs_all := outcomes obj 0 (b_inds (s_initial s))).
    assert (E : snd (cut_escape evs_all) = None).
    { apply cut_escape_no_escape. intros y e C. unfold evs_all in C. clear -C NoEsc. revert C.
      generalize 0. induction (b_inds (s_initial s)) as [|z r IH]; simpl; intros i C; [exact C|].
      destruct C as [C|C]; [inversion C; eapply NoEsc; eauto|eapply IH, C]. }
    rewrite E. rewrite (cut_escape_none _ E).
    assert (N : nodup_b (filter (succeeded evs_all) (b_inds (s_initial s))) = true).
    { apply nodup_b_NoDup, NoDup_filter, ND'. }
    rewrite N. eexists. eexists. split; [reflexivity|].
    assert (G : In x (filter (succeeded evs_all) (b_inds (s_initial s)))).
    { apply filter_In. split; [eapply nth_error_In, Hk|]. unfold succeeded, evs_all.
      rewrite (last_outcome_outcomes obj _ 0 k x ND' Hk). simpl. rewrite Hv. reflexivity. }
    intros C. apply app_eq_nil in C. destruct C as [C _]. rewrite C in G. exact G.
  Qed.

  Lemma body_progress s :
    calm s = true -> initial_evaluable obj s ->
    (exists r, fst (body obj s) = Ok r) /\
    (keeper_ok (snd (body obj s)) = true -> arch (snd (body obj s)) <> []).
  Proof.
    unfold calm. intros C IE.
    apply andb_true_iff in C. destruct C as [C Cf]. apply andb_true_iff in C. destruct C as [C Cs].
    apply andb_true_iff in C. destruct C as [C Cx]. apply andb_true_iff in C. destruct C as [Ci Cu].
    destruct (initial_out_nonempty s Ci IE) as [out [es [E NE]]].
    unfold body. rewrite E.
    pose proof (update_ok (with_ev st0 es) out LInitial (s_init_upd s) Cu) as U.
    pose proof (update_mono (with_ev st0 es) out LInitial (s_init_upd s)) as M.
    destruct (update_population (with_ev st0 es) out LInitial (s_init_upd s)) as [[u|e] st1]; simpl in U; [|discriminate].
    simpl in M.
    assert (A1 : keeper_ok st1 = true -> arch st1 <> []).
    { intros K. apply M; [exact K|]. simpl. exact NE. }
    destruct (s_extend s) as [x|].
    - apply andb_true_iff in Cx. destruct Cx as [Cx1 Cx2].
      destruct (run_step_ok false st1 x Cx1 (or_intror Cx2)) as [k Ek].
      pose proof (run_step_mono false st1 x) as M2.
      destruct (run_step obj false st1 x) as [[k'|e] st2]; simpl in Ek; [|discriminate].
      simpl in M2. split; [apply run_loop_ok, Cs|].
      intros K. pose proof (run_loop_mono (s_steps s) st2) as M3.
      destruct (M3 K) as [K2 A2]. destruct (M2 K2) as [K1 A1']. apply A2, A1', A1, K1.
    - split; [apply run_loop_ok, Cs|].
      intros K. pose proof (run_loop_mono (s_steps s) st1) as M3.
      destruct (M3 K) as [K1 A2]. apply A2, A1, K1.
  Qed.

  (* T1: any pattern of metric failures, one evaluable initial graph, well-behaved other oracles:
     the run returns normally, the result is not empty, nothing that failed is recorded *)
  Theorem faults_tolerated cms s :
    calm s = true -> initial_evaluable obj s ->
    keeper_ok (snd (optimise cms obj s)) = true ->
    exists l, fst (optimise cms obj s) = Ok l /\ l <> [] /\
              forall x, In x (recorded (snd (optimise cms obj s))) \/ In x l ->
                        last_outcome (evlog (ev (snd (optimise cms obj s)))) x = Some Value.
  Proof.
    intros C IE K. destruct (body_progress s C IE) as [[r Er] A].
    assert (Cf : upd_calm (s_final_upd s) = true).
    { unfold calm in C. apply andb_true_iff in C. tauto. }
    assert (O : exists l, fst (optimise cms obj s) = Ok l /\ l <> []).
    { revert K. unfold optimise. rewrite Er, with_ctx_ok.
      pose proof (update_ok (snd (body obj s)) (arch (snd (body obj s))) LFinal (s_final_upd s) Cf) as U.
      pose proof (update_mono (snd (body obj s)) (arch (snd (body obj s))) LFinal (s_final_upd s)) as M.
      destruct (update_population (snd (body obj s)) (arch (snd (body obj s))) LFinal (s_final_upd s)) as [[u|e] st2];
        simpl in U; [|discriminate].
      simpl in *. intros K. destruct (M K) as [K1 A2]. eexists. split; [reflexivity|].
      apply A2. pose proof (A K1) as NE. destruct (arch (snd (body obj s))); [congruence|discriminate]. }
    destruct O as [l [El NE]]. exists l. split; [exact El|]. split; [exact NE|].
    intros x Hx. apply (recorded_evaluated obj cms s x). destruct Hx as [Hx|Hx]; [left; exact Hx|].
    right. exists l. auto.
  Qed.
End Progress.

(* ---------------------------------------------------------------------------------------- *)
(* 5. persistence faults are ignored                                                         *)
(* ---------------------------------------------------------------------------------------- *)
Lemma save_in_try_never_raises io : fst (save_current_results true io) = Ok tt.
Proof. destruct io as [[] d]; reflexivity. Qed.

(* sensitivity: with the directory creation before the try the failure propagates *)
Lemma save_outside_try_raises d : fst (save_current_results false (MkFail, d)) = Raise EOs.
Proof. reflexivity. Qed.

Definition sim (a b : lstate) : Prop := forget_dumped a = forget_dumped b.

Lemma sim_fields a b : sim a b ->
  ev a = ev b /\ pop a = pop b /\ arch a = arch b /\ gens a = gens b /\ snaps a = snaps b /\ keeper_ok a = keeper_ok b.
Proof. unfold sim, forget_dumped. intros H. inversion H. repeat split; assumption. Qed.

Lemma sim_with_ev a b es : sim a b -> sim (with_ev a es) (with_ev b es).
Proof.
  intros H. destruct (sim_fields a b H) as [E1 [E2 [E3 [E4 [E5 E6]]]]].
  unfold sim, forget_dumped, with_ev. simpl. congruence.
Qed.

Lemma update_sim a b p lab u io :
  sim a b ->
  fst (update_population a p lab u) = fst (update_population b p lab (set_dump_upd io u)) /\
  sim (snd (update_population a p lab u)) (snd (update_population b p lab (set_dump_upd io u))).
Proof.
  intros H. destruct (sim_fields a b H) as [E1 [E2 [E3 [E4 [E5 E6]]]]].
  unfold update_population. simpl u_arch. simpl u_cb. simpl u_io.
  assert (S1 : forall o, fst (match o with Some i => save_current_results true i | None => (Ok tt, false) end) = Ok tt).
  { intros [i|]; [apply save_in_try_never_raises|reflexivity]. }
  rewrite (S1 (u_io u)), (S1 io).
  rewrite E1, E2, E3, E4, E5, E6.
  destruct (u_cb u); simpl; (split; [reflexivity|]); unfold sim, forget_dumped; simpl; reflexivity.
Qed.

Section IoIgnored.
  Variable obj : objective.
  Variable io : option (mk_ans * bool).

  Lemma run_step_sim in_loop a b s :
    sim a b ->
    fst (run_step obj in_loop a s) = fst (run_step obj in_loop b (set_dump_step io s)) /\
    sim (snd (run_step obj in_loop a s)) (snd (run_step obj in_loop b (set_dump_step io s))).
  Proof.
    intros H. destruct (sim_fields a b H) as [E1 [E2 [E3 _]]].
    unfold run_step. simpl e_batches. simpl e_res. simpl e_label. simpl e_skip_if_empty. simpl e_upd.
    rewrite <- E1, <- E2, <- E3.
    destruct (run_batches obj (ev a) (e_batches s) []) as [[off|e] es].
    - destruct (e_res s) as [ix| |e].
      + destruct (e_skip_if_empty s && is_nil (picks (off ++ pop a ++ arch a) ix)).
        * simpl. split; [reflexivity|apply sim_with_ev, H].
        * pose proof (update_sim (with_ev a es) (with_ev b es) (picks (off ++ pop a ++ arch a) ix)
                                 (e_label s) (e_upd s) io (sim_with_ev a b es H)) as [F S].
          destruct (update_population (with_ev a es) _ (e_label s) (e_upd s)) as [[u1|e1] s1];
          destruct (update_population (with_ev b es) _ (e_label s) (set_dump_upd io (e_upd s))) as [[u2|e2] s2];
          simpl in *; try discriminate; split; try exact S; try reflexivity. inversion F; reflexivity.
      + destruct in_loop; simpl; (split; [reflexivity|apply sim_with_ev, H]).
      + simpl. split; [reflexivity|apply sim_with_ev, H].
    - simpl. split; [reflexivity|apply sim_with_ev, H].
  Qed.

  Lemma run_loop_sim steps : forall a b,
    sim a b ->
    fst (run_loop obj a steps) = fst (run_loop obj b (map (set_dump_step io) steps)) /\
    sim (snd (run_loop obj a steps)) (snd (run_loop obj b (map (set_dump_step io) steps))).
  Proof.
    induction steps as [|s r IH]; intros a b H; simpl; [split; [reflexivity|exact H]|].
    destruct (run_step_sim true a b s H) as [F S].
    destruct (run_step obj true a s) as [[[|]|e1] a'];
    destruct (run_step obj true b (set_dump_step io s)) as [[[|]|e2] b']; simpl in *; try discriminate.
    - apply IH, S.
    - split; [reflexivity|exact S].
    - split; [inversion F; reflexivity|exact S].
  Qed.

  Lemma body_sim s :
    fst (body obj s) = fst (body obj (set_dumps io s)) /\
    sim (snd (body obj s)) (snd (body obj (set_dumps io s))).
  Proof.
    unfold body. simpl s_initial. simpl s_init_upd. simpl s_extend. simpl s_steps.
    destruct (evaluate obj es0 (s_initial s)) as [[out|e] es]; [|simpl; split; reflexivity].
    destruct (update_sim (with_ev st0 es) (with_ev st0 es) out LInitial (s_init_upd s) io eq_refl) as [F S].
    destruct (update_population (with_ev st0 es) out LInitial (s_init_upd s)) as [[u1|e1] s1];
    destruct (update_population (with_ev st0 es) out LInitial (set_dump_upd io (s_init_upd s))) as [[u2|e2] s2];
    simpl in F; try discriminate; [|simpl; split; [inversion F; reflexivity|exact S]].
    simpl in S. destruct (s_extend s) as [x|]; simpl option_map.
    - destruct (run_step_sim false s1 s2 x S) as [F2 S2].
      destruct (run_step obj false s1 x) as [[k1|e1] a'];
      destruct (run_step obj false s2 (set_dump_step io x)) as [[k2|e2] b']; simpl in *; try discriminate.
      + apply run_loop_sim, S2.
      + split; [inversion F2; reflexivity|exact S2].
    - apply run_loop_sim, S.
  Qed.

  (* T2: whatever the file system answers (directory creation and dump, generation by
     generation), the outcome, the result, the populations, the history and the archive
     snapshots are those of the run without a history directory *)
  Theorem io_faults_ignored cms s :
    fst (optimise cms obj s) = fst (optimise cms obj (set_dumps io s)) /\
    forget_dumped (snd (optimise cms obj s)) = forget_dumped (snd (optimise cms obj (set_dumps io s))).
  Proof.
    destruct (body_sim s) as [F S]. unfold optimise. rewrite <- F. simpl s_final_upd.
    assert (G : forall a b, sim a b ->
      fst (match update_population a (arch a) LFinal (s_final_upd s) with
           | (Raise e, st2) => (Raise e, st2) | (Ok _, st2) => (Ok (arch st2), st2) end) =
      fst (match update_population b (arch b) LFinal (set_dump_upd io (s_final_upd s)) with
           | (Raise e, st2) => (Raise e, st2) | (Ok _, st2) => (Ok (arch st2), st2) end) /\
      sim (snd (match update_population a (arch a) LFinal (s_final_upd s) with
           | (Raise e, st2) => (Raise e, st2) | (Ok _, st2) => (Ok (arch st2), st2) end))
          (snd (match update_population b (arch b) LFinal (set_dump_upd io (s_final_upd s)) with
           | (Raise e, st2) => (Raise e, st2) | (Ok _, st2) => (Ok (arch st2), st2) end))).
    { intros a b H. destruct (sim_fields a b H) as [_ [_ [E3 _]]]. rewrite <- E3.
      destruct (update_sim a b (arch a) LFinal (s_final_upd s) io H) as [F2 S2].
      destruct (update_population a (arch a) LFinal (s_final_upd s)) as [[u1|e1] s1];
      destruct (update_population b (arch a) LFinal (set_dump_upd io (s_final_upd s))) as [[u2|e2] s2];
      simpl in *; try discriminate.
      - destruct (sim_fields s1 s2 S2) as [_ [_ [E _]]]. rewrite E. split; [reflexivity|exact S2].
      - split; [inversion F2; reflexivity|exact S2]. }
    destruct (with_ctx cms (fst (body obj s))); [apply G, S|apply G, S|].
    simpl. split; [reflexivity|exact S].
  Qed.
End IoIgnored.

(* ---------------------------------------------------------------------------------------- *)
(* 6. how a run ends                                                                         *)
(* ---------------------------------------------------------------------------------------- *)
Section Ends.
  Variable obj : objective.

  Lemma run_loop_app pre : forall st st1 rest,
    run_loop obj st pre = (Ok StopHeld, st1) ->
    run_loop obj st (pre ++ rest) = run_loop obj st1 rest.
  Proof.
    induction pre as [|s r IH]; intros st st1 rest H; simpl in *.
    - inversion H. reflexivity.
    - destruct (run_step obj true st s) as [[[|]|e] st']; try discriminate. apply IH, H.
  Qed.

  (* T3: when reproduce signals the dedicated error (after whatever evaluator calls it made) the
     loop ends at once; nothing is recorded for that iteration and later iterations do not run *)
  Theorem too_few_offspring_stops st pre a rest st1 off es :
    run_loop obj st pre = (Ok StopHeld, st1) ->
    e_res a = EAttemptsErr ->
    run_batches obj (ev st1) (e_batches a) [] = (Ok off, es) ->
    run_loop obj st (pre ++ a :: rest) = (Ok TooFew, with_ev st1 es).
  Proof.
    intros H1 H2 H3. rewrite (run_loop_app pre st st1 _ H1). simpl. unfold run_step. rewrite H3, H2. reflexivity.
  Qed.

  Theorem evolve_error_raised st pre a rest st1 off es e :
    run_loop obj st pre = (Ok StopHeld, st1) ->
    e_res a = ERaise e ->
    run_batches obj (ev st1) (e_batches a) [] = (Ok off, es) ->
    run_loop obj st (pre ++ a :: rest) = (Raise e, with_ev st1 es).
  Proof.
    intros H1 H2 H3. rewrite (run_loop_app pre st st1 _ H1). simpl. unfold run_step. rewrite H3, H2. reflexivity.
  Qed.

  (* a run whose with-block completed (stop criterion or too few offspring) records the archive
     as 'final_choices' and returns it: no raise, result within the best found so far *)
  Theorem ended_returns_archive cms s reason :
    fst (body obj s) = Ok reason -> upd_calm (s_final_upd s) = true ->
    exists l, fst (optimise cms obj s) = Ok l /\ incl l (arch (snd (body obj s))) /\
              gens (snd (optimise cms obj s)) = gens (snd (body obj s)) ++ [(LFinal, arch (snd (body obj s)))] /\
              ev (snd (optimise cms obj s)) = ev (snd (body obj s)).
  Proof.
    intros E C. unfold optimise. rewrite E, with_ctx_ok.
    pose proof (update_ok (snd (body obj s)) (arch (snd (body obj s))) LFinal (s_final_upd s) C) as U.
    pose proof (update_gens (snd (body obj s)) (arch (snd (body obj s))) LFinal (s_final_upd s)) as [G V].
    assert (A : arch (snd (update_population (snd (body obj s)) (arch (snd (body obj s))) LFinal (s_final_upd s))) =
                picks (arch (snd (body obj s)) ++ arch (snd (body obj s))) (u_arch (s_final_upd s))).
    { unfold update_population.
      destruct (fst (match u_io (s_final_upd s) with Some io => save_current_results true io | None => (Ok tt, false) end));
        [destruct (u_cb (s_final_upd s))|]; reflexivity. }
    destruct (update_population (snd (body obj s)) (arch (snd (body obj s))) LFinal (s_final_upd s)) as [[u|e] st2];
      simpl in *; [|discriminate].
    eexists. split; [reflexivity|]. split; [|split; assumption].
    rewrite A. eapply incl_tran; [apply picks_incl|]. apply incl_app; apply incl_refl.
  Qed.

  (* T4: an error raised inside the with-block reaches the caller when no __exit__ is truthy ... *)
  Theorem errors_not_discarded cms s e :
    all_falsy cms = true -> fst (body obj s) = Raise e ->
    optimise cms obj s = (Raise e, snd (body obj s)).
  Proof. intros F E. unfold optimise. rewrite E, (with_ctx_falsy cms e F). reflexivity. Qed.

  (* ... equivalently a run returns normally only if its loop ended by itself *)
  Theorem returns_only_if_ended cms s l :
    all_falsy cms = true -> fst (optimise cms obj s) = Ok l ->
    exists reason, fst (body obj s) = Ok reason.
  Proof.
    intros F O. destruct (fst (body obj s)) as [r|e] eqn:E; [exists r; reflexivity|].
    rewrite (errors_not_discarded cms s e F E) in O. discriminate.
  Qed.

  (* sensitivity: one truthy __exit__ (the earlier EmptyProgressBar, or the base Timer after its
     time limit) makes the run "finish" although its loop raised *)
  Theorem truthy_exit_discards cms s e c :
    In c cms -> exit_truthy c = true -> fst (body obj s) = Raise e -> upd_calm (s_final_upd s) = true ->
    exists l, fst (optimise cms obj s) = Ok l.
  Proof.
    intros I T E C. unfold optimise. rewrite E, (with_ctx_swallow cms e c I T).
    pose proof (update_ok (snd (body obj s)) (arch (snd (body obj s))) LFinal (s_final_upd s) C) as U.
    destruct (update_population (snd (body obj s)) (arch (snd (body obj s))) LFinal (s_final_upd s)) as [[u|e2] st2];
      simpl in *; [|discriminate].
    eexists. reflexivity.
  Qed.
End Ends.

(* ---------------------------------------------------------------------------------------- *)
(* 7. the executable oracle decides the stated clauses                                        *)
(* ---------------------------------------------------------------------------------------- *)
Lemma exn_eqb_eq a b : exn_eqb a b = true <-> a = b.
Proof.
  destruct a, b; simpl; split; intros H; try discriminate; try reflexivity.
  - apply Nat.eqb_eq in H. subst. reflexivity.
  - inversion H. apply Nat.eqb_refl.
Qed.

Lemma holds_b_recorded c x :
  holds_b c = true -> In x (observed_recorded c) -> In x (c_succeeded c).
Proof.
  unfold holds_b. intros H Hx. apply andb_true_iff in H. destruct H as [H _].
  apply andb_true_iff in H. destruct H as [H _].
  rewrite forallb_forall in H. apply mem_In, H, Hx.
Qed.

Lemma holds_b_error_propagated c e :
  holds_b c = true -> c_fired c = Some e -> c_out c = ORaise e.
Proof.
  unfold holds_b. intros H F. rewrite F in H. apply andb_true_iff in H. destruct H as [_ H].
  destruct (c_out c) as [|e']; [discriminate|]. apply exn_eqb_eq in H. subst. reflexivity.
Qed.

Lemma holds_b_returns_nonempty c :
  holds_b c = true -> c_fired c = None -> c_initial_ok c = true -> c_out c = OOk /\ c_result c <> [].
Proof.
  unfold holds_b. intros H F I. rewrite F, I in H. apply andb_true_iff in H. destruct H as [_ H].
  destruct (c_out c) as [|e].
  - split; [reflexivity|]. simpl in H. apply negb_true_iff, is_nil_false in H. exact H.
  - destruct e; discriminate.
Qed.

Lemma holds_b_no_attempts_error c : holds_b c = true -> c_fired c = None -> c_out c <> ORaise EAttempts.
Proof.
  unfold holds_b. intros H F C. rewrite F, C in H. apply andb_true_iff in H. destruct H as [_ H]. discriminate.
Qed.

(* ---------------------------------------------------------------------------------------- *)
(* 8. the attempt loop of reproduce                                                          *)
(* ---------------------------------------------------------------------------------------- *)
Definition ratio_ok (p : rparams) : Prop := r_num p <= r_den p /\ 0 < r_den p.

Lemma NoDup_snoc {A} (d : list A) x : NoDup d -> ~ In x d -> NoDup (d ++ [x]).
Proof.
  induction d as [|y r IH]; simpl; intros ND NI.
  - constructor; [intros []|constructor].
  - inversion ND; subst. constructor.
    + intros C. apply in_app_or in C. destruct C as [C|[C|[]]]; [contradiction|subst; tauto].
    + apply IH; tauto.
Qed.

Lemma dict_update_spec l : forall d,
  NoDup d -> NoDup (dict_update d l) /\ incl d (dict_update d l) /\
             (forall x, In x (dict_update d l) -> In x d \/ In x l).
Proof.
  induction l as [|x r IH]; intros d ND; simpl.
  - split; [exact ND|]. split; [apply incl_refl|]. auto.
  - destruct (mem x d) eqn:M.
    + destruct (IH d ND) as [N [I O]]. split; [exact N|]. split; [exact I|].
      intros y Hy. destruct (O y Hy); auto.
    + apply mem_false in M.
      assert (ND' : NoDup (d ++ [x])).
      { apply NoDup_snoc; assumption. }
      destruct (IH (d ++ [x]) ND') as [N [I O]]. split; [exact N|]. split.
      * eapply incl_tran; [|exact I]. apply incl_appl, incl_refl.
      * intros y Hy. destruct (O y Hy) as [H|H]; [|auto].
        apply in_app_or in H. destruct H as [H|[<-|[]]]; auto.
Qed.

Lemma firstn_In' {A} n : forall (l : list A) x, In x (firstn n l) -> In x l.
Proof.
  induction n as [|n IH]; intros l x H; simpl in H; [contradiction|].
  destruct l as [|y r]; [contradiction|]. destruct H as [H|H]; [left; exact H|right; apply IH, H].
Qed.

Lemma NoDup_firstn {A} n (l : list A) : NoDup l -> NoDup (firstn n l).
Proof.
  revert n. induction l as [|x r IH]; intros n ND; destruct n; simpl; try constructor.
  - inversion ND; subst. intros C. apply firstn_In' in C. contradiction.
  - inversion ND; subst. apply IH. assumption.
Qed.

Section ReproduceProofs.
  Variable p : rparams.
  Variable pop_len : nat.
  Variable part : nat -> nat -> list ind.
  Hypothesis R : ratio_ok p.

  Definition delivered (x : ind) : Prop := exists i s, In x (part i s).

  Lemma not_enough_below n : enough p n = false -> n < r_target p.
  Proof.
    destruct R as [R1 R2]. unfold enough. intros H. apply Nat.leb_gt in H.
    destruct (Nat.lt_ge_cases n (r_target p)) as [L|L]; [exact L|exfalso].
    assert (n * r_den p >= r_target p * r_num p).
    { apply Nat.le_trans with (r_target p * r_den p); [apply Nat.mul_le_mono_l, R1|apply Nat.mul_le_mono_r, L]. }
    lia.
  Qed.

  Lemma enough_min_firstn n : enough p n = true -> enough_min p (Nat.min (r_target p) n) = true.
  Proof.
    destruct R as [R1 R2]. unfold enough, enough_min. intros H. apply Nat.leb_le in H. apply Nat.leb_le.
    destruct (Nat.min_spec (r_target p) n) as [[_ ->]|[_ ->]].
    - assert (r_target p * r_num p <= r_target p * r_den p) by (apply Nat.mul_le_mono_l, R1). lia.
    - lia.
  Qed.

  Definition result_ok (r : rres) : Prop :=
    match r with
    | RetOk l => NoDup l /\ length l <= r_target p /\ enough_min p (length l) = true /\
                 forall x, In x l -> delivered x
    | RaiseAttempts => True
    end.

  Lemma rloop_ok fuel : forall i collected w,
    NoDup collected -> length collected <= r_target p -> (forall x, In x collected -> delivered x) ->
    result_ok (fst (rloop p pop_len part fuel i collected w)).
  Proof.
    induction fuel as [|f IH]; intros i collected w ND L D; simpl.
    - destruct (enough_min p (length collected)) eqn:E; simpl; auto.
    - set (rs := req_size p pop_len (length collected) w).
      set (c' := dict_update collected (part i rs)).
      destruct (dict_update_spec (part i rs) collected ND) as [ND' [_ O]]. fold c' in ND', O.
      assert (D' : forall x, In x c' -> delivered x).
      { intros x Hx. destruct (O x Hx) as [H|H]; [apply D, H|]. exists i, rs. exact H. }
      destruct (enough p (length c')) eqn:E; simpl.
      + split; [apply NoDup_firstn, ND'|]. rewrite firstn_length. split; [lia|]. split.
        * apply enough_min_firstn, E.
        * intros x Hx. apply D'. eapply firstn_In', Hx.
      + match goal with |- context [rloop p pop_len part f (S i) c' ?w'] =>
          specialize (IH (S i) c' w' ND' (Nat.lt_le_incl _ _ (not_enough_below _ E)) D');
          destruct (rloop p pop_len part f (S i) c' w') as [r ss] end.
        simpl in *. exact IH.
  Qed.

  (* T5: a returned population has no repeated individual, at most `pop_size` members, at least
     half the required fraction of it, and consists of individuals the evaluator let through *)
  Theorem reproduce_bounds w : result_ok (fst (reproduce p pop_len part w)).
  Proof. unfold reproduce. apply rloop_ok; [constructor|simpl; lia|intros x []]. Qed.

  Lemma rloop_raise fuel : forall i collected w ss,
    rloop p pop_len part fuel i collected w = (RaiseAttempts, ss) ->
    length ss = fuel /\ enough_min p (length (collect_all part i ss collected)) = false.
  Proof.
    induction fuel as [|f IH]; intros i collected w ss; simpl.
    - destruct (enough_min p (length collected)) eqn:E; intros H; inversion H; subst. simpl. auto.
    - set (rs := req_size p pop_len (length collected) w).
      destruct (enough p (length (dict_update collected (part i rs)))); [intros H; inversion H|].
      match goal with |- context [rloop p pop_len part f (S i) ?c ?w0] =>
        destruct (rloop p pop_len part f (S i) c w0) as [r ss'] eqn:El end.
      intros H. inversion H; subst. destruct (IH _ _ _ _ El) as [L E]. simpl. split; [lia|exact E].
  Qed.

  (* the dedicated error is raised only after every attempt was used and the distinct individuals
     the evaluator delivered stay below half the required fraction *)
  Theorem attempts_error_only_when_too_few w ss :
    reproduce p pop_len part w = (RaiseAttempts, ss) ->
    length ss = r_attempts p /\ enough_min p (length (collect_all part 0 ss [])) = false.
  Proof. apply rloop_raise. Qed.
End ReproduceProofs.
