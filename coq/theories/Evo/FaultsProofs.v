(* Proofs about the model of Evo/Faults.v (property C07). *)
From Coq Require Import List Bool Arith Lia.
From GolemV Require Import Evo.Faults.
Import ListNotations.

(* ---------------------------------------------------------------------------------------- *)
(* 1. the with protocol                                                                      *)
(* ---------------------------------------------------------------------------------------- *)
Definition all_falsy (cms : list cm) : bool := forallb (fun c => negb (exit_truthy c)) cms.

Lemma with_ctx_ok {A} cms (a : A) : with_ctx cms (Ok a) = WDone a.
Proof. induction cms as [|c r IH]; simpl; [reflexivity|]. rewrite IH. reflexivity. Qed.

Lemma with_ctx_falsy {A} cms e : all_falsy cms = true -> @with_ctx A cms (Raise e) = WRaised e.
Proof.
  induction cms as [|c r IH]; simpl; intros H; [reflexivity|].
  apply andb_true_iff in H. destruct H as [Hc Hr]. rewrite (IH Hr).
  destruct (exit_truthy c); [discriminate|reflexivity].
Qed.

Lemma with_ctx_raise_cases {A} cms e :
  @with_ctx A cms (Raise e) = WRaised e \/ @with_ctx A cms (Raise e) = WSwallowed.
Proof.
  induction cms as [|c r IH]; simpl; [left; reflexivity|].
  destruct IH as [-> | ->]; [destruct (exit_truthy c); auto | auto].
Qed.

(* one truthy __exit__ anywhere in the statement discards the error *)
Lemma with_ctx_swallow {A} cms e c :
  In c cms -> exit_truthy c = true -> @with_ctx A cms (Raise e) = WSwallowed.
Proof.
  induction cms as [|d r IH]; simpl; intros HI HT; [contradiction|].
  destruct HI as [->|HI].
  - destruct (with_ctx_raise_cases (A:=A) r e) as [-> | ->]; [rewrite HT|]; reflexivity.
  - rewrite (IH HI HT). reflexivity.
Qed.

Lemma with_ctx_not_raised_other {A} cms (b : res A) e :
  with_ctx cms b = WRaised e -> b = Raise e.
Proof.
  revert e. induction cms as [|c r IH]; simpl; intros e.
  - destruct b; intros H; inversion H; reflexivity.
  - destruct (with_ctx r b) eqn:E; try discriminate.
    destruct (exit_truthy c); [discriminate|]. intros H; inversion H; subst. apply IH. reflexivity.
Qed.

Lemma cms_of_falsy show : all_falsy (cms_of show) = true.
Proof. destruct show; reflexivity. Qed.

(* the manager that receives the exception first is the innermost one *)
Lemma exit_calls_innermost_first {A} c cms e :
  exists rest, @exit_calls A (cms ++ [c]) (Raise e) = (c, Some e) :: rest.
Proof.
  induction cms as [|d r IH]; simpl.
  - eexists. reflexivity.
  - destruct IH as [rest ->]. eexists. reflexivity.
Qed.

(* Timer() without a timeout (the tuners' `with self.timer:`) never suppresses *)
Lemma base_timer_without_timeout reached : exit_truthy (BaseTimer (base_timer_terminated false reached)) = false.
Proof. reflexivity. Qed.

Lemma base_timer_swallows_when_terminated {A} e :
  @with_ctx A [BaseTimer (base_timer_terminated true true)] (Raise e) = WSwallowed.
Proof. reflexivity. Qed.

(* ---------------------------------------------------------------------------------------- *)
(* 2. evaluator                                                                              *)
(* ---------------------------------------------------------------------------------------- *)
Lemma mem_In x l : mem x l = true <-> In x l.
Proof.
  unfold mem. rewrite existsb_exists. split.
  - intros [y [Hy E]]. apply Nat.eqb_eq in E. subst. exact Hy.
  - intros H. exists x. split; [exact H|apply Nat.eqb_refl].
Qed.

Lemma mem_false x l : mem x l = false <-> ~ In x l.
Proof.
  split; intros H.
  - intros C. apply mem_In in C. congruence.
  - destruct (mem x l) eqn:E; [apply mem_In in E; contradiction|reflexivity].
Qed.

Lemma nodup_b_NoDup l : nodup_b l = true <-> NoDup l.
Proof.
  induction l as [|x r IH]; simpl.
  - split; [constructor|reflexivity].
  - rewrite andb_true_iff, negb_true_iff, mem_false, IH. split.
    + intros [A B]. constructor; assumption.
    + intros H. inversion H; subst. split; assumption.
Qed.

Lemma last_outcome_app a b x :
  last_outcome (a ++ b) x = match last_outcome b x with Some o => Some o | None => last_outcome a x end.
Proof.
  induction a as [|[y o] r IH]; simpl.
  - destruct (last_outcome b x); reflexivity.
  - rewrite IH. destruct (last_outcome b x); [reflexivity|]. reflexivity.
Qed.

Lemma last_outcome_notin evs x : ~ In x (map fst evs) -> last_outcome evs x = None.
Proof.
  induction evs as [|[y o] r IH]; simpl; intros H; [reflexivity|].
  rewrite IH by tauto. destruct (Nat.eqb x y) eqn:E; [|reflexivity].
  apply Nat.eqb_eq in E. subst. tauto.
Qed.

Lemma outcomes_fst obj i l : map fst (outcomes obj i l) = l.
Proof. revert i. induction l as [|x r IH]; simpl; intros i; [reflexivity|]. rewrite IH. reflexivity. Qed.

Lemma outcomes_length obj i l : length (outcomes obj i l) = length l.
Proof. rewrite <- (outcomes_fst obj i l) at 2. rewrite map_length. reflexivity. Qed.

Lemma cut_escape_incl evs : incl (map fst (fst (cut_escape evs))) (map fst evs).
Proof.
  induction evs as [|[x o] r IH]; simpl; [apply incl_refl|].
  destruct o; try (destruct (cut_escape r) as [l oo]; simpl in *; apply incl_cons;
                   [left; reflexivity|apply incl_tl; exact IH]).
  simpl. apply incl_cons; [left; reflexivity|intros y []].
Qed.

Lemma cut_escape_none evs : snd (cut_escape evs) = None -> fst (cut_escape evs) = evs.
Proof.
  induction evs as [|[x o] r IH]; simpl; [reflexivity|].
  destruct o; try (destruct (cut_escape r) as [l oo]; simpl in *; intros H; rewrite (IH H); reflexivity).
  simpl. discriminate.
Qed.

Lemma cut_escape_no_escape evs :
  (forall x e, ~ In (x, Escape e) evs) -> snd (cut_escape evs) = None.
Proof.
  induction evs as [|[x o] r IH]; simpl; intros H; [reflexivity|].
  assert (Hr : forall x e, ~ In (x, Escape e) r) by (intros y e C; apply (H y e); right; exact C).
  destruct o; try (destruct (cut_escape r) as [l oo]; simpl in *; apply IH; exact Hr).
  exfalso. apply (H x e). left. reflexivity.
Qed.

Definition ev_inv (es : estate) : Prop :=
  forall x, In x (valid es) -> last_outcome (evlog es) x = Some Value.

Lemma succeeded_last evs x : succeeded evs x = true -> last_outcome evs x = Some Value.
Proof.
  unfold succeeded. destruct (last_outcome evs x) as [[]|]; try discriminate. reflexivity.
Qed.

Section Evaluate.
  Variable obj : objective.

  Lemma evaluate_spec st b :
    ev_inv st ->
    let r := evaluate obj st b in
    ev_inv (snd r) /\ incl (valid st) (valid (snd r)) /\
    (forall out, fst r = Ok out -> incl out (valid (snd r))).
  Proof.
    intros I. unfold evaluate.
    set (te := filter (fun x => negb (mem x (valid st))) (b_inds b)).
    set (sk := filter (fun x => mem x (valid st)) (b_inds b)).
    set (evs_all := if b_surrogate b then map (fun x => (x, Value)) te else outcomes obj (idx st) te).
    assert (Hall : map fst evs_all = te).
    { unfold evs_all. destruct (b_surrogate b); [|apply outcomes_fst].
      rewrite map_map. simpl. apply map_id. }
    set (evs := fst (cut_escape evs_all)).
    assert (Hevs : forall x, In x (valid st) -> ~ In x (map fst evs)).
    { intros x Hx C. apply cut_escape_incl in C. rewrite Hall in C. unfold te in C.
      apply filter_In in C. destruct C as [_ C]. apply negb_true_iff, mem_false in C. contradiction. }
    assert (Hold : forall x, In x (valid st) -> last_outcome (evlog st ++ evs) x = Some Value).
    { intros x Hx. rewrite last_outcome_app, (last_outcome_notin evs x (Hevs x Hx)). apply I, Hx. }
    assert (Hgood : forall x, In x (filter (succeeded evs) te) -> last_outcome (evlog st ++ evs) x = Some Value).
    { intros x Hx. apply filter_In in Hx. destruct Hx as [_ Hx]. apply succeeded_last in Hx.
      rewrite last_outcome_app, Hx. reflexivity. }
    assert (Hsk : incl sk (valid st)).
    { intros x Hx. apply filter_In in Hx. destruct Hx as [_ Hx]. apply mem_In, Hx. }
    destruct (snd (cut_escape evs_all)) eqn:Esc; simpl.
    - split; [|split].
      + intros x Hx. simpl in *. apply Hold, Hx.
      + apply incl_refl.
      + intros out H. discriminate.
    - assert (Inv' : forall x, In x (valid st ++ filter (succeeded evs) te) ->
                               last_outcome (evlog st ++ evs) x = Some Value).
      { intros x Hx. apply in_app_or in Hx. destruct Hx; [apply Hold|apply Hgood]; assumption. }
      destruct (nodup_b (filter (succeeded evs) te)); simpl.
      + split; [exact Inv'|]. split; [apply incl_appl, incl_refl|].
        intros out H. inversion H; subst. apply incl_app; [apply incl_appr, incl_refl|].
        apply incl_appl, Hsk.
      + split; [exact Inv'|]. split; [apply incl_appl, incl_refl|]. intros out H. discriminate.
  Qed.

  Lemma run_batches_spec bs : forall es acc,
    ev_inv es -> incl acc (valid es) ->
    let r := run_batches obj es bs acc in
    ev_inv (snd r) /\ incl (valid es) (valid (snd r)) /\
    (forall out, fst r = Ok out -> incl out (valid (snd r))).
  Proof.
    induction bs as [|b r IH]; intros es acc I A; simpl.
    - split; [exact I|]. split; [apply incl_refl|]. intros out H. inversion H; subst. exact A.
    - pose proof (evaluate_spec es b I) as [I' [M O]].
      destruct (evaluate obj es b) as [[out|e] es'] eqn:E; simpl in *.
      + assert (A' : incl (acc ++ out) (valid es')).
        { apply incl_app; [eapply incl_tran; [exact A|exact M]|apply O; reflexivity]. }
        destruct (IH es' (acc ++ out) I' A') as [I2 [M2 O2]].
        split; [exact I2|]. split; [eapply incl_tran; [exact M|exact M2]|exact O2].
      + split; [exact I'|]. split; [exact M|]. intros out H. discriminate.
  Qed.
End Evaluate.

(* ---------------------------------------------------------------------------------------- *)
(* 3. loop invariant: everything recorded passed the evaluator                                *)
(* ---------------------------------------------------------------------------------------- *)
Definition inv (st : lstate) : Prop := ev_inv (ev st) /\ incl (recorded st) (valid (ev st)).

Lemma picks_incl pool ix : incl (picks pool ix) pool.
Proof.
  intros x H. unfold picks in H. apply in_flat_map in H. destruct H as [i [_ H]].
  destruct (nth_error pool i) eqn:E; [|contradiction].
  destruct H as [<-|[]]. eapply nth_error_In, E.
Qed.

Lemma recorded_parts st x :
  In x (recorded st) <->
  In x (pop st) \/ In x (arch st) \/ (exists g, In g (gens st) /\ In x (snd g)) \/ (exists s, In s (snaps st) /\ In x s).
Proof.
  unfold recorded. rewrite !in_app_iff, !in_concat. split.
  - intros [H|[H|[[l [Hl Hx]]|[l [Hl Hx]]]]]; auto.
    + apply in_map_iff in Hl. destruct Hl as [g [<- Hg]]. right; right; left. exists g. auto.
    + right; right; right. exists l. auto.
  - intros [H|[H|[[g [Hg Hx]]|[s [Hs Hx]]]]]; auto.
    + right; right; left. exists (snd g). split; [apply in_map, Hg|exact Hx].
    + right; right; right. exists s. auto.
Qed.

Lemma with_ev_recorded st es : recorded (with_ev st es) = recorded st.
Proof. reflexivity. Qed.

Lemma inv_with_ev st es :
  inv st -> ev_inv es -> incl (valid (ev st)) (valid es) -> inv (with_ev st es).
Proof.
  intros [_ R] I M. split; [exact I|]. simpl. rewrite with_ev_recorded.
  eapply incl_tran; [exact R|exact M].
Qed.

Lemma update_population_inv st p lab u :
  inv st -> incl p (valid (ev st)) ->
  inv (snd (update_population st p lab u)) /\ ev (snd (update_population st p lab u)) = ev st.
Proof.
  intros [I R] P.
  assert (HA : incl (picks (arch st ++ p) (u_arch u)) (valid (ev st))).
  { eapply incl_tran; [apply picks_incl|]. apply incl_app; [|exact P].
    intros x Hx. apply R, recorded_parts. auto. }
  assert (Hrec : forall popx d k,
            incl popx (valid (ev st)) ->
            inv {| ev := ev st; pop := popx; arch := picks (arch st ++ p) (u_arch u);
                   gens := gens st ++ [(lab, p)]; snaps := snaps st ++ [picks (arch st ++ p) (u_arch u)];
                   dumped := d; keeper_ok := k |}).
  { intros popx d k Hp. split; [exact I|]. intros x Hx. apply recorded_parts in Hx. simpl in Hx.
    destruct Hx as [H|[H|[[g [Hg Hx]]|[s [Hs Hx]]]]].
    - apply Hp, H.
    - apply HA, H.
    - apply in_app_or in Hg. destruct Hg as [Hg|[<-|[]]].
      + apply R, recorded_parts. right; right; left. exists g. auto.
      + apply P, Hx.
    - apply in_app_or in Hs. destruct Hs as [Hs|[<-|[]]].
      + apply R, recorded_parts. right; right; right. exists s. auto.
      + apply HA, Hx. }
  assert (Hpop : incl (pop st) (valid (ev st))).
  { intros x Hx. apply R, recorded_parts. auto. }
  unfold update_population.
  destruct (fst (match u_io u with Some io => save_current_results true io | None => (Ok tt, false) end)).
  - destruct (u_cb u); simpl; (split; [apply Hrec; assumption|reflexivity]).
  - simpl. split; [apply Hrec; assumption|reflexivity].
Qed.

Section Loop.
  Variable obj : objective.

  Lemma run_step_inv in_loop st s : inv st -> inv (snd (run_step obj in_loop st s)).
  Proof.
    intros [I R]. unfold run_step.
    pose proof (run_batches_spec obj (e_batches s) (ev st) [] I (incl_nil_l _)) as [I' [M O]].
    destruct (run_batches obj (ev st) (e_batches s) []) as [[off|e] es] eqn:E; simpl in *.
    - assert (V1 : inv (with_ev st es)) by (apply inv_with_ev; [split|idtac|idtac]; assumption).
      destruct (e_res s) as [ix| |e].
      + set (p := picks (off ++ pop st ++ arch st) ix).
        assert (P : incl p (valid es)).
        { eapply incl_tran; [apply picks_incl|]. apply incl_app; [apply O; reflexivity|].
          apply incl_app; intros x Hx; apply M, R, recorded_parts; auto. }
        destruct (e_skip_if_empty s && is_nil p); [exact V1|].
        pose proof (update_population_inv (with_ev st es) p (e_label s) (e_upd s) V1 P) as [V2 _].
        destruct (update_population (with_ev st es) p (e_label s) (e_upd s)) as [[u|e] st2]; exact V2.
      + destruct in_loop; exact V1.
      + exact V1.
    - apply inv_with_ev; [split|idtac|idtac]; assumption.
  Qed.

  Lemma run_loop_inv steps : forall st, inv st -> inv (snd (run_loop obj st steps)).
  Proof.
    induction steps as [|s r IH]; intros st V; simpl; [exact V|].
    pose proof (run_step_inv true st s V) as V'.
    destruct (run_step obj true st s) as [[[|]|e] st']; simpl in *; [apply IH, V'|exact V'|exact V'].
  Qed.

  Lemma es0_inv : ev_inv es0.
  Proof. intros x []. Qed.

  Lemma st0_inv : inv st0.
  Proof. split; [apply es0_inv|]. intros x []. Qed.

  Lemma body_inv s : inv (snd (body obj s)).
  Proof.
    unfold body.
    pose proof (evaluate_spec obj es0 (s_initial s) es0_inv) as [I [M O]].
    destruct (evaluate obj es0 (s_initial s)) as [[out|e] es] eqn:E; simpl in *.
    - assert (V0 : inv (with_ev st0 es)) by (apply inv_with_ev; [apply st0_inv|exact I|exact M]).
      pose proof (update_population_inv (with_ev st0 es) out LInitial (s_init_upd s) V0 (O out eq_refl)) as [V1 _].
      destruct (update_population (with_ev st0 es) out LInitial (s_init_upd s)) as [[u|e] st1]; [|exact V1].
      destruct (s_extend s) as [x|]; [|apply run_loop_inv, V1].
      pose proof (run_step_inv false st1 x V1) as V2.
      destruct (run_step obj false st1 x) as [[u2|e] st2]; [apply run_loop_inv, V2|exact V2].
    - apply inv_with_ev; [apply st0_inv|exact I|exact M].
  Qed.

  Lemma optimise_inv cms s : inv (snd (optimise cms obj s)).
  Proof.
    unfold optimise. pose proof (body_inv s) as V.
    assert (F : inv (snd (match update_population (snd (body obj s)) (arch (snd (body obj s))) LFinal (s_final_upd s) with
                          | (Raise e, st2) => (Raise e, st2)
                          | (Ok _, st2) => (Ok (arch st2), st2)
                          end))).
    { assert (P : incl (arch (snd (body obj s))) (valid (ev (snd (body obj s))))).
      { destruct V as [_ R]. intros x Hx. apply R, recorded_parts. auto. }
      pose proof (update_population_inv _ _ LFinal (s_final_upd s) V P) as [V2 _].
      destruct (update_population (snd (body obj s)) (arch (snd (body obj s))) LFinal (s_final_upd s)) as [[u|e] st2]; exact V2. }
    destruct (with_ctx cms (fst (body obj s))); [exact F|exact F|exact V].
  Qed.

  Lemma optimise_result_arch cms s l :
    fst (optimise cms obj s) = Ok l -> l = arch (snd (optimise cms obj s)).
  Proof.
    unfold optimise. destruct (with_ctx cms (fst (body obj s))).
    - destruct (update_population _ _ LFinal (s_final_upd s)) as [[u|e] st2]; simpl; intros H; inversion H; reflexivity.
    - destruct (update_population _ _ LFinal (s_final_upd s)) as [[u|e] st2]; simpl; intros H; inversion H; reflexivity.
    - simpl. discriminate.
  Qed.

  (* T1 (invariant part): in every run - whatever the failure pattern, the other oracles, the
     context managers and the way the run ends - every individual in the population, the archive,
     a generation, an archive snapshot or the result has Value as the outcome of its last
     evaluation: no individual whose evaluation failed is recorded *)
  Theorem recorded_evaluated cms s x :
    let r := optimise cms obj s in
    (In x (recorded (snd r)) \/ exists l, fst r = Ok l /\ In x l) ->
    last_outcome (evlog (ev (snd r))) x = Some Value.
  Proof.
    intros r H. destruct (optimise_inv cms s) as [I R]. fold r in I, R.
    apply I, R. destruct H as [H|[l [E Hx]]]; [exact H|].
    apply optimise_result_arch in E. fold r in E. subst l. apply recorded_parts. auto.
  Qed.
End Loop.
