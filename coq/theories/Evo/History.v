(* Model of the history bookkeeping of an optimisation run (property C06):
   OptHistory.add_to_history / Generation (native-generation stamping) and the lineage walker
   Individual.parents_from_prev_generation.  Definitions only.

   Individuals are identified by their creation index (a nat): a frozen dataclass can only be
   built after its parents exist, so parents have smaller indices (wf_heap). *)
From Coq Require Import List Bool Arith Lia.
Import ListNotations.

Inductive label := LInitial | LExtended | LFinal | LNone | LOther.
Inductive opkind := OMutation | OCrossover | ORegularization | OOther.

Definition label_eqb (a b : label) : bool :=
  match a, b with
  | LInitial, LInitial | LExtended, LExtended | LFinal, LFinal | LNone, LNone | LOther, LOther => true
  | _, _ => false
  end.

Record gen := { g_num : nat; g_label : label; g_members : list nat }.

(* native generations: association list, first binding wins (set_native_generation is a no-op
   when already set) *)
Definition ngmap := list (nat * nat).

Fixpoint ng_lookup (m : ngmap) (r : nat) : option nat :=
  match m with
  | [] => None
  | (k, v) :: m' => if Nat.eqb k r then Some v else ng_lookup m' r
  end.

Definition stamp_one (num : nat) (m : ngmap) (r : nat) : ngmap :=
  match ng_lookup m r with
  | Some _ => m
  | None => m ++ [(r, num)]
  end.

Definition stamp (num : nat) (members : list nat) (m : ngmap) : ngmap :=
  fold_left (stamp_one num) members m.

Record hstate := { gens : list gen; ngs : ngmap }.

Definition h_init : hstate := {| gens := []; ngs := [] |}.

(* OptHistory.add_to_history: Generation(individuals, generations_count, label) *)
Definition add_to_history (s : hstate) (call : label * list nat) : hstate :=
  let num := length (gens s) in
  {| gens := gens s ++ [{| g_num := num; g_label := fst call; g_members := snd call |}];
     ngs := stamp num (snd call) (ngs s) |}.

Definition run_history (calls : list (label * list nat)) : hstate :=
  fold_left add_to_history calls h_init.

(* ---- lineage ---- *)
Record hind := { h_valid : bool; h_verified : bool; h_op : option opkind; h_parents : list nat }.
Definition heap := list hind.

Definition parents_of (h : heap) (r : nat) : list nat :=
  match nth_error h r with Some i => h_parents i | None => [] end.

Definition wf_heap_b (h : heap) : bool :=
  forallb (fun r => forallb (fun p => Nat.ltb p r) (parents_of h r)) (seq 0 (length h)).

Definition has_ng (m : ngmap) (r : nat) : bool :=
  match ng_lookup m r with Some _ => true | None => false end.

(* Individual.parents_from_prev_generation: level-by-level expansion until every individual of
   the frontier has a native generation (or the frontier is empty); None = the iteration guard
   (1 000 000 in the code, `fuel` here) was exhausted -> ValueError *)
Fixpoint walk (h : heap) (m : ngmap) (fuel : nat) (frontier : list nat) : option (list nat) :=
  match fuel with
  | O => None
  | S k =>
      if (match frontier with [] => true | _ => false end) || forallb (has_ng m) frontier
      then Some frontier
      else walk h m k (flat_map (parents_of h) frontier)
  end.

Definition parents_from_prev_generation (h : heap) (m : ngmap) (fuel : nat) (r : nat) : option (list nat) :=
  walk h m fuel (parents_of h r).

(* all ancestors within `fuel` levels *)
Fixpoint ancestors (h : heap) (fuel : nat) (frontier : list nat) : list nat :=
  match fuel with
  | O => []
  | S k => frontier ++ ancestors h k (flat_map (parents_of h) frontier)
  end.

(* ---- executable form of the property, evaluated on an exported REAL history ---- *)
Record ohist := {
  o_heap : heap;                       (* recorded individuals, parents by index *)
  o_ng : list (option nat);            (* observed native generation per individual *)
  o_gens : list gen;                   (* observed generations *)
  o_snaps : list (list nat);           (* observed archive snapshots *)
  o_finished : bool }.                 (* optimise() returned normally (a run ended by an error that was propagated to
                                          the caller never reaches the recording of the final choices) *)

Definition nth_ng (o : ohist) (r : nat) : option nat :=
  match nth_error (o_ng o) r with Some x => x | None => None end.

Fixpoint nodup_b (l : list nat) : bool :=
  match l with
  | [] => true
  | x :: r => negb (existsb (Nat.eqb x) r) && nodup_b r
  end.

Definition mem (x : nat) (l : list nat) : bool := existsb (Nat.eqb x) l.

Definition opt_le (a : option nat) (n : nat) : bool :=
  match a with Some k => Nat.leb k n | None => false end.

Definition member_ok (o : ohist) (gnum : nat) (r : nat) : bool :=
  match nth_error (o_heap o) r with
  | Some i => h_valid i && h_verified i && opt_le (nth_ng o r) gnum
  | None => false
  end.

Definition op_arity_ok (i : hind) : bool :=
  match h_op i with
  | None => Nat.eqb (length (h_parents i)) 0
  | Some OMutation => Nat.eqb (length (h_parents i)) 1
  | Some OCrossover => Nat.eqb (length (h_parents i)) 2
  | Some ORegularization => Nat.eqb (length (h_parents i)) 1
  | Some OOther => false
  end.

(* every ancestor with a native generation has one not later than the descendant's *)
Definition lineage_ok (o : ohist) (r : nat) : bool :=
  let n := length (o_heap o) in
  let anc := ancestors (o_heap o) n (parents_of (o_heap o) r) in
  negb (mem r anc) &&
  match nth_ng o r with
  | Some g => forallb (fun a => match nth_ng o a with Some m => Nat.leb m g | None => true end) anc
  | None => true
  end &&
  match walk (o_heap o) (List.flat_map (fun r => match nth_ng o r with Some g => [(r, g)] | None => [] end)
                                   (seq 0 n)) (S n) (parents_of (o_heap o) r) with
  | Some _ => true | None => false end.

Definition first_label_ok (gs : list gen) : bool :=
  match gs with [] => true | g :: _ => label_eqb (g_label g) LInitial end.

Definition last_label_ok (gs : list gen) : bool :=
  match rev gs with [] => true | g :: _ => label_eqb (g_label g) LFinal end.

Fixpoint snaps_ok (gs : list gen) (snaps : list (list nat)) (seen : list nat) : bool :=
  match gs, snaps with
  | [], [] => true
  | g :: gs', s :: snaps' =>
      let seen' := seen ++ g_members g in
      forallb (fun r => mem r seen') s && snaps_ok gs' snaps' seen'
  | _, _ => false
  end.

Fixpoint list_nat_eqb (a b : list nat) : bool :=
  match a, b with
  | [], [] => true
  | x :: a', y :: b' => Nat.eqb x y && list_nat_eqb a' b'
  | _, _ => false
  end.

Definition holds_b (o : ohist) : bool :=
  (* generations numbered consecutively from zero, first = initial assumptions, last = final choices *)
  list_nat_eqb (map g_num (o_gens o)) (seq 0 (length (o_gens o)))
  && first_label_ok (o_gens o) && (negb (o_finished o) || last_label_ok (o_gens o))
  (* one archive snapshot per generation, members from that or an earlier generation *)
  && snaps_ok (o_gens o) (o_snaps o) []
  (* members: valid fitness, verified graph, native generation <= generation, once per generation *)
  && forallb (fun g => nodup_b (g_members g) && forallb (member_ok o (g_num g)) (g_members g)) (o_gens o)
  (* lineage: terminates, same-or-earlier generations, operator kind matches parent count *)
  && forallb (fun r => lineage_ok o r) (seq 0 (length (o_heap o)))
  && forallb op_arity_ok (o_heap o).

(* model = implementation: replaying the observed sequence of (label, members) through the
   model gives the observed generation numbers and the observed native generations *)
Definition agree (o : ohist) : bool :=
  let s := run_history (map (fun g => (g_label g, g_members g)) (o_gens o)) in
  list_nat_eqb (map g_num (gens s)) (map g_num (o_gens o))
  && forallb (fun r =>
        match ng_lookup (ngs s) r, nth_ng o r with
        | Some a, Some b => Nat.eqb a b
        | None, None => true
        | None, Some _ => false    (* stamped but in no generation *)
        | Some _, None => false
        end) (seq 0 (length (o_heap o))).
