(* Proofs about the history bookkeeping model (property C06). *)
From Coq Require Import List Bool Arith Lia.
From GolemV Require Import Evo.History.
Import ListNotations.

(* ---------- generation numbering ---------- *)
Definition nums_ok (s : hstate) : Prop := map g_num (gens s) = seq 0 (length (gens s)).

Lemma add_nums_ok s c : nums_ok s -> nums_ok (add_to_history s c).
Proof.
  unfold nums_ok, add_to_history; simpl. intros H.
  rewrite map_app, app_length, H. simpl. rewrite Nat.add_1_r, seq_S. reflexivity.
Qed.

Lemma fold_nums_ok calls s : nums_ok s -> nums_ok (fold_left add_to_history calls s).
Proof.
  revert s; induction calls as [|c calls IH]; simpl; intros s H; [exact H|].
  apply IH, add_nums_ok, H.
Qed.

Lemma gens_length calls s :
  length (gens (fold_left add_to_history calls s)) = length (gens s) + length calls.
Proof.
  revert s; induction calls as [|c calls IH]; simpl; intros s; [lia|].
  rewrite IH. unfold add_to_history; simpl. rewrite app_length. simpl. lia.
Qed.

Lemma run_history_nums calls :
  map g_num (gens (run_history calls)) = seq 0 (length calls).
Proof.
  unfold run_history.
  pose proof (fold_nums_ok calls h_init eq_refl) as H. unfold nums_ok in H.
  rewrite H, gens_length. reflexivity.
Qed.

Lemma gens_labels_members calls s :
  map (fun g => (g_label g, g_members g)) (gens (fold_left add_to_history calls s)) =
  map (fun g => (g_label g, g_members g)) (gens s) ++ calls.
Proof.
  revert s; induction calls as [|c calls IH]; simpl; intros s; [rewrite app_nil_r; reflexivity|].
  rewrite IH. unfold add_to_history; simpl. rewrite map_app, <- app_assoc. simpl.
  destruct c; reflexivity.
Qed.

Lemma run_history_calls calls :
  map (fun g => (g_label g, g_members g)) (gens (run_history calls)) = calls.
Proof. unfold run_history. rewrite gens_labels_members. reflexivity. Qed.

(* ---------- native generations ---------- *)
Fixpoint first_occ (r : nat) (from : nat) (ms : list (list nat)) : option nat :=
  match ms with
  | [] => None
  | m :: ms' => if mem r m then Some from else first_occ r (S from) ms'
  end.

Lemma lookup_app m k v r :
  ng_lookup (m ++ [(k, v)]) r =
  match ng_lookup m r with Some x => Some x | None => if Nat.eqb k r then Some v else None end.
Proof.
  induction m as [|[k' v'] m IH]; simpl; [reflexivity|].
  destruct (Nat.eqb k' r); [reflexivity|exact IH].
Qed.

Lemma lookup_stamp_one num m x r :
  ng_lookup (stamp_one num m x) r =
  match ng_lookup m r with Some v => Some v | None => if Nat.eqb x r then Some num else None end.
Proof.
  unfold stamp_one. destruct (ng_lookup m x) eqn:E.
  - destruct (ng_lookup m r) eqn:E'; [reflexivity|].
    destruct (Nat.eqb x r) eqn:Ex; [|reflexivity].
    apply Nat.eqb_eq in Ex. subst. congruence.
  - apply lookup_app.
Qed.

Lemma lookup_stamp num members m r :
  ng_lookup (stamp num members m) r =
  match ng_lookup m r with Some v => Some v | None => if mem r members then Some num else None end.
Proof.
  unfold stamp. revert m; induction members as [|x members IH]; simpl; intros m.
  - destruct (ng_lookup m r); reflexivity.
  - rewrite IH, lookup_stamp_one. destruct (ng_lookup m r); [reflexivity|].
    rewrite (Nat.eqb_sym r x). destruct (Nat.eqb x r); simpl; [|reflexivity].
    reflexivity.
Qed.

Lemma first_occ_app r from ms m :
  first_occ r from (ms ++ [m]) =
  match first_occ r from ms with
  | Some x => Some x
  | None => if mem r m then Some (from + length ms) else None
  end.
Proof.
  revert from; induction ms as [|m' ms IH]; simpl; intros from.
  - rewrite Nat.add_0_r. destruct (mem r m); reflexivity.
  - destruct (mem r m'); [reflexivity|]. rewrite IH.
    replace (S from + length ms) with (from + S (length ms)) by lia. reflexivity.
Qed.

Definition ng_inv (s : hstate) : Prop :=
  forall r, ng_lookup (ngs s) r = first_occ r 0 (map g_members (gens s)).

Lemma add_ng_inv s c : ng_inv s -> ng_inv (add_to_history s c).
Proof.
  unfold ng_inv, add_to_history; simpl. intros H r.
  rewrite lookup_stamp, map_app. cbn [map g_members]. rewrite first_occ_app, H, map_length. reflexivity.
Qed.

Lemma fold_ng_inv calls s : ng_inv s -> ng_inv (fold_left add_to_history calls s).
Proof.
  revert s; induction calls as [|c calls IH]; simpl; intros s H; [exact H|].
  apply IH, add_ng_inv, H.
Qed.

(* the native generation of an individual is the number of the first generation containing it *)
Lemma native_generation_first calls r :
  ng_lookup (ngs (run_history calls)) r = first_occ r 0 (map snd calls).
Proof.
  pose proof (fold_ng_inv calls h_init (fun _ => eq_refl) r) as H.
  unfold run_history. rewrite H. f_equal.
  pose proof (gens_labels_members calls h_init) as G. simpl in G.
  transitivity (map snd (map (fun g => (g_label g, g_members g)) (gens (fold_left add_to_history calls h_init)))).
  - rewrite map_map. reflexivity.
  - rewrite G. reflexivity.
Qed.

Lemma first_occ_spec r from ms n :
  first_occ r from ms = Some n ->
  from <= n /\ exists m, nth_error ms (n - from) = Some m /\ mem r m = true /\
  forall k m', k < n - from -> nth_error ms k = Some m' -> mem r m' = false.
Proof.
  revert from; induction ms as [|m ms IH]; simpl; intros from H; [discriminate|].
  destruct (mem r m) eqn:E.
  - injection H as <-. split; [lia|]. rewrite Nat.sub_diag. exists m. repeat split; auto. intros k m' Hk; lia.
  - destruct (IH _ H) as [L [m0 [N [M F]]]]. split; [lia|].
    exists m0. replace (n - from) with (S (n - S from)) by lia. simpl. repeat split; auto.
    intros [|k] m' Hk Hn; simpl in Hn.
    + injection Hn as <-. exact E.
    + apply (F k m'); [lia|exact Hn].
Qed.

Lemma first_occ_member r from ms k m :
  nth_error ms k = Some m -> mem r m = true -> exists n, first_occ r from ms = Some n /\ n <= from + k.
Proof.
  revert from k; induction ms as [|m' ms IH]; intros from [|k]; simpl; intros Hn Hm; try discriminate.
  - injection Hn as ->. rewrite Hm. exists from. split; [reflexivity|lia].
  - destruct (mem r m'); [exists from; split; [reflexivity|lia]|].
    destruct (IH (S from) k Hn Hm) as [n [E L]]. exists n. split; [exact E|lia].
Qed.

(* a member of generation k has a native generation, and it is not later than k *)
Lemma member_native_le calls k c r :
  nth_error calls k = Some c -> mem r (snd c) = true ->
  exists n, ng_lookup (ngs (run_history calls)) r = Some n /\ n <= k.
Proof.
  intros Hn Hm. rewrite native_generation_first.
  apply (first_occ_member r 0 (map snd calls) k (snd c)); [|exact Hm].
  rewrite nth_error_map, Hn. reflexivity.
Qed.

(* an individual stamped with generation n is a member of generation n *)
Lemma native_is_member calls r n :
  ng_lookup (ngs (run_history calls)) r = Some n ->
  exists c, nth_error calls n = Some c /\ mem r (snd c) = true.
Proof.
  rewrite native_generation_first. intros H.
  destruct (first_occ_spec _ _ _ _ H) as [_ [m [N [M _]]]].
  rewrite Nat.sub_0_r, nth_error_map in N.
  destruct (nth_error calls n) as [c|] eqn:E; [|discriminate].
  injection N as <-. exists c. split; [reflexivity|exact M].
Qed.

(* ---------- lineage: the walker terminates on a heap built in creation order ---------- *)
Definition wf_heap (h : heap) : Prop := forall r p, In p (parents_of h r) -> p < r.

Lemma wf_heap_b_sound h : wf_heap_b h = true -> wf_heap h.
Proof.
  unfold wf_heap_b, wf_heap. intros H r p Hin.
  rewrite forallb_forall in H.
  destruct (Nat.lt_ge_cases r (length h)) as [L|L].
  - specialize (H r (proj2 (in_seq _ _ _) (conj (Nat.le_0_l _) L))).
    rewrite forallb_forall in H. apply Nat.ltb_lt, H, Hin.
  - unfold parents_of in Hin. apply nth_error_None in L. rewrite L in Hin. inversion Hin.
Qed.

Lemma flat_map_parents_bound h b frontier :
  wf_heap h -> Forall (fun r => r < S b) frontier ->
  Forall (fun r => r < b) (flat_map (parents_of h) frontier).
Proof.
  intros W F. apply Forall_forall. intros p Hin. apply in_flat_map in Hin as [r [Hr Hp]].
  rewrite Forall_forall in F. specialize (F r Hr). specialize (W r p Hp). lia.
Qed.

Lemma walk_terminates h m : wf_heap h ->
  forall b frontier fuel, Forall (fun r => r < b) frontier -> b < fuel ->
  exists l, walk h m fuel frontier = Some l.
Proof.
  intros W. induction b as [|b IH]; intros frontier fuel F L.
  - destruct frontier as [|r fr]; [|inversion F; lia].
    destruct fuel; [lia|]. simpl. eexists; reflexivity.
  - destruct fuel; [lia|]. simpl.
    destruct ((match frontier with [] => true | _ :: _ => false end) || forallb (has_ng m) frontier);
      [eexists; reflexivity|].
    apply IH; [apply flat_map_parents_bound; assumption|lia].
Qed.

(* the guard of parents_from_prev_generation is never hit: fuel r + 1 suffices *)
Lemma parents_from_prev_generation_total h m r fuel :
  wf_heap h -> r < fuel -> exists l, parents_from_prev_generation h m fuel r = Some l.
Proof.
  intros W L. unfold parents_from_prev_generation.
  apply (walk_terminates h m W r); [|exact L].
  apply Forall_forall. intros p Hp. apply W, Hp.
Qed.

Lemma walk_result h m fuel frontier l :
  walk h m fuel frontier = Some l -> l = [] \/ forallb (has_ng m) l = true.
Proof.
  revert frontier; induction fuel as [|k IH]; simpl; intros frontier H; [discriminate|].
  destruct frontier as [|r fr] eqn:E.
  - simpl in H. injection H as <-. left; reflexivity.
  - simpl in H. destruct (has_ng m r && forallb (has_ng m) fr) eqn:A.
    + injection H as <-. right. exact A.
    + apply IH in H. exact H.
Qed.

(* ---------- lineage meets only individuals of the same or earlier generations ---------- *)
Section LineageOrder.
  Variable h : heap.
  Variable created : nat -> nat.            (* loop step in which an individual was created *)
  Variable recorded : nat -> option nat.    (* its native generation, if it ever entered one *)
  (* (a) parents exist when the child is created *)
  Hypothesis Ha : forall r p, In p (parents_of h r) -> created p <= created r.
  (* (b) an individual is recorded no earlier than the step that created it *)
  Hypothesis Hb : forall r n, recorded r = Some n -> created r <= n.
  (* (c) a parent that is ever recorded is recorded by the step that creates its child *)
  Hypothesis Hc : forall r p n, In p (parents_of h r) -> recorded p = Some n -> n <= created r.

  Inductive ancestor : nat -> nat -> Prop :=
  | anc_parent r p : In p (parents_of h r) -> ancestor r p
  | anc_step r p a : In p (parents_of h r) -> ancestor p a -> ancestor r a.

  Lemma ancestor_created r a : ancestor r a -> created a <= created r.
  Proof.
    induction 1 as [r p Hp|r p a Hp _ IH]; [apply Ha, Hp|].
    specialize (Ha r p Hp). lia.
  Qed.

  Lemma ancestor_recorded_le r a n : ancestor r a -> recorded a = Some n -> n <= created r.
  Proof.
    induction 1 as [r p Hp|r p a Hp Hanc IH]; intros Hr.
    - eapply Hc; eassumption.
    - specialize (IH Hr). specialize (Ha r p Hp). lia.
  Qed.

  Lemma lineage_same_or_earlier r a n m :
    ancestor r a -> recorded r = Some n -> recorded a = Some m -> m <= n.
  Proof.
    intros Hanc Hr Hm. pose proof (ancestor_recorded_le r a m Hanc Hm). pose proof (Hb r n Hr). lia.
  Qed.
End LineageOrder.

(* the executable `ancestors` enumerates exactly the ancestor relation when given enough fuel *)
Lemma ancestors_sound h fuel frontier a :
  In a (ancestors h fuel frontier) -> In a frontier \/ exists r, In r frontier /\ ancestor h r a.
Proof.
  revert frontier; induction fuel as [|k IH]; simpl; intros frontier H; [inversion H|].
  apply in_app_or in H as [H|H]; [left; exact H|].
  apply IH in H as [H|[p [Hp Hanc]]].
  - apply in_flat_map in H as [r [Hr Hp]]. right. exists r. split; [exact Hr|apply anc_parent, Hp].
  - apply in_flat_map in Hp as [r [Hr Hp]]. right. exists r. split; [exact Hr|eapply anc_step; eassumption].
Qed.

(* ---------- what the walker returns: the first ancestor level that is empty or consists only
   of individuals with a native generation ---------- *)
Fixpoint level (h : heap) (k : nat) (frontier : list nat) : list nat :=
  match k with
  | O => frontier
  | S k' => level h k' (flat_map (parents_of h) frontier)
  end.

Definition stops (m : ngmap) (l : list nat) : bool :=
  (match l with [] => true | _ => false end) || forallb (has_ng m) l.

Lemma walk_is_first_stopping_level h m fuel : forall frontier l,
  walk h m fuel frontier = Some l ->
  exists k, l = level h k frontier /\ stops m l = true /\
            forall j, j < k -> stops m (level h j frontier) = false.
Proof.
  induction fuel as [|f IH]; intros frontier l H; simpl in H; [discriminate|].
  fold (stops m frontier) in H.
  destruct (stops m frontier) eqn:Hs.
  - injection H as <-. exists 0. split; [reflexivity|]. split; [exact Hs|]. intros j Hj. lia.
  - destruct (IH _ _ H) as [k [E [St Fj]]]. exists (S k). split; [exact E|]. split; [exact St|].
    intros [|j] Hj; [exact Hs|]. simpl. apply Fj. lia.
Qed.

Lemma level_walk h m : forall k frontier fuel,
  k < fuel -> stops m (level h k frontier) = true ->
  (forall j, j < k -> stops m (level h j frontier) = false) ->
  walk h m fuel frontier = Some (level h k frontier).
Proof.
  induction k as [|k IH]; intros frontier fuel Hf St Fj.
  - destruct fuel; [lia|]. simpl in *. fold (stops m frontier). rewrite St. reflexivity.
  - destruct fuel; [lia|]. simpl. fold (stops m frontier).
    pose proof (Fj 0 (Nat.lt_0_succ _)) as F0. simpl in F0. rewrite F0. apply IH; [lia|exact St|].
    intros j Hj. apply (Fj (S j)). lia.
Qed.
