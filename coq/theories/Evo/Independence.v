(* C14 - model of what an optimisation run depends on.  Definitions only (proofs: IndependenceProofs.v).

   Anchors: golem/core/optimisers/optimizer.py (GraphOptimizer.__init__, _progressbar,
   EmptyProgressBar), populational_optimizer.py (optimise, _update_population),
   random/random_search.py (optimise), genetic/evaluation.py (the two dispatchers; re-used from
   Evo/Evaluation.v, the C05 model), utilities/utilities.py (urandom_mock, set_random_seed),
   utilities/random.py (log_random_state), api/main.py (seed argument = set_random_seed).

   A run is a function of
     code variant, platform, configuration, hash salt, generators, oracles, fuel.
   * ONE choice stream (list nat = successive outputs of `random`); every stochastic decision
     reads it, and so does identifier creation when os.urandom is replaced by urandom_mock
     (uuid4 <- os.urandom(16) <- 16 x random.getrandbits(8)).  Without the replacement the
     identifiers come from a second, unseeded source (OsEntropy).
   * The variation operators, selection, inheritance/elitism, the archive, the user's iteration
     callback, the clock and the completion order of the joblib workers are ORACLES; an operator
     oracle sees the stream and reports how many outputs it consumed (it cannot fabricate a
     stream).  Theorems quantify over all oracles, including raising ones.
   * Presentation (progress bar object, log sink) is explicit state threaded through the same
     loop.  The only channel from the bar back into control flow is the value its __exit__
     returns (the `with` protocol).
   * What the model cannot exhibit: the operator oracles are functions of (salt, stream, state);
     in CPython `salt` is the interpreter's string-hash seed (iteration order of sets of nodes,
     hash(node) = hash(uid)); worker processes with their own generator state; wall time.  These
     are looked for by the differential runs of harness/c14.py. *)
From Coq Require Import List Bool Arith QArith Permutation.
From GolemV Require Evo.Evaluation Evo.History.
Import ListNotations.
Local Open Scope nat_scope.

Module E := GolemV.Evo.Evaluation.
Module H := GolemV.Evo.History.

Definition stream := list nat.
Definition ind := E.ind.
Definition graph := E.graph.

(* OutOfFuel is not a Python exception: it is the recursion budget of the model's loops *)
Inductive exn := EvaluationAttempts | ValueErr | UserErr (code : nat) | OutOfFuel.

(* ------------------------------------------------------------------------------------- *)
(* the generators                                                                         *)
(* ------------------------------------------------------------------------------------- *)
(* n successive outputs starting at offset k; an exhausted stream yields zeros *)
Definition window (n k : nat) (s : stream) : list nat := firstn n (skipn k s ++ repeat 0 n).

(* os.urandom: the repository's urandom_mock (bytes from the choice stream) or the OS *)
Inductive idsource := Mocked | OsEntropy (e : stream).
Record rng := { r_stream : stream; r_ids : idsource }.

Definition to_bytes (l : list nat) : list nat := map (fun b => b mod 256) l.   (* getrandbits(8) *)

Definition urandom (n : nat) (r : rng) : list nat * rng :=
  match r_ids r with
  | Mocked => (to_bytes (window n 0 (r_stream r)), {| r_stream := skipn n (r_stream r); r_ids := Mocked |})
  | OsEntropy e => (to_bytes (window n 0 e), {| r_stream := r_stream r; r_ids := OsEntropy (skipn n e) |})
  end.

(* uuid.uuid4() = UUID(bytes=os.urandom(16), version=4); CPython: uid_len = 16 *)
Record platform := { uid_len : nat; encode : list nat -> nat }.

Definition uuid4 (pl : platform) (r : rng) : nat * rng :=
  let (bs, r') := urandom (uid_len pl) r in (encode pl bs, r').

Fixpoint burn_uuids (pl : platform) (k : nat) (r : rng) : rng :=
  match k with O => r | S k' => burn_uuids pl k' (snd (uuid4 pl r)) end.

(* a stochastic decision that consumed n outputs *)
Definition consume_rng (n : nat) (r : rng) : rng := {| r_stream := skipn n (r_stream r); r_ids := r_ids r |}.

(* ------------------------------------------------------------------------------------- *)
(* configuration, code variant, oracles                                                   *)
(* ------------------------------------------------------------------------------------- *)
Inductive okind := Populational | RandomSearch.

Record config := {
  kind : okind;
  show_progress : bool;                (* requirements.show_progress *)
  logging_level : nat;                 (* Log().reset_logging_level / GOLEM(logging_level=) *)
  n_jobs : nat;                        (* requirements.n_jobs *)
  parallel : bool;                     (* parallelization_mode == 'populational' *)
  num_of_generations : option nat;
  pop_size : nat;
  max_stagnation : option nat          (* early_stopping_iterations or num_of_generations *)
}.

Record kcfg := { k_kind : okind; k_n_jobs : nat; k_parallel : bool; k_num_gen : option nat;
                 k_pop_size : nat; k_max_stagn : option nat }.
Record vcfg := { v_show_progress : bool; v_logging_level : nat }.

Definition kpart (c : config) : kcfg :=
  {| k_kind := kind c; k_n_jobs := n_jobs c; k_parallel := parallel c; k_num_gen := num_of_generations c;
     k_pop_size := pop_size c; k_max_stagn := max_stagnation c |}.
Definition vpart (c : config) : vcfg :=
  {| v_show_progress := show_progress c; v_logging_level := logging_level c |}.

Definition set_show_progress (b : bool) (c : config) : config :=
  {| kind := kind c; show_progress := b; logging_level := logging_level c; n_jobs := n_jobs c;
     parallel := parallel c; num_of_generations := num_of_generations c; pop_size := pop_size c;
     max_stagnation := max_stagnation c |}.
Definition set_logging_level (l : nat) (c : config) : config :=
  {| kind := kind c; show_progress := show_progress c; logging_level := l; n_jobs := n_jobs c;
     parallel := parallel c; num_of_generations := num_of_generations c; pop_size := pop_size c;
     max_stagnation := max_stagnation c |}.
Definition set_n_jobs (n : nat) (c : config) : config :=
  {| kind := kind c; show_progress := show_progress c; logging_level := logging_level c; n_jobs := n;
     parallel := parallel c; num_of_generations := num_of_generations c; pop_size := pop_size c;
     max_stagnation := max_stagnation c |}.

(* the three places of the anchored code the theorems depend on *)
Record codevariant := {
  empty_bar_exit : bool;     (* what EmptyProgressBar.__exit__ returns *)
  tqdm_exit : bool;          (* what tqdm.__exit__ returns (None) *)
  fanout_isolated : bool     (* the identifiers joblib draws for a fan-out are kept off os.urandom's
                                replacement, i.e. off the choice stream *)
}.
(* /repo as it is now: EmptyProgressBar.__exit__ returns False; joblib's uuid4 calls go through
   the patched os.urandom like every other *)
Definition current_code : codevariant :=
  {| empty_bar_exit := false; tqdm_exit := false; fanout_isolated := false |}.
(* the tree before the fix of EmptyProgressBar *)
Definition pinned_code : codevariant :=
  {| empty_bar_exit := true; tqdm_exit := false; fanout_isolated := false |}.
(* a dispatcher that saves and restores the generator state around the fan-out *)
Definition isolated_code : codevariant :=
  {| empty_bar_exit := false; tqdm_exit := false; fanout_isolated := true |}.

(* what an operator hands back: an individual passed through unchanged, or a new graph with
   its parents (uids) and the kind of the operator *)
Inductive cand := Keep (i : ind) | New (g : graph) (parents : list nat) (op : option H.opkind).

Record oracles := {
  o_objective : E.objective;
  o_initial : list graph;                      (* the verified initial graphs *)
  (* _extend_population: salt, stream, individuals -> new candidates, outputs consumed *)
  o_extend : nat -> stream -> list ind -> list cand * nat;
  (* regularisation + selection + crossover + mutation (or the random-search generator):
     salt, generation/iteration number, stream, population, archive *)
  o_propose : nat -> nat -> stream -> list ind -> list ind -> (exn + list cand) * nat;
  (* inheritance + elitism: salt, generation, stream, old population, evaluated offspring, archive *)
  o_survive : nat -> nat -> stream -> list ind -> list ind -> list ind -> list ind * nat;
  (* GenerationKeeper.append: call number, archive, population -> archive, is_any_improved *)
  o_keeper : nat -> list ind -> list ind -> list ind * bool;
  o_callback : nat -> list ind -> option exn;  (* the user's iteration callback (k-th call) *)
  o_clock : nat -> bool;                       (* time limit reached at loop test k *)
  o_eval_timer : nat -> nat -> bool;           (* time limit inside dispatcher call k, evaluate_single j *)
  (* completion order of the workers: n_jobs, dispatcher call number *)
  o_sched : nat -> nat -> list (option E.eres) -> list (option E.eres)
}.

(* ------------------------------------------------------------------------------------- *)
(* state: core (what the outcome is made of) and presentation                             *)
(* ------------------------------------------------------------------------------------- *)
Definition lineage := list (nat * (list nat * option H.opkind)).

Record core := {
  c_rng : rng;
  c_calls : list (H.label * list ind);        (* OptHistory.add_to_history calls *)
  c_snaps : list (list ind);                  (* add_to_archive_history calls *)
  c_lineage : lineage;                        (* uid -> parent uids, operator *)
  c_created : list nat;                       (* every identifier created, in order *)
  c_pop : list ind;
  c_archive : list ind;
  c_stagn : nat;
  c_evals : nat;                              (* dispatcher calls so far *)
  c_iter : nat;                               (* random search: current_iteration_num *)
  c_clean : bool                              (* ghost: every population handed to a dispatcher so far
                                                 had pairwise distinct uids among the not yet evaluated *)
}.

Record present := {
  p_bar : option nat;                         (* tqdm counter; None = EmptyProgressBar *)
  p_closed : bool;
  p_log : list (nat * nat)                    (* records that passed the level filter: level, text *)
}.

Definition st := (core * present)%type.
Inductive flow (A : Type) := Val (a : A) | Exc (e : exn).
Arguments Val {A} a.
Arguments Exc {A} e.
Definition M (A : Type) := st -> st * flow A.

Definition ret {A} (a : A) : M A := fun s => (s, Val a).
Definition raise {A} (e : exn) : M A := fun s => (s, Exc e).
Definition bind {A B} (m : M A) (f : A -> M B) : M B :=
  fun s => match m s with
           | (s1, Val a) => f a s1
           | (s1, Exc e) => (s1, Exc e)
           end.
(* an operation on the core only / on the presentation only *)
Definition core_op {A} (f : core -> core * flow A) : M A :=
  fun s => let (c', a) := f (fst s) in ((c', snd s), a).
Definition pres_op (h : present -> present) : M unit :=
  fun s => ((fst s, h (snd s)), Val tt).
(* a presentation operation that reads the core (an f-string evaluated before logging) *)
Definition pres_read (h : core -> present -> present) : M unit :=
  fun s => ((fst s, h (fst s) (snd s)), Val tt).

(* --- core setters --- *)
Definition set_rng (r : rng) (c : core) : core :=
  {| c_rng := r; c_calls := c_calls c; c_snaps := c_snaps c; c_lineage := c_lineage c; c_created := c_created c;
     c_pop := c_pop c; c_archive := c_archive c; c_stagn := c_stagn c; c_evals := c_evals c; c_iter := c_iter c;
     c_clean := c_clean c |}.
Definition consume (n : nat) (c : core) : core := set_rng (consume_rng n (c_rng c)) c.
Definition add_created (r : rng) (lin : lineage) (c : core) : core :=
  {| c_rng := r; c_calls := c_calls c; c_snaps := c_snaps c; c_lineage := c_lineage c ++ lin;
     c_created := c_created c ++ map fst lin;
     c_pop := c_pop c; c_archive := c_archive c; c_stagn := c_stagn c; c_evals := c_evals c; c_iter := c_iter c;
     c_clean := c_clean c |}.
Definition after_eval (r : rng) (clean : bool) (c : core) : core :=
  {| c_rng := r; c_calls := c_calls c; c_snaps := c_snaps c; c_lineage := c_lineage c; c_created := c_created c;
     c_pop := c_pop c; c_archive := c_archive c; c_stagn := c_stagn c; c_evals := S (c_evals c); c_iter := c_iter c;
     c_clean := clean |}.
Definition record_call (lbl : H.label) (pop arch : list ind) (improved : bool) (c : core) : core :=
  {| c_rng := c_rng c; c_calls := c_calls c ++ [(lbl, pop)]; c_snaps := c_snaps c ++ [arch];
     c_lineage := c_lineage c; c_created := c_created c;
     c_pop := c_pop c; c_archive := arch; c_stagn := if improved then 0 else S (c_stagn c);
     c_evals := c_evals c; c_iter := c_iter c; c_clean := c_clean c |}.
Definition set_pop (pop : list ind) (c : core) : core :=
  {| c_rng := c_rng c; c_calls := c_calls c; c_snaps := c_snaps c; c_lineage := c_lineage c; c_created := c_created c;
     c_pop := pop; c_archive := c_archive c; c_stagn := c_stagn c; c_evals := c_evals c; c_iter := c_iter c;
     c_clean := c_clean c |}.
Definition next_iter (c : core) : core :=
  {| c_rng := c_rng c; c_calls := c_calls c; c_snaps := c_snaps c; c_lineage := c_lineage c; c_created := c_created c;
     c_pop := c_pop c; c_archive := c_archive c; c_stagn := c_stagn c; c_evals := c_evals c; c_iter := S (c_iter c);
     c_clean := c_clean c |}.

Definition gen_num (c : core) : nat := length (c_calls c).      (* GenerationKeeper.generation_num *)
Definition cstream (c : core) : stream := r_stream (c_rng c).

(* --- presentation: the progress-bar object and the log sink --- *)
(* _progressbar + __enter__: tqdm(total=..., initial=0) or EmptyProgressBar() *)
Definition bar_enter (v : vcfg) (p : present) : present :=
  {| p_bar := if v_show_progress v then Some 0 else None; p_closed := false; p_log := p_log p |}.
Definition bar_update (p : present) : present :=
  {| p_bar := option_map S (p_bar p); p_closed := p_closed p; p_log := p_log p |}.
Definition bar_close (p : present) : present :=
  {| p_bar := p_bar p; p_closed := true; p_log := p_log p |}.
(* tqdm.__exit__ closes the bar; EmptyProgressBar.__exit__ does nothing *)
Definition bar_exit_effect (v : vcfg) (p : present) : present :=
  if v_show_progress v then bar_close p else p.
(* the value __exit__ returns: truthy = the exception raised in the body is swallowed *)
Definition bar_exit_value (code : codevariant) (v : vcfg) : bool :=
  if v_show_progress v then tqdm_exit code else empty_bar_exit code.

Definition emit (v : vcfg) (lvl text : nat) (p : present) : present :=
  if v_logging_level v <=? lvl
  then {| p_bar := p_bar p; p_closed := p_closed p; p_log := p_log p ++ [(lvl, text)] |}
  else p.
Definition log_at (v : vcfg) (lvl text : nat) : M unit := pres_op (emit v lvl text).
Definition log_state (v : vcfg) (lvl : nat) (text : core -> nat) : M unit :=
  pres_read (fun c => emit v lvl (text c)).

(* RandomStateHandler.log_random_state: random.getstate() / np.random.get_state() at DEBUG -
   reads the generators, consumes nothing *)
Definition log_random_state (v : vcfg) : M unit := log_state v 10 (fun c => length (cstream c)).

(* with self.timer, self._progressbar as pbar: body
   OptimisationTimer.__exit__ returns None, so only the bar can swallow *)
Definition with_bar (code : codevariant) (v : vcfg) (body : M unit) : M unit :=
  fun s =>
    let '(s1, fl) := body (fst s, bar_enter v (snd s)) in
    let s2 := (fst s1, bar_exit_effect v (snd s1)) in
    match fl with
    | Val a => (s2, Val a)
    | Exc OutOfFuel => (s2, Exc OutOfFuel)
    | Exc e => if bar_exit_value code v then (s2, Val tt) else (s2, Exc e)
    end.

(* ------------------------------------------------------------------------------------- *)
(* identifiers and evaluation                                                             *)
(* ------------------------------------------------------------------------------------- *)
(* Individual(graph, parent_operator): uid = str(uuid4()) *)
Fixpoint materialise (pl : platform) (cs : list cand) (r : rng) : list ind * lineage * rng :=
  match cs with
  | [] => ([], [], r)
  | Keep i :: t => let '(is, ls, r') := materialise pl t r in (i :: is, ls, r')
  | New g ps op :: t =>
      let (u, r1) := uuid4 pl r in
      let '(is, ls, r2) := materialise pl t r1 in
      ({| E.uid := u; E.fitness := E.Null; E.gr := g |} :: is, (u, (ps, op)) :: ls, r2)
  end.

Definition create (pl : platform) (cs : list cand) : M (list ind) :=
  core_op (fun c => let '(is, ls, r') := materialise pl cs (c_rng c) in (add_created r' ls c, Val is)).

(* joblib: Parallel.__init__ draws one uuid4; with n_jobs != 1 Parallel.__call__ draws one more
   and the loky backend's TemporaryResourcesManager two *)
Definition joblib_uuid_draws (n_jobs : nat) : nat := if n_jobs =? 1 then 1 else 4.

Definition res_to_flow (r : E.res (list ind)) : flow (list ind) :=
  match r with E.Ok l => Val l | E.RaiseValueError => Exc ValueErr end.

(* RandomSearchOptimizer always builds a SequentialDispatcher *)
Definition in_parallel_mode (k : kcfg) : bool :=
  match k_kind k with Populational => k_parallel k | RandomSearch => false end.

Definition evaluate_core (code : codevariant) (pl : platform) (k : kcfg) (o : oracles) (pop : list ind) (c : core)
  : core * flow (list ind) :=
  let n := c_evals c in
  let clean := c_clean c && E.nodup_b (map E.uid (E.to_evaluate pop)) in
  if in_parallel_mode k then
    let r1 := if fanout_isolated code then c_rng c
              else burn_uuids pl (joblib_uuid_draws (k_n_jobs k)) (c_rng c) in
    (after_eval r1 clean c,
     res_to_flow (fst (E.evaluate_with_cache_shuffled (o_sched o (k_n_jobs k) n) (o_objective o) None
                                                      (o_eval_timer o n) pop)))
  else
    (after_eval (c_rng c) clean c,
     res_to_flow (fst (E.sequential_evaluate (o_objective o) None (o_eval_timer o n) pop))).

Definition evaluate (code : codevariant) (pl : platform) (k : kcfg) (v : vcfg) (o : oracles) (pop : list ind)
  : M (list ind) :=
  bind (if in_parallel_mode k then log_at v 20 (k_n_jobs k) else ret tt)   (* "Number of used CPU's" *)
       (fun _ => core_op (evaluate_core code pl k o pop)).

(* the Individual objects are updated in place by set_evaluation_result *)
Definition refresh (inds evd : list ind) : list ind :=
  map (fun i => match find (fun j => E.uid j =? E.uid i) evd with Some j => j | None => i end) inds.

(* ------------------------------------------------------------------------------------- *)
(* PopulationalOptimizer (EvoGraphOptimizer, SurrogateEachNgenOptimizer,                  *)
(* PopulationalRandomMutationOptimizer)                                                   *)
(* ------------------------------------------------------------------------------------- *)
Section Run.
Variable code : codevariant.
Variable pl : platform.
Variable k : kcfg.
Variable v : vcfg.
Variable salt : nat.
Variable o : oracles.

(* _update_population: keeper, history, archive history, iteration callback, assignment, log *)
Definition update_population (lbl : H.label) (newpop : list ind) : M unit :=
  bind (core_op (fun c =>
          let '(arch, improved) := o_keeper o (gen_num c) (c_archive c) newpop in
          let c1 := record_call lbl newpop arch improved c in
          match o_callback o (gen_num c) newpop with
          | Some e => (c1, Exc e)
          | None => (set_pop newpop c1, Val tt)
          end))
       (fun _ => log_state v 20 (fun c => gen_num c + length newpop)).

Definition init_pop : M unit :=
  bind (create pl (map (fun g => New g [] None) (o_initial o))) (fun inds =>
  bind (evaluate code pl k v o inds) (fun evd =>
  bind (update_population H.LInitial evd) (fun _ =>
  let inds1 := refresh inds evd in
  if length inds1 <? k_pop_size k then
    bind (core_op (fun c => let '(cs, n) := o_extend o salt (cstream c) inds1 in (consume n c, Val cs))) (fun cs =>
    bind (create pl cs) (fun news =>
    bind (evaluate code pl k v o (inds1 ++ news)) (fun evd2 =>
    update_population H.LExtended evd2)))
  else ret tt))).

(* None = EvaluationAttemptsError caught by the loop (break) *)
Definition evolve : M (option (list ind)) :=
  bind (core_op (fun c =>
          let '(r, n) := o_propose o salt (gen_num c) (cstream c) (c_pop c) (c_archive c) in
          (consume n c, Val r))) (fun r =>
  match r with
  | inl EvaluationAttempts => bind (log_at v 30 1) (fun _ => ret None)
  | inl e => raise e
  | inr cs =>
      bind (create pl cs) (fun inds =>
      bind (evaluate code pl k v o inds) (fun evd =>
      bind (core_op (fun c =>
              let '(np, n) := o_survive o salt (gen_num c) (cstream c) (c_pop c) evd (c_archive c) in
              (consume n c, Val np))) (fun np =>
      bind (pres_op bar_update) (fun _ => ret (Some np)))))        (* pbar.update() *)
  end).

Definition reached (limit : option nat) (x : nat) : bool :=
  match limit with Some n => n <=? x | None => false end.

(* stop_optimization: time limit, generation limit, stagnation *)
Definition stop_pop (c : core) : bool :=
  o_clock o (gen_num c - 1)
  || reached (option_map S (k_num_gen k)) (gen_num c)
  || reached (k_max_stagn k) (c_stagn c).

Fixpoint pop_loop (fuel : nat) : M unit :=
  match fuel with
  | O => raise OutOfFuel
  | S f =>
      bind (core_op (fun c => (c, Val (stop_pop c)))) (fun stop =>
      if stop then ret tt else
      bind evolve (fun r =>
      match r with
      | None => ret tt
      | Some np => bind (update_population H.LNone np) (fun _ => pop_loop f)
      end))
  end.

Definition finale_pop : M (list graph) :=
  bind (pres_op bar_close) (fun _ =>
  bind (core_op (fun c => (c, Val (c_archive c)))) (fun best =>
  bind (update_population H.LFinal best) (fun _ =>
  core_op (fun c => (c, Val (map E.gr (c_archive c))))))).

(* ------------------------------------------------------------------------------------- *)
(* RandomSearchOptimizer, RandomMutationOptimizer                                         *)
(* ------------------------------------------------------------------------------------- *)
(* _update_best_individuals: keeper, history, archive history; no iteration callback *)
Definition record_rs (lbl : H.label) (inds : list ind) : M unit :=
  bind (core_op (fun c =>
          let '(arch, improved) := o_keeper o (gen_num c) (c_archive c) inds in
          (record_call lbl inds arch improved c, Val tt)))
       (fun _ => log_state v 20 (fun c => c_iter c)).

Definition propose_rs : M (list cand) :=
  bind (core_op (fun c =>
          let '(r, n) := o_propose o salt (c_iter c) (cstream c) (c_pop c) (c_archive c) in
          (consume n c, Val r))) (fun r =>
  match r with inl e => raise e | inr cs => ret cs end).

(* Individual(choice(initial_graphs)) if initial_graphs else _generate_new_individual() *)
Definition rs_init : M unit :=
  bind (match o_initial o with
        | [] => propose_rs
        | gs => core_op (fun c =>
                  let x := hd 0 (window 1 0 (cstream c)) in
                  (consume 1 c, Val [New (nth (x mod length gs) gs 0) [] None]))
        end) (fun cs =>
  bind (create pl cs) (fun inds =>
  bind (evaluate code pl k v o inds) (fun evd =>
  record_rs H.LInitial (filter (fun i => E.valid (E.fitness i)) (refresh inds evd))))).

Definition stop_rs (c : core) : bool := o_clock o (c_iter c) || reached (k_num_gen k) (c_iter c).

Fixpoint rs_loop (fuel : nat) : M unit :=
  match fuel with
  | O => raise OutOfFuel
  | S f =>
      bind (core_op (fun c => (c, Val (stop_rs c)))) (fun stop =>
      if stop then ret tt else
      bind propose_rs (fun cs =>
      bind (create pl cs) (fun inds =>
      bind (evaluate code pl k v o inds) (fun evd =>
      bind (core_op (fun c => (next_iter c, Val tt))) (fun _ =>
      bind (match evd with [] => ret tt | _ => record_rs H.LNone evd end) (fun _ =>
      bind (pres_op bar_update) (fun _ => rs_loop f)))))))
  end.

Definition finale_rs : M (list graph) :=
  bind (core_op (fun c => (c, Val (c_archive c)))) (fun best =>
  bind (record_rs H.LFinal best) (fun _ =>
  bind (pres_op bar_close) (fun _ =>
  core_op (fun c => (c, Val (map E.gr (c_archive c))))))).

(* ------------------------------------------------------------------------------------- *)
(* optimise                                                                               *)
(* ------------------------------------------------------------------------------------- *)
Definition body (fuel : nat) : M unit :=
  match k_kind k with
  | Populational => bind init_pop (fun _ => pop_loop fuel)
  | RandomSearch => bind rs_init (fun _ => rs_loop fuel)
  end.

Definition finale : M (list graph) :=
  match k_kind k with Populational => finale_pop | RandomSearch => finale_rs end.

Definition run (fuel : nat) : M (list graph) :=
  bind (log_random_state v) (fun _ =>           (* GraphOptimizer.__init__ *)
  bind (with_bar code v (body fuel)) (fun _ => finale)).
End Run.

Definition core0 (r : rng) : core :=
  {| c_rng := r; c_calls := []; c_snaps := []; c_lineage := []; c_created := []; c_pop := []; c_archive := [];
     c_stagn := 0; c_evals := 0; c_iter := 0; c_clean := true |}.
Definition present0 : present := {| p_bar := None; p_closed := false; p_log := [] |}.

(* everything the caller can observe of a run except the presentation *)
Record outcome := {
  out_result : flow (list graph);             (* what optimise() returns or raises *)
  out_core : core                             (* history, archive history, lineage, identifiers,
                                                 generator state after the run *)
}.

Definition optimise (code : codevariant) (pl : platform) (cfg : config) (salt : nat) (r : rng) (o : oracles)
           (fuel : nat) : outcome * present :=
  let '((c, p), fl) := run code pl (kpart cfg) (vpart cfg) salt o fuel (core0 r, present0) in
  ({| out_result := fl; out_core := c |}, p).

(* the history as OptHistory numbers it (History.v): generations and native generations *)
Definition history_of (out : outcome) : H.hstate :=
  H.run_history (map (fun cl => (fst cl, map E.uid (snd cl))) (c_calls (out_core out))).

(* ------------------------------------------------------------------------------------- *)
(* observed exports of real runs                                                          *)
(* ------------------------------------------------------------------------------------- *)
Record oind := {
  oi_uid : nat;                     (* canonical index of the uid *)
  oi_fit : option (list Q);         (* None = no valid fitness *)
  oi_sid : nat;                     (* canonical index of the graph's descriptive id *)
  oi_nodes : list nat;              (* canonical indices of the uids of the graph's nodes *)
  oi_parents : list nat;
  oi_op : option H.opkind;
  oi_opnames : list nat;
  oi_ng : option nat                (* native generation *)
}.
Record ogen := { og_num : nat; og_label : H.label; og_members : list nat }.
Record export := {
  x_outcome : nat;                  (* 0 = returned; otherwise index of the exception class *)
  x_gens : list ogen;
  x_snaps : list (list nat);        (* archive history *)
  x_inds : list oind;               (* every individual reachable from the history, by canonical index *)
  x_result : list nat               (* descriptive ids of the returned graphs *)
}.

Definition opt_eqb {A} (eqb : A -> A -> bool) (a b : option A) : bool :=
  match a, b with Some x, Some y => eqb x y | None, None => true | _, _ => false end.
Definition opkind_eqb (a b : H.opkind) : bool :=
  match a, b with
  | H.OMutation, H.OMutation | H.OCrossover, H.OCrossover
  | H.ORegularization, H.ORegularization | H.OOther, H.OOther => true
  | _, _ => false
  end.
Definition nats_eqb := E.list_eqb Nat.eqb.

Definition oind_eqb (a b : oind) : bool :=
  Nat.eqb (oi_uid a) (oi_uid b) && opt_eqb (E.list_eqb E.Q_eqb) (oi_fit a) (oi_fit b)
  && Nat.eqb (oi_sid a) (oi_sid b) && nats_eqb (oi_nodes a) (oi_nodes b)
  && nats_eqb (oi_parents a) (oi_parents b)
  && opt_eqb opkind_eqb (oi_op a) (oi_op b) && nats_eqb (oi_opnames a) (oi_opnames b)
  && opt_eqb Nat.eqb (oi_ng a) (oi_ng b).
Definition ogen_eqb (a b : ogen) : bool :=
  Nat.eqb (og_num a) (og_num b) && H.label_eqb (og_label a) (og_label b) && nats_eqb (og_members a) (og_members b).

(* identical histories: structures, fitness values, identifiers, lineage, generation sizes, order *)
Definition export_eqb (a b : export) : bool :=
  Nat.eqb (x_outcome a) (x_outcome b)
  && E.list_eqb ogen_eqb (x_gens a) (x_gens b)
  && E.list_eqb nats_eqb (x_snaps a) (x_snaps b)
  && E.list_eqb oind_eqb (x_inds a) (x_inds b)
  && nats_eqb (x_result a) (x_result b).

(* clauses of the property, by what was varied between the base run and the other run *)
Inductive clause := CRepeat | CHashSeed | CProgress | CLogging | CWorkers | CWorkersFrom2 | CWorkersIsolated | CFacade
                  | CWorkersRepeat | CSameInterpreter.
Definition clause_eqb (a b : clause) : bool :=
  match a, b with
  | CRepeat, CRepeat | CHashSeed, CHashSeed | CProgress, CProgress | CLogging, CLogging
  | CWorkers, CWorkers | CWorkersFrom2, CWorkersFrom2 | CWorkersIsolated, CWorkersIsolated
  | CFacade, CFacade | CWorkersRepeat, CWorkersRepeat | CSameInterpreter, CSameInterpreter => true
  | _, _ => false
  end.

(* how the run was driven, for the replay through the model *)
Record replay := {
  rp_kind : okind; rp_parallel : bool; rp_n_jobs : nat;
  rp_num_gen : option nat; rp_pop_size : nat; rp_max_stagn : option nat;
  rp_multi : bool; rp_nmetrics : nat;
  rp_n_initial : nat;              (* initial graphs handed to the optimiser *)
  rp_created : list nat;           (* uids in the order the individuals were created *)
  rp_new : list (list nat);        (* per add_to_history call: uids created for it, in creation order *)
  rp_parents : list (nat * (list nat * option H.opkind));
  rp_stagn : list nat;             (* keeper's stagnation counter after each call *)
  rp_fault : option (nat * nat);   (* iteration callback raises at call k: (k, exception index) *)
  rp_joblib_draws : list nat;      (* os.urandom(16) calls made by joblib, per dispatcher call *)
  rp_iter_calls : list nat;        (* random search: the add_to_history call made by iteration n (0 = none:
                                      the mutation produced nothing, nothing was evaluated or recorded) *)
  rp_offsets : list Z              (* per identifier of rp_created: the offset at which its 16 bytes start in
                                      the stream of random.seed(seed); -1 = not found there *)
}.

Record case := {
  k_replay : option replay;        (* None: not replayed (facade runs) *)
  k_base : export;
  k_others : list (clause * (nat * export))   (* clause, run number, export *)
}.

(* --- table-driven oracles: the recorded run as the answers of the oracles --- *)
Definition lookup (u : nat) (l : list ind) : list ind :=
  match find (fun i => E.uid i =? u) l with Some i => [i] | None => [] end.
Definition lookups (us : list nat) (l : list ind) : list ind := flat_map (fun u => lookup u l) us.

Definition obs_gen (x : export) (g : nat) : list nat :=
  match nth_error (x_gens x) g with Some og => og_members og | None => [] end.

Definition obs_fit_row (i : oind) : list E.mres :=
  match oi_fit i with Some vs => map E.MVal vs | None => [] end.

(* the graph of an individual is labelled by the individual's uid: the replayed objective
   returns each individual's recorded metric values *)
Definition replay_objective (rp : replay) (x : export) : E.objective :=
  E.objective_of_table (map (fun i => (oi_uid i, obs_fit_row i)) (x_inds x)) (rp_nmetrics rp) (rp_multi rp).

Definition new_cands (rp : replay) (us : list nat) : list cand :=
  map (fun u => match E.assoc u (rp_parents rp) with
                | Some (ps, op) => New u ps op
                | None => New u [] None
                end) us.

Definition replay_oracles (rp : replay) (x : export) : oracles :=
  {| o_objective := replay_objective rp x;
     o_initial := firstn (rp_n_initial rp) (rp_created rp);
     o_extend := fun _ _ _ => (new_cands rp (nth 1 (rp_new rp) []), 0);
     o_propose := fun _ n _ pop arch =>
       match rp_kind rp with
       | Populational => (inr (new_cands rp (nth n (rp_new rp) [])), 0)
       | RandomSearch =>
           (* a member seen before is the individual the mutation handed back unchanged *)
           let ci := nth n (rp_iter_calls rp) 0 in
           if Nat.eqb ci 0 then (inr [], 0) else
           (inr (flat_map (fun u => if existsb (Nat.eqb u) (nth ci (rp_new rp) [])
                                    then new_cands rp [u]
                                    else map Keep (lookup u (arch ++ pop)))
                          (obs_gen x ci)), 0)
       end;
     o_survive := fun _ n _ old evd arch => (lookups (obs_gen x n) (evd ++ old ++ arch), 0);
     o_keeper := fun n arch pop =>
       (lookups (nth n (x_snaps x) []) (pop ++ arch), Nat.eqb (nth n (rp_stagn rp) 0) 0);
     o_callback := fun n _ =>
       match rp_fault rp with
       | Some (kf, e) => if Nat.eqb n kf then Some (UserErr e) else None
       | None => None
       end;
     o_clock := fun _ => false;
     o_eval_timer := fun _ _ => false;
     o_sched := fun _ _ l => rev l |}.

Definition replay_config (rp : replay) : config :=
  {| kind := rp_kind rp; show_progress := false; logging_level := 50; n_jobs := rp_n_jobs rp;
     parallel := rp_parallel rp; num_of_generations := rp_num_gen rp; pop_size := rp_pop_size rp;
     max_stagnation := rp_max_stagn rp |}.

(* in the replay an identifier is one stream element: the recorded canonical index *)
Definition replay_platform : platform := {| uid_len := 1; encode := fun bs => hd 0 bs |}.

(* the replayed stream: per history call the identifiers created for it, followed (parallel mode)
   by the outputs joblib takes for the fan-out that evaluates them *)
Definition replay_stream (rp : replay) : stream :=
  let j := if in_parallel_mode (kpart (replay_config rp)) then joblib_uuid_draws (rp_n_jobs rp) else 0 in
  (match rp_kind rp with RandomSearch => [0] | Populational => [] end)   (* choice(initial_graphs) *)
  ++ flat_map (fun l => l ++ repeat 0 j) (rp_new rp).

Definition replay_run (rp : replay) (x : export) : outcome :=
  fst (optimise current_code replay_platform (replay_config rp) 0
                {| r_stream := replay_stream rp; r_ids := Mocked |} (replay_oracles rp x)
                (S (S (length (x_gens x))) + match rp_num_gen rp with Some n => n | None => 0 end)).

(* the observed identifiers are windows of the seeded stream, created in the recorded order and
   pairwise disjoint (16 outputs each) - the observable side of uid_source_single_stream *)
Fixpoint windows_ok (l : list Z) : bool :=
  match l with
  | [] => true
  | a :: t => Z.leb 0%Z a && match t with [] => true | b :: _ => Z.leb (a + 16)%Z b end && windows_ok t
  end.

Definition fit_values (f : E.fit) : option (list Q) :=
  match f with E.Null => None | E.FSingle vs => Some vs | E.FMulti vs => Some vs end.

Definition obs_fit (x : export) (u : nat) : option (list Q) :=
  match find (fun i => oi_uid i =? u) (x_inds x) with Some i => oi_fit i | None => None end.

Definition outcome_code (fl : flow (list graph)) : nat :=
  match fl with Val _ => 0 | Exc (UserErr e) => e | Exc _ => 99 end.

(* model = implementation: the loop replayed with the recorded answers of the oracles gives the
   recorded generations (number, label, members in order, their fitness), the recorded archive
   history, the recorded outcome, the recorded identifiers in the recorded creation order (each a
   window of the seeded stream, pairwise disjoint), no identifier twice in an evaluated
   population, and the number of identifiers joblib drew per dispatcher call *)
Definition agree_replay (rp : replay) (x : export) : bool :=
  let out := replay_run rp x in
  let c := out_core out in
  let hs := history_of out in
  E.list_eqb ogen_eqb
    (map (fun g => {| og_num := H.g_num g; og_label := H.g_label g; og_members := H.g_members g |}) (H.gens hs))
    (x_gens x)
  && forallb (fun cl => forallb (fun i => opt_eqb (E.list_eqb E.Q_eqb) (fit_values (E.fitness i))
                                                  (obs_fit x (E.uid i))) (snd cl)) (c_calls c)
  && E.list_eqb nats_eqb (map (map E.uid) (c_snaps c)) (x_snaps x)
  && Nat.eqb (outcome_code (out_result out)) (x_outcome x)
  && nats_eqb (c_created c) (rp_created rp)
  && windows_ok (rp_offsets rp) && Nat.eqb (length (rp_offsets rp)) (length (rp_created rp))
  && c_clean c
  && (negb (in_parallel_mode (kpart (replay_config rp)))
      || forallb (Nat.eqb (joblib_uuid_draws (rp_n_jobs rp))) (rp_joblib_draws rp))
  && (in_parallel_mode (kpart (replay_config rp))
      || forallb (Nat.eqb 0) (rp_joblib_draws rp)).

Definition agree (cs : case) : bool :=
  match k_replay cs with Some rp => agree_replay rp (k_base cs) | None => true end.

(* the property on the observed exports: every other run of the clause has the base run's history *)
Definition holds_clause (cl : clause) (cs : case) : bool :=
  forallb (fun r => negb (clause_eqb cl (fst r)) || export_eqb (k_base cs) (snd (snd r))) (k_others cs).

Definition holds_b (cs : case) : bool :=
  forallb (fun cl => holds_clause cl cs)
          [CRepeat; CHashSeed; CProgress; CLogging; CWorkers; CWorkersFrom2; CWorkersIsolated; CFacade;
           CWorkersRepeat; CSameInterpreter].

Definition verdicts (cs : case) : list bool :=
  [agree cs; holds_clause CRepeat cs; holds_clause CHashSeed cs; holds_clause CProgress cs;
   holds_clause CLogging cs; holds_clause CWorkers cs; holds_clause CWorkersFrom2 cs;
   holds_clause CWorkersIsolated cs; holds_clause CFacade cs; holds_clause CWorkersRepeat cs;
   holds_clause CSameInterpreter cs].
