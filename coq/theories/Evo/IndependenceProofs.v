(* C14 - proofs about Evo/Independence.v.
   Part A: presentation neutrality (non-interference of progress bar / log sink).
   Part B: workers neutrality (n_jobs, completion order) from C05's order independence.
   Part C: identifiers are windows of the one stream.
   Part D: congruence (definitional). *)
From Coq Require Import List Bool Arith Lia Permutation QArith.
From GolemV Require Evo.Evaluation Evo.EvaluationProofs Evo.History.
From GolemV Require Import Evo.Independence.
Import ListNotations.
Local Open Scope nat_scope.
Local Close Scope Q_scope.

Module EP := GolemV.Evo.EvaluationProofs.

(* ===================================================================================== *)
(* A. presentation neutrality                                                             *)
(* ===================================================================================== *)
(* what remains of a result when the presentation is forgotten *)
Definition cview {A} (r : st * flow A) : core * flow A := (fst (fst r), snd r).

(* two computations that differ only in how they present *)
Definition neutral {A} (m m' : M A) : Prop := forall c p p', cview (m (c, p)) = cview (m' (c, p')).

Lemma neutral_ret : forall A (a : A), neutral (ret a) (ret a).
Proof. intros A a c p p'. reflexivity. Qed.

Lemma neutral_raise : forall A e, neutral (@raise A e) (raise e).
Proof. intros A e c p p'. reflexivity. Qed.

Lemma neutral_bind : forall A B (m m' : M A) (f f' : A -> M B),
  neutral m m' -> (forall a, neutral (f a) (f' a)) -> neutral (bind m f) (bind m' f').
Proof.
  intros A B m m' f f' Hm Hf c p p'. unfold bind.
  specialize (Hm c p p'). unfold cview in Hm.
  destruct (m (c, p)) as [[c1 p1] fl1]. destruct (m' (c, p')) as [[c1' p1'] fl1']. simpl in Hm.
  inversion Hm; subst. destruct fl1' as [a|e].
  - apply Hf.
  - reflexivity.
Qed.

Lemma neutral_core_op : forall A (f : core -> core * flow A), neutral (core_op f) (core_op f).
Proof. intros A f c p p'. unfold core_op, cview. simpl. destruct (f c). reflexivity. Qed.

Lemma neutral_pres_op : forall h h', neutral (pres_op h) (pres_op h').
Proof. intros h h' c p p'. reflexivity. Qed.

Lemma neutral_pres_read : forall h h', neutral (pres_read h) (pres_read h').
Proof. intros h h' c p p'. reflexivity. Qed.

Lemma neutral_log_at : forall v v' l t l' t', neutral (log_at v l t) (log_at v' l' t').
Proof. intros. apply neutral_pres_op. Qed.

Lemma neutral_log_state : forall v v' l t l' t', neutral (log_state v l t) (log_state v' l' t').
Proof. intros. apply neutral_pres_read. Qed.

Ltac neut :=
  repeat first
    [ apply neutral_ret | apply neutral_raise | apply neutral_core_op | apply neutral_pres_op
    | apply neutral_pres_read | apply neutral_log_at | apply neutral_log_state
    | (apply neutral_bind; [ | intros ? ]) ].

Section Neutral.
Variable code : codevariant.
Variable pl : platform.
Variable k : kcfg.
Variables v v' : vcfg.
Variable salt : nat.
Variable o : oracles.

Lemma neutral_evaluate : forall pop, neutral (evaluate code pl k v o pop) (evaluate code pl k v' o pop).
Proof. intros pop. unfold evaluate. destruct (in_parallel_mode k); neut. Qed.

Lemma neutral_create : forall cs, neutral (create pl cs) (create pl cs).
Proof. intros. unfold create. neut. Qed.

Lemma neutral_update_population : forall lbl np,
  neutral (update_population v o lbl np) (update_population v' o lbl np).
Proof. intros. unfold update_population. neut. Qed.

Lemma neutral_init_pop : neutral (init_pop code pl k v salt o) (init_pop code pl k v' salt o).
Proof.
  unfold init_pop. apply neutral_bind; [apply neutral_create | intros inds].
  apply neutral_bind; [apply neutral_evaluate | intros evd].
  apply neutral_bind; [apply neutral_update_population | intros _].
  destruct (length (refresh inds evd) <? k_pop_size k); [ | neut].
  apply neutral_bind; [neut | intros cs].
  apply neutral_bind; [apply neutral_create | intros news].
  apply neutral_bind; [apply neutral_evaluate | intros evd2].
  apply neutral_update_population.
Qed.

Lemma neutral_evolve : neutral (evolve code pl k v salt o) (evolve code pl k v' salt o).
Proof.
  unfold evolve. apply neutral_bind; [neut | intros r].
  destruct r as [e | cs].
  - destruct e; neut.
  - apply neutral_bind; [apply neutral_create | intros inds].
    apply neutral_bind; [apply neutral_evaluate | intros evd].
    neut.
Qed.

Lemma neutral_pop_loop : forall fuel, neutral (pop_loop code pl k v salt o fuel) (pop_loop code pl k v' salt o fuel).
Proof.
  induction fuel as [|f IH]; simpl; [neut | ].
  apply neutral_bind; [neut | intros stop]. destruct stop; [neut | ].
  apply neutral_bind; [apply neutral_evolve | intros r].
  destruct r as [np | ]; [ | neut].
  apply neutral_bind; [apply neutral_update_population | intros _]. exact IH.
Qed.

Lemma neutral_finale_pop : neutral (finale_pop v o) (finale_pop v' o).
Proof.
  unfold finale_pop. apply neutral_bind; [neut | intros _].
  apply neutral_bind; [neut | intros best].
  apply neutral_bind; [apply neutral_update_population | intros _]. neut.
Qed.

Lemma neutral_record_rs : forall lbl inds, neutral (record_rs v o lbl inds) (record_rs v' o lbl inds).
Proof. intros. unfold record_rs. neut. Qed.

Lemma neutral_propose_rs : neutral (propose_rs salt o) (propose_rs salt o).
Proof. unfold propose_rs. apply neutral_bind; [neut | intros r]. destruct r; neut. Qed.

Lemma neutral_rs_init : neutral (rs_init code pl k v salt o) (rs_init code pl k v' salt o).
Proof.
  unfold rs_init. apply neutral_bind.
  - destruct (o_initial o); [apply neutral_propose_rs | neut].
  - intros cs. apply neutral_bind; [apply neutral_create | intros inds].
    apply neutral_bind; [apply neutral_evaluate | intros evd]. apply neutral_record_rs.
Qed.

Lemma neutral_rs_loop : forall fuel, neutral (rs_loop code pl k v salt o fuel) (rs_loop code pl k v' salt o fuel).
Proof.
  induction fuel as [|f IH]; simpl; [neut | ].
  apply neutral_bind; [neut | intros stop]. destruct stop; [neut | ].
  apply neutral_bind; [apply neutral_propose_rs | intros cs].
  apply neutral_bind; [apply neutral_create | intros inds].
  apply neutral_bind; [apply neutral_evaluate | intros evd].
  apply neutral_bind; [neut | intros _].
  apply neutral_bind; [destruct evd; [neut | apply neutral_record_rs] | intros _].
  apply neutral_bind; [neut | intros _]. exact IH.
Qed.

Lemma neutral_finale_rs : neutral (finale_rs v o) (finale_rs v' o).
Proof.
  unfold finale_rs. apply neutral_bind; [neut | intros best].
  apply neutral_bind; [apply neutral_record_rs | intros _]. neut.
Qed.

Lemma neutral_body : forall fuel, neutral (body code pl k v salt o fuel) (body code pl k v' salt o fuel).
Proof.
  intros fuel. unfold body. destruct (k_kind k).
  - apply neutral_bind; [apply neutral_init_pop | intros _; apply neutral_pop_loop].
  - apply neutral_bind; [apply neutral_rs_init | intros _; apply neutral_rs_loop].
Qed.

Lemma neutral_finale : neutral (finale k v o) (finale k v' o).
Proof. unfold finale. destruct (k_kind k); [apply neutral_finale_pop | apply neutral_finale_rs]. Qed.

(* the `with` statement: neutral as soon as both bar objects answer __exit__ alike *)
Lemma neutral_with_bar : forall (b b' : M unit),
  neutral b b' -> bar_exit_value code v = bar_exit_value code v' ->
  neutral (with_bar code v b) (with_bar code v' b').
Proof.
  intros b b' Hb Hx c p p'. unfold with_bar. simpl.
  specialize (Hb c (bar_enter v p) (bar_enter v' p')). unfold cview in Hb.
  destruct (b (c, bar_enter v p)) as [[c1 p1] fl]. destruct (b' (c, bar_enter v' p')) as [[c1' p1'] fl'].
  simpl in Hb. inversion Hb; subst. destruct fl' as [a | e]; [reflexivity | ].
  destruct e; try reflexivity; rewrite Hx; destruct (bar_exit_value code v'); reflexivity.
Qed.

Lemma neutral_run : forall fuel,
  bar_exit_value code v = bar_exit_value code v' ->
  neutral (run code pl k v salt o fuel) (run code pl k v' salt o fuel).
Proof.
  intros fuel Hx. unfold run. apply neutral_bind; [apply neutral_log_state | intros _].
  apply neutral_bind; [ | intros _; apply neutral_finale].
  apply neutral_with_bar; [apply neutral_body | exact Hx].
Qed.
End Neutral.

(* two configurations that differ at most in show_progress and logging_level *)
Theorem presentation_neutral_gen : forall code pl cfg cfg' salt r o fuel,
  kpart cfg = kpart cfg' ->
  bar_exit_value code (vpart cfg) = bar_exit_value code (vpart cfg') ->
  fst (optimise code pl cfg salt r o fuel) = fst (optimise code pl cfg' salt r o fuel).
Proof.
  intros code pl cfg cfg' salt r o fuel Hk Hx. unfold optimise. rewrite <- Hk.
  pose proof (neutral_run code pl (kpart cfg) (vpart cfg) (vpart cfg') salt o fuel Hx (core0 r) present0 present0) as N.
  unfold cview in N.
  destruct (run code pl (kpart cfg) (vpart cfg) salt o fuel (core0 r, present0)) as [[c p] fl].
  destruct (run code pl (kpart cfg) (vpart cfg') salt o fuel (core0 r, present0)) as [[c' p'] fl'].
  simpl in N. inversion N; subst. reflexivity.
Qed.

(* /repo as it is now: both bar objects return a falsy value from __exit__ *)
Lemma current_code_exit : forall v, bar_exit_value current_code v = false.
Proof. intros v. unfold bar_exit_value, current_code. simpl. destruct (v_show_progress v); reflexivity. Qed.

Theorem presentation_neutral : forall pl cfg a b salt r o fuel,
  fst (optimise current_code pl (set_show_progress a cfg) salt r o fuel) =
  fst (optimise current_code pl (set_show_progress b cfg) salt r o fuel).
Proof.
  intros. apply presentation_neutral_gen; [reflexivity | ]. now rewrite !current_code_exit.
Qed.

Theorem logging_neutral : forall pl cfg l l' salt r o fuel,
  fst (optimise current_code pl (set_logging_level l cfg) salt r o fuel) =
  fst (optimise current_code pl (set_logging_level l' cfg) salt r o fuel).
Proof.
  intros. apply presentation_neutral_gen; [reflexivity | ]. now rewrite !current_code_exit.
Qed.

(* both at once, and for any code variant whose two bars agree on __exit__ *)
Theorem presentation_neutral_both : forall code pl cfg a l b l' salt r o fuel,
  empty_bar_exit code = tqdm_exit code ->
  fst (optimise code pl (set_show_progress a (set_logging_level l cfg)) salt r o fuel) =
  fst (optimise code pl (set_show_progress b (set_logging_level l' cfg)) salt r o fuel).
Proof.
  intros code pl cfg a l b l' salt r o fuel He. apply presentation_neutral_gen; [reflexivity | ].
  unfold bar_exit_value, vpart, set_show_progress. simpl. rewrite He. destruct a, b; reflexivity.
Qed.

(* --- the theorem depends on EmptyProgressBar.__exit__: with the swallowing stub of the pinned
   tree an exception raised by the iteration callback is propagated with the bar shown and
   swallowed (the run then records `final_choices` and returns) with the bar hidden --- *)
Definition w_objective : E.objective := {| E.metrics := [fun g => E.MVal (Z.of_nat g # 1)%Q]; E.multi := false |}.
Definition w_oracles (fault : option nat) : oracles :=
  {| o_objective := w_objective;
     o_initial := [1; 2];
     o_extend := fun _ _ _ => ([], 0);
     o_propose := fun _ _ s pop _ => (inr [New (3 + hd 0 s) (map E.uid (firstn 1 pop)) (Some H.OMutation)], 1);
     o_survive := fun _ _ _ _ evd _ => (evd, 0);
     o_keeper := fun _ arch pop => (firstn 1 (pop ++ arch), true);
     o_callback := fun n _ => match fault with Some kf => if Nat.eqb n kf then Some (UserErr 7) else None | None => None end;
     o_clock := fun _ => false;
     o_eval_timer := fun _ _ => false;
     o_sched := fun _ _ l => l |}.
Definition w_platform : platform := {| uid_len := 2; encode := fun bs => 10 * hd 0 bs + hd 0 (tl bs) |}.
Definition w_config : config :=
  {| kind := Populational; show_progress := false; logging_level := 20; n_jobs := 1; parallel := false;
     num_of_generations := Some 2; pop_size := 2; max_stagnation := None |}.
Definition w_rng : rng := {| r_stream := [1; 2; 3; 4; 5; 6; 7; 8; 9; 1; 3; 5; 7; 9; 2; 4; 6; 8]; r_ids := Mocked |}.

Lemma presentation_sensitive :
  out_result (fst (optimise pinned_code w_platform (set_show_progress true w_config) 0 w_rng (w_oracles (Some 1)) 9))
    = Exc (UserErr 7)
  /\ (exists gs, out_result (fst (optimise pinned_code w_platform (set_show_progress false w_config) 0 w_rng
                                            (w_oracles (Some 1)) 9)) = Val gs)
  /\ length (c_calls (out_core (fst (optimise pinned_code w_platform (set_show_progress true w_config) 0 w_rng
                                              (w_oracles (Some 1)) 9)))) = 2
  /\ length (c_calls (out_core (fst (optimise pinned_code w_platform (set_show_progress false w_config) 0 w_rng
                                              (w_oracles (Some 1)) 9)))) = 3.
Proof. vm_compute. repeat split. eexists. reflexivity. Qed.

(* ===================================================================================== *)
(* B. workers neutrality                                                                  *)
(* ===================================================================================== *)
Definition with_n_jobs (n : nat) (k : kcfg) : kcfg :=
  {| k_kind := k_kind k; k_n_jobs := n; k_parallel := k_parallel k; k_num_gen := k_num_gen k;
     k_pop_size := k_pop_size k; k_max_stagn := k_max_stagn k |}.
Definition set_sched (sch : nat -> nat -> list (option E.eres) -> list (option E.eres)) (o : oracles) : oracles :=
  {| o_objective := o_objective o; o_initial := o_initial o; o_extend := o_extend o; o_propose := o_propose o;
     o_survive := o_survive o; o_keeper := o_keeper o; o_callback := o_callback o; o_clock := o_clock o;
     o_eval_timer := o_eval_timer o; o_sched := sch |}.

Definition cleanof {A} (r : st * flow A) : bool := c_clean (fst (fst r)).

(* the ghost flag only ever goes from true to false *)
Definition mono {A} (m : M A) : Prop := forall c p, cleanof (m (c, p)) = true -> c_clean c = true.
(* m' reproduces m on every run of m that stayed clean *)
Definition wsim {A} (m m' : M A) : Prop :=
  forall c p p', cleanof (m (c, p)) = true -> cview (m' (c, p')) = cview (m (c, p)).

Lemma wsim_of_neutral : forall A (m m' : M A), neutral m m' -> wsim m m'.
Proof. intros A m m' N c p p' _. symmetry. apply N. Qed.

Lemma mono_ret : forall A (a : A), mono (ret a).
Proof. intros A a c p H. exact H. Qed.
Lemma mono_raise : forall A e, mono (@raise A e).
Proof. intros A e c p H. exact H. Qed.
Lemma mono_pres_op : forall h, mono (pres_op h).
Proof. intros h c p H. exact H. Qed.
Lemma mono_pres_read : forall h, mono (pres_read h).
Proof. intros h c p H. exact H. Qed.
Lemma mono_core_op : forall A (f : core -> core * flow A),
  (forall c, c_clean (fst (f c)) = true -> c_clean c = true) -> mono (core_op f).
Proof.
  intros A f Hf c p H. apply Hf. unfold cleanof, core_op in H. simpl in H. destruct (f c). exact H.
Qed.
Lemma mono_bind : forall A B (m : M A) (f : A -> M B), mono m -> (forall a, mono (f a)) -> mono (bind m f).
Proof.
  intros A B m f Hm Hf c p H. apply (Hm c p). unfold cleanof, bind in *.
  destruct (m (c, p)) as [[c1 p1] [a|e]]; simpl in *.
  - apply (Hf a c1 p1). exact H.
  - exact H.
Qed.

Lemma wsim_bind : forall A B (m m' : M A) (f f' : A -> M B),
  wsim m m' -> (forall a, wsim (f a) (f' a)) -> (forall a, mono (f a)) -> wsim (bind m f) (bind m' f').
Proof.
  intros A B m m' f f' Hm Hf Mf c p p' H. unfold bind in *.
  specialize (Hm c p p'). unfold cview, cleanof in *.
  destruct (m (c, p)) as [[c1 p1] [a|e]]; simpl in *.
  - assert (C1 : c_clean c1 = true) by (apply (Mf a c1 p1); exact H).
    specialize (Hm C1). destruct (m' (c, p')) as [[c1' p1'] fl']. simpl in Hm. inversion Hm; subst.
    apply Hf. exact H.
  - specialize (Hm H). destruct (m' (c, p')) as [[c1' p1'] fl']. simpl in Hm. inversion Hm; subst. reflexivity.
Qed.

Ltac mono_core :=
  apply mono_core_op; let c0 := fresh "c0" in intros c0;
  repeat match goal with |- context [let '(_, _) := ?x in _] => destruct x end;
  repeat match goal with |- context [match ?x with _ => _ end] => destruct x end;
  simpl; auto.

Ltac mon :=
  repeat first
    [ apply mono_ret | apply mono_raise | apply mono_pres_op | apply mono_pres_read
    | (apply mono_bind; [ | intros ? ]) | mono_core ].

Lemma mono_log_at : forall v l t, mono (log_at v l t).
Proof. intros. apply mono_pres_op. Qed.
Lemma mono_log_state : forall v l t, mono (log_state v l t).
Proof. intros. apply mono_pres_read. Qed.

Lemma materialise_any : forall pl cs r, exists is ls r', materialise pl cs r = (is, ls, r').
Proof. intros. destruct (materialise pl cs r) as [[is ls] r']. eauto. Qed.

Lemma mono_create : forall pl cs, mono (create pl cs).
Proof.
  intros. unfold create. apply mono_core_op. intros c.
  destruct (materialise pl cs (c_rng c)) as [[is ls] r']. simpl. auto.
Qed.

Lemma mono_evaluate : forall code pl k v o pop, mono (evaluate code pl k v o pop).
Proof.
  intros. unfold evaluate. apply mono_bind.
  - destruct (in_parallel_mode k); [apply mono_log_at | apply mono_ret].
  - intros _. apply mono_core_op. intros c. unfold evaluate_core.
    destruct (in_parallel_mode k); simpl; intros H; apply andb_true_iff in H; tauto.
Qed.

Lemma mono_update_population : forall v o lbl np, mono (update_population v o lbl np).
Proof.
  intros. unfold update_population. apply mono_bind; [ | intros; apply mono_log_state].
  apply mono_core_op. intros c. destruct (o_keeper o (gen_num c) (c_archive c) np) as [arch imp].
  destruct (o_callback o (gen_num c) np); simpl; auto.
Qed.

Lemma mono_consume_op : forall A B (g : core -> B * nat) (h : B -> flow A),
  mono (core_op (fun c => let '(r, n) := g c in (consume n c, h r))).
Proof. intros. apply mono_core_op. intros c. destruct (g c). simpl. auto. Qed.

Lemma mono_init_pop : forall code pl k v salt o, mono (init_pop code pl k v salt o).
Proof.
  intros. unfold init_pop. apply mono_bind; [apply mono_create | intros inds].
  apply mono_bind; [apply mono_evaluate | intros evd].
  apply mono_bind; [apply mono_update_population | intros _].
  destruct (length (refresh inds evd) <? k_pop_size k); [ | apply mono_ret].
  apply mono_bind.
  { apply mono_core_op. intros c. destruct (o_extend o salt (cstream c) (refresh inds evd)). simpl. auto. }
  intros cs. apply mono_bind; [apply mono_create | intros news].
  apply mono_bind; [apply mono_evaluate | intros evd2]. apply mono_update_population.
Qed.

Lemma mono_evolve : forall code pl k v salt o, mono (evolve code pl k v salt o).
Proof.
  intros. unfold evolve. apply mono_bind.
  { apply mono_core_op. intros c. destruct (o_propose o salt (gen_num c) (cstream c) (c_pop c) (c_archive c)). simpl. auto. }
  intros r. destruct r as [e | cs].
  - destruct e; try apply mono_raise. apply mono_bind; [apply mono_log_at | intros; apply mono_ret].
  - apply mono_bind; [apply mono_create | intros inds].
    apply mono_bind; [apply mono_evaluate | intros evd].
    apply mono_bind.
    { apply mono_core_op. intros c.
      destruct (o_survive o salt (gen_num c) (cstream c) (c_pop c) evd (c_archive c)). simpl. auto. }
    intros np. apply mono_bind; [apply mono_pres_op | intros; apply mono_ret].
Qed.

Lemma mono_stop : forall (t : core -> bool), mono (core_op (fun c => (c, Val (t c)))).
Proof. intros. apply mono_core_op. intros c. simpl. auto. Qed.

Lemma mono_pop_loop : forall code pl k v salt o fuel, mono (pop_loop code pl k v salt o fuel).
Proof.
  intros. induction fuel as [|f IH]; simpl; [apply mono_raise | ].
  apply mono_bind; [apply mono_stop | intros stop]. destruct stop; [apply mono_ret | ].
  apply mono_bind; [apply mono_evolve | intros r]. destruct r; [ | apply mono_ret].
  apply mono_bind; [apply mono_update_population | intros _; exact IH].
Qed.

Lemma mono_record_rs : forall v o lbl inds, mono (record_rs v o lbl inds).
Proof.
  intros. unfold record_rs. apply mono_bind; [ | intros; apply mono_log_state].
  apply mono_core_op. intros c. destruct (o_keeper o (gen_num c) (c_archive c) inds). simpl. auto.
Qed.

Lemma mono_propose_rs : forall salt o, mono (propose_rs salt o).
Proof.
  intros. unfold propose_rs. apply mono_bind.
  { apply mono_core_op. intros c. destruct (o_propose o salt (c_iter c) (cstream c) (c_pop c) (c_archive c)). simpl. auto. }
  intros r. destruct r; [apply mono_raise | apply mono_ret].
Qed.

Lemma mono_rs_init : forall code pl k v salt o, mono (rs_init code pl k v salt o).
Proof.
  intros. unfold rs_init. apply mono_bind.
  - destruct (o_initial o); [apply mono_propose_rs | ]. apply mono_core_op. intros c. simpl. auto.
  - intros cs. apply mono_bind; [apply mono_create | intros inds].
    apply mono_bind; [apply mono_evaluate | intros evd]. apply mono_record_rs.
Qed.

Lemma mono_rs_loop : forall code pl k v salt o fuel, mono (rs_loop code pl k v salt o fuel).
Proof.
  intros. induction fuel as [|f IH]; simpl; [apply mono_raise | ].
  apply mono_bind; [apply mono_stop | intros stop]. destruct stop; [apply mono_ret | ].
  apply mono_bind; [apply mono_propose_rs | intros cs].
  apply mono_bind; [apply mono_create | intros inds].
  apply mono_bind; [apply mono_evaluate | intros evd].
  apply mono_bind; [apply mono_core_op; intros c; simpl; auto | intros _].
  apply mono_bind; [destruct evd; [apply mono_ret | apply mono_record_rs] | intros _].
  apply mono_bind; [apply mono_pres_op | intros _; exact IH].
Qed.

Lemma mono_finale : forall k v o, mono (finale k v o).
Proof.
  intros. unfold finale. destruct (k_kind k).
  - unfold finale_pop. apply mono_bind; [apply mono_pres_op | intros _].
    apply mono_bind; [apply mono_core_op; intros c; simpl; auto | intros best].
    apply mono_bind; [apply mono_update_population | intros _]. apply mono_core_op; intros c; simpl; auto.
  - unfold finale_rs. apply mono_bind; [apply mono_core_op; intros c; simpl; auto | intros best].
    apply mono_bind; [apply mono_record_rs | intros _].
    apply mono_bind; [apply mono_pres_op | intros _]. apply mono_core_op; intros c; simpl; auto.
Qed.

Lemma mono_body : forall code pl k v salt o fuel, mono (body code pl k v salt o fuel).
Proof.
  intros. unfold body. destruct (k_kind k).
  - apply mono_bind; [apply mono_init_pop | intros _; apply mono_pop_loop].
  - apply mono_bind; [apply mono_rs_init | intros _; apply mono_rs_loop].
Qed.

Lemma mono_with_bar : forall code v b, mono b -> mono (with_bar code v b).
Proof.
  intros code v b Hb c p H. apply (Hb c (bar_enter v p)). unfold cleanof, with_bar in *. simpl in H.
  destruct (b (c, bar_enter v p)) as [[c1 p1] [a|e]]; simpl in *.
  - exact H.
  - destruct e; try exact H; destruct (bar_exit_value code v); exact H.
Qed.

Section Workers.
Variable code : codevariant.
Variable pl : platform.
Variable k : kcfg.
Variable v : vcfg.
Variable salt : nat.
Variable o : oracles.
Variable n' : nat.
Variable sch' : nat -> nat -> list (option E.eres) -> list (option E.eres).
Hypothesis perm_o : forall a b l, Permutation (o_sched o a b l) l.
Hypothesis perm_o' : forall a b l, Permutation (sch' a b l) l.
(* joblib draws as many identifiers for both worker counts, or its draws are kept off the stream *)
Hypothesis same_draws : fanout_isolated code = true \/ joblib_uuid_draws (k_n_jobs k) = joblib_uuid_draws n'.

Let k' := with_n_jobs n' k.
Let o' := set_sched sch' o.

Lemma par_mode_same : in_parallel_mode k' = in_parallel_mode k.
Proof. reflexivity. Qed.

Lemma wsim_evaluate : forall pop, wsim (evaluate code pl k v o pop) (evaluate code pl k' v o' pop).
Proof.
  intros pop. unfold evaluate. rewrite par_mode_same.
  apply wsim_bind.
  - destruct (in_parallel_mode k); apply wsim_of_neutral; [apply neutral_pres_op | apply neutral_ret].
  - intros _ c p p' H. unfold cleanof, core_op, cview in *. simpl in *.
    unfold evaluate_core in *. rewrite par_mode_same.
    destruct (in_parallel_mode k) eqn:PM; simpl in *.
    + apply andb_true_iff in H. destruct H as [_ ND]. apply EP.nodup_b_iff in ND.
      rewrite (EP.order_independent_par (o_sched o (k_n_jobs k) (c_evals c)) _ _ _ _ (perm_o _ _) ND).
      rewrite (EP.order_independent_par (sch' n' (c_evals c)) _ _ _ _ (perm_o' _ _) ND).
      destruct same_draws as [Hi | Hd].
      * rewrite Hi. reflexivity.
      * rewrite Hd. reflexivity.
    + reflexivity.
  - intros _. apply mono_core_op. intros c. unfold evaluate_core.
    destruct (in_parallel_mode k); simpl; intros H; apply andb_true_iff in H; tauto.
Qed.

Lemma wsim_refl_neutral : forall A (m : M A), neutral m m -> wsim m m.
Proof. intros. now apply wsim_of_neutral. Qed.

Lemma wsim_create : forall cs, wsim (create pl cs) (create pl cs).
Proof. intros. apply wsim_of_neutral. apply neutral_create. Qed.

Lemma wsim_update_population : forall lbl np, wsim (update_population v o lbl np) (update_population v o' lbl np).
Proof. intros. apply wsim_of_neutral. apply (neutral_update_population v v o). Qed.

Lemma wsim_init_pop : wsim (init_pop code pl k v salt o) (init_pop code pl k' v salt o').
Proof.
  unfold init_pop. apply wsim_bind; [apply wsim_create | intros inds | ].
  2:{ intros inds. apply mono_bind; [apply mono_evaluate | intros evd].
      apply mono_bind; [apply mono_update_population | intros _].
      destruct (length (refresh inds evd) <? k_pop_size k); [ | apply mono_ret].
      apply mono_bind.
      { apply mono_core_op. intros c. destruct (o_extend o salt (cstream c) (refresh inds evd)). simpl. auto. }
      intros cs. apply mono_bind; [apply mono_create | intros news].
      apply mono_bind; [apply mono_evaluate | intros evd2]. apply mono_update_population. }
  apply wsim_bind; [apply wsim_evaluate | intros evd | ].
  2:{ intros evd. apply mono_bind; [apply mono_update_population | intros _].
      destruct (length (refresh inds evd) <? k_pop_size k); [ | apply mono_ret].
      apply mono_bind.
      { apply mono_core_op. intros c. destruct (o_extend o salt (cstream c) (refresh inds evd)). simpl. auto. }
      intros cs. apply mono_bind; [apply mono_create | intros news].
      apply mono_bind; [apply mono_evaluate | intros evd2]. apply mono_update_population. }
  apply wsim_bind; [apply wsim_update_population | intros _ | ].
  2:{ intros _. destruct (length (refresh inds evd) <? k_pop_size k); [ | apply mono_ret].
      apply mono_bind.
      { apply mono_core_op. intros c. destruct (o_extend o salt (cstream c) (refresh inds evd)). simpl. auto. }
      intros cs. apply mono_bind; [apply mono_create | intros news].
      apply mono_bind; [apply mono_evaluate | intros evd2]. apply mono_update_population. }
  change (k_pop_size k') with (k_pop_size k).
  destruct (length (refresh inds evd) <? k_pop_size k); [ | apply wsim_of_neutral, neutral_ret].
  apply wsim_bind; [apply wsim_of_neutral, neutral_core_op | intros cs | ].
  2:{ intros cs. apply mono_bind; [apply mono_create | intros news].
      apply mono_bind; [apply mono_evaluate | intros evd2]. apply mono_update_population. }
  apply wsim_bind; [apply wsim_create | intros news | ].
  2:{ intros news. apply mono_bind; [apply mono_evaluate | intros evd2]. apply mono_update_population. }
  apply wsim_bind; [apply wsim_evaluate | intros evd2 | intros; apply mono_update_population].
  apply wsim_update_population.
Qed.

Lemma wsim_evolve : wsim (evolve code pl k v salt o) (evolve code pl k' v salt o').
Proof.
  unfold evolve. apply wsim_bind; [apply wsim_of_neutral, neutral_core_op | intros r | ].
  2:{ intros r. destruct r as [e | cs].
      - destruct e; try apply mono_raise. apply mono_bind; [apply mono_log_at | intros; apply mono_ret].
      - apply mono_bind; [apply mono_create | intros inds].
        apply mono_bind; [apply mono_evaluate | intros evd].
        apply mono_bind.
        { apply mono_core_op. intros c.
          destruct (o_survive o salt (gen_num c) (cstream c) (c_pop c) evd (c_archive c)). simpl. auto. }
        intros np. apply mono_bind; [apply mono_pres_op | intros; apply mono_ret]. }
  destruct r as [e | cs].
  - apply wsim_of_neutral. destruct e; neut.
  - apply wsim_bind; [apply wsim_create | intros inds | ].
    2:{ intros inds. apply mono_bind; [apply mono_evaluate | intros evd].
        apply mono_bind.
        { apply mono_core_op. intros c.
          destruct (o_survive o salt (gen_num c) (cstream c) (c_pop c) evd (c_archive c)). simpl. auto. }
        intros np. apply mono_bind; [apply mono_pres_op | intros; apply mono_ret]. }
    apply wsim_bind; [apply wsim_evaluate | intros evd | ].
    2:{ intros evd. apply mono_bind.
        { apply mono_core_op. intros c.
          destruct (o_survive o salt (gen_num c) (cstream c) (c_pop c) evd (c_archive c)). simpl. auto. }
        intros np. apply mono_bind; [apply mono_pres_op | intros; apply mono_ret]. }
    apply wsim_of_neutral. neut.
Qed.

Lemma wsim_pop_loop : forall fuel, wsim (pop_loop code pl k v salt o fuel) (pop_loop code pl k' v salt o' fuel).
Proof.
  induction fuel as [|f IH]; simpl; [apply wsim_of_neutral, neutral_raise | ].
  apply wsim_bind; [apply wsim_of_neutral, neutral_core_op | intros stop | ].
  2:{ intros stop. destruct stop; [apply mono_ret | ].
      apply mono_bind; [apply mono_evolve | intros r]. destruct r; [ | apply mono_ret].
      apply mono_bind; [apply mono_update_population | intros _; apply mono_pop_loop]. }
  destruct stop; [apply wsim_of_neutral, neutral_ret | ].
  apply wsim_bind; [apply wsim_evolve | intros r | ].
  2:{ intros r. destruct r; [ | apply mono_ret].
      apply mono_bind; [apply mono_update_population | intros _; apply mono_pop_loop]. }
  destruct r as [np | ]; [ | apply wsim_of_neutral, neutral_ret].
  apply wsim_bind; [apply wsim_update_population | intros _; exact IH | intros _; apply mono_pop_loop].
Qed.

Lemma wsim_record_rs : forall lbl inds, wsim (record_rs v o lbl inds) (record_rs v o' lbl inds).
Proof. intros. apply wsim_of_neutral. apply (neutral_record_rs v v o). Qed.

Lemma wsim_propose_rs : wsim (propose_rs salt o) (propose_rs salt o').
Proof. apply wsim_of_neutral. apply (neutral_propose_rs salt o). Qed.

Lemma wsim_rs_init : wsim (rs_init code pl k v salt o) (rs_init code pl k' v salt o').
Proof.
  unfold rs_init. change (o_initial o') with (o_initial o).
  apply wsim_bind.
  - destruct (o_initial o); [apply wsim_propose_rs | apply wsim_of_neutral, neutral_core_op].
  - intros cs. apply wsim_bind; [apply wsim_create | intros inds | ].
    2:{ intros inds. apply mono_bind; [apply mono_evaluate | intros evd]. apply mono_record_rs. }
    apply wsim_bind; [apply wsim_evaluate | intros evd; apply wsim_record_rs | intros; apply mono_record_rs].
  - intros cs. apply mono_bind; [apply mono_create | intros inds].
    apply mono_bind; [apply mono_evaluate | intros evd]. apply mono_record_rs.
Qed.

Lemma mono_rs_tail : forall f inds,
  mono (bind (evaluate code pl k v o inds) (fun evd =>
        bind (core_op (fun c => (next_iter c, Val tt))) (fun _ =>
        bind (match evd with [] => ret tt | _ => record_rs v o H.LNone evd end) (fun _ =>
        bind (pres_op bar_update) (fun _ => rs_loop code pl k v salt o f))))).
Proof.
  intros. apply mono_bind; [apply mono_evaluate | intros evd].
  apply mono_bind; [apply mono_core_op; intros c; simpl; auto | intros _].
  apply mono_bind; [destruct evd; [apply mono_ret | apply mono_record_rs] | intros _].
  apply mono_bind; [apply mono_pres_op | intros _; apply mono_rs_loop].
Qed.

Lemma wsim_rs_loop : forall fuel, wsim (rs_loop code pl k v salt o fuel) (rs_loop code pl k' v salt o' fuel).
Proof.
  induction fuel as [|f IH]; simpl; [apply wsim_of_neutral, neutral_raise | ].
  apply wsim_bind; [apply wsim_of_neutral, neutral_core_op | intros stop | ].
  2:{ intros stop. destruct stop; [apply mono_ret | ].
      apply mono_bind; [apply mono_propose_rs | intros cs].
      apply mono_bind; [apply mono_create | intros inds]. apply mono_rs_tail. }
  destruct stop; [apply wsim_of_neutral, neutral_ret | ].
  apply wsim_bind; [apply wsim_propose_rs | intros cs | ].
  2:{ intros cs. apply mono_bind; [apply mono_create | intros inds]. apply mono_rs_tail. }
  apply wsim_bind; [apply wsim_create | intros inds | intros inds; apply mono_rs_tail].
  apply wsim_bind; [apply wsim_evaluate | intros evd | ].
  2:{ intros evd. apply mono_bind; [apply mono_core_op; intros c; simpl; auto | intros _].
      apply mono_bind; [destruct evd; [apply mono_ret | apply mono_record_rs] | intros _].
      apply mono_bind; [apply mono_pres_op | intros _; apply mono_rs_loop]. }
  apply wsim_bind; [apply wsim_of_neutral, neutral_core_op | intros _ | ].
  2:{ intros _. apply mono_bind; [destruct evd; [apply mono_ret | apply mono_record_rs] | intros _].
      apply mono_bind; [apply mono_pres_op | intros _; apply mono_rs_loop]. }
  apply wsim_bind.
  - destruct evd; [apply wsim_of_neutral, neutral_ret | apply wsim_record_rs].
  - intros _. apply wsim_bind; [apply wsim_of_neutral, neutral_pres_op | intros _; exact IH | intros _; apply mono_rs_loop].
  - intros _. apply mono_bind; [apply mono_pres_op | intros _; apply mono_rs_loop].
Qed.

Lemma wsim_body : forall fuel, wsim (body code pl k v salt o fuel) (body code pl k' v salt o' fuel).
Proof.
  intros fuel. unfold body. change (k_kind k') with (k_kind k). destruct (k_kind k).
  - apply wsim_bind; [apply wsim_init_pop | intros _; apply wsim_pop_loop | intros _; apply mono_pop_loop].
  - apply wsim_bind; [apply wsim_rs_init | intros _; apply wsim_rs_loop | intros _; apply mono_rs_loop].
Qed.

Lemma wsim_finale : wsim (finale k v o) (finale k' v o').
Proof.
  apply wsim_of_neutral. unfold finale. change (k_kind k') with (k_kind k).
  destruct (k_kind k); [apply (neutral_finale_pop v v o) | apply (neutral_finale_rs v v o)].
Qed.

Lemma wsim_with_bar : forall (b b' : M unit), wsim b b' -> wsim (with_bar code v b) (with_bar code v b').
Proof.
  intros b b' Hb c p p' H. unfold with_bar, cleanof, cview in *. simpl in *.
  specialize (Hb c (bar_enter v p) (bar_enter v p')). unfold cleanof, cview in Hb.
  destruct (b (c, bar_enter v p)) as [[c1 p1] fl]. simpl in *.
  assert (C1 : c_clean c1 = true).
  { destruct fl as [a|e]; simpl in H; [exact H | ].
    destruct e; try exact H; destruct (bar_exit_value code v); exact H. }
  specialize (Hb C1). destruct (b' (c, bar_enter v p')) as [[c1' p1'] fl']. simpl in Hb. inversion Hb; subst.
  destruct fl as [a|e]; [reflexivity | ].
  destruct e; try reflexivity; destruct (bar_exit_value code v); reflexivity.
Qed.

Lemma wsim_run : forall fuel, wsim (run code pl k v salt o fuel) (run code pl k' v salt o' fuel).
Proof.
  intros fuel. unfold run.
  apply wsim_bind; [apply wsim_of_neutral, neutral_log_state | intros _ | ].
  2:{ intros _. apply mono_bind; [apply mono_with_bar, mono_body | intros _; apply mono_finale]. }
  apply wsim_bind; [apply wsim_with_bar, wsim_body | intros _; apply wsim_finale | intros _; apply mono_finale].
Qed.
End Workers.

Lemma kpart_set_n_jobs : forall n cfg, kpart (set_n_jobs n cfg) = with_n_jobs n (kpart cfg).
Proof. reflexivity. Qed.
Lemma with_n_jobs_twice : forall n m k, with_n_jobs n (with_n_jobs m k) = with_n_jobs n k.
Proof. reflexivity. Qed.
Lemma set_sched_twice : forall s s' o, set_sched s (set_sched s' o) = set_sched s o.
Proof. reflexivity. Qed.

(* a run that stayed clean (no population handed to a dispatcher had two not yet evaluated
   individuals with one uid) is reproduced under any other worker count and any other
   completion order, provided joblib draws equally many identifiers or is kept off the stream *)
Theorem workers_neutral_gen : forall code pl cfg n n' sch sch' salt r o fuel,
  (forall a b l, Permutation (sch a b l) l) -> (forall a b l, Permutation (sch' a b l) l) ->
  fanout_isolated code = true \/ joblib_uuid_draws n = joblib_uuid_draws n' ->
  c_clean (out_core (fst (optimise code pl (set_n_jobs n cfg) salt r (set_sched sch o) fuel))) = true ->
  fst (optimise code pl (set_n_jobs n' cfg) salt r (set_sched sch' o) fuel) =
  fst (optimise code pl (set_n_jobs n cfg) salt r (set_sched sch o) fuel).
Proof.
  intros code pl cfg n n' sch sch' salt r o fuel P P' D C. unfold optimise in *.
  rewrite !kpart_set_n_jobs in *.
  pose proof (wsim_run code pl (with_n_jobs n (kpart cfg)) (vpart (set_n_jobs n cfg)) salt (set_sched sch o) n' sch'
                       P P' D fuel (core0 r) present0 present0) as W.
  rewrite with_n_jobs_twice, set_sched_twice in W.
  change (vpart (set_n_jobs n' cfg)) with (vpart (set_n_jobs n cfg)).
  unfold cleanof, cview in W.
  destruct (run code pl (with_n_jobs n (kpart cfg)) (vpart (set_n_jobs n cfg)) salt (set_sched sch o) fuel
                (core0 r, present0)) as [[c p] fl].
  simpl in C. specialize (W C).
  destruct (run code pl (with_n_jobs n' (kpart cfg)) (vpart (set_n_jobs n cfg)) salt (set_sched sch' o) fuel
                (core0 r, present0)) as [[c' p'] fl'].
  simpl in W. inversion W; subst. reflexivity.
Qed.

Lemma joblib_draws_from_2 : forall n n', 2 <= n -> 2 <= n' -> joblib_uuid_draws n = joblib_uuid_draws n'.
Proof.
  intros n n' H H'. unfold joblib_uuid_draws.
  destruct (Nat.eqb_spec n 1); [lia | ]. destruct (Nat.eqb_spec n' 1); [lia | ]. reflexivity.
Qed.

(* /repo as it is now: any two worker counts from 2 up, any two completion orders *)
Theorem workers_neutral : forall pl cfg n n' sch sch' salt r o fuel,
  2 <= n -> 2 <= n' ->
  (forall a b l, Permutation (sch a b l) l) -> (forall a b l, Permutation (sch' a b l) l) ->
  c_clean (out_core (fst (optimise current_code pl (set_n_jobs n cfg) salt r (set_sched sch o) fuel))) = true ->
  fst (optimise current_code pl (set_n_jobs n' cfg) salt r (set_sched sch' o) fuel) =
  fst (optimise current_code pl (set_n_jobs n cfg) salt r (set_sched sch o) fuel).
Proof.
  intros. apply workers_neutral_gen; auto. right. now apply joblib_draws_from_2.
Qed.

(* one worker count, any two completion orders *)
Theorem completion_order_neutral : forall code pl cfg n sch sch' salt r o fuel,
  (forall a b l, Permutation (sch a b l) l) -> (forall a b l, Permutation (sch' a b l) l) ->
  c_clean (out_core (fst (optimise code pl (set_n_jobs n cfg) salt r (set_sched sch o) fuel))) = true ->
  fst (optimise code pl (set_n_jobs n cfg) salt r (set_sched sch' o) fuel) =
  fst (optimise code pl (set_n_jobs n cfg) salt r (set_sched sch o) fuel).
Proof. intros. apply workers_neutral_gen; auto. Qed.

(* a dispatcher that keeps joblib's identifiers off the choice stream: every worker count *)
Theorem workers_neutral_isolated : forall pl cfg n n' sch sch' salt r o fuel,
  (forall a b l, Permutation (sch a b l) l) -> (forall a b l, Permutation (sch' a b l) l) ->
  c_clean (out_core (fst (optimise isolated_code pl (set_n_jobs n cfg) salt r (set_sched sch o) fuel))) = true ->
  fst (optimise isolated_code pl (set_n_jobs n' cfg) salt r (set_sched sch' o) fuel) =
  fst (optimise isolated_code pl (set_n_jobs n cfg) salt r (set_sched sch o) fuel).
Proof. intros. apply workers_neutral_gen; auto. Qed.

(* with an identifier source that is not the choice stream the worker count cannot move the
   choices either; stated for the part of the outcome that does not contain identifiers would
   need a renaming argument and is not claimed *)

(* --- n_jobs = 1 against n_jobs = 2 in /repo as it is now: joblib draws 1 resp. 4 identifiers per
   fan-out through the patched os.urandom, the stream shifts, the run differs --- *)
Definition w_par_config : config :=
  {| kind := Populational; show_progress := false; logging_level := 20; n_jobs := 1; parallel := true;
     num_of_generations := Some 2; pop_size := 2; max_stagnation := None |}.

Lemma workers_one_vs_two_refuted :
  c_clean (out_core (fst (optimise current_code w_platform (set_n_jobs 1 w_par_config) 0 w_rng (w_oracles None) 9))) = true
  /\ c_clean (out_core (fst (optimise current_code w_platform (set_n_jobs 2 w_par_config) 0 w_rng (w_oracles None) 9))) = true
  /\ c_created (out_core (fst (optimise current_code w_platform (set_n_jobs 1 w_par_config) 0 w_rng (w_oracles None) 9)))
     <> c_created (out_core (fst (optimise current_code w_platform (set_n_jobs 2 w_par_config) 0 w_rng (w_oracles None) 9)))
  /\ map (fun cl => map E.gr (snd cl))
         (c_calls (out_core (fst (optimise current_code w_platform (set_n_jobs 1 w_par_config) 0 w_rng (w_oracles None) 9))))
     <> map (fun cl => map E.gr (snd cl))
         (c_calls (out_core (fst (optimise current_code w_platform (set_n_jobs 2 w_par_config) 0 w_rng (w_oracles None) 9)))).
Proof. vm_compute. repeat split; discriminate. Qed.

(* the distinct-uid hypothesis is needed: with a constant stream every uuid4 is the same, and the
   completion order decides which individual receives which fitness *)
Definition w_const_rng : rng := {| r_stream := []; r_ids := Mocked |}.
Lemma workers_duplicate_uids_sensitive :
  c_clean (out_core (fst (optimise current_code w_platform (set_n_jobs 2 w_par_config) 0 w_const_rng
                                   (set_sched (fun _ _ l => l) (w_oracles None)) 9))) = false
  /\ c_calls (out_core (fst (optimise current_code w_platform (set_n_jobs 2 w_par_config) 0 w_const_rng
                                      (set_sched (fun _ _ l => l) (w_oracles None)) 9)))
     <> c_calls (out_core (fst (optimise current_code w_platform (set_n_jobs 2 w_par_config) 0 w_const_rng
                                         (set_sched (fun _ _ l => rev l) (w_oracles None)) 9))).
Proof. vm_compute. split; [reflexivity | discriminate]. Qed.

(* ===================================================================================== *)
(* C. every identifier is a window of the identifier source                               *)
(* ===================================================================================== *)
(* the stream os.urandom reads: the choice stream under urandom_mock, the OS entropy otherwise *)
Definition src (r : rng) : stream := match r_ids r with Mocked => r_stream r | OsEntropy e => e end.
Definition mocked (r : rng) : bool := match r_ids r with Mocked => true | OsEntropy _ => false end.

Definition is_window (pl : platform) (s0 : stream) (u : nat) : Prop :=
  exists j, u = encode pl (to_bytes (window (uid_len pl) j s0)).

Definition rinv (m : bool) (s0 : stream) (r : rng) : Prop := mocked r = m /\ exists j, src r = skipn j s0.

Definition cinv (pl : platform) (m : bool) (s0 : stream) (c : core) : Prop :=
  rinv m s0 (c_rng c) /\ Forall (is_window pl s0) (c_created c) /\ map fst (c_lineage c) = c_created c.

Lemma skipn_skipn' : forall A n j (l : list A), skipn n (skipn j l) = skipn (j + n) l.
Proof.
  intros A n j. revert n. induction j as [|j IH]; intros n l; simpl.
  - reflexivity.
  - destruct l as [|x l]; [now rewrite !skipn_nil | apply IH].
Qed.

Lemma window_skipn : forall n j s, window n 0 (skipn j s) = window n j s.
Proof. intros. unfold window. reflexivity. Qed.

Lemma rinv_urandom : forall m s0 n r, rinv m s0 r ->
  rinv m s0 (snd (urandom n r)) /\ exists j, fst (urandom n r) = to_bytes (window n j s0).
Proof.
  intros m s0 n r [Hm [j Hj]]. unfold urandom, rinv, src, mocked in *.
  destruct (r_ids r) as [|e]; simpl in *.
  - split; [split; [exact Hm | exists (j + n); rewrite Hj; apply skipn_skipn'] | ].
    exists j. rewrite Hj. now rewrite window_skipn.
  - split; [split; [exact Hm | exists (j + n); rewrite Hj; apply skipn_skipn'] | ].
    exists j. rewrite Hj. now rewrite window_skipn.
Qed.

Lemma rinv_uuid4 : forall pl m s0 r, rinv m s0 r ->
  rinv m s0 (snd (uuid4 pl r)) /\ is_window pl s0 (fst (uuid4 pl r)).
Proof.
  intros pl m s0 r H. unfold uuid4. destruct (rinv_urandom m s0 (uid_len pl) r H) as [H1 [j H2]].
  destruct (urandom (uid_len pl) r) as [bs r']. simpl in *. split; [exact H1 | ].
  exists j. now rewrite H2.
Qed.

Lemma rinv_burn : forall pl m s0 n r, rinv m s0 r -> rinv m s0 (burn_uuids pl n r).
Proof.
  intros pl m s0 n. induction n as [|n IH]; intros r H; simpl; [exact H | ].
  apply IH. apply (rinv_uuid4 pl m s0 r H).
Qed.

Lemma rinv_consume : forall m s0 n r, rinv m s0 r -> rinv m s0 (consume_rng n r).
Proof.
  intros m s0 n r [Hm [j Hj]]. unfold rinv, consume_rng, src, mocked in *. simpl.
  destruct (r_ids r); simpl in *.
  - split; [exact Hm | exists (j + n); rewrite Hj; apply skipn_skipn'].
  - split; [exact Hm | exists j; exact Hj].
Qed.

Lemma materialise_inv : forall pl m s0 cs r, rinv m s0 r ->
  rinv m s0 (snd (materialise pl cs r)) /\ Forall (is_window pl s0) (map fst (snd (fst (materialise pl cs r)))).
Proof.
  intros pl m s0 cs. induction cs as [|cd t IH]; intros r H; simpl.
  - split; [exact H | constructor].
  - destruct cd as [i | g ps op].
    + specialize (IH r H). destruct (materialise pl t r) as [[is ls] r']. exact IH.
    + destruct (rinv_uuid4 pl m s0 r H) as [H1 W]. destruct (uuid4 pl r) as [u r1]. simpl in *.
      specialize (IH r1 H1). destruct (materialise pl t r1) as [[is ls] r2]. simpl in *.
      destruct IH as [IH1 IH2]. split; [exact IH1 | constructor; assumption].
Qed.

Definition preserves (I : core -> Prop) {A} (m : M A) : Prop := forall c p, I c -> I (fst (fst (m (c, p)))).

Lemma preserves_ret : forall (I : core -> Prop) A (a : A), preserves I (ret a).
Proof. intros I A a c p H. exact H. Qed.
Lemma preserves_raise : forall (I : core -> Prop) A e, preserves I (@raise A e).
Proof. intros I A e c p H. exact H. Qed.
Lemma preserves_pres_op : forall (I : core -> Prop) h, preserves I (pres_op h).
Proof. intros I h c p H. exact H. Qed.
Lemma preserves_pres_read : forall (I : core -> Prop) h, preserves I (pres_read h).
Proof. intros I h c p H. exact H. Qed.
Lemma preserves_core_op : forall (I : core -> Prop) A (f : core -> core * flow A),
  (forall c, I c -> I (fst (f c))) -> preserves I (core_op f).
Proof. intros I A f Hf c p H. unfold core_op. simpl. specialize (Hf c H). destruct (f c). exact Hf. Qed.
Lemma preserves_bind : forall (I : core -> Prop) A B (m : M A) (f : A -> M B),
  preserves I m -> (forall a, preserves I (f a)) -> preserves I (bind m f).
Proof.
  intros I A B m f Hm Hf c p H. unfold bind. specialize (Hm c p H).
  destruct (m (c, p)) as [[c1 p1] [a|e]]; simpl in *; [apply Hf; exact Hm | exact Hm].
Qed.

Section Windows.
Variable code : codevariant.
Variable pl : platform.
Variable k : kcfg.
Variable v : vcfg.
Variable salt : nat.
Variable o : oracles.
Variable m : bool.
Variable s0 : stream.
Let I := cinv pl m s0.

Lemma I_consume : forall n c, I c -> I (consume n c).
Proof. intros n c [H1 [H2 H3]]. split; [apply rinv_consume; exact H1 | split; assumption]. Qed.

Lemma I_same : forall c c', c_rng c' = c_rng c -> c_created c' = c_created c -> c_lineage c' = c_lineage c -> I c -> I c'.
Proof. intros c c' E1 E2 E3 [H1 [H2 H3]]. unfold I, cinv. rewrite E1, E2, E3. auto. Qed.

Lemma preserves_create : forall cs, preserves I (create pl cs).
Proof.
  intros cs. unfold create. apply preserves_core_op. intros c [H1 [H2 H3]].
  destruct (materialise_inv pl m s0 cs (c_rng c) H1) as [M1 M2].
  destruct (materialise pl cs (c_rng c)) as [[is ls] r']. simpl in *.
  split; [exact M1 | split].
  - unfold add_created; simpl. apply Forall_app. split; assumption.
  - unfold add_created; simpl. rewrite map_app, H3. reflexivity.
Qed.

Lemma preserves_evaluate : forall pop, preserves I (evaluate code pl k v o pop).
Proof.
  intros pop. unfold evaluate. apply preserves_bind.
  - destruct (in_parallel_mode k); [apply preserves_pres_op | apply preserves_ret].
  - intros _. apply preserves_core_op. intros c [H1 [H2 H3]]. unfold evaluate_core.
    destruct (in_parallel_mode k); simpl; [ | split; [exact H1 | split; assumption]].
    split; [ | split; assumption]. simpl.
    destruct (fanout_isolated code); [exact H1 | apply rinv_burn; exact H1].
Qed.

Lemma preserves_update_population : forall lbl np, preserves I (update_population v o lbl np).
Proof.
  intros. unfold update_population. apply preserves_bind; [ | intros; apply preserves_pres_read].
  apply preserves_core_op. intros c H. destruct (o_keeper o (gen_num c) (c_archive c) np) as [arch imp].
  destruct (o_callback o (gen_num c) np); simpl; apply (I_same c); auto.
Qed.

Lemma preserves_record_rs : forall lbl inds, preserves I (record_rs v o lbl inds).
Proof.
  intros. unfold record_rs. apply preserves_bind; [ | intros; apply preserves_pres_read].
  apply preserves_core_op. intros c H. destruct (o_keeper o (gen_num c) (c_archive c) inds) as [arch imp].
  simpl. apply (I_same c); auto.
Qed.

Lemma preserves_init_pop : preserves I (init_pop code pl k v salt o).
Proof.
  unfold init_pop. apply preserves_bind; [apply preserves_create | intros inds].
  apply preserves_bind; [apply preserves_evaluate | intros evd].
  apply preserves_bind; [apply preserves_update_population | intros _].
  destruct (length (refresh inds evd) <? k_pop_size k); [ | apply preserves_ret].
  apply preserves_bind.
  { apply preserves_core_op. intros c H. destruct (o_extend o salt (cstream c) (refresh inds evd)). simpl.
    now apply I_consume. }
  intros cs. apply preserves_bind; [apply preserves_create | intros news].
  apply preserves_bind; [apply preserves_evaluate | intros evd2]. apply preserves_update_population.
Qed.

Lemma preserves_evolve : preserves I (evolve code pl k v salt o).
Proof.
  unfold evolve. apply preserves_bind.
  { apply preserves_core_op. intros c H.
    destruct (o_propose o salt (gen_num c) (cstream c) (c_pop c) (c_archive c)). simpl. now apply I_consume. }
  intros r. destruct r as [e | cs].
  - destruct e; try apply preserves_raise.
    apply preserves_bind; [apply preserves_pres_op | intros; apply preserves_ret].
  - apply preserves_bind; [apply preserves_create | intros inds].
    apply preserves_bind; [apply preserves_evaluate | intros evd].
    apply preserves_bind.
    { apply preserves_core_op. intros c H.
      destruct (o_survive o salt (gen_num c) (cstream c) (c_pop c) evd (c_archive c)). simpl. now apply I_consume. }
    intros np. apply preserves_bind; [apply preserves_pres_op | intros; apply preserves_ret].
Qed.

Lemma preserves_id_op : forall A (t : core -> A), preserves I (core_op (fun c => (c, Val (t c)))).
Proof. intros. apply preserves_core_op. intros c H. exact H. Qed.

Lemma preserves_pop_loop : forall fuel, preserves I (pop_loop code pl k v salt o fuel).
Proof.
  induction fuel as [|f IH]; simpl; [apply preserves_raise | ].
  apply preserves_bind; [apply preserves_id_op | intros stop]. destruct stop; [apply preserves_ret | ].
  apply preserves_bind; [apply preserves_evolve | intros r]. destruct r; [ | apply preserves_ret].
  apply preserves_bind; [apply preserves_update_population | intros _; exact IH].
Qed.

Lemma preserves_propose_rs : preserves I (propose_rs salt o).
Proof.
  unfold propose_rs. apply preserves_bind.
  { apply preserves_core_op. intros c H.
    destruct (o_propose o salt (c_iter c) (cstream c) (c_pop c) (c_archive c)). simpl. now apply I_consume. }
  intros r. destruct r; [apply preserves_raise | apply preserves_ret].
Qed.

Lemma preserves_rs_init : preserves I (rs_init code pl k v salt o).
Proof.
  unfold rs_init. apply preserves_bind.
  - destruct (o_initial o); [apply preserves_propose_rs | ].
    apply preserves_core_op. intros c H. simpl. now apply I_consume.
  - intros cs. apply preserves_bind; [apply preserves_create | intros inds].
    apply preserves_bind; [apply preserves_evaluate | intros evd]. apply preserves_record_rs.
Qed.

Lemma preserves_rs_loop : forall fuel, preserves I (rs_loop code pl k v salt o fuel).
Proof.
  induction fuel as [|f IH]; simpl; [apply preserves_raise | ].
  apply preserves_bind; [apply preserves_id_op | intros stop]. destruct stop; [apply preserves_ret | ].
  apply preserves_bind; [apply preserves_propose_rs | intros cs].
  apply preserves_bind; [apply preserves_create | intros inds].
  apply preserves_bind; [apply preserves_evaluate | intros evd].
  apply preserves_bind; [apply preserves_core_op; intros c H; simpl; apply (I_same c); auto | intros _].
  apply preserves_bind; [destruct evd; [apply preserves_ret | apply preserves_record_rs] | intros _].
  apply preserves_bind; [apply preserves_pres_op | intros _; exact IH].
Qed.

Lemma preserves_finale : preserves I (finale k v o).
Proof.
  unfold finale. destruct (k_kind k).
  - unfold finale_pop. apply preserves_bind; [apply preserves_pres_op | intros _].
    apply preserves_bind; [apply preserves_id_op | intros best].
    apply preserves_bind; [apply preserves_update_population | intros _]. apply preserves_id_op.
  - unfold finale_rs. apply preserves_bind; [apply preserves_id_op | intros best].
    apply preserves_bind; [apply preserves_record_rs | intros _].
    apply preserves_bind; [apply preserves_pres_op | intros _]. apply preserves_id_op.
Qed.

Lemma preserves_with_bar : forall b, preserves I b -> preserves I (with_bar code v b).
Proof.
  intros b Hb c p H. unfold with_bar. simpl. specialize (Hb c (bar_enter v p) H).
  destruct (b (c, bar_enter v p)) as [[c1 p1] [a|e]]; simpl in *; [exact Hb | ].
  destruct e; try exact Hb; destruct (bar_exit_value code v); exact Hb.
Qed.

Lemma preserves_run : forall fuel, preserves I (run code pl k v salt o fuel).
Proof.
  intros fuel. unfold run. apply preserves_bind; [apply preserves_pres_read | intros _].
  apply preserves_bind; [ | intros _; apply preserves_finale].
  apply preserves_with_bar. unfold body. destruct (k_kind k).
  - apply preserves_bind; [apply preserves_init_pop | intros _; apply preserves_pop_loop].
  - apply preserves_bind; [apply preserves_rs_init | intros _; apply preserves_rs_loop].
Qed.
End Windows.

Lemma cinv_core0 : forall pl r, cinv pl (mocked r) (src r) (core0 r).
Proof.
  intros pl r. split; [split; [reflexivity | exists 0; reflexivity] | split; [constructor | reflexivity]].
Qed.

(* whatever the code variant, configuration, salt, oracles and fuel: every identifier the run
   creates is the encoding of uid_len consecutive outputs of the identifier source, and the
   lineage is keyed by exactly these identifiers *)
Theorem uid_source_gen : forall code pl cfg salt r o fuel,
  let c := out_core (fst (optimise code pl cfg salt r o fuel)) in
  Forall (is_window pl (src r)) (c_created c) /\ map fst (c_lineage c) = c_created c.
Proof.
  intros code pl cfg salt r o fuel. unfold optimise.
  pose proof (preserves_run code pl (kpart cfg) (vpart cfg) salt o (mocked r) (src r) fuel (core0 r) present0
                            (cinv_core0 pl r)) as P.
  destruct (run code pl (kpart cfg) (vpart cfg) salt o fuel (core0 r, present0)) as [[c p] fl]. simpl in *.
  destruct P as [_ P]. exact P.
Qed.

(* os.urandom replaced by urandom_mock: the identifier source IS the choice stream *)
Theorem uid_source_single_stream : forall code pl cfg salt s o fuel,
  Forall (fun u => exists j, u = encode pl (to_bytes (window (uid_len pl) j s)))
         (c_created (out_core (fst (optimise code pl cfg salt {| r_stream := s; r_ids := Mocked |} o fuel)))).
Proof. intros. apply (uid_source_gen code pl cfg salt {| r_stream := s; r_ids := Mocked |} o fuel). Qed.

(* without the replacement (this is all GOLEM(seed=...) / set_random_seed do) the identifiers are
   windows of the OS entropy, whatever the seeded stream is ... *)
Theorem uid_source_unmocked : forall code pl cfg salt s e o fuel,
  Forall (fun u => exists j, u = encode pl (to_bytes (window (uid_len pl) j e)))
         (c_created (out_core (fst (optimise code pl cfg salt {| r_stream := s; r_ids := OsEntropy e |} o fuel)))).
Proof. intros. apply (uid_source_gen code pl cfg salt {| r_stream := s; r_ids := OsEntropy e |} o fuel). Qed.

(* ... so the same seeded stream gives different identifiers for different entropy *)
Lemma uid_source_unmocked_sensitive :
  c_created (out_core (fst (optimise current_code w_platform w_config 0
                                     {| r_stream := r_stream w_rng; r_ids := OsEntropy [1; 1; 1; 1] |} (w_oracles None) 9)))
  <> c_created (out_core (fst (optimise current_code w_platform w_config 0
                                        {| r_stream := r_stream w_rng; r_ids := OsEntropy [2; 2; 2; 2] |} (w_oracles None) 9))).
Proof. vm_compute. discriminate. Qed.

(* ===================================================================================== *)
(* D. reproducibility in the model is definitional                                        *)
(* ===================================================================================== *)
(* A run is a function of its inputs, so equal inputs give equal outcomes by congruence; this
   says nothing about /repo.  What it makes explicit is the list of inputs: besides the seeded
   generators it contains the hash salt. *)
Theorem same_inputs_same_history : forall code pl cfg cfg' salt salt' r r' o o' fuel,
  cfg = cfg' -> salt = salt' -> r = r' -> o = o' ->
  optimise code pl cfg salt r o fuel = optimise code pl cfg' salt' r' o' fuel.
Proof. intros; subst; reflexivity. Qed.

(* an operator that looks at the salt (iterates a set of nodes) makes the history depend on it
   although the generators are seeded identically *)
Definition w_salty_oracles : oracles :=
  {| o_objective := w_objective; o_initial := [1; 2];
     o_extend := fun _ _ _ => ([], 0);
     o_propose := fun salt _ s pop _ =>
       (inr [New (3 + hd 0 s) (map E.uid (firstn 1 (if Nat.even salt then pop else rev pop))) (Some H.OCrossover)], 1);
     o_survive := fun _ _ _ _ evd _ => (evd, 0);
     o_keeper := fun _ arch pop => (firstn 1 (pop ++ arch), true);
     o_callback := fun _ _ => None; o_clock := fun _ => false; o_eval_timer := fun _ _ => false;
     o_sched := fun _ _ l => l |}.

Lemma salt_sensitive :
  c_lineage (out_core (fst (optimise current_code w_platform w_config 0 w_rng w_salty_oracles 9)))
  <> c_lineage (out_core (fst (optimise current_code w_platform w_config 1 w_rng w_salty_oracles 9))).
Proof. vm_compute. discriminate. Qed.

(* ===================================================================================== *)
(* E. the executable comparison of exports decides equality                               *)
(* ===================================================================================== *)
Lemma opt_eqb_eq : forall A (eqb : A -> A -> bool), (forall a b, eqb a b = true <-> a = b) ->
  forall x y, opt_eqb eqb x y = true <-> x = y.
Proof.
  intros A eqb He [x|] [y|]; simpl; try (split; [discriminate | discriminate]); try tauto.
  rewrite He. split; [intros ->; reflexivity | intros E; inversion E; reflexivity].
Qed.

Lemma opkind_eqb_eq : forall a b, opkind_eqb a b = true <-> a = b.
Proof. intros [] []; simpl; split; try discriminate; reflexivity. Qed.

Lemma label_eqb_eq : forall a b, H.label_eqb a b = true <-> a = b.
Proof. intros [] []; simpl; split; try discriminate; reflexivity. Qed.

Lemma nats_eqb_eq : forall a b, nats_eqb a b = true <-> a = b.
Proof. apply EP.list_eqb_eq. apply Nat.eqb_eq. Qed.

Lemma oind_eqb_eq : forall a b, oind_eqb a b = true <-> a = b.
Proof.
  intros [u f s n p o on g] [u' f' s' n' p' o' on' g']. unfold oind_eqb. simpl.
  rewrite !andb_true_iff, !Nat.eqb_eq, !nats_eqb_eq.
  rewrite (opt_eqb_eq _ _ (EP.list_eqb_eq _ _ EP.Q_eqb_eq)), (opt_eqb_eq _ _ opkind_eqb_eq), (opt_eqb_eq _ _ Nat.eqb_eq).
  split.
  - intros [[[[[[[-> ->] ->] ->] ->] ->] ->] ->]. reflexivity.
  - intros E. inversion E. tauto.
Qed.

Lemma ogen_eqb_eq : forall a b, ogen_eqb a b = true <-> a = b.
Proof.
  intros [n l m] [n' l' m']. unfold ogen_eqb. simpl.
  rewrite !andb_true_iff, Nat.eqb_eq, label_eqb_eq, nats_eqb_eq. split.
  - intros [[-> ->] ->]. reflexivity.
  - intros E. inversion E. tauto.
Qed.

(* "identical histories" as computed on the observed exports is plain equality of the exports *)
Theorem export_eqb_eq : forall a b, export_eqb a b = true <-> a = b.
Proof.
  intros [o g s i r] [o' g' s' i' r']. unfold export_eqb. simpl.
  rewrite !andb_true_iff, Nat.eqb_eq, nats_eqb_eq.
  rewrite (EP.list_eqb_eq _ _ ogen_eqb_eq), (EP.list_eqb_eq _ _ nats_eqb_eq), (EP.list_eqb_eq _ _ oind_eqb_eq).
  split.
  - intros [[[[-> ->] ->] ->] ->]. reflexivity.
  - intros E. inversion E. tauto.
Qed.

Theorem holds_clause_spec : forall cl cs,
  holds_clause cl cs = true <->
  forall n x, In (cl, (n, x)) (k_others cs) -> x = k_base cs.
Proof.
  intros cl cs. unfold holds_clause. rewrite forallb_forall. split.
  - intros Hf n x Hin. specialize (Hf _ Hin). simpl in Hf.
    assert (C : clause_eqb cl cl = true) by (destruct cl; reflexivity).
    rewrite C in Hf. simpl in Hf. apply export_eqb_eq in Hf. symmetry. exact Hf.
  - intros Hs [cl' [n x]] Hin. simpl.
    destruct (clause_eqb cl cl') eqn:C; [ | reflexivity]. simpl.
    assert (cl = cl') by (destruct cl, cl'; simpl in C; try discriminate; reflexivity). subst cl'.
    apply export_eqb_eq. symmetry. apply (Hs n x Hin).
Qed.
