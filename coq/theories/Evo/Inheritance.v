(* Model of golem/core/optimisers/genetic/operators/inheritance.py (property C16).
   Definitions only. *)
From Coq Require Import List Bool Arith QArith.
From GolemV Require Import Fitness.Fitness Evo.Selection Evo.Elitism.
Import ListNotations.
Local Open Scope nat_scope.

Inductive scheme := SteadyState | Generational | ParameterFree.

(* list(new_population) + [ind for ind in prev_population if ind not in new_population] *)
Definition steady_full (prev new : list ind) : list ind :=
  new ++ filter (fun x => negb (mem_uid x new)) prev.

Section Inherit.
  Variables (bt dm : ind -> ind -> bool).
  Definition inherit_g (sc : scheme) (t : sel_type) (o : sel_oracle) (pop_size : nat)
             (prev new : list ind) : option (list ind) :=
    match sc with
    | Generational => Some (firstn pop_size new)                  (* direct_inheritance *)
    | _ =>                                                         (* steady_state_inheritance *)
        let full := steady_full prev new in
        (* nothing to choose from: returned as it is (selection would replicate a single
           individual up to pop_size) *)
        if length full <=? 1 then Some full
        else selection_call_g bt dm t o pop_size full pop_size
    end.
End Inherit.
Definition inherit := inherit_g better dom.

Definition inh_admits (sc : scheme) (t : sel_type) (pop_size : nat) (prev new : list ind)
           (out : option (list ind)) : bool :=
  match sc with
  | Generational => match out with Some o => inds_eqb o (firstn pop_size new) | None => false end
  | _ => let full := steady_full prev new in
         if length full <=? 1 then match out with Some o => inds_eqb o full | None => false end
         else call_admits t pop_size full pop_size out
  end.

(* the property's clauses on the OBSERVED output: drawn from the inputs, at most pop_size, and
   no individual twice - unconditionally on individually repeat-free prev and new (the
   single-individual replication of the property text is for Selection only), and also
   whenever at least two distinct individuals exist (selection de-duplicates repeated inputs);
   the generational scheme is judged on repeat-free new populations. *)
Definition inh_holds_b (sc : scheme) (pop_size : nat) (prev new : list ind) (out : option (list ind)) : bool :=
  match out with
  | None => false
  | Some o =>
      subset_b o (prev ++ new) && (length o <=? pop_size) &&
      match sc with
      | Generational => implb (nodup_uid new) (nodup_uid o)
      | _ => implb ((nodup_uid prev && nodup_uid new) || (2 <=? n_distinct (prev ++ new))) (nodup_uid o)
      end
  end.

(* ---- sessions: one operator instance, the shared parameters object changed between calls.
   The operators read their parameters at call time, so a session is nothing but the list of
   the per-call functions applied to the parameters in force at each call (no state is carried
   from one call to the next). ---- *)
Inductive op_call :=
| CallSelection (t : sel_type) (o : sel_oracle) (default_size : nat) (population : list ind) (pop_size : nat)
| CallElitism (p : eparams) (cs : list nat) (best new : list ind)
| CallInheritance (sc : scheme) (t : sel_type) (o : sel_oracle) (pop_size : nat) (prev new : list ind).

Definition run_call (c : op_call) : option (list ind) :=
  match c with
  | CallSelection t o d population ps => selection_call t o d population ps
  | CallElitism p cs best new => Some (elitism p cs best new)
  | CallInheritance sc t o ps prev new => inherit sc t o ps prev new
  end.
Definition run_session (calls : list op_call) : list (option (list ind)) := map run_call calls.

(* ---- custom selection callables in selection_types.  Selection.__call__ calls a callable entry
   directly (no default_selection_behaviour wrapper, hence no de-duplication by uid), so with a
   user function the steady-state merge itself must not contain an individual twice. ---- *)
Definition inherit_custom (f : list ind -> nat -> list ind) (sc : scheme) (pop_size : nat)
           (prev new : list ind) : list ind :=
  match sc with
  | Generational => firstn pop_size new
  | _ => let full := steady_full prev new in
         if length full <=? 1 then full else f full pop_size
  end.

(* the user functions the driver passes (known to it, so the comparison can be exact) *)
Inductive custom_sel := FirstN | LastN | TruncBest.
Definition custom_fn (c : custom_sel) (l : list ind) (n : nat) : list ind :=
  match c with
  | FirstN => firstn n l                                 (* population[:n] *)
  | LastN => skipn (length l - n) l                      (* population[-n:] *)
  | TruncBest => firstn n (sort_desc worse l)            (* sorted(population, key=fitness, reverse=True)[:n] *)
  end.

Definition inh_custom_admits (sc : scheme) (c : custom_sel) (pop_size : nat) (prev new out : list ind) : bool :=
  inds_eqb out (inherit_custom (custom_fn c) sc pop_size prev new).
(* Selection.__call__ with a callable entry: the callable's own result *)
Definition sel_custom_admits (c : custom_sel) (default_size : nat) (population : list ind) (pop_size : nat)
           (out : list ind) : bool :=
  inds_eqb out (custom_fn c population (if Nat.eqb pop_size 0 then default_size else pop_size)).

(* what the property demands of Inheritance when the selection is a user function that returns
   distinct members of its input, at most as many as requested: drawn from prev + new, at most
   pop_size, and no individual twice whenever prev and new are individually repeat-free *)
Definition inh_custom_holds_b (sc : scheme) (pop_size : nat) (prev new out : list ind) : bool :=
  subset_b out (prev ++ new) && (length out <=? pop_size) &&
  match sc with
  | Generational => implb (nodup_uid new) (nodup_uid out)
  | _ => implb (nodup_uid prev && nodup_uid new) (nodup_uid out)
  end.
