(* Model of golem/core/optimisers/genetic/operators/inheritance.py (property C16).
   Definitions only. *)
From Coq Require Import List Bool Arith QArith.
From GolemV Require Import Fitness.Fitness Evo.Selection Evo.Elitism.
Import ListNotations.
Local Open Scope nat_scope.

Inductive scheme := SteadyState | Generational | ParameterFree.

(* list(new_population) + [ind for ind in prev_population if ind not in new_population] *)
Definition steady_full (prev new : list ind) : list ind :=
  new ++ filter (fun x => negb (mem_uid x new)) prev.

Section Inherit.
  Variables (bt dm : ind -> ind -> bool).
  Definition inherit_g (sc : scheme) (t : sel_type) (o : sel_oracle) (pop_size : nat)
             (prev new : list ind) : option (list ind) :=
    match sc with
    | Generational => Some (firstn pop_size new)                  (* direct_inheritance *)
    | _ => selection_call_g bt dm t o pop_size (steady_full prev new) pop_size
    end.
End Inherit.
Definition inherit := inherit_g better dom.

Definition inh_admits (sc : scheme) (t : sel_type) (pop_size : nat) (prev new : list ind)
           (out : option (list ind)) : bool :=
  match sc with
  | Generational => match out with Some o => inds_eqb o (firstn pop_size new) | None => false end
  | _ => call_admits t pop_size (steady_full prev new) pop_size out
  end.

(* the property's clauses on the OBSERVED output: drawn from the inputs, no individual twice,
   at most pop_size.  Steady-state with a single distinct individual replicates it (the
   documented behaviour of selection); the generational scheme is judged on repeat-free
   new populations. *)
Definition inh_holds_b (sc : scheme) (pop_size : nat) (prev new : list ind) (out : option (list ind)) : bool :=
  match out with
  | None => false
  | Some o =>
      subset_b o (prev ++ new) && (length o <=? pop_size) &&
      match sc with
      | Generational => implb (nodup_uid new) (nodup_uid o)
      | _ => implb (2 <=? n_distinct (prev ++ new)) (nodup_uid o)
      end
  end.

(* ---- sessions: one operator instance, the shared parameters object changed between calls.
   The operators read their parameters at call time, so a session is nothing but the list of
   the per-call functions applied to the parameters in force at each call (no state is carried
   from one call to the next). ---- *)
Inductive op_call :=
| CallSelection (t : sel_type) (o : sel_oracle) (default_size : nat) (population : list ind) (pop_size : nat)
| CallElitism (p : eparams) (cs : list nat) (best new : list ind)
| CallInheritance (sc : scheme) (t : sel_type) (o : sel_oracle) (pop_size : nat) (prev new : list ind).

Definition run_call (c : op_call) : option (list ind) :=
  match c with
  | CallSelection t o d population ps => selection_call t o d population ps
  | CallElitism p cs best new => Some (elitism p cs best new)
  | CallInheritance sc t o ps prev new => inherit sc t o ps prev new
  end.
Definition run_session (calls : list op_call) : list (option (list ind)) := map run_call calls.
