(* Proofs about the inheritance model (property C16). *)
From Coq Require Import List Bool Arith QArith Lia Permutation.
From GolemV Require Import Fitness.Fitness Evo.Selection Evo.SelectionProofs Evo.Elitism Evo.ElitismProofs
     Evo.Inheritance.
Import ListNotations.
Local Open Scope nat_scope.

Lemma n_distinct_same_uids l l' :
  (forall u, In u (map uid l) <-> In u (map uid l')) -> n_distinct l = n_distinct l'.
Proof.
  intros H. unfold n_distinct. apply Permutation_length.
  apply NoDup_Permutation; try apply distinct_uids_NoDup.
  intros u. rewrite !distinct_uids_In. apply H.
Qed.

Lemma steady_full_incl prev new : incl (steady_full prev new) (prev ++ new).
Proof.
  unfold steady_full. intros x Hx. apply in_app_or in Hx as [Hx|Hx]; apply in_or_app; [right; exact Hx|left].
  apply filter_In in Hx as [Hx _]. exact Hx.
Qed.

Lemma steady_full_uids prev new u :
  In u (map uid (steady_full prev new)) <-> In u (map uid (prev ++ new)).
Proof.
  unfold steady_full. rewrite !map_app, !in_app_iff. split.
  - intros [H|H]; [right; exact H|left].
    apply in_map_iff in H as [x [<- Hx]]. apply filter_In in Hx as [Hx _]. apply in_map, Hx.
  - intros [H|H]; [|left; exact H].
    apply in_map_iff in H as [x [<- Hx]]. destruct (mem_uid x new) eqn:E.
    + left. apply mem_uid_iff, E.
    + right. apply in_map, filter_In. rewrite E. auto.
Qed.

Lemma steady_full_distinct prev new : n_distinct (steady_full prev new) = n_distinct (prev ++ new).
Proof. apply n_distinct_same_uids, steady_full_uids. Qed.

Section Contract.
  Variables bt dm : ind -> ind -> bool.

  Theorem inheritance_contract_g sc t o pop_size prev new :
    exists out, inherit_g bt dm sc t o pop_size prev new = Some out /\
      incl out (prev ++ new) /\ length out <= pop_size /\
      match sc with
      | Generational => out = firstn pop_size new /\ (NoDup (map uid new) -> NoDup (map uid out))
      | _ => (2 <= n_distinct (prev ++ new) ->
                NoDup (map uid out) /\ length out = Nat.min pop_size (n_distinct (prev ++ new))) /\
             (n_distinct (prev ++ new) = 1 -> exists x, In x (prev ++ new) /\ out = repeat x pop_size)
      end.
  Proof.
    assert (Steady : exists out,
               selection_call_g bt dm t o pop_size (steady_full prev new) pop_size = Some out /\
               incl out (prev ++ new) /\ length out <= pop_size /\
               (2 <= n_distinct (prev ++ new) ->
                  NoDup (map uid out) /\ length out = Nat.min pop_size (n_distinct (prev ++ new))) /\
               (n_distinct (prev ++ new) = 1 -> exists x, In x (prev ++ new) /\ out = repeat x pop_size)).
    { unfold selection_call_g.
      assert (E : (if Nat.eqb pop_size 0 then pop_size else pop_size) = pop_size) by (destruct (Nat.eqb pop_size 0); reflexivity).
      rewrite E.
      destruct (selection_contract_g bt dm t o (steady_full prev new) pop_size) as (out & Eo & I & H2 & H1).
      rewrite steady_full_distinct in H2, H1.
      exists out. split; [exact Eo|]. split; [intros x Hx; apply steady_full_incl, I, Hx|]. split.
      - destruct (n_distinct (prev ++ new)) as [|[|d]] eqn:D.
        + (* no individual at all: the output is drawn from an empty input *)
          assert (prev ++ new = []) as Em.
          { unfold n_distinct in D. destruct (prev ++ new) as [|x l] eqn:El; [reflexivity|]. exfalso.
            assert (In (uid x) (distinct_uids (map uid (x :: l)))) by (apply distinct_uids_In; left; reflexivity).
            destruct (distinct_uids (map uid (x :: l))); [contradiction|simpl in D; lia]. }
          destruct out as [|z out]; [simpl; lia|]. exfalso.
          assert (In z (prev ++ new)) by (apply steady_full_incl, I; left; reflexivity). rewrite Em in H. contradiction.
        + destruct (H1 eq_refl) as (x & _ & ->). rewrite repeat_length. lia.
        + destruct H2 as [_ L]; lia.
      - split; [exact H2|]. intros D. destruct (H1 D) as (x & Hx & ->). exists x. split; [|reflexivity].
        apply steady_full_incl, Hx. }
    destruct sc; simpl; try exact Steady.
    exists (firstn pop_size new). split; [reflexivity|]. split; [|split; [|split]].
    - intros x Hx. apply in_or_app. right. eapply firstn_incl, Hx.
    - rewrite firstn_length. lia.
    - reflexivity.
    - apply firstn_NoDup_map.
  Qed.
End Contract.

(* the executable clauses hold of the model's output for every oracle *)
Theorem model_inh_holds_b sc t o pop_size prev new :
  inh_holds_b sc pop_size prev new (inherit sc t o pop_size prev new) = true.
Proof.
  destruct (inheritance_contract_g better dom sc t o pop_size prev new) as (out & E & I & L & H).
  unfold inherit. rewrite E. unfold inh_holds_b. rewrite (subset_b_of_incl _ _ I).
  apply Nat.leb_le in L. rewrite L. cbn [andb]. unfold implb.
  assert (Steady : (2 <= n_distinct (prev ++ new) -> NoDup (map uid out) /\ length out = Nat.min pop_size (n_distinct (prev ++ new))) ->
                   negb (2 <=? n_distinct (prev ++ new)) || nodup_uid out = true).
  { intros H2. destruct (2 <=? n_distinct (prev ++ new)) eqn:D; [|reflexivity]. apply Nat.leb_le in D.
    cbn [negb orb]. apply nodup_uid_iff, H2, D. }
  destruct sc; try (apply Steady, H).
  destruct H as [_ H]. destruct (nodup_uid new) eqn:Nn; [|reflexivity]. cbn [negb orb].
  apply nodup_uid_iff, H, nodup_uid_iff, Nn.
Qed.

(* every call of a session satisfies the contract for the parameters in force at that call,
   whatever was configured or called before *)
Definition call_ok (c : op_call) (r : option (list ind)) : Prop :=
  match c with
  | CallSelection t o d population ps =>
      let n := if Nat.eqb ps 0 then d else ps in
      exists out, r = Some out /\ incl out population /\
        (2 <= n_distinct population -> NoDup (map uid out) /\ length out = Nat.min n (n_distinct population)) /\
        (n_distinct population = 1 -> exists x, In x population /\ out = repeat x n)
  | CallElitism p cs best new =>
      exists out, r = Some out /\ eli_holds_b p best new out = true /\
        (e_type p = KeepNBest \/ ahead_of_head worse best new < length new -> eli_head_b p best new out = true)
  | CallInheritance sc t o ps prev new => inh_holds_b sc ps prev new r = true
  end.

Theorem session_contract calls : Forall2 call_ok calls (run_session calls).
Proof.
  unfold run_session. induction calls as [|c calls IH]; simpl; constructor; [|exact IH].
  destruct c; simpl.
  - exact (selection_contract_g better dom t o population _).
  - exists (elitism p cs best new). split; [reflexivity|]. split; [apply model_eli_holds_b|apply model_eli_head_b].
  - apply model_inh_holds_b.
Qed.

(* ------------------------------------------------------------------ custom selection callables *)
(* a user selection function is well-behaved when it returns distinct members (positions) of
   its input, at most as many as requested *)
Definition well_behaved (f : list ind -> nat -> list ind) : Prop :=
  forall l n, (exists rest, Permutation (f l n ++ rest) l) /\ length (f l n) <= n.

Lemma steady_full_NoDup prev new :
  NoDup (map uid prev) -> NoDup (map uid new) -> NoDup (map uid (steady_full prev new)).
Proof. intros Np Nn. exact (rw_pop_NoDup new prev Nn Np). Qed.

Theorem inheritance_custom_contract f sc pop_size prev new :
  well_behaved f ->
  let out := inherit_custom f sc pop_size prev new in
  incl out (prev ++ new) /\ length out <= pop_size /\
  (NoDup (map uid prev) -> NoDup (map uid new) -> NoDup (map uid out)).
Proof.
  intros W. destruct sc; simpl;
    try (destruct (W (steady_full prev new) pop_size) as [[rest P] L];
         split; [intros x Hx; apply steady_full_incl; eapply Permutation_app_incl; eauto|];
         split; [exact L|];
         intros Np Nn; eapply Permutation_app_NoDup_map; [exact P|apply steady_full_NoDup; assumption]).
  split; [intros x Hx; apply in_or_app; right; eapply firstn_incl, Hx|].
  split; [rewrite firstn_length; lia|]. intros _ Nn. apply firstn_NoDup_map, Nn.
Qed.

(* the three functions the driver uses are well-behaved *)
Lemma custom_fn_well_behaved c : well_behaved (custom_fn c).
Proof.
  intros l n. destruct c; simpl.
  - split; [exists (skipn n l); rewrite firstn_skipn; apply Permutation_refl|rewrite firstn_length; lia].
  - split.
    + exists (firstn (length l - n) l). eapply perm_trans; [apply Permutation_app_comm|].
      rewrite firstn_skipn. apply Permutation_refl.
    + rewrite skipn_length. lia.
  - split.
    + exists (skipn n (sort_desc worse l)). rewrite firstn_skipn. apply stable_sort_perm.
    + rewrite firstn_length. lia.
Qed.

(* the executable clauses hold of the model output for every well-behaved user function *)
Theorem model_inh_custom_holds_b f sc pop_size prev new :
  well_behaved f -> inh_custom_holds_b sc pop_size prev new (inherit_custom f sc pop_size prev new) = true.
Proof.
  intros W. destruct (inheritance_custom_contract f sc pop_size prev new W) as (I & L & N).
  unfold inh_custom_holds_b. rewrite (subset_b_of_incl _ _ I). apply Nat.leb_le in L. rewrite L. cbn [andb].
  unfold implb. destruct sc.
  - destruct (nodup_uid prev) eqn:Np; [|reflexivity]. destruct (nodup_uid new) eqn:Nn; [|reflexivity].
    cbn [andb negb orb]. apply nodup_uid_iff, N; apply nodup_uid_iff; assumption.
  - destruct (nodup_uid new) eqn:Nn; [|reflexivity]. cbn [negb orb].
    simpl. apply nodup_uid_iff, firstn_NoDup_map, nodup_uid_iff, Nn.
  - destruct (nodup_uid prev) eqn:Np; [|reflexivity]. destruct (nodup_uid new) eqn:Nn; [|reflexivity].
    cbn [andb negb orb]. apply nodup_uid_iff, N; apply nodup_uid_iff; assumption.
Qed.
