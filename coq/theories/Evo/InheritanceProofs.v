(* Proofs about the inheritance model (property C16). *)
From Coq Require Import List Bool Arith QArith Lia Permutation.
From GolemV Require Import Fitness.Fitness Evo.Selection Evo.SelectionProofs Evo.Elitism Evo.ElitismProofs
     Evo.Inheritance.
Import ListNotations.
Local Open Scope nat_scope.

Lemma n_distinct_same_uids l l' :
  (forall u, In u (map uid l) <-> In u (map uid l')) -> n_distinct l = n_distinct l'.
Proof.
  intros H. unfold n_distinct. apply Permutation_length.
  apply NoDup_Permutation; try apply distinct_uids_NoDup.
  intros u. rewrite !distinct_uids_In. apply H.
Qed.

Lemma steady_full_incl prev new : incl (steady_full prev new) (prev ++ new).
Proof.
  unfold steady_full. intros x Hx. apply in_app_or in Hx as [Hx|Hx]; apply in_or_app; [right; exact Hx|left].
  apply filter_In in Hx as [Hx _]. exact Hx.
Qed.

Lemma steady_full_uids prev new u :
  In u (map uid (steady_full prev new)) <-> In u (map uid (prev ++ new)).
Proof.
  unfold steady_full. rewrite !map_app, !in_app_iff. split.
  - intros [H|H]; [right; exact H|left].
    apply in_map_iff in H as [x [<- Hx]]. apply filter_In in Hx as [Hx _]. apply in_map, Hx.
  - intros [H|H]; [|left; exact H].
    apply in_map_iff in H as [x [<- Hx]]. destruct (mem_uid x new) eqn:E.
    + left. apply mem_uid_iff, E.
    + right. apply in_map, filter_In. rewrite E. auto.
Qed.

Lemma steady_full_distinct prev new : n_distinct (steady_full prev new) = n_distinct (prev ++ new).
Proof. apply n_distinct_same_uids, steady_full_uids. Qed.

Lemma distinct_uids_NoDup_id l : NoDup l -> distinct_uids l = l.
Proof.
  induction l as [|x l IH]; simpl; intros H; [reflexivity|]. inversion H as [|? ? Hn H']; subst.
  destruct (existsb (Nat.eqb x) l) eqn:E.
  - apply existsb_exists in E as [y [Hy E]]. apply Nat.eqb_eq in E. subst. contradiction.
  - rewrite (IH H'). reflexivity.
Qed.
Lemma n_distinct_NoDup l : NoDup (map uid l) -> n_distinct l = length l.
Proof. intros H. unfold n_distinct. rewrite (distinct_uids_NoDup_id _ H). apply map_length. Qed.
Lemma n_distinct_le l : n_distinct l <= length l.
Proof.
  unfold n_distinct. rewrite <- (map_length uid l). generalize (map uid l). clear l.
  induction l as [|x l IH]; simpl; [lia|]. destruct (existsb (Nat.eqb x) l); simpl; lia.
Qed.
Lemma short_NoDup (l : list ind) : length l <= 1 -> NoDup (map uid l).
Proof.
  destruct l as [|x [|y l]]; simpl; intros H; try lia; [constructor|].
  constructor; [intros []|constructor].
Qed.
Lemma steady_full_NoDup prev new :
  NoDup (map uid prev) -> NoDup (map uid new) -> NoDup (map uid (steady_full prev new)).
Proof. intros Np Nn. exact (rw_pop_NoDup new prev Nn Np). Qed.

Section Contract.
  Variables bt dm : ind -> ind -> bool.

  (* inheritance never raises, draws from prev + new and returns at most pop_size individuals.
     Steady-state / parameter-free: no individual twice whenever prev and new are individually
     repeat-free (a single survivor is returned once) or at least two distinct individuals exist
     (selection merges repeated uids), and then exactly min(pop_size, distinct) individuals.
     Generational: the first pop_size of new. *)
  Theorem inheritance_contract_g sc t o pop_size prev new :
    exists out, inherit_g bt dm sc t o pop_size prev new = Some out /\
      incl out (prev ++ new) /\ (1 <= pop_size -> length out <= pop_size) /\
      match sc with
      | Generational => out = firstn pop_size new /\ (NoDup (map uid new) -> NoDup (map uid out))
      | _ => (2 <= n_distinct (prev ++ new) ->
                NoDup (map uid out) /\ length out = Nat.min pop_size (n_distinct (prev ++ new))) /\
             (NoDup (map uid prev) -> NoDup (map uid new) ->
                NoDup (map uid out) /\
                (1 <= pop_size -> length out = Nat.min pop_size (n_distinct (prev ++ new))))
      end.
  Proof.
    assert (Sel : exists out,
               selection_call_g bt dm t o pop_size (steady_full prev new) pop_size = Some out /\
               incl out (prev ++ new) /\ length out <= pop_size /\
               (2 <= n_distinct (prev ++ new) ->
                  NoDup (map uid out) /\ length out = Nat.min pop_size (n_distinct (prev ++ new))) /\
               (n_distinct (prev ++ new) = 1 -> exists x, In x (prev ++ new) /\ out = repeat x pop_size)).
    { unfold selection_call_g.
      assert (E : (if Nat.eqb pop_size 0 then pop_size else pop_size) = pop_size) by (destruct (Nat.eqb pop_size 0); reflexivity).
      rewrite E.
      destruct (selection_contract_g bt dm t o (steady_full prev new) pop_size) as (out & Eo & I & H2 & H1).
      rewrite steady_full_distinct in H2, H1.
      exists out. split; [exact Eo|]. split; [intros x Hx; apply steady_full_incl, I, Hx|]. split.
      - destruct (n_distinct (prev ++ new)) as [|[|d]] eqn:D.
        + (* no individual at all: the output is drawn from an empty input *)
          assert (prev ++ new = []) as Em.
          { unfold n_distinct in D. destruct (prev ++ new) as [|x l] eqn:El; [reflexivity|]. exfalso.
            assert (In (uid x) (distinct_uids (map uid (x :: l)))) by (apply distinct_uids_In; left; reflexivity).
            destruct (distinct_uids (map uid (x :: l))); [contradiction|simpl in D; lia]. }
          destruct out as [|z out]; [simpl; lia|]. exfalso.
          assert (In z (prev ++ new)) by (apply steady_full_incl, I; left; reflexivity). rewrite Em in H. contradiction.
        + destruct (H1 eq_refl) as (x & _ & ->). rewrite repeat_length. lia.
        + destruct H2 as [_ L]; lia.
      - split; [exact H2|]. intros D. destruct (H1 D) as (x & Hx & ->). exists x. split; [|reflexivity].
        apply steady_full_incl, Hx. }
    assert (Steady : exists out,
               (let full := steady_full prev new in
                if length full <=? 1 then Some full
                else selection_call_g bt dm t o pop_size full pop_size) = Some out /\
               incl out (prev ++ new) /\ (1 <= pop_size -> length out <= pop_size) /\
               (2 <= n_distinct (prev ++ new) ->
                  NoDup (map uid out) /\ length out = Nat.min pop_size (n_distinct (prev ++ new))) /\
               (NoDup (map uid prev) -> NoDup (map uid new) ->
                  NoDup (map uid out) /\
                  (1 <= pop_size -> length out = Nat.min pop_size (n_distinct (prev ++ new))))).
    { cbv zeta. pose proof (steady_full_distinct prev new) as D. pose proof (n_distinct_le (steady_full prev new)) as Le.
      destruct (length (steady_full prev new) <=? 1) eqn:E.
      - apply Nat.leb_le in E. exists (steady_full prev new). split; [reflexivity|].
        split; [apply steady_full_incl|]. split; [lia|]. split; [lia|].
        intros _ _. split; [apply short_NoDup, E|]. intros P.
        rewrite <- D, (n_distinct_NoDup _ (short_NoDup _ E)). lia.
      - apply Nat.leb_gt in E. destruct Sel as (out & Eo & I & L & H2 & _).
        exists out. split; [exact Eo|]. split; [exact I|]. split; [intros _; exact L|]. split; [exact H2|].
        intros Np Nn. pose proof (n_distinct_NoDup _ (steady_full_NoDup prev new Np Nn)) as Nd.
        assert (D2 : 2 <= n_distinct (prev ++ new)) by lia.
        destruct (H2 D2) as [N Len]. split; [exact N|]. intros _. exact Len. }
    destruct sc; simpl; try exact Steady.
    exists (firstn pop_size new). split; [reflexivity|]. split; [|split; [|split]].
    - intros x Hx. apply in_or_app. right. eapply firstn_incl, Hx.
    - intros _. rewrite firstn_length. lia.
    - reflexivity.
    - apply firstn_NoDup_map.
  Qed.
End Contract.

(* the executable clauses hold of the model's output for every oracle (sizes >= 1) *)
Theorem model_inh_holds_b sc t o pop_size prev new :
  1 <= pop_size -> inh_holds_b sc pop_size prev new (inherit sc t o pop_size prev new) = true.
Proof.
  intros P. destruct (inheritance_contract_g better dom sc t o pop_size prev new) as (out & E & I & L & H).
  unfold inherit. rewrite E. unfold inh_holds_b. rewrite (subset_b_of_incl _ _ I).
  specialize (L P). apply Nat.leb_le in L. rewrite L. cbn [andb]. unfold implb.
  assert (Steady : (2 <= n_distinct (prev ++ new) -> NoDup (map uid out) /\ length out = Nat.min pop_size (n_distinct (prev ++ new))) /\
                   (NoDup (map uid prev) -> NoDup (map uid new) -> NoDup (map uid out) /\
                      (1 <= pop_size -> length out = Nat.min pop_size (n_distinct (prev ++ new)))) ->
                   negb ((nodup_uid prev && nodup_uid new) || (2 <=? n_distinct (prev ++ new))) || nodup_uid out = true).
  { intros [H2 HB]. destruct (nodup_uid prev && nodup_uid new) eqn:G.
    - apply andb_true_iff in G as [Gp Gn]. cbn [orb negb].
      apply nodup_uid_iff. apply (HB (proj1 (nodup_uid_iff _) Gp) (proj1 (nodup_uid_iff _) Gn)).
    - cbn [orb]. destruct (2 <=? n_distinct (prev ++ new)) eqn:D; [|reflexivity]. apply Nat.leb_le in D.
      cbn [negb orb]. apply nodup_uid_iff, H2, D. }
  destruct sc; try (apply Steady, H).
  destruct H as [_ H]. destruct (nodup_uid new) eqn:Nn; [|reflexivity]. cbn [negb orb].
  apply nodup_uid_iff, H, nodup_uid_iff, Nn.
Qed.

(* every call of a session satisfies the contract for the parameters in force at that call,
   whatever was configured or called before *)
Definition call_ok (c : op_call) (r : option (list ind)) : Prop :=
  match c with
  | CallSelection t o d population ps =>
      let n := if Nat.eqb ps 0 then d else ps in
      exists out, r = Some out /\ incl out population /\
        (2 <= n_distinct population -> NoDup (map uid out) /\ length out = Nat.min n (n_distinct population)) /\
        (n_distinct population = 1 -> exists x, In x population /\ out = repeat x n)
  | CallElitism p cs best new =>
      exists out, r = Some out /\ eli_holds_b p best new out = true /\
        (e_type p = KeepNBest \/ ahead_of_head worse best new < length new -> eli_head_b p best new out = true)
  | CallInheritance sc t o ps prev new => 1 <= ps -> inh_holds_b sc ps prev new r = true
  end.

Theorem session_contract calls : Forall2 call_ok calls (run_session calls).
Proof.
  unfold run_session. induction calls as [|c calls IH]; simpl; constructor; [|exact IH].
  destruct c; simpl.
  - exact (selection_contract_g better dom t o population _).
  - exists (elitism p cs best new). split; [reflexivity|]. split; [apply model_eli_holds_b|apply model_eli_head_b].
  - apply model_inh_holds_b.
Qed.

(* ------------------------------------------------------------------ custom selection callables *)
(* a user selection function is well-behaved when it returns distinct members (positions) of
   its input, at most as many as requested *)
Definition well_behaved (f : list ind -> nat -> list ind) : Prop :=
  forall l n, (exists rest, Permutation (f l n ++ rest) l) /\ length (f l n) <= n.

Theorem inheritance_custom_contract f sc pop_size prev new :
  well_behaved f ->
  let out := inherit_custom f sc pop_size prev new in
  incl out (prev ++ new) /\ (1 <= pop_size -> length out <= pop_size) /\
  (NoDup (map uid prev) -> NoDup (map uid new) -> NoDup (map uid out)).
Proof.
  intros W.
  assert (Steady : let out := (let full := steady_full prev new in if length full <=? 1 then full else f full pop_size) in
                   incl out (prev ++ new) /\ (1 <= pop_size -> length out <= pop_size) /\
                   (NoDup (map uid prev) -> NoDup (map uid new) -> NoDup (map uid out))).
  { cbv zeta. destruct (length (steady_full prev new) <=? 1) eqn:E.
    - apply Nat.leb_le in E. split; [apply steady_full_incl|]. split; [lia|]. intros _ _. apply short_NoDup, E.
    - destruct (W (steady_full prev new) pop_size) as [[rest P] L].
      split; [intros x Hx; apply steady_full_incl; eapply Permutation_app_incl; eauto|].
      split; [intros _; exact L|].
      intros Np Nn. eapply Permutation_app_NoDup_map; [exact P|apply steady_full_NoDup; assumption]. }
  destruct sc; simpl; try exact Steady.
  split; [intros x Hx; apply in_or_app; right; eapply firstn_incl, Hx|].
  split; [intros _; rewrite firstn_length; lia|]. intros _ Nn. apply firstn_NoDup_map, Nn.
Qed.

(* the three functions the driver uses are well-behaved *)
Lemma custom_fn_well_behaved c : well_behaved (custom_fn c).
Proof.
  intros l n. destruct c; simpl.
  - split; [exists (skipn n l); rewrite firstn_skipn; apply Permutation_refl|rewrite firstn_length; lia].
  - split.
    + exists (firstn (length l - n) l). eapply perm_trans; [apply Permutation_app_comm|].
      rewrite firstn_skipn. apply Permutation_refl.
    + rewrite skipn_length. lia.
  - split.
    + exists (skipn n (sort_desc worse l)). rewrite firstn_skipn. apply stable_sort_perm.
    + rewrite firstn_length. lia.
Qed.

(* the executable clauses hold of the model output for every well-behaved user function *)
Theorem model_inh_custom_holds_b f sc pop_size prev new :
  well_behaved f -> 1 <= pop_size ->
  inh_custom_holds_b sc pop_size prev new (inherit_custom f sc pop_size prev new) = true.
Proof.
  intros W P. destruct (inheritance_custom_contract f sc pop_size prev new W) as (I & L & N).
  unfold inh_custom_holds_b. rewrite (subset_b_of_incl _ _ I). specialize (L P). apply Nat.leb_le in L. rewrite L.
  cbn [andb]. unfold implb.
  assert (Steady : negb (nodup_uid prev && nodup_uid new) || nodup_uid (inherit_custom f sc pop_size prev new) = true).
  { destruct (nodup_uid prev) eqn:Np; [|reflexivity]. destruct (nodup_uid new) eqn:Nn; [|reflexivity].
    cbn [andb negb orb]. apply nodup_uid_iff, N; apply nodup_uid_iff; assumption. }
  destruct sc; try exact Steady.
  destruct (nodup_uid new) eqn:Nn; [|reflexivity]. cbn [negb orb].
  simpl. apply nodup_uid_iff, firstn_NoDup_map, nodup_uid_iff, Nn.
Qed.
