(* Model of the run limits of the GOLEM optimisers (property C15).  Definitions only.

   Anchored code (modelled as it is NOW in /repo):
     golem/core/optimisers/timer.py                      Timer, OptimisationTimer
     golem/utilities/grouped_condition.py                GroupedCondition
     golem/core/optimisers/populational_optimizer.py     stop condition + optimise loop
     golem/core/optimisers/random/random_search.py       stop condition + optimise loop
     golem/core/optimisers/archive/generation_keeper.py  generation / stagnation counters only
     golem/core/optimisers/genetic/parameters/population_size.py, graph_depth.py
     golem/utilities/sequence_iterator.py                SequenceIterator, fibonacci_sequence
     golem/api/main.py, golem/api/api_utils/api_params.py  distribution of keyword arguments

   Time is measured in minutes as exact rationals (Q).  The wall clock, the evolve step and the
   "did the archive improve" answer are oracles (Section variables / explicit arguments). *)
From Coq Require Import List Bool Arith ZArith QArith Qround String.
Import ListNotations.

(* ------------------------------------------------------------------------------------- *)
(* exceptions are values                                                                  *)
(* ------------------------------------------------------------------------------------- *)
Inductive exn := TypeError | ZeroDivisionError | StopIteration | AttributeError | ValueError.
Inductive res (A : Type) : Type := Ok (a : A) | Raise (e : exn).
Arguments Ok {A} a.
Arguments Raise {A} e.

Definition exn_eqb (a b : exn) : bool :=
  match a, b with
  | TypeError, TypeError | ZeroDivisionError, ZeroDivisionError
  | StopIteration, StopIteration | AttributeError, AttributeError | ValueError, ValueError => true
  | _, _ => false
  end.

Definition Qltb (a b : Q) : bool := negb (Qle_bool b a).

(* ------------------------------------------------------------------------------------- *)
(* timers                                                                                 *)
(* ------------------------------------------------------------------------------------- *)
(* OptimisationTimer._is_next_iteration_possible(time_constraint, iteration_num):
     minutes = self.minutes_from_start
     if iteration_num is not None and iteration_num != 0:
         possible = time_constraint > minutes + (minutes - self.init_time) / iteration_num
     else: possible = time_constraint > minutes *)
Definition next_iteration_possible (constraint minutes init : Q) (iter : option Z) : bool :=
  match iter with
  | Some i => if Z.eqb i 0 then Qltb minutes constraint
              else Qltb (minutes + (minutes - init) / inject_Z i) constraint
  | None => Qltb minutes constraint
  end.

(* timeout = 0 if self.timeout.total_seconds() < 0 else self.timeout.total_seconds() / 60. *)
Definition timeout_minutes (t : Q) : Q := if Qltb t 0 then 0 else t.

(* OptimisationTimer.is_time_limit_reached(iteration_num); timeout = None means no limit,
   a zero (or negative, clamped) timeout means "reached" without looking at the clock *)
Definition opt_timer_reached (timeout : option Q) (init minutes : Q) (iter : option Z) : bool :=
  match timeout with
  | None => false
  | Some t =>
      let t' := timeout_minutes t in
      if Qeq_bool t' 0 then true else negb (next_iteration_possible t' minutes init iter)
  end.

(* process_terminated after the call: OptimisationTimer only ever sets it *)
Definition opt_timer_flag (old reached : bool) : bool := old || reached.

(* Timer.is_time_limit_reached(): now - start >= timeout, flag = result *)
Definition timer_reached (timeout : option Q) (elapsed : Q) : bool :=
  match timeout with None => false | Some t => Qle_bool t elapsed end.

(* ------------------------------------------------------------------------------------- *)
(* GroupedCondition: any(map(check, conditions)) - in order, short-circuit.               *)
(* A condition is what its thunk would answer when called; the second component counts    *)
(* how many thunks were called.                                                           *)
(* ------------------------------------------------------------------------------------- *)
Fixpoint grouped_any (cs : list (res bool)) : res bool * nat :=
  match cs with
  | [] => (Ok false, O)
  | Raise e :: _ => (Raise e, 1%nat)
  | Ok true :: _ => (Ok true, 1%nat)
  | Ok false :: r => let '(x, n) := grouped_any r in (x, S n)
  end.

Fixpoint grouped_all (cs : list (res bool)) : res bool * nat :=
  match cs with
  | [] => (Ok true, O)
  | Raise e :: _ => (Raise e, 1%nat)
  | Ok false :: _ => (Ok false, 1%nat)
  | Ok true :: r => let '(x, n) := grouped_all r in (x, S n)
  end.

(* ------------------------------------------------------------------------------------- *)
(* stop options and keeper counters                                                       *)
(* ------------------------------------------------------------------------------------- *)
Record limits := {
  nog : option nat;      (* num_of_generations *)
  esi : option nat;      (* early_stopping_iterations *)
  est : option Q;        (* early_stopping_timeout, minutes *)
  tmo : option Q }.      (* timeout, minutes (a timedelta; may be negative) *)

(* the part of GenerationKeeper the limits look at *)
Record kstate := {
  gen_num : nat;         (* generation_num *)
  stag : nat;            (* stagnation_iter_count *)
  stag_start : Q }.      (* _stagnation_start_time, minutes on the timer's clock *)

Definition keeper_init (t : Q) : kstate := {| gen_num := 0; stag := 0; stag_start := t |}.

(* GenerationKeeper._update_improvements (counters only); `improved` = is_any_improved *)
Definition keeper_append (improved : bool) (t : Q) (s : kstate) : kstate :=
  {| gen_num := S (gen_num s);
     stag := if improved then O else S (stag s);
     stag_start := if improved || Nat.eqb (S (gen_num s)) 1 then t else stag_start s |}.

(* stagnation_time_duration = (now - start).seconds / 60 : whole seconds, days dropped *)
Definition stag_duration (now start : Q) : Q :=
  (Z.modulo (Qfloor ((now - start) * 60)) 86400) # 60.

(* max_stagnation_length = early_stopping_iterations or num_of_generations  (python `or`: 0 is falsy) *)
Definition max_stag_len (l : limits) : option nat :=
  match esi l with Some (S k) => Some (S k) | _ => nog l end.

Definition c_time (l : limits) (init t : Q) (s : kstate) : bool :=
  opt_timer_reached (tmo l) init t (Some (Z.of_nat (gen_num s) - 1)%Z).
Definition c_gen (l : limits) (s : kstate) : bool :=
  match nog l with Some n => Nat.leb (n + 1) (gen_num s) | None => false end.
Definition c_stag (l : limits) (s : kstate) : bool :=
  match max_stag_len l with Some m => Nat.leb m (stag s) | None => false end.
Definition c_stagtime_d (l : limits) (duration : Q) : bool :=
  match est l with Some e => Qle_bool e duration | None => false end.
Definition c_stagtime (l : limits) (t : Q) (s : kstate) : bool :=
  c_stagtime_d l (stag_duration t (stag_start s)).

(* PopulationalOptimizer.stop_optimization(): t1 = clock read by the timer condition,
   t2 = clock read by the stagnation-time condition *)
Definition stop_test (l : limits) (init t1 t2 : Q) (s : kstate) : bool :=
  c_time l init t1 s || c_gen l s || c_stag l s || c_stagtime l t2 s.

(* RandomSearchOptimizer.stop_optimization() *)
Definition rs_stop_test (l : limits) (init t : Q) (iter : nat) : bool :=
  opt_timer_reached (tmo l) init t (Some (Z.of_nat iter))
  || match nog l with Some n => Nat.leb n iter | None => false end.

(* ------------------------------------------------------------------------------------- *)
(* the same stop test over untyped python values: shows which comparisons could raise     *)
(* ------------------------------------------------------------------------------------- *)
Inductive pv := VNone | VInt (z : Z) | VFloat (q : Q) | VDelta (minutes : Q).

(* a >= b *)
Definition py_ge (a b : pv) : res bool :=
  match a, b with
  | VInt x, VInt y => Ok (Z.leb y x)
  | VInt x, VFloat y => Ok (Qle_bool y (inject_Z x))
  | VFloat x, VInt y => Ok (Qle_bool (inject_Z y) x)
  | VFloat x, VFloat y => Ok (Qle_bool y x)
  | VDelta x, VDelta y => Ok (Qle_bool y x)
  | _, _ => Raise TypeError
  end.

Definition py_truthy (a : pv) : bool :=
  match a with
  | VNone => false
  | VInt z => negb (Z.eqb z 0)
  | VFloat q => negb (Qeq_bool q 0)
  | VDelta q => negb (Qeq_bool q 0)
  end.

Definition py_or (a b : pv) : pv := if py_truthy a then a else b.

Definition py_add1 (a : pv) : res pv :=
  match a with
  | VInt z => Ok (VInt (z + 1))
  | VFloat q => Ok (VFloat (q + 1))
  | _ => Raise TypeError
  end.

Record dlimits := { d_nog : pv; d_esi : pv; d_est : pv; d_tmo : pv }.

(* self.timer.is_time_limit_reached(...) with self.timeout = d_tmo *)
Definition d_c_time (l : dlimits) (init t : Q) (s : kstate) : res bool :=
  match d_tmo l with
  | VNone => Ok false
  | VDelta m => Ok (opt_timer_reached (Some m) init t (Some (Z.of_nat (gen_num s) - 1)%Z))
  | _ => Raise AttributeError       (* int/float has no total_seconds() *)
  end.

(* num_of_generations is not None and current_generation_num >= num_of_generations + 1 *)
Definition d_c_gen (l : dlimits) (s : kstate) : res bool :=
  match d_nog l with
  | VNone => Ok false
  | n => match py_add1 n with
         | Ok n1 => py_ge (VInt (Z.of_nat (gen_num s))) n1
         | Raise e => Raise e
         end
  end.

(* max_stagnation_length is not None and stagnation_iter_count >= max_stagnation_length *)
Definition d_c_stag (l : dlimits) (s : kstate) : res bool :=
  match py_or (d_esi l) (d_nog l) with
  | VNone => Ok false
  | m => py_ge (VInt (Z.of_nat (stag s))) m
  end.

(* max_stagnation_time is not None and stagnation_time_duration >= max_stagnation_time *)
Definition d_c_stagtime_with (mst : pv) (t : Q) (s : kstate) : res bool :=
  match mst with
  | VNone => Ok false
  | m => py_ge (VFloat (stag_duration t (stag_start s))) m
  end.

(* the code as it is now: max_stagnation_time = early_stopping_timeout *)
Definition d_stop_test (l : dlimits) (init t1 t2 : Q) (s : kstate) : res bool :=
  fst (grouped_any [d_c_time l init t1 s; d_c_gen l s; d_c_stag l s; d_c_stagtime_with (d_est l) t2 s]).

(* the code before the repair f1c2ac7: max_stagnation_time = early_stopping_timeout or timer.timeout *)
Definition d_stop_test_pinned (l : dlimits) (init t1 t2 : Q) (s : kstate) : res bool :=
  fst (grouped_any [d_c_time l init t1 s; d_c_gen l s; d_c_stag l s;
                    d_c_stagtime_with (py_or (d_est l) (d_tmo l)) t2 s]).

(* documented types of the four options *)
Definition inj_nat (o : option nat) : pv := match o with None => VNone | Some n => VInt (Z.of_nat n) end.
Definition inj_float (o : option Q) : pv := match o with None => VNone | Some q => VFloat q end.
Definition inj_delta (o : option Q) : pv := match o with None => VNone | Some q => VDelta q end.
Definition dyn_of (l : limits) : dlimits :=
  {| d_nog := inj_nat (nog l); d_esi := inj_nat (esi l); d_est := inj_float (est l); d_tmo := inj_delta (tmo l) |}.

(* ------------------------------------------------------------------------------------- *)
(* the optimise loops                                                                     *)
(* ------------------------------------------------------------------------------------- *)
Record lstate := {
  ks : kstate;
  now : nat;             (* index of the current instant on the abstract clock *)
  steps : nat;           (* evolve steps started so far *)
  trace : list (kstate * nat) }.   (* (keeper state, instant) at which each step was started, latest first *)

Section Loop.
  Variable clock : nat -> Q.      (* minutes since the timer was started, at instant i *)
  Variable init : Q.              (* OptimisationTimer.init_time *)
  (* the evolve step: None = EvaluationAttemptsError (loop is left), Some (improved, d) = the new
     population made the archive improve or not; the step and its bookkeeping took d instants *)
  Variable evolve : nat -> kstate -> option (bool * nat).

  (* while not self.stop_optimization(): new = evolve(); self._update_population(new) *)
  Fixpoint loop (fuel : nat) (l : limits) (s : lstate) : option lstate :=
    match fuel with
    | O => None
    | S k =>
        if stop_test l init (clock (now s)) (clock (now s)) (ks s) then Some s
        else
          let s1 := {| ks := ks s; now := now s; steps := S (steps s); trace := (ks s, now s) :: trace s |} in
          match evolve (steps s) (ks s) with
          | None => Some s1
          | Some (improved, d) =>
              let t' := (now s + d)%nat in
              loop k l {| ks := keeper_append improved (clock t') (ks s); now := t';
                          steps := steps s1; trace := trace s1 |}
          end
    end.

  (* _initial_population: the initial population, then possibly the extended one; each is one
     keeper.append.  imp0/imp1 = improvement flags, d0/d1 = durations in instants *)
  Definition initial_state (extended : bool) (imp0 imp1 : bool) (d0 d1 : nat) : lstate :=
    let k1 := keeper_append imp0 (clock d0) (keeper_init (clock 0)) in
    if extended
    then {| ks := keeper_append imp1 (clock (d0 + d1)) k1; now := (d0 + d1)%nat; steps := 0; trace := [] |}
    else {| ks := k1; now := d0; steps := 0; trace := [] |}.

  Definition run (fuel : nat) (l : limits) (extended imp0 imp1 : bool) (d0 d1 : nat) : option lstate :=
    loop fuel l (initial_state extended imp0 imp1 d0 d1).

  (* RandomSearchOptimizer.optimise: current_iteration_num counts iterations; dur i = duration of
     iteration i in instants.  Returns (iterations done, instant). *)
  Variable dur : nat -> nat.
  Fixpoint rs_loop (fuel : nat) (l : limits) (iter t : nat) : option (nat * nat) :=
    match fuel with
    | O => None
    | S k =>
        if rs_stop_test l init (clock t) iter then Some (iter, t)
        else rs_loop k l (S iter) (t + dur iter)%nat
    end.
End Loop.

(* ------------------------------------------------------------------------------------- *)
(* population size schedules                                                              *)
(* ------------------------------------------------------------------------------------- *)
Definition MIN_POP_SIZE : Z := 5.

(* `if self._max_pop_size:` - None and 0 both mean "unbounded" *)
Definition truthy_max (m : option Z) : option Z :=
  match m with Some z => if Z.eqb z 0 then None else Some z | None => None end.

(* ConstRatePopulationSize.next(population) ; len = len(population) *)
Definition const_rate_next (initial : Z) (rate : Q) (maxp : option Z) (len : Z) : Z :=
  let p := Z.max len initial in
  let grown := (p + Qceiling (inject_Z p * rate))%Z in
  match truthy_max maxp with
  | Some m => Z.min (if Z.ltb p m then grown else p) m
  | None => grown
  end.

(* fibonacci_sequence(n): range(n) is empty for n <= 0 *)
Fixpoint fib_iter (n : nat) (a b : Z) : Z :=
  match n with O => a | S k => fib_iter k b (a + b)%Z end.
Definition fibZ (i : Z) : Z := fib_iter (Z.to_nat i) 0 1.

(* SequenceIterator over fibonacci_sequence *)
Record seqit := { si_index : Z; si_max : option Z; si_min : option Z }.

(* get_sequence_index(value): least n >= 0 with seq(n) >= value (a while loop: fuel) *)
Fixpoint seq_index_from (fuel : nat) (n : Z) (value : Z) : Z :=
  match fuel with
  | O => n
  | S k => if Z.leb value (fibZ n) then n else seq_index_from k (n + 1)%Z value
  end.
Definition seq_index (value : Z) : Z := seq_index_from (Z.to_nat value + 2) 0 value.

Definition si_make (start : option Z) (maxv minv : option Z) : seqit :=
  {| si_index := match start with Some v => (seq_index v - 1)%Z | None => (-1)%Z end;
     si_max := maxv; si_min := minv |}.

Definition si_set (it : seqit) (i : Z) : seqit :=
  {| si_index := i; si_max := si_max it; si_min := si_min it |}.

Definition si_has_prev (it : seqit) : bool :=
  if Z.ltb 0 (si_index it)
  then match si_min it with Some m => Z.leb m (fibZ (si_index it - 1)) | None => true end
  else false.

Definition si_has_next (it : seqit) : bool :=
  match si_max it with Some m => Z.leb (fibZ (si_index it + 1)) m | None => true end.

Definition si_current (it : seqit) : Z := fibZ (si_index it).

Definition si_next (it : seqit) : seqit * Z :=
  let i := (si_index it + 1)%Z in
  let i' := match si_min it with
            | Some m => if Z.ltb (fibZ i) m then seq_index m else i
            | None => i
            end in
  (si_set it i', fibZ i').

(* prev(): the index is decremented even when StopIteration is raised *)
Definition si_prev (it : seqit) : seqit * res Z :=
  let i := (si_index it - 1)%Z in
  (si_set it i, if Z.ltb i 0 then Raise StopIteration else Ok (fibZ i)).

(* AdaptivePopulationSize.__init__: initial = next() if has_next() else prev() *)
Definition adaptive_init (it : seqit) : seqit * res Z :=
  if si_has_next it then let '(it', v) := si_next it in (it', Ok v) else si_prev it.

(* init_adaptive_pop_size, parameter_free branch *)
Definition adaptive_make (pop_size : Z) (max_pop_size : option Z) : seqit * res Z :=
  adaptive_init (si_make (Some pop_size) max_pop_size (Some 1%Z)).

(* AdaptivePopulationSize.next(population) *)
Definition adaptive_next (it : seqit) (maxp : option Z) (len : Z) (any_imp qual_imp compl_imp : bool)
  : seqit * res Z :=
  let cur := si_current it in
  if Z.eqb cur 0 then (it, Raise ZeroDivisionError)
  else
    let too_many := Z.ltb (2 * len) cur in       (* len / cur < 0.5, cur > 0 *)
    let '(it1, p1) :=
      if too_many || negb any_imp
      then (if si_has_next it then si_next it else (it, len))
      else if qual_imp && compl_imp && Z.ltb 0 len
           then (if si_has_prev it
                 then (si_set it (si_index it - 1), fibZ (si_index it - 1))
                 else (it, len))
           else (it, len) in
    let p2 := Z.max p1 MIN_POP_SIZE in
    (it1, Ok (match truthy_max maxp with Some m => Z.min p2 m | None => p2 end)).

(* AdaptiveGraphDepth.next(): (new current depth, returned value) *)
Definition depth_next (adaptive : bool) (max_depth max_stag cur stagn : Z) : Z * Z :=
  if negb adaptive then (cur, max_depth)
  else if Z.leb max_depth cur then (cur, cur)
  else if Z.leb max_stag stagn then ((cur + 1)%Z, (cur + 1)%Z)
  else (cur, cur).

(* PopulationalOptimizer.get_structure_unique_population: size of the population handed to the
   evaluator when `unique` structurally distinct individuals remain:
     min_pop_size = min(MIN_POP_SIZE, max_pop_size) if max_pop_size else MIN_POP_SIZE
     if unique and len(unique) < min_pop_size: extend to min_pop_size   (an empty population stays empty) *)
Definition diversity_target (maxp : option Z) : Z :=
  match truthy_max maxp with Some m => Z.min MIN_POP_SIZE m | None => MIN_POP_SIZE end.
Definition diversity_refill (maxp : option Z) (unique : Z) : Z :=
  if Z.ltb 0 unique && Z.ltb unique (diversity_target maxp) then diversity_target maxp else unique.
(* before the repair dbd27a2 the refill ignored max_pop_size *)
Definition diversity_refill_pinned (unique : Z) : Z :=
  if Z.ltb unique MIN_POP_SIZE then MIN_POP_SIZE else unique.

(* ------------------------------------------------------------------------------------- *)
(* GOLEM(...) facade: distribution of keyword arguments by ApiParams                      *)
(* ------------------------------------------------------------------------------------- *)
Local Open Scope string_scope.

Inductive aval := ANone | ANum (q : Q) | ADelta (minutes : Q) | AOpaque (n : nat).

Definition gp_fields : list string :=
  ["multi_objective"; "offspring_rate"; "pop_size"; "max_pop_size"; "adaptive_depth";
   "adaptive_depth_max_stagnation"; "structural_diversity_frequency_check";
   "crossover_prob"; "mutation_prob"; "variable_mutation_num"; "max_num_of_operator_attempts";
   "mutation_strength"; "min_pop_size_with_elitism"; "required_valid_ratio";
   "adaptive_mutation_type"; "context_agent_type"; "selection_types"; "crossover_types";
   "mutation_types"; "elitism_type"; "regularization_type"; "genetic_scheme_type";
   "decaying_factor"; "window_size"].

Definition gen_fields : list string :=
  ["adapter"; "rules_for_constraint"; "advisor"; "node_factory"; "random_graph_factory";
   "available_node_types"; "remote_evaluator"].

Definition common_fields : list string := ["optimizer"; "initial_graphs"; "objective"].

Definition req_fields : list string :=
  ["num_of_generations"; "timeout"; "early_stopping_iterations"; "early_stopping_timeout";
   "keep_n_best"; "max_graph_fit_time"; "n_jobs"; "show_progress"; "collect_intermediate_metric";
   "parallelization_mode"; "static_individual_metadata"; "keep_history"; "history_dir"; "agent_dir";
   "start_depth"; "max_depth"; "min_arity"; "max_arity"].

Definition mem_s (k : string) (l : list string) : bool := existsb (String.eqb k) l.

Fixpoint lookup (k : string) (d : list (string * aval)) : option aval :=
  match d with
  | [] => None
  | (k', v) :: r => if String.eqb k k' then Some v else lookup k r
  end.

(* d[k] = v on an insertion-ordered dict *)
Fixpoint dict_set (k : string) (v : aval) (d : list (string * aval)) : list (string * aval) :=
  match d with
  | [] => [(k, v)]
  | (k', v') :: r => if String.eqb k k' then (k', v) :: r else (k', v') :: dict_set k v r
  end.

(* timeout if timeout is None or isinstance(timeout, timedelta) else timedelta(minutes=timeout) *)
Definition to_timedelta (v : aval) : res aval :=
  match v with
  | ANone => Ok ANone
  | ADelta m => Ok (ADelta m)
  | ANum q => Ok (ADelta q)
  | AOpaque _ => Raise TypeError
  end.

(* golem.utilities.utilities.determine_n_jobs with cpu = cpu_count() *)
Definition determine_n_jobs (cpu n : Z) : res Z :=
  if Z.ltb cpu n then Ok cpu
  else if Z.leb n 0
       then (if Z.leb n (- cpu - 1) || Z.eqb n 0 then Raise ValueError else Ok (cpu + 1 + n)%Z)
       else Ok n.

Inductive dest := DGp | DGen | DReq | DCommon.

Definition dest_eqb (a b : dest) : bool :=
  match a, b with DGp, DGp | DGen, DGen | DReq, DReq | DCommon, DCommon => true | _, _ => false end.

(* where a key of the input dictionary ends up: GPAlgorithmParameters takes (and pops) its
   fields first, then GraphGenerationParams, the rest except the common keys goes to
   (Dynamic)GraphRequirements *)
Definition dest_of (k : string) : dest :=
  if mem_s k gp_fields then DGp
  else if mem_s k gen_fields then DGen
  else if mem_s k common_fields then DCommon
  else DReq.

Record api_out := {
  to_gp : list (string * aval);
  to_gen : list (string * aval);
  to_req : list (string * aval);
  to_common : list (string * aval);
  dynamic_req : bool;             (* DynamicGraphRequirements instead of GraphRequirements *)
  attr_n_jobs : aval }.           (* ApiParams.n_jobs *)

Definition select (d : dest) (input : list (string * aval)) : list (string * aval) :=
  filter (fun kv => dest_eqb (dest_of (fst kv)) d) input.

(* GOLEM(timeout=..., n_jobs=..., **kwargs): `timeout` and `n_jobs` are named parameters of the
   facade, everything else is the dictionary handed to ApiParams, which adds
   input['timeout'] = (timedelta or None) and input['n_jobs'] = determine_n_jobs(n_jobs) *)
Definition facade (cpu : Z) (timeout : aval) (n_jobs : Z) (kwargs : list (string * aval)) : res api_out :=
  match determine_n_jobs cpu n_jobs with
  | Raise e => Raise e
  | Ok nj =>
  match to_timedelta timeout with
  | Raise e => Raise e
  | Ok td =>
      let input := dict_set "n_jobs" (ANum (inject_Z nj)) (dict_set "timeout" td kwargs) in
      let after_gp_gen := filter (fun kv => negb (dest_eqb (dest_of (fst kv)) DGp)
                                         && negb (dest_eqb (dest_of (fst kv)) DGen)) input in
      Ok {| to_gp := select DGp input;
            to_gen := select DGen input;
            to_req := select DReq input;
            to_common := select DCommon input;
            dynamic_req := existsb (fun kv => negb (mem_s (fst kv) req_fields)) after_gp_gen;
            attr_n_jobs := ANum (inject_Z nj) |}
  end
  end.

(* the limits and resources the property speaks about, with the object they are documented for *)
Definition limit_keys : list (string * dest) :=
  [("num_of_generations", DReq); ("early_stopping_iterations", DReq); ("early_stopping_timeout", DReq);
   ("pop_size", DGp); ("max_pop_size", DGp); ("max_depth", DReq); ("start_depth", DReq);
   ("keep_n_best", DReq); ("offspring_rate", DGp)].

Definition lookup_in (d : dest) (o : api_out) (k : string) : option aval :=
  match d with
  | DGp => lookup k (to_gp o) | DGen => lookup k (to_gen o)
  | DReq => lookup k (to_req o) | DCommon => lookup k (to_common o)
  end.

Definition aval_eqb (a b : aval) : bool :=
  match a, b with
  | ANone, ANone => true
  | ANum x, ANum y => Qeq_bool x y
  | ADelta x, ADelta y => Qeq_bool x y
  | AOpaque x, AOpaque y => Nat.eqb x y
  | _, _ => false
  end.

Definition opt_aval_eqb (a b : option aval) : bool :=
  match a, b with
  | None, None => true
  | Some x, Some y => aval_eqb x y
  | _, _ => false
  end.

(* value v given under key k is found in object d and in neither of the other two parameter objects *)
Definition only_in (d : dest) (o : api_out) (k : string) (v : aval) : bool :=
  opt_aval_eqb (lookup_in d o k) (Some v)
  && forallb (fun d' => dest_eqb d' d || opt_aval_eqb (lookup_in d' o k) None) [DGp; DGen; DReq].

(* ===================================================================================== *)
(* Correspondence: observations of the REAL code, `agree` (model = implementation) and    *)
(* `holds` (the property's clauses evaluated on the observed behaviour)                   *)
(* ===================================================================================== *)
Local Open Scope Z_scope.

Definition bool_eqb := Bool.eqb.

Definition res_bool_eqb (a b : res bool) : bool :=
  match a, b with
  | Ok x, Ok y => Bool.eqb x y
  | Raise x, Raise y => exn_eqb x y
  | _, _ => false
  end.

Definition res_Z_eqb (a b : res Z) : bool :=
  match a, b with
  | Ok x, Ok y => Z.eqb x y
  | Raise x, Raise y => exn_eqb x y
  | _, _ => false
  end.

Fixpoint list_eqb {A : Type} (eqb : A -> A -> bool) (a b : list A) : bool :=
  match a, b with
  | [], [] => true
  | x :: a', y :: b' => eqb x y && list_eqb eqb a' b'
  | _, _ => false
  end.

Fixpoint list_eqb2 {A B : Type} (eqb : A -> B -> bool) (a : list A) (b : list B) : bool :=
  match a, b with
  | [], [] => true
  | x :: a', y :: b' => eqb x y && list_eqb2 eqb a' b'
  | _, _ => false
  end.

Definition opt_bool_eqb (a b : option bool) : bool :=
  match a, b with
  | None, None => true
  | Some x, Some y => Bool.eqb x y
  | _, _ => false
  end.

(* ---- SequenceIterator operation sequences ---- *)
Inductive sop := SNext | SPrev | SHasNext | SHasPrev | SCurrent.
Inductive sobs := OZ (z : Z) | OB (b : bool) | OStop.

Definition sobs_eqb (a b : sobs) : bool :=
  match a, b with
  | OZ x, OZ y => Z.eqb x y
  | OB x, OB y => Bool.eqb x y
  | OStop, OStop => true
  | _, _ => false
  end.

Definition si_step (it : seqit) (o : sop) : seqit * sobs :=
  match o with
  | SNext => let '(it', v) := si_next it in (it', OZ v)
  | SPrev => let '(it', r) := si_prev it in (it', match r with Ok v => OZ v | Raise _ => OStop end)
  | SHasNext => (it, OB (si_has_next it))
  | SHasPrev => (it, OB (si_has_prev it))
  | SCurrent => (it, OZ (si_current it))
  end.

Fixpoint si_run (it : seqit) (ops : list sop) : list sobs :=
  match ops with
  | [] => []
  | o :: r => let '(it', x) := si_step it o in x :: si_run it' r
  end.

(* ---- AdaptivePopulationSize call sequences: (len, any, quality, complexity improved) ---- *)
Fixpoint adaptive_run (it : seqit) (maxp : option Z) (calls : list (Z * bool * bool * bool)) : list (res Z) :=
  match calls with
  | [] => []
  | (len, a, q, c) :: r =>
      let '(it', x) := adaptive_next it maxp len a q c in x :: adaptive_run it' maxp r
  end.

Fixpoint depth_run (adaptive : bool) (max_depth max_stag cur : Z) (stags : list Z) : list Z :=
  match stags with
  | [] => []
  | s :: r => let '(cur', x) := depth_next adaptive max_depth max_stag cur s in
              x :: depth_run adaptive max_depth max_stag cur' r
  end.

(* GenerationKeeper under a controlled clock: state after each append and the duration read at a later instant *)
Fixpoint keeper_run (s : kstate) (apps : list (bool * Q * Q)) : list (nat * nat * Q * Q) :=
  match apps with
  | [] => []
  | (imp, t, qt) :: r =>
      let s' := keeper_append imp t s in
      (gen_num s', stag s', stag_start s', stag_duration qt (stag_start s')) :: keeper_run s' r
  end.

Definition kobs_eqb (a b : nat * nat * Q * Q) : bool :=
  match a, b with
  | (g1, s1, t1, d1), (g2, s2, t2, d2) => Nat.eqb g1 g2 && Nat.eqb s1 s2 && Qeq_bool t1 t2 && Qeq_bool d1 d2
  end.

(* the property's reading of the stagnation clock: it restarts on the first recorded population and on
   improving ones, never otherwise; the reported duration is the elapsed time since then, cut to whole seconds *)
Fixpoint keeper_clock_ok (first : bool) (restart : Q) (apps : list (bool * Q * Q)) (obs : list (nat * nat * Q * Q)) : bool :=
  match apps, obs with
  | [], [] => true
  | (imp, t, qt) :: r, (_, _, start, dur) :: o =>
      let restart' := if first || imp then t else restart in
      Qeq_bool start restart'
      && implb (Qle_bool restart' qt && Qltb (qt - restart') 1440)
               (Qle_bool dur (qt - restart') && Qltb (qt - restart' - (1 # 60)) dur)
      && keeper_clock_ok false restart' r o
  | _, _ => false
  end.

Inductive ucase :=
| UTimer (timeout : option Q) (init minutes : Q) (iter : option Z) (old : bool) (obs_reached obs_flag : bool)
| UBaseTimer (timeout : option Q) (elapsed : Q) (obs : bool)
| UStop (l : limits) (s : kstate) (t : Q) (obs : option bool)       (* None: the real stop test raised *)
| URsStop (l : limits) (t : Q) (iter : nat) (obs : option bool)
| UGrouped (any_mode : bool) (cs : list (res bool)) (obs : res bool) (calls : nat)
| UConst (initial : Z) (rate : Q) (maxp : option Z) (len : Z) (obs : Z)
| UFib (n : Z) (obs : Z)
| USeq (start maxv minv : option Z) (ops : list sop) (obs : list sobs)
| UAdaptive (pop_size : Z) (maxp : option Z) (calls : list (Z * bool * bool * bool))
            (obs_init : res Z) (obs : list (res Z))
| UDepth (adaptive : bool) (start max_depth max_stag : Z) (stags : list Z) (obs : list Z)
| UKeeper (t_create : Q) (appends : list (bool * Q * Q))     (* is_any_improved observed, time of the append, time of the query *)
          (obs : list (nat * nat * Q * Q))                   (* generation_num, stagnation count, stagnation start, duration *)
| UDiversity (maxp : option Z) (unique : Z) (obs : Z)    (* size handed to the evaluator by the diversity check *)
| UTables (gp gen common req : list string).

Definition subset_s (a b : list string) : bool := forallb (fun k => mem_s k b) a.
Definition same_set_s (a b : list string) : bool := subset_s a b && subset_s b a.

Definition uagree (c : ucase) : bool :=
  match c with
  | UTimer timeout init minutes iter old r f =>
      let m := opt_timer_reached timeout init minutes iter in
      Bool.eqb m r && Bool.eqb (opt_timer_flag old m) f
  | UBaseTimer timeout elapsed r => Bool.eqb (timer_reached timeout elapsed) r
  | UStop l s t obs => opt_bool_eqb obs (Some (stop_test l 0 t t s))
  | URsStop l t iter obs => opt_bool_eqb obs (Some (rs_stop_test l 0 t iter))
  | UGrouped any_mode cs obs calls =>
      let '(x, n) := if any_mode then grouped_any cs else grouped_all cs in
      res_bool_eqb x obs && Nat.eqb n calls
  | UConst initial rate maxp len obs => Z.eqb (const_rate_next initial rate maxp len) obs
  | UFib n obs => Z.eqb (fibZ n) obs
  | USeq start maxv minv ops obs => list_eqb sobs_eqb (si_run (si_make start maxv minv) ops) obs
  | UAdaptive pop_size maxp calls obs_init obs =>
      let '(it, i) := adaptive_make pop_size maxp in
      res_Z_eqb i obs_init
      && match i with
         | Ok _ => list_eqb res_Z_eqb (adaptive_run it maxp calls) obs
         | Raise _ => true
         end
  | UDepth adaptive start max_depth max_stag stags obs =>
      list_eqb Z.eqb (depth_run adaptive max_depth max_stag start stags) obs
  | UKeeper t_create apps obs => list_eqb kobs_eqb (keeper_run (keeper_init t_create) apps) obs
  | UDiversity maxp unique obs => Z.eqb (diversity_refill maxp unique) obs
  | UTables gp gen common req =>
      same_set_s gp gp_fields && same_set_s gen gen_fields
      && same_set_s common common_fields && same_set_s req req_fields
  end.

(* the time budget is zero / negative, or used up at `minutes` *)
Definition budget_used (timeout : option Q) (minutes : Q) : bool :=
  match timeout with Some t => Qle_bool t 0 || Qle_bool t minutes | None => false end.

(* the property's clauses on one observed unit-level answer *)
Definition uholds (c : ucase) : bool :=
  match c with
  | UTimer timeout init minutes iter old r f =>
      (* a used-up budget is reported as reached (for clocks not before init_time) *)
      implb (budget_used timeout minutes && Qle_bool init minutes
             && match iter with Some i => Z.leb 0 i | None => true end) r
  | UStop l s t obs =>
      match obs with
      | None => false                        (* a documented combination must not raise *)
      | Some b =>
          (* a reached limit stops the loop *)
          implb (budget_used (tmo l) t && Qle_bool 0 t && Nat.leb 1 (gen_num s)) b
          && implb (match nog l with Some n => Nat.ltb n (gen_num s) | None => false end) b
          && implb (match esi l with Some (S m) => Nat.leb (S m) (stag s) | _ => false end) b
          && implb (match est l with Some e => Qle_bool e (stag_duration t (stag_start s)) | None => false end) b
      end
  | URsStop l t iter obs =>
      match obs with
      | None => false
      | Some b =>
          implb (budget_used (tmo l) t && Qle_bool 0 t) b
          && implb (match nog l with Some n => Nat.leb n iter | None => false end) b
      end
  | UConst initial rate maxp len obs =>
      match truthy_max maxp with
      | Some m => Z.leb obs m && implb (Qle_bool 0 rate) (Z.leb (Z.min (Z.max len initial) m) obs)
      | None => implb (Qle_bool 0 rate) (Z.leb (Z.max len initial) obs)
      end
  | UAdaptive pop_size maxp calls obs_init obs =>
      forallb (fun r => match r with
                        | Ok v => match truthy_max maxp with
                                  | Some m => implb (Z.leb MIN_POP_SIZE m) (Z.leb MIN_POP_SIZE v && Z.leb v m)
                                              && implb (Z.ltb m MIN_POP_SIZE) (Z.leb v m)
                                  | None => Z.leb MIN_POP_SIZE v
                                  end
                        | Raise _ => true
                        end) obs
      && match obs_init, truthy_max maxp with
         | Ok v, Some m => implb (Z.leb pop_size m) (Z.leb v m)
         | _, _ => true
         end
  | UDepth adaptive start max_depth max_stag stags obs =>
      forallb (fun d => Z.leb d (Z.max start max_depth)) obs
  | UKeeper t_create apps obs => keeper_clock_ok true t_create apps obs
  | UDiversity maxp unique obs =>
      match truthy_max maxp with Some m => implb (Z.leb unique m) (Z.leb obs m) | None => true end
  | _ => true
  end.

Definition ucheck (c : ucase) : list bool := [uagree c; uholds c].

(* ---- observed runs of the real optimisers ---- *)
Inductive plabel := PInitial | PExtended | PEvolved | PFinal | POtherLabel.
Definition plabel_eqb (a b : plabel) : bool :=
  match a, b with
  | PInitial, PInitial | PExtended, PExtended | PEvolved, PEvolved | PFinal, PFinal
  | POtherLabel, POtherLabel => true
  | _, _ => false
  end.

Record opop := {
  p_label : plabel;
  p_size : nat;          (* individuals in the recorded population *)
  p_gen : nat;           (* keeper.generation_num at the iteration callback *)
  p_stag : nat;          (* keeper.stagnation_iter_count *)
  p_minutes : Q;         (* timer.spent_time at the callback, minutes *)
  p_stagdur : Q;         (* keeper.stagnation_time_duration, minutes *)
  p_popsize : Z }.       (* graph_optimizer_params.pop_size *)

Record orun := {
  r_populational : bool;
  r_lim : limits;
  r_maxpop : option Z;
  r_adaptive : bool;               (* parameter_free scheme of the genetic optimisers *)
  r_ok : bool;                     (* optimise() returned *)
  r_timed_out : bool;              (* the watchdog of the harness had to stop optimise() *)
  r_limit_raise : bool;            (* optimise() raised from inside the limit machinery: stop condition,
                                      timer, size / depth schedules, iterator *)
  r_pops : list opop;              (* populational: one entry per recorded population (of a very long run: the last ones) *)
  r_skip_gen : nat;                (* keeper counters of the recorded population before the first listed one (0, 0 if none) *)
  r_skip_stag : nat;
  r_restart0 : Q;                  (* callback time of the last stagnation-clock restart before the first listed one *)
  r_started : nat;                 (* evolve steps started (random search: new individuals requested in the loop) *)
  r_broke : bool;                  (* a started step ended with EvaluationAttemptsError *)
  r_evolved_sizes : list nat;      (* sizes of the unlabelled generations of the history *)
  r_iters : nat;                   (* random search: current_iteration_num at the end *)
  r_call_minutes : list Q;         (* random search: timer minutes at each objective call *)
  r_end_minutes : Q;               (* timer minutes right after optimise() returned *)
  r_wall_ms : Z }.

Definition PROMPT_MS : Z := 20000.

Definition is_evolved (p : opop) : bool := plabel_eqb (p_label p) PEvolved.

(* pairs (previous recorded population, evolved population) *)
Fixpoint step_pairs (ps : list opop) : list (opop * opop) :=
  match ps with
  | a :: ((b :: _) as r) => if is_evolved b then (a, b) :: step_pairs r else step_pairs r
  | _ => []
  end.

Definition kstate_of (p : opop) : kstate := {| gen_num := p_gen p; stag := p_stag p; stag_start := 0 |}.

(* the stop test on an observed population, with the observed stagnation duration *)
Definition stop_obs (l : limits) (minutes dur : Q) (p : opop) : bool :=
  c_time l 0 minutes (kstate_of p) || c_gen l (kstate_of p) || c_stag l (kstate_of p) || c_stagtime_d l dur.

Fixpoint counters_ok (prev_gen prev_stag : nat) (ps : list opop) : bool :=
  match ps with
  | [] => true
  | p :: r => Nat.eqb (p_gen p) (S prev_gen)
              && (Nat.eqb (p_stag p) 0 || Nat.eqb (p_stag p) (S prev_stag))
              && counters_ok (p_gen p) (p_stag p) r
  end.

Fixpoint last_two (ps : list opop) : option (opop * opop) :=
  match ps with
  | [a; b] => Some (a, b)
  | _ :: r => last_two r
  | [] => None
  end.

Definition count_evolved (ps : list opop) : nat := List.length (filter is_evolved ps).

Definition ragree (r : orun) : bool :=
  let l := r_lim r in
  if negb (r_ok r) || r_timed_out r then true else
  if r_populational r then
    counters_ok (r_skip_gen r) (r_skip_stag r) (r_pops r)
    (* every evolve step was started after a stop test that answered False *)
    && forallb (fun ab => negb (stop_obs l (p_minutes (fst ab)) (p_stagdur (fst ab)) (fst ab))) (step_pairs (r_pops r))
    (* the loop was left because the stop test answered True (or a step gave up) *)
    && match last_two (r_pops r) with
       | Some (a, fin) => plabel_eqb (p_label fin) PFinal
                          && (r_broke r || stop_obs l (p_minutes fin) (p_stagdur fin) a)
       | None => false
       end
    && Nat.eqb (r_started r) (count_evolved (r_pops r) + (if r_broke r then 1 else 0))
    && list_eqb Nat.eqb (map p_size (filter is_evolved (r_pops r))) (r_evolved_sizes r)
  else
    (* random search: all intermediate tests of the generation bound were False, the last stop test True *)
    match nog l with Some n => Nat.leb (r_iters r) n | None => true end
    (* every loop iteration (generation of a new individual) is counted, evaluated or not *)
    && Nat.eqb (r_started r) (r_iters r)
    && rs_stop_test l 0 (r_end_minutes r) (r_iters r)
    && Nat.leb (List.length (r_evolved_sizes r)) (r_iters r).

Fixpoint all_but_last {A : Type} (l : list A) : list A :=
  match l with
  | [] => []
  | [_] => []
  | x :: r => x :: all_but_last r
  end.

(* --- the property's clauses on an observed run; each clause separately --- *)
Definition h_accepts (r : orun) : bool := negb (r_limit_raise r).

Definition h_generations (r : orun) : bool :=
  match nog (r_lim r) with
  | Some n => Nat.leb (List.length (r_evolved_sizes r)) n && Nat.leb (r_started r) n && Nat.leb (r_iters r) n
  | None => true
  end.

Definition h_stagnation (r : orun) : bool :=
  forallb (fun ab =>
     match esi (r_lim r) with Some (S m) => Nat.ltb (p_stag (fst ab)) (S m) | _ => true end
     && match est (r_lim r) with Some e => Qltb (p_stagdur (fst ab)) e | None => true end)
    (step_pairs (r_pops r)).

(* the stagnation TIME limit, measured independently of the keeper's own clock: the clock restarts at the
   first recorded population and at populations that reset the stagnation counter; the time between the callback
   of that population and the callback before a step is a lower bound of the stagnation time at the stop test *)
Fixpoint stagtime_ok (e : Q) (restart : Q) (prev : option opop) (ps : list opop) : bool :=
  match ps with
  | [] => true
  | p :: r =>
      match prev with
      | Some a => implb (is_evolved p) (Qltb ((Qfloor ((p_minutes a - restart) * 60)) # 60) e)
      | None => true
      end
      && stagtime_ok e (if Nat.eqb (p_gen p) 1 || Nat.eqb (p_stag p) 0 then p_minutes p else restart) (Some p) r
  end.

Definition h_stagnation_time (r : orun) : bool :=
  match est (r_lim r) with Some e => stagtime_ok e (r_restart0 r) None (r_pops r) | None => true end.

Definition h_time (r : orun) : bool :=
  match tmo (r_lim r) with
  | Some t =>
      forallb (fun ab => Qltb 0 t && Qltb (p_minutes (fst ab)) t) (step_pairs (r_pops r))
      && forallb (fun m => Qltb 0 t && Qltb m t) (all_but_last (r_call_minutes r))
  | None => true
  end.

Definition h_zero_budget (r : orun) : bool :=
  match tmo (r_lim r) with
  | Some t => implb (Qle_bool t 0)
                (Nat.eqb (List.length (r_evolved_sizes r)) 0 && Nat.eqb (r_started r) 0 && Nat.eqb (r_iters r) 0
                 && Z.leb (r_wall_ms r) PROMPT_MS)
  | None => true
  end.

Definition h_max_pop (r : orun) : bool :=
  match truthy_max (r_maxpop r) with
  | Some m => forallb (fun n => Z.leb (Z.of_nat n) m) (r_evolved_sizes r)
  | None => true
  end.

Definition h_adaptive (r : orun) : bool :=
  if r_adaptive r then
    forallb (fun p => implb (is_evolved p)
       match truthy_max (r_maxpop r) with
       | Some m => implb (Z.leb MIN_POP_SIZE m) (Z.leb MIN_POP_SIZE (p_popsize p) && Z.leb (p_popsize p) m)
       | None => Z.leb MIN_POP_SIZE (p_popsize p)
       end) (r_pops r)
  else true.

(* the run ended within the (generous) wall-time bound of the harness watchdog *)
Definition h_terminates (r : orun) : bool := negb (r_timed_out r).

Definition rholds (r : orun) : bool :=
  h_terminates r && h_accepts r && h_generations r && h_stagnation r && h_stagnation_time r && h_time r && h_zero_budget r && h_max_pop r && h_adaptive r.

Definition rcheck (r : orun) : list bool :=
  [ragree r; h_accepts r; h_generations r; h_stagnation r; h_time r; h_zero_budget r; h_max_pop r; h_adaptive r;
   h_terminates r; h_stagnation_time r].

(* ---- observed GOLEM(...) facade ---- *)
(* what a field of a parameter object holds: the value this facade was given for it, the documented default
   of the class (taken from a fresh interpreter), or something else (e.g. a value given to an earlier facade) *)
Inductive fobs := FGiven | FDefault | FOther.
Definition fobs_eqb (a b : fobs) : bool :=
  match a, b with FGiven, FGiven | FDefault, FDefault | FOther, FOther => true | _, _ => false end.

Record oapi := {
  a_cpu : Z;                                         (* joblib.cpu_count() on the machine of the run *)
  a_timeout : aval;
  a_njobs : Z;
  a_kwargs : list (string * aval);
  a_raised : option exn;                             (* constructing GOLEM raised *)
  a_where : list (string * (bool * bool * bool));    (* per given key: value found in gp / gen / requirements *)
  a_req_timeout : option aval;                       (* requirements.timeout *)
  a_req_njobs : option aval;                         (* requirements.n_jobs *)
  a_njobs_elsewhere : bool;                          (* an n_jobs attribute on the gp / generation parameter objects *)
  a_fields : list (string * dest * bool * fobs);     (* every field of the gp / requirements objects (but timeout, n_jobs):
                                                        owner, given by THIS facade?, what the field holds *)
  a_dynamic : bool }.

Definition tri_eqb (a b : bool * bool * bool) : bool :=
  match a, b with (a1, a2, a3), (b1, b2, b3) => Bool.eqb a1 b1 && Bool.eqb a2 b2 && Bool.eqb a3 b3 end.

Definition found (o : api_out) (d : dest) (k : string) (v : aval) : bool :=
  opt_aval_eqb (lookup_in d o k) (Some v).

Definition is_some {A : Type} (o : option A) : bool := match o with Some _ => true | None => false end.

Definition aagree (a : oapi) : bool :=
  match facade (a_cpu a) (a_timeout a) (a_njobs a) (a_kwargs a), a_raised a with
  | Raise e, Some e' => exn_eqb e e'
  | Ok o, None =>
      list_eqb2 (fun kv w => String.eqb (fst kv) (fst w)
                               && tri_eqb (found o DGp (fst kv) (snd kv), found o DGen (fst kv) (snd kv),
                                           found o DReq (fst kv) (snd kv)) (snd w))
                  (a_kwargs a) (a_where a)
      && opt_aval_eqb (lookup "timeout" (to_req o)) (a_req_timeout a)
      && opt_aval_eqb (lookup "n_jobs" (to_req o)) (a_req_njobs a)
      && Bool.eqb (is_some (lookup "n_jobs" (to_gp o)) || is_some (lookup "n_jobs" (to_gen o))) (a_njobs_elsewhere a)
      && Bool.eqb (dynamic_req o) (a_dynamic a)
      (* a field holds the given value when the facade hands one to that object, else the class default *)
      && forallb (fun f : string * dest * bool * fobs =>
                           match f with
                           | (k, d, _, ob) => fobs_eqb ob (if is_some (lookup_in d o k) then FGiven else FDefault)
                           end) (a_fields a)
  | _, _ => false
  end.

Definition exactly_one (w : bool * bool * bool) : bool :=
  match w with
  | (true, false, false) | (false, true, false) | (false, false, true) => true
  | _ => false
  end.

(* a documented worker count: 1 .. cpu, or -1 .. -cpu counted from the top *)
Definition njobs_documented (cpu n : Z) : bool := (Z.leb 1 n && Z.leb n cpu) || (Z.leb (- cpu) n && Z.leb n (-1)).

(* clauses on the observed facade: accepted; every given limit key sits unchanged in exactly one
   parameter object; the timeout arrives as the same duration (None stays None); the worker count
   arrives in the requirements (k unchanged for 1 <= k <= cpu, -1 = all cpus, -2 = all but one ...) *)
Definition a_accepts (a : oapi) : bool :=
  match a_raised a, a_timeout a with
  | None, _ => true
  | Some _, AOpaque _ => true
  | Some _, _ => negb (njobs_documented (a_cpu a) (a_njobs a))
  end.
Definition a_keys (a : oapi) : bool :=
  forallb (fun w => implb (mem_s (fst w) (map fst limit_keys)) (exactly_one (snd w))) (a_where a).
Definition a_timeout_ok (a : oapi) : bool :=
  match a_raised a, a_timeout a with
  | Some _, _ => true
  | None, ANum q => opt_aval_eqb (a_req_timeout a) (Some (ADelta q))
  | None, ADelta q => opt_aval_eqb (a_req_timeout a) (Some (ADelta q))
  | None, ANone => opt_aval_eqb (a_req_timeout a) (Some ANone)
  | None, AOpaque _ => true
  end.
Definition a_njobs_ok (a : oapi) : bool :=
  match a_raised a with
  | Some _ => true
  | None =>
      negb (a_njobs_elsewhere a)
      && implb (Z.leb 1 (a_njobs a) && Z.leb (a_njobs a) (a_cpu a))
               (opt_aval_eqb (a_req_njobs a) (Some (ANum (inject_Z (a_njobs a)))))
      && implb (Z.leb (- a_cpu a) (a_njobs a) && Z.leb (a_njobs a) (-1))
               (opt_aval_eqb (a_req_njobs a) (Some (ANum (inject_Z (a_cpu a + 1 + a_njobs a)))))
  end.

(* a limit this facade was not given stays at its documented default, a given one holds the given value -
   whatever earlier facades of the same process were told *)
Definition a_unset_ok (a : oapi) : bool :=
  forallb (fun f : string * dest * bool * fobs =>
             match f with
             | (_, _, given, ob) => fobs_eqb ob (if given : bool then FGiven else FDefault)
             end) (a_fields a).

Definition aholds (a : oapi) : bool := a_accepts a && a_keys a && a_timeout_ok a && a_njobs_ok a && a_unset_ok a.
Definition acheck (a : oapi) : list bool :=
  [aagree a; a_accepts a; a_keys a; a_timeout_ok a; a_njobs_ok a; a_unset_ok a].

(* ---- one optimise() call of a facade object that runs a real genetic optimiser (repeated calls) ---- *)
Record ocall := {
  c_maxpop : option Z;        (* max_pop_size GIVEN to the facade *)
  c_nog : option nat;         (* num_of_generations GIVEN to the facade *)
  c_popsize_given : Z;        (* pop_size GIVEN to the facade *)
  c_popsize_entry : Z;        (* pop_size of the parameter object handed to the optimiser of this call *)
  c_maxpop_entry : option Z;  (* max_pop_size of that object *)
  c_sizes : list nat }.       (* sizes of the evolved (unlabelled) generations of this call *)

(* every step of every call stays within the facade's max_pop_size and generation limit; the population size the
   call starts from lies between the given one and the maximum (earlier calls adapt it in place) *)
Definition ccheck (c : ocall) : list bool :=
  [ match truthy_max (c_maxpop c) with
    | Some m => forallb (fun n => Z.leb (Z.of_nat n) m) (c_sizes c)
    | None => true
    end;
    match c_nog c with Some n => Nat.leb (List.length (c_sizes c)) n | None => true end;
    match c_maxpop c, c_maxpop_entry c with
    | Some m, Some m' => Z.eqb m m'
    | None, None => true
    | _, _ => false
    end
    && Z.leb (c_popsize_given c) (c_popsize_entry c)
    && match truthy_max (c_maxpop c) with Some m => Z.leb (c_popsize_entry c) m | None => true end ].

(* the executable form of the whole property on any observation *)
Inductive observation := ObsUnit (c : ucase) | ObsRun (r : orun) | ObsApi (a : oapi).
Definition agree (o : observation) : bool :=
  match o with ObsUnit c => uagree c | ObsRun r => ragree r | ObsApi a => aagree a end.
Definition holds_b (o : observation) : bool :=
  match o with ObsUnit c => uholds c | ObsRun r => rholds r | ObsApi a => aholds a end.
